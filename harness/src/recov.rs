//! Recovery.tla binding (C11): persisted layouts built with the real writers, recovered with
//! the real RecoveryManager (+ WAL), folded with the real merge and applied to a real node.
//!   vh recov replay <layouts.ndjson> --out cases      layouts from TLC (ids refer to table())
//!   vh recov record --seed S --n N --out cases        random updates and layouts
use crate::stream::{fold_state, mk_delta, PREFIX};
use crate::util::*;
use rand::Rng;
use redis_sim::production::ReplicatedShardedState;
use redis_sim::replication::state::{ReplicatedValue, ReplicationDelta};
use redis_sim::replication::ReplicationConfig;
use redis_sim::streaming::wal_store::InMemoryWalStore;
use redis_sim::streaming::{
    CheckpointInfo, CheckpointWriter, Compression, InMemoryObjectStore, Manifest, ManifestManager, ObjectStore,
    RecoveryManager, SegmentInfo, SegmentWriter, WalEntry, WalRotator,
};
use serde_json::{json, Value};
use std::collections::{BTreeMap, HashMap};

/// Mirrors Recovery.tla's UAll.
fn table() -> Vec<Value> {
    vec![
        json!({"id": 1, "k": "h", "t": "hset", "f": "f1", "v": "a", "ts": 1, "r": 1}),
        json!({"id": 2, "k": "h", "t": "hset", "f": "f2", "v": "b", "ts": 1000, "r": 2}),
        json!({"id": 3, "k": "s", "t": "set", "v": "x", "ts": 5, "r": 1}),
        json!({"id": 4, "k": "s", "t": "del", "ts": 5, "r": 3}),
        json!({"id": 5, "k": "h", "t": "hset", "f": "f1", "v": "c", "ts": 2, "r": 3}),
    ]
}

fn ids(v: &Value) -> Vec<u64> {
    v.as_array().map(|a| a.iter().map(|x| x.as_u64().unwrap()).collect()).unwrap_or_default()
}

async fn node_state(ckpt: Option<HashMap<String, ReplicatedValue>>, deltas: Vec<ReplicationDelta>, times: usize) -> Value {
    let node = ReplicatedShardedState::new(ReplicationConfig { replica_id: 9, ..Default::default() });
    for _ in 0..times {
        node.apply_recovered_state(ckpt.clone(), deltas.clone());
    }
    let snap = node.snapshot_state().await;
    let m: BTreeMap<String, ReplicatedValue> = snap.into_iter().collect();
    json!(m.iter().map(|(k, v)| json!([k, crate::crdt::obs(v)])).collect::<Vec<_>>())
}

async fn run_layout(run: usize, ups: &[Value], lay: &Value, ckpt_l: u64, wal_file_size: usize) -> Value {
    let by_id: HashMap<u64, ReplicationDelta> = ups.iter().map(|d| (d["id"].as_u64().unwrap(), mk_delta(d))).collect();
    let store = InMemoryObjectStore::new();
    let mm = ManifestManager::new(store.clone(), PREFIX);
    let mut manifest = Manifest::new(1);
    for (sid, name) in [(1u64, "seg1"), (2u64, "seg2")] {
        let ds = ids(&lay[name]);
        if ds.is_empty() {
            continue;
        }
        let mut w = SegmentWriter::new(Compression::None);
        for i in &ds {
            w.write_delta(&by_id[i]).unwrap();
        }
        let data = w.finish().unwrap();
        let key = format!("{}/segments/segment-{:08}.seg", PREFIX, sid);
        store.put(&key, &data).await.unwrap();
        let ts: Vec<u64> = ds.iter().map(|i| by_id[i].value.timestamp.time).collect();
        manifest.add_segment(SegmentInfo {
            id: sid,
            key,
            record_count: ds.len() as u32,
            size_bytes: data.len() as u64,
            min_timestamp: *ts.iter().min().unwrap(),
            max_timestamp: *ts.iter().max().unwrap(),
        });
    }
    let cs = ids(&lay["ckpt"]);
    if !cs.is_empty() {
        let mut state: HashMap<String, ReplicatedValue> = HashMap::new();
        for i in &cs {
            let d = &by_id[i];
            let v = match state.get(&d.key) {
                Some(c) => c.merge(&d.value),
                None => d.value.clone(),
            };
            state.insert(d.key.clone(), v);
        }
        let n = state.len() as u64;
        let data = CheckpointWriter::new(Compression::None).write(state, 12345, ckpt_l).unwrap();
        let key = format!("{}/checkpoints/chk-{:016}.chk", PREFIX, 12345);
        store.put(&key, &data).await.unwrap();
        manifest.checkpoint = Some(CheckpointInfo { key, timestamp_ms: 12345, key_count: n, last_segment_id: ckpt_l });
    }
    mm.save(&manifest).await.unwrap();
    let wstore = InMemoryWalStore::new();
    let mut rot = WalRotator::new(wstore, wal_file_size).unwrap();
    for i in ids(&lay["wal"]) {
        let d = &by_id[&i];
        rot.append(&WalEntry::from_delta(d, d.value.timestamp.time).unwrap()).unwrap();
    }
    rot.sync().unwrap();

    let rm = RecoveryManager::new(store.clone(), PREFIX, 1);
    let mut rec = json!({"t": "layout", "run": run, "ups": ups.iter().map(|d| json!([d["id"], d["k"], crate::crdt::obs(&by_id[&d["id"].as_u64().unwrap()].value)])).collect::<Vec<_>>(),
                         "ckpt": lay["ckpt"], "seg1": lay["seg1"], "seg2": lay["seg2"], "wal": lay["wal"], "L": ckpt_l,
                         "fold": [], "fold_wal": [], "node": [], "node2": [], "err": ""});
    match rm.recover().await {
        Ok(rs) => rec["fold"] = fold_state(rs.checkpoint_state, &rs.deltas),
        Err(e) => {
            rec["err"] = json!(format!("recover: {e}"));
            return rec;
        }
    }
    // the same image read through a store that hands out ONE segment download with a flipped bit (transient:
    // the stored object is intact): recovery must fail, or return the whole state - never a part of it
    {
        let sc = crate::stream::ScriptedObjectStore::new(false);
        {
            let mut g = sc.inner.lock().unwrap();
            if let Ok(lst) = store.list(PREFIX, None).await {
                for o in lst.objects {
                    if let Ok(d) = store.get(&o.key).await {
                        g.objs.insert(o.key.clone(), d);
                    }
                }
            }
            g.faults.push((0, "get_seg".into(), "corrupt".into()));
        }
        let rm2 = RecoveryManager::new(sc.clone(), PREFIX, 1);
        rec["corrupt_read"] = match rm2.recover().await {
            Ok(rs) => json!({"ok": true, "fold": fold_state(rs.checkpoint_state, &rs.deltas)}),
            Err(e) => json!({"ok": false, "fold": [], "err": e.to_string()}),
        };
    }
    // every entry point of recovery must agree, on the intact image ...
    match rm.recover_with_progress(|_| {}).await {
        Ok(rs) => rec["fold_progress"] = fold_state(rs.checkpoint_state, &rs.deltas),
        Err(e) => {
            rec["err"] = json!(format!("recover_with_progress: {e}"));
            return rec;
        }
    }
    // ... and over ONE damaged download (of a segment, or of the checkpoint): fail, or return everything
    let mut reads = Vec::new();
    for what in ["get_seg", "get_ckpt"] {
        for entry in ["recover", "recover_with_progress", "recover_with_wal"] {
            let sc = crate::stream::ScriptedObjectStore::new(false);
            {
                let mut g = sc.inner.lock().unwrap();
                if let Ok(lst) = store.list(PREFIX, None).await {
                    for o in lst.objects {
                        if let Ok(d) = store.get(&o.key).await {
                            g.objs.insert(o.key.clone(), d);
                        }
                    }
                }
                g.faults.push((0, what.into(), "corrupt".into()));
            }
            let rm2 = RecoveryManager::new(sc.clone(), PREFIX, 1);
            let r = match entry {
                "recover" => rm2.recover().await,
                "recover_with_progress" => rm2.recover_with_progress(|_| {}).await,
                _ => rm2.recover_with_wal(&rot).await,
            };
            reads.push(match r {
                Ok(rs) => json!({"entry": entry, "what": what, "wal": entry == "recover_with_wal", "ok": true, "fold": fold_state(rs.checkpoint_state, &rs.deltas)}),
                Err(e) => json!({"entry": entry, "what": what, "wal": entry == "recover_with_wal", "ok": false, "fold": [], "err": e.to_string()}),
            });
        }
    }
    rec["corrupt_reads"] = json!(reads);
    // recovery while a checkpoint is being published: after the checkpoint download the store holds the NEXT
    // manifest (a newer checkpoint that folds in every listed segment; no segment listed any more; the old
    // files are still there).  Both images hold the same updates: whatever recovery reads, it must return them.
    if !cs.is_empty() {
        let mut img1: BTreeMap<String, Vec<u8>> = BTreeMap::new();
        if let Ok(lst) = store.list(PREFIX, None).await {
            for o in lst.objects {
                if let Ok(d) = store.get(&o.key).await {
                    img1.insert(o.key.clone(), d);
                }
            }
        }
        let mut state2: HashMap<String, ReplicatedValue> = HashMap::new();
        for i in cs.iter().chain(ids(&lay["seg1"]).iter()).chain(ids(&lay["seg2"]).iter()) {
            let d = &by_id[i];
            let v = match state2.get(&d.key) {
                Some(c) => c.merge(&d.value),
                None => d.value.clone(),
            };
            state2.insert(d.key.clone(), v);
        }
        let n2 = state2.len() as u64;
        let data2 = CheckpointWriter::new(Compression::None).write(state2, 23456, 2).unwrap();
        let key2 = format!("{}/checkpoints/chk-{:016}.chk", PREFIX, 23456);
        let mut m2 = manifest.clone();
        m2.segments.clear();
        m2.version += 1;
        m2.checkpoint = Some(CheckpointInfo { key: key2.clone(), timestamp_ms: 23456, key_count: n2, last_segment_id: 2 });
        let mut img2 = img1.clone();
        img2.insert(key2, data2);
        let mkey = img1.keys().find(|k| k.ends_with("manifest.json")).cloned();
        if let (Some(mkey), Ok(mj)) = (mkey, serde_json::to_vec(&m2)) {
            img2.insert(mkey, mj);
            let mut races = Vec::new();
            for entry in ["recover", "recover_with_progress"] {
                let sc = crate::stream::ScriptedObjectStore::new(false);
                {
                    let mut g = sc.inner.lock().unwrap();
                    g.objs = img1.clone();
                    g.swap_after = Some(("ckpt".into(), img2.clone()));
                }
                let rm2 = RecoveryManager::new(sc.clone(), PREFIX, 1);
                let r = if entry == "recover" { rm2.recover().await } else { rm2.recover_with_progress(|_| {}).await };
                races.push(match r {
                    Ok(rs) => json!({"entry": entry, "ok": true, "fold": fold_state(rs.checkpoint_state, &rs.deltas)}),
                    Err(e) => json!({"entry": entry, "ok": false, "fold": [], "err": e.to_string()}),
                });
            }
            rec["ckpt_race"] = json!(races);
        }
    }
    match rm.recover_with_wal(&rot).await {
        Ok(rs) => {
            rec["fold_wal"] = fold_state(rs.checkpoint_state.clone(), &rs.deltas);
            rec["node"] = node_state(rs.checkpoint_state.clone(), rs.deltas.clone(), 1).await;
            rec["node2"] = node_state(rs.checkpoint_state, rs.deltas, 3).await;
            // the server's start-up sequence: the object store first (recover), then the WAL replayed on top of it
            if let Ok(obj) = rm.recover().await {
                let node = ReplicatedShardedState::new(ReplicationConfig { replica_id: 9, ..Default::default() });
                node.apply_recovered_state(obj.checkpoint_state.clone(), obj.deltas.clone());
                let wal: Vec<ReplicationDelta> = rot.recover_all_entries().map(|es| es.iter().filter_map(|e| e.to_delta().ok()).collect()).unwrap_or_default();
                node.apply_recovered_state(None, wal);
                let snap: BTreeMap<String, ReplicatedValue> = node.snapshot_state().await.into_iter().collect();
                rec["node_staged"] = json!(snap.iter().map(|(k, v)| json!([k, crate::crdt::obs(v)])).collect::<Vec<_>>());
            }
        }
        Err(e) => rec["err"] = json!(format!("recover_with_wal: {e}")),
    }
    rec
}

/// Checkpoints written by the repository's own CheckpointManager while the flusher keeps going: segments are flushed by the
/// real StreamingPersistence; the checkpointer notes the last segment it knows, takes its snapshot (the merge of everything
/// flushed so far), 0-2 more flushes land, and only then `create_checkpoint(snapshot, last_known)` runs and its result is
/// published the way a manifest is compacted (`compact_segments`).  Judged like any layout: recovery = merge of everything.
async fn run_ckptmgr(run: usize, ups: &[Value], before: usize, between: usize, after: usize) -> Value {
    use redis_sim::streaming::{CheckpointConfig, CheckpointManager, StreamingPersistence, WriteBufferConfig};
    use std::sync::Arc;
    let by_id: HashMap<u64, ReplicationDelta> = ups.iter().map(|d| (d["id"].as_u64().unwrap(), mk_delta(d))).collect();
    let all_ids: Vec<u64> = ups.iter().map(|d| d["id"].as_u64().unwrap()).collect();
    let store = Arc::new(InMemoryObjectStore::new());
    let mut rec = json!({"t": "layout", "run": run, "through": "CheckpointManager", "shape": [before, between, after],
                         "ups": ups.iter().map(|d| json!([d["id"], d["k"], crate::crdt::obs(&by_id[&d["id"].as_u64().unwrap()].value)])).collect::<Vec<_>>(),
                         "ckpt": [], "seg1": all_ids, "seg2": [], "wal": [], "L": 0, "fold": [], "fold_wal": [], "node": [], "node2": [], "err": ""});
    let mut sp = match StreamingPersistence::new(store.clone(), PREFIX.to_string(), 1, WriteBufferConfig::test()).await {
        Ok(x) => x,
        Err(e) => { rec["err"] = json!(format!("persistence: {e}")); return rec; }
    };
    // the updates are dealt to before + between + after flushes, in id order
    let nseg = before + between + after;
    let mut groups: Vec<Vec<u64>> = vec![Vec::new(); nseg];
    for (i, id) in all_ids.iter().enumerate() {
        groups[(i * nseg) / all_ids.len().max(1)].push(*id);
    }
    let mut last_known = 0u64;
    let mut snapshot: HashMap<String, ReplicatedValue> = HashMap::new();
    let mut have_ckpt_input = false;
    for (g, ids) in groups.iter().enumerate() {
        if g == before + between && have_ckpt_input {
            // the checkpoint is written only now
            let mm = ManifestManager::new((*store).clone(), PREFIX);
            let cm = CheckpointManager::new(store.clone(), PREFIX.to_string(), mm.clone(), CheckpointConfig::test());
            match cm.create_checkpoint(snapshot.clone(), last_known).await {
                Ok(r) => {
                    if let Ok(mut manifest) = mm.load().await {
                        manifest.compact_segments(CheckpointInfo { key: r.key.clone(), timestamp_ms: r.timestamp_ms, key_count: r.key_count, last_segment_id: r.last_segment_id });
                        if let Err(e) = mm.save(&manifest).await { rec["err"] = json!(format!("manifest: {e}")); return rec; }
                    }
                }
                Err(e) => { rec["err"] = json!(format!("create_checkpoint: {e}")); return rec; }
            }
        }
        for id in ids {
            let _ = sp.push(by_id[id].clone());
        }
        match sp.flush().await {
            Ok(fr) => {
                if g < before {
                    if let Some(seg) = fr.segment {
                        last_known = seg.id;
                        have_ckpt_input = true;
                    }
                    for id in ids {
                        let d = &by_id[id];
                        let v = match snapshot.get(&d.key) { Some(c) => c.merge(&d.value), None => d.value.clone() };
                        snapshot.insert(d.key.clone(), v);
                    }
                }
            }
            Err(e) => { rec["err"] = json!(format!("flush: {e}")); return rec; }
        }
    }
    let rm = RecoveryManager::new((*store).clone(), PREFIX, 1);
    match rm.recover().await {
        Ok(rs) => {
            rec["fold"] = fold_state(rs.checkpoint_state.clone(), &rs.deltas);
            rec["fold_wal"] = rec["fold"].clone();
            rec["node"] = node_state(rs.checkpoint_state.clone(), rs.deltas.clone(), 1).await;
            rec["node2"] = node_state(rs.checkpoint_state, rs.deltas, 2).await;
        }
        Err(e) => rec["err"] = json!(format!("recover: {e}")),
    }
    rec
}

/// A recovered state far larger than any mailbox or batch bound, applied to a real node the way the server does at start-up:
/// one key rewritten `n` times across eight segments (plus a few hundred bystanders), recovered, applied; the node must hold
/// the newest write of the hot key and every bystander.
async fn run_bignode(run: usize, n: usize) -> Value {
    let store = InMemoryObjectStore::new();
    let mm = ManifestManager::new(store.clone(), PREFIX);
    let mut manifest = Manifest::new(1);
    let mut hot: Vec<Value> = Vec::new();
    let per = n / 8 + 1;
    let mut id = 0usize;
    for sid in 1..=8u64 {
        let mut w = SegmentWriter::new(Compression::None);
        let (mut lo, mut hi, mut cnt) = (u64::MAX, 0u64, 0u32);
        for _ in 0..per {
            id += 1;
            if id > n { break; }
            let d = mk_delta(&json!({"id": id, "k": "hot", "t": "set", "v": format!("v{id}"), "ts": id, "r": 1}));
            hot.push(json!([id, 1, format!("v{id}")]));
            w.write_delta(&d).unwrap();
            lo = lo.min(id as u64); hi = hi.max(id as u64); cnt += 1;
        }
        for b in 0..25 {
            let d = mk_delta(&json!({"id": 1_000_000 + sid * 100 + b, "k": format!("by{sid}:{b}"), "t": "set", "v": "x", "ts": sid * 100 + b + 1, "r": 2}));
            w.write_delta(&d).unwrap();
            cnt += 1;
        }
        if cnt == 0 { continue; }
        let data = w.finish().unwrap();
        let key = format!("{}/segments/segment-{:08}.seg", PREFIX, sid);
        store.put(&key, &data).await.unwrap();
        manifest.add_segment(SegmentInfo { id: sid, key, record_count: cnt, size_bytes: data.len() as u64, min_timestamp: lo.min(sid * 100 + 1), max_timestamp: hi.max(sid * 100 + 25) });
    }
    mm.save(&manifest).await.unwrap();
    let mut rec = json!({"t": "bignode", "run": run, "n": n, "hot": hot, "bystanders": 200, "err": ""});
    let rm = RecoveryManager::new(store.clone(), PREFIX, 1);
    match rm.recover().await {
        Ok(rs) => {
            let node = ReplicatedShardedState::new(ReplicationConfig { replica_id: 9, ..Default::default() });
            node.apply_recovered_state(rs.checkpoint_state, rs.deltas);
            let snap = node.snapshot_state().await;
            rec["node_hot"] = match snap.get("hot") {
                Some(v) => json!([v.timestamp.time, v.timestamp.replica_id.0, v.get().map(|s| String::from_utf8_lossy(s.as_bytes()).to_string()).unwrap_or_default()]),
                None => json!([0, 0, "<absent>"]),
            };
            rec["node_keys"] = json!(snap.len());
            let g = node.execute(crate::repl::argv_cmd(&["GET", "hot"])).await;
            rec["get_hot"] = json!(format!("{g:?}"));
        }
        Err(e) => rec["err"] = json!(format!("recover: {e}")),
    }
    rec
}

fn random_updates(rng: &mut impl Rng) -> Vec<Value> {
    // kinds are fixed per key (type mismatches are C07's subject); 16 interleaved shard clocks,
    // remote stamps far ahead, ties on time between replicas
    let n = rng.gen_range(2..=6);
    // one replica never issues the same stamp twice (two different writes with one stamp
    // cannot come out of a node whose clock ticks per write)
    let mut used: std::collections::HashSet<(u64, u64)> = Default::default();
    (1..=n)
        .map(|id| {
            let mut ts = match rng.gen_range(0..4) {
                0 => rng.gen_range(1..4),
                1 => rng.gen_range(1..40),
                2 => 1000 + rng.gen_range(0..3),
                _ => 7,
            };
            let r = rng.gen_range(1..=3);
            let kind = rng.gen_range(0..5);
            ts += if kind == 2 { 2 } else { 1 };
            while !used.insert((ts, r)) {
                ts += 3;
            }
            match kind {
                0 | 1 => json!({"id": id, "k": format!("h{}", rng.gen_range(1..=2)), "t": "hset", "f": format!("f{}", rng.gen_range(1..=3)), "v": format!("v{id}"), "ts": ts, "r": r}),
                2 => json!({"id": id, "k": format!("h{}", rng.gen_range(1..=2)), "t": "hdel", "f": format!("f{}", rng.gen_range(1..=3)), "ts": ts, "r": r}),
                3 => json!({"id": id, "k": format!("s{}", rng.gen_range(1..=2)), "t": "del", "ts": ts, "r": r}),
                _ => json!({"id": id, "k": format!("s{}", rng.gen_range(1..=2)), "t": "set", "v": format!("v{id}"), "ts": ts, "r": r, "exp": if rng.gen_bool(0.3) { 5000 } else { 0 },
                            // now and then a value of 17 MiB (a legal string; no reader may give up on it)
                            "pad": if rng.gen_range(0..60) == 0 { 17usize << 20 } else { 0 }}),
            }
        })
        .collect()
}

pub fn main(args: &[String]) -> i32 {
    let a = Args::parse(args);
    quiet_panics();
    let mut out = Out::create(&a.str("out", "recov.ndjson"));
    let rt = tokio::runtime::Builder::new_current_thread().enable_all().build().unwrap();
    match a.pos.first().map(|s| s.as_str()) {
        Some("replay") => {
            let ups = table();
            for lay in read_ndjson(&a.pos[1]) {
                let n = out.n + 1;
                let used: Vec<Value> = ups.iter().filter(|u| ["ckpt", "seg1", "seg2", "wal"].iter().any(|p| ids(&lay[*p]).contains(&u["id"].as_u64().unwrap()))).cloned().collect();
                let r = catch(|| rt.block_on(run_layout(n, &used, &lay, 0, 1 << 20)));
                out.emit(&r.unwrap_or_else(|p| json!({"t": "layout", "run": n, "ups": [], "ckpt": [], "seg1": [], "seg2": [], "wal": [], "L": 0, "fold": [], "fold_wal": [], "node": [], "node2": [], "err": format!("panic: {p}")})));
                // checkpoint claiming to cover segment 1 (legal when it contains all of segment 1)
                let s1 = ids(&lay["seg1"]);
                let ck = ids(&lay["ckpt"]);
                if !s1.is_empty() && s1.iter().all(|i| ck.contains(i)) {
                    let n = out.n + 1;
                    let r = catch(|| rt.block_on(run_layout(n, &used, &lay, 1, 200)));
                    if let Ok(v) = r {
                        out.emit(&v);
                    }
                }
            }
        }
        Some("record") => {
            let mut rng = rng(a.u64("seed", 1));
            for _ in 0..a.usize("n", 200) {
                let ups = random_updates(&mut rng);
                let mut lay = json!({"ckpt": [], "seg1": [], "seg2": [], "wal": []});
                for u in &ups {
                    let mut placed = false;
                    while !placed {
                        for p in ["ckpt", "seg1", "seg2", "wal"] {
                            if rng.gen_bool(0.35) {
                                lay[p].as_array_mut().unwrap().push(u["id"].clone());
                                placed = true;
                            }
                        }
                    }
                }
                let n = out.n + 1;
                let fsz = if rng.gen_bool(0.5) { 150 } else { 1 << 20 };
                if let Ok(v) = catch(|| rt.block_on(run_layout(n, &ups, &lay, 0, fsz))) {
                    out.emit(&v);
                }
            }
        }
        Some("ckptmgr") => {
            let mut rng = rng(a.u64("seed", 1));
            for _ in 0..a.usize("n", 100) {
                let mut ups = random_updates(&mut rng);
                while ups.len() < 4 {
                    ups = random_updates(&mut rng);
                }
                let n = out.n + 1;
                let (before, between, after) = (rng.gen_range(1..=2usize), rng.gen_range(0..=2usize), rng.gen_range(0..=1usize));
                match catch(|| rt.block_on(run_ckptmgr(n, &ups, before, between, after))) {
                    Ok(v) => out.emit(&v),
                    Err(p) => out.emit(&json!({"t": "layout", "run": n, "ups": [], "ckpt": [], "seg1": [], "seg2": [], "wal": [], "L": 0, "fold": [], "fold_wal": [], "node": [], "node2": [], "err": format!("panic: {p}")})),
                }
            }
        }
        Some("bignode") => {
            for n in [3000usize, 12000, 40000] {
                let run = out.n + 1;
                match catch(|| rt.block_on(run_bignode(run, n))) {
                    Ok(v) => out.emit(&v),
                    Err(p) => out.emit(&json!({"t": "bignode", "run": run, "n": n, "hot": [], "err": format!("panic: {p}")})),
                }
            }
        }
        _ => {
            eprintln!("usage: vh recov replay|record");
            return 2;
        }
    }
    println!("{{\"cases\": {}}}", out.finish());
    0
}
