//! Connection binding (C04, C05): the REAL OptimizedConnectionHandler (verif hook) on a scripted
//! stream that hands out exactly one segment per read and captures every written byte.
//!   vh conn pipe --seed S --n N --out cases          C04: pipelines x segmentations x configs
//!   vh conn txn  --seed S --n N --out cases          C05: MULTI/EXEC/WATCH with a second client
use crate::ks::{Argv, Gen};
use crate::resp::rv_json;
use crate::util::*;
use rand::Rng;
use redis_sim::production::verif::run_connection;
use redis_sim::production::{ConnectionConfig, ShardConfig, ShardedActorState};
use redis_sim::redis::{RespParser, RespValue};
use serde_json::{json, Value};
use std::collections::VecDeque;
use std::pin::Pin;
use std::sync::{Arc, Mutex};
use std::task::{Context, Poll};
use tokio::io::{AsyncRead, AsyncWrite, ReadBuf};

fn b(s: &str) -> Vec<u8> {
    s.as_bytes().to_vec()
}

pub fn encode_argv(argv: &Argv) -> Vec<u8> {
    let mut out = format!("*{}\r\n", argv.len()).into_bytes();
    for a in argv {
        out.extend_from_slice(format!("${}\r\n", a.len()).as_bytes());
        out.extend_from_slice(a);
        out.extend_from_slice(b"\r\n");
    }
    out
}

/// One segment per poll_read; EOF when the script is exhausted.
pub struct ScriptedStream {
    segs: VecDeque<Vec<u8>>,
    pub written: Arc<Mutex<Vec<u8>>>,
    pub reads: Arc<Mutex<usize>>,
    /// the transport takes at most this many bytes per write call (0 = everything): short writes are legal
    pub wcap: usize,
    /// segments not yet handed out (a handler that returns early leaves some: it closed the connection)
    pub unread: Arc<Mutex<usize>>,
}
impl AsyncRead for ScriptedStream {
    fn poll_read(mut self: Pin<&mut Self>, _cx: &mut Context<'_>, buf: &mut ReadBuf<'_>) -> Poll<std::io::Result<()>> {
        *self.reads.lock().unwrap() += 1;
        *self.unread.lock().unwrap() = self.segs.len().saturating_sub(1);
        match self.segs.pop_front() {
            Some(s) => {
                let n = s.len().min(buf.remaining());
                buf.put_slice(&s[..n]);
                if n < s.len() {
                    self.segs.push_front(s[n..].to_vec());
                }
                Poll::Ready(Ok(()))
            }
            None => Poll::Ready(Ok(())), // EOF
        }
    }
}
impl AsyncWrite for ScriptedStream {
    fn poll_write(self: Pin<&mut Self>, _cx: &mut Context<'_>, data: &[u8]) -> Poll<std::io::Result<usize>> {
        let n = if self.wcap == 0 { data.len() } else { data.len().min(self.wcap) };
        self.written.lock().unwrap().extend_from_slice(&data[..n]);
        Poll::Ready(Ok(n))
    }
    fn poll_flush(self: Pin<&mut Self>, _cx: &mut Context<'_>) -> Poll<std::io::Result<()>> {
        Poll::Ready(Ok(()))
    }
    fn poll_shutdown(self: Pin<&mut Self>, _cx: &mut Context<'_>) -> Poll<std::io::Result<()>> {
        Poll::Ready(Ok(()))
    }
}

pub fn decode_all(bytes: &[u8]) -> (Vec<RespValue>, usize) {
    let mut out = Vec::new();
    let mut off = 0;
    while off < bytes.len() {
        match RespParser::parse(&bytes[off..]) {
            Ok((v, n)) => {
                out.push(v);
                off += n;
            }
            Err(_) => break,
        }
    }
    (out, bytes.len() - off)
}

/// Run one connection over `segs`; returns the decoded replies and the number of undecodable bytes.
pub async fn run_conn(state: &ShardedActorState, cfg: &ConnectionConfig, segs: Vec<Vec<u8>>) -> (Vec<RespValue>, usize) {
    let (r, l, _) = run_conn_w(state, cfg, segs, 0).await;
    (r, l)
}

/// as run_conn, on a transport that takes at most `wcap` bytes per write call; also returns the segments left unread
pub async fn run_conn_w(state: &ShardedActorState, cfg: &ConnectionConfig, segs: Vec<Vec<u8>>, wcap: usize) -> (Vec<RespValue>, usize, usize) {
    let written = Arc::new(Mutex::new(Vec::new()));
    let unread = Arc::new(Mutex::new(segs.len()));
    let stream = ScriptedStream { segs: segs.into(), written: written.clone(), reads: Arc::new(Mutex::new(0)), wcap, unread: unread.clone() };
    // the handler must terminate by itself at EOF; a hang is caught by the timeout
    let r = tokio::time::timeout(std::time::Duration::from_secs(20), run_connection(stream, state.clone(), cfg.clone())).await;
    let w = written.lock().unwrap().clone();
    let (mut replies, left) = decode_all(&w);
    if r.is_err() {
        replies.push(RespValue::err("HANG connection handler did not finish"));
    }
    let u = *unread.lock().unwrap();
    (replies, left, u)
}

fn split(bytes: &[u8], cuts: &[usize]) -> Vec<Vec<u8>> {
    let mut out = Vec::new();
    let mut last = 0;
    for &c in cuts {
        if c > last && c < bytes.len() {
            out.push(bytes[last..c].to_vec());
            last = c;
        }
    }
    out.push(bytes[last..].to_vec());
    out
}

/// commands without TTL / clock dependence (the handler runs on the wall clock)
fn pipe_command(gen: &mut Gen) -> (Value, Argv) {
    loop {
        let (c, argv) = gen.command();
        let op = c["op"].as_str().unwrap_or("");
        let timed = matches!(op, "EXPIRE" | "TTL" | "PTTL" | "SETEX" | "PERSIST") || (op == "SET" && (c["ex"] != -1 || c["px"] != -1 || c["keepttl"] == true));
        let two_key = matches!(op, "RENAME" | "LMOVE" | "MSETNX" | "MSET");
        if !timed && !two_key && op != "OTHER" {
            return (c, argv);
        }
    }
}

async fn pipe_case(run: usize, gen: &mut Gen, out: &mut Out) {
    let shards = [1usize, 4][gen.rng.gen_range(0..2)];
    let state = ShardedActorState::with_config(ShardConfig::with_shards(shards));
    let cfg = ConnectionConfig {
        max_buffer_size: 1 << 20,
        read_buffer_size: 8192,
        min_pipeline_buffer: [0usize, 30, 60, 70, 200][gen.rng.gen_range(0..5)],
        batch_threshold: [1usize, 2, 3, 6][gen.rng.gen_range(0..4)],
    };
    // pipeline: biased towards runs of GETs / SETs around the thresholds, on few keys
    let n = gen.rng.gen_range(1..=9);
    let mut cmds: Vec<(Value, Argv)> = Vec::new();
    while cmds.len() < n {
        match gen.rng.gen_range(0..10) {
            0..=3 => {
                let k = ["k1", "k2", "k3"][gen.rng.gen_range(0..3)];
                let lower = gen.rng.gen_bool(0.2);
                for _ in 0..gen.rng.gen_range(1..=4) {
                    cmds.push((json!({"op": "GET", "k": k}), vec![b(if lower { "get" } else { "GET" }), b(k)]));
                }
            }
            4..=6 => {
                for _ in 0..gen.rng.gen_range(1..=4) {
                    let k = ["k1", "k2", "k3"][gen.rng.gen_range(0..3)];
                    let v = ["a", "bb", "", "10"][gen.rng.gen_range(0..4)];
                    cmds.push((json!({"op": "SET", "k": k, "v": v.as_bytes(), "ex": -1, "px": -1, "nx": false, "xx": false, "get": false, "keepttl": false}),
                               vec![b("SET"), b(k), b(v)]));
                }
            }
            _ => cmds.push(pipe_command(gen)),
        }
    }
    let which = gen.rng.gen_range(0..16);
    let malformed = which < 2;
    let damaged = (2..5).contains(&which);
    let mut bytes = Vec::new();
    for (_, argv) in &cmds {
        bytes.extend(encode_argv(argv));
    }
    let bad_at = cmds.len();
    let mut junk: Vec<u8> = Vec::new();
    if damaged {
        // a well-formed frame damaged in one place; the specification (Resp!Decode) decides what it has become
        let victim: Argv = match gen.rng.gen_range(0..3) { 0 => vec![b("PING")], 1 => vec![b("GET"), b("k")], _ => vec![b("SET"), b("k"), b("hello")] };
        let mut f = encode_argv(&victim);
        let crs: Vec<usize> = (0..f.len()).filter(|i| f[*i] == b'\r').collect();
        match gen.rng.gen_range(0..9) {
            8 => { if f.len() > 13 { f.insert(13, b'\r'); } }                                            // one stray byte after the command header
            0 => { let i = crs[gen.rng.gen_range(0..crs.len())]; f.remove(i); }                       // bare LF
            1 => { let i = crs[gen.rng.gen_range(0..crs.len())]; f.remove(i + 1); }                   // bare CR
            2 => { let i = gen.rng.gen_range(1..f.len()); f.remove(i); }                               // a byte lost
            3 => { let i = gen.rng.gen_range(0..f.len()); f[i] = b'x'; }                               // a byte changed
            4 => { let i = gen.rng.gen_range(0..f.len()); f.insert(i, 0); }                            // a NUL inserted
            5 => { f[1] = b'-'; }                                                                       // negative count
            6 => { let i = gen.rng.gen_range(0..f.len()); f[i] = b'\n'; }
            _ => { let i = gen.rng.gen_range(0..f.len()); f.insert(i, b'\r'); }
        }
        junk = f;
        junk.extend(encode_argv(&vec![b("PING")]));
        bytes.extend_from_slice(&junk);
    }
    if malformed {
        let junk: [&[u8]; 5] = [b"*2\r\n$3\r\nGET\r\n:x\r\n", b"!bogus\r\n", b"*1\r\n$-5\r\n", b"$abc\r\n", b"*2\r\n$3\r\nGET\r\n$-2\r\n"];
        bytes.extend_from_slice(junk[gen.rng.gen_range(0..5)]);
        bytes.extend(encode_argv(&vec![b("PING")]));
    }
    // segmentation: whole, every frame boundary, random cuts, byte by byte
    let cuts: Vec<usize> = match gen.rng.gen_range(0..5) {
        0 => vec![],
        1 => (1..bytes.len()).collect(),
        2 => {
            let mut c = Vec::new();
            let mut off = 0;
            for (_, argv) in &cmds {
                off += encode_argv(argv).len();
                c.push(off);
            }
            c
        }
        _ => {
            let k = gen.rng.gen_range(1..6);
            let mut c: Vec<usize> = (0..k).map(|_| gen.rng.gen_range(1..bytes.len().max(2))).collect();
            c.sort();
            c.dedup();
            c
        }
    };
    let segs = split(&bytes, &cuts);
    let nsegs = segs.len();
    // a transport that takes everything, or only a few bytes per write call (a slow reader, a full send buffer)
    let wcap = [0usize, 0, 0, 1, 7, 64][gen.rng.gen_range(0..6)];
    let (replies, left, _) = run_conn_w(&state, &cfg, segs, wcap).await;
    let final_s = crate::shard_plain::project(&state).await;
    out.emit(&json!({"t": "pipe", "run": run, "shards": shards, "wcap": wcap,
        "cfg": {"min_pipeline_buffer": cfg.min_pipeline_buffer, "batch_threshold": cfg.batch_threshold},
        "cmds": cmds.iter().map(|(c, _)| c.clone()).collect::<Vec<_>>(),
        "argv": cmds.iter().map(|(_, a)| a.iter().map(|x| String::from_utf8_lossy(x).to_string()).collect::<Vec<_>>()).collect::<Vec<_>>(),
        "malformed": malformed, "junk": junk, "bad_at": bad_at, "nsegs": nsegs, "nbytes": bytes.len(),
        "replies": replies.iter().map(rv_json).collect::<Vec<_>>(), "undecoded": left, "s": final_s}));
}

/// After a protocol error the connection stays usable (or is closed) - never silent.  A malformed frame, possibly
/// far larger than a read and cut into several reads (every cut before its last two bytes, where it turns
/// malformed), then well-formed commands in later reads: each of those is owed its reply unless the handler has
/// closed the connection.
async fn recover_case(run: usize, gen: &mut Gen, out: &mut Out) {
    let shards = [1usize, 4][gen.rng.gen_range(0..2)];
    let state = ShardedActorState::with_config(ShardConfig::with_shards(shards));
    let cfg = ConnectionConfig { max_buffer_size: 1 << 20, read_buffer_size: 8192, min_pipeline_buffer: [0usize, 60, 70][gen.rng.gen_range(0..3)], batch_threshold: [1usize, 2, 6][gen.rng.gen_range(0..3)] };
    let mut cmds: Vec<(Value, Argv)> = Vec::new();
    let npre = gen.rng.gen_range(0..=2);
    for _ in 0..npre {
        cmds.push(pipe_command(gen));
    }
    let mut bytes = Vec::new();
    for (_, argv) in &cmds {
        bytes.extend(encode_argv(argv));
    }
    let pre_len = bytes.len();
    // the malformed frame: a SET whose value of `n` bytes is not followed by CR LF, or whose last bulk header is not a number
    let n = [0usize, 5, 100, 300, 1000, 5000, 9000, 20000][gen.rng.gen_range(0..8)];
    let mut junk = format!("*3\r\n$3\r\nSET\r\n$2\r\nkj\r\n${}\r\n", n).into_bytes();
    junk.extend(std::iter::repeat(b'v').take(n));
    match gen.rng.gen_range(0..3) {
        0 => junk.extend_from_slice(b"XY"),
        1 => junk.extend_from_slice(b"\rX"),
        _ => {
            junk = format!("*3\r\n$3\r\nSET\r\n${}\r\n", n.max(1)).into_bytes();
            junk.extend(std::iter::repeat(b'k').take(n.max(1)));
            junk.extend_from_slice(b"\r\n$x\r\n");
        }
    }
    bytes.extend_from_slice(&junk);
    let limit = bytes.len() - 5;
    // what the judge decodes: the frame itself, or (above 1200 bytes) its twin of the same shape with a 5-byte payload
    let twin: Vec<u8> = if junk.len() <= 1200 { junk.clone() } else {
        let m = 5usize;
        let mut t;
        if junk.ends_with(b"$x\r\n") {
            t = format!("*3\r\n$3\r\nSET\r\n${}\r\n", m).into_bytes();
            t.extend(std::iter::repeat(b'k').take(m));
            t.extend_from_slice(b"\r\n$x\r\n");
        } else {
            t = format!("*3\r\n$3\r\nSET\r\n$2\r\nkj\r\n${}\r\n", m).into_bytes();
            t.extend(std::iter::repeat(b'v').take(m));
            t.extend_from_slice(&junk[junk.len() - 2..]);
        }
        t
    };
    let mut cuts: Vec<usize> = (0..gen.rng.gen_range(1..=4)).map(|_| gen.rng.gen_range(pre_len.max(1)..limit.max(pre_len + 2))).filter(|c| *c < limit).collect();
    if gen.rng.gen_bool(0.3) {
        cuts.clear();
    }
    cuts.sort();
    cuts.dedup();
    let mut segs = split(&bytes, &cuts);
    // later reads: well-formed commands, one read each or all in one
    let ntail = gen.rng.gen_range(1..=4);
    let mut tail: Vec<(Value, Argv)> = Vec::new();
    for _ in 0..ntail {
        tail.push(pipe_command(gen));
    }
    if gen.rng.gen_bool(0.5) {
        for (_, argv) in &tail {
            segs.push(encode_argv(argv));
        }
    } else {
        let mut t = Vec::new();
        for (_, argv) in &tail {
            t.extend(encode_argv(argv));
        }
        segs.push(t);
    }
    let nsegs = segs.len();
    cmds.extend(tail);
    let (replies, left, unread) = run_conn_w(&state, &cfg, segs, 0).await;
    let final_s = crate::shard_plain::project(&state).await;
    out.emit(&json!({"t": "recover", "run": run, "shards": shards, "npre": npre, "njunk": junk.len(),
        "junk": twin, "twin": junk.len() > 1200,
        "cmds": cmds.iter().map(|(c, _)| c.clone()).collect::<Vec<_>>(),
        "argv": cmds.iter().map(|(_, a)| a.iter().map(|x| String::from_utf8_lossy(x).to_string()).collect::<Vec<_>>()).collect::<Vec<_>>(),
        "nsegs": nsegs, "unread": unread,
        "replies": replies.iter().map(rv_json).collect::<Vec<_>>(), "undecoded": left, "s": final_s}));
}

/// Size- and depth-dependent paths of the read loop: a frame far larger than the read buffer followed by a
/// command split across reads, and more complete commands in one read than any per-read budget.
async fn scale_case(run: usize, kind: &str, size: usize, split_at: usize, out: &mut Out) {
    let shards = if run % 2 == 0 { 1 } else { 4 };
    let state = ShardedActorState::with_config(ShardConfig::with_shards(shards));
    let ping = || (json!({"op": "PING", "has": false, "v": []}), vec![b("PING")]);
    let get = |k: &str| (json!({"op": "GET", "k": k}), vec![b("GET"), b(k)]);
    let (cfg, cmds, segs): (ConnectionConfig, Vec<(Value, Argv)>, Vec<Vec<u8>>) = if kind == "large" {
        let cfg = ConnectionConfig { max_buffer_size: 64 << 20, read_buffer_size: 8192, min_pipeline_buffer: 60, batch_threshold: 2 };
        // the value is a placeholder in the abstract command (the keyspace is not compared for these cases)
        let big: Vec<u8> = (0..size).map(|i| b'a' + (i % 26) as u8).collect();
        let cmds = vec![(json!({"op": "SET", "k": "kbig", "v": [], "ex": -1, "px": -1, "nx": false, "xx": false, "get": false, "keepttl": false}), vec![b("SET"), b("kbig"), big]),
                        ping(), get("k1"), ping()];
        let mut wire = Vec::new();
        for (_, a) in &cmds {
            wire.extend(encode_argv(a));
        }
        let first = encode_argv(&cmds[0].1).len();
        let cut = first + split_at; // inside the command that follows the large one
        (cfg, cmds, vec![wire[..cut].to_vec(), wire[cut..].to_vec()])
    } else if kind == "bigreply" {
        // a stored value of 64 KiB and more is READ BACK between small commands of the same read: the replies keep the order of
        // the commands however large one of them is (the value travels in the abstract command too: TLC computes the replies)
        let cfg = ConnectionConfig { max_buffer_size: 64 << 20, read_buffer_size: 8192, min_pipeline_buffer: 60, batch_threshold: 2 };
        let big: Vec<u8> = (0..size).map(|i| b'a' + (i % 26) as u8).collect();
        let cmds = vec![(json!({"op": "SET", "k": "kbig", "v": big, "ex": -1, "px": -1, "nx": false, "xx": false, "get": false, "keepttl": false}), vec![b("SET"), b("kbig"), big.clone()]),
                        ping(), get("kbig"), ping(), get("k1"), get("kbig"), ping()];
        let mut wire = Vec::new();
        for (_, a) in &cmds {
            wire.extend(encode_argv(a));
        }
        let first = encode_argv(&cmds[0].1).len();
        let segs = match split_at {
            0 => vec![wire.clone()],
            1 => vec![wire[..first].to_vec(), wire[first..].to_vec()],
            _ => vec![wire[..first + 20].to_vec(), wire[first + 20..].to_vec()],
        };
        (cfg, cmds, segs)
    } else {
        let cfg = ConnectionConfig { max_buffer_size: 64 << 20, read_buffer_size: 1 << 20, min_pipeline_buffer: 60, batch_threshold: 2 };
        let mut cmds: Vec<(Value, Argv)> = (0..size).map(|_| ping()).collect();
        cmds.push(get("k1"));
        let mut wire = Vec::new();
        for (_, a) in &cmds {
            wire.extend(encode_argv(a));
        }
        (cfg, cmds, vec![wire])
    };
    let nsegs = segs.len();
    let nbytes: usize = segs.iter().map(|s| s.len()).sum();
    let (replies, left) = run_conn(&state, &cfg, segs).await;
    out.emit(&json!({"t": "pipe", "run": run, "shards": shards, "source": kind, "size": size, "nostate": true,
        "cfg": {"min_pipeline_buffer": cfg.min_pipeline_buffer, "batch_threshold": cfg.batch_threshold, "read_buffer_size": cfg.read_buffer_size},
        "cmds": cmds.iter().map(|(c, _)| c.clone()).collect::<Vec<_>>(),
        "argv": cmds.iter().map(|(_, a)| a.iter().map(|x| if x.len() > 40 { format!("<{} bytes>", x.len()) } else { String::from_utf8_lossy(x).to_string() }).collect::<Vec<_>>()).collect::<Vec<_>>(),
        "malformed": false, "junk": [], "bad_at": cmds.len(), "nsegs": nsegs, "nbytes": nbytes,
        "replies": replies.iter().map(rv_json).collect::<Vec<_>>(), "undecoded": left, "s": []}));
}

/// Connections that come and go on ONE buffer pool (as under the real server): a client that dies in the middle
/// of a frame must leave nothing behind for the connections that reuse its buffer.
async fn pool_case(run: usize, kind: &str, pool_size: usize, later: usize, out: &mut Out) {
    use redis_sim::production::verif::{new_buffer_pool, run_connection_with_pool};
    let state = ShardedActorState::with_config(ShardConfig::with_shards(if run % 2 == 0 { 1 } else { 4 }));
    let cfg = ConnectionConfig { max_buffer_size: 1 << 20, read_buffer_size: 8192, min_pipeline_buffer: 60, batch_threshold: 2 };
    let pool = new_buffer_pool(pool_size, 8192);
    let set = |k: &str, v: &str| (json!({"op": "SET", "k": k, "v": v.as_bytes(), "ex": -1, "px": -1, "nx": false, "xx": false, "get": false, "keepttl": false}), vec![b("SET"), b(k), b(v)]);
    let get = |k: &str| (json!({"op": "GET", "k": k}), vec![b("GET"), b(k)]);
    let ping = || (json!({"op": "PING", "has": false, "v": []}), vec![b("PING")]);
    // the dying client: complete commands, then the beginning of one more
    let (first, partial): (Vec<(Value, Argv)>, Vec<u8>) = match kind {
        // a half-sent SET: the next owner of the buffer would complete it with its own bytes
        "half_set" => (vec![set("foo", "bar")], b"*3\r\n$3\r\nSET\r\n$3\r\nfoo\r\n$20\r\n".to_vec()),
        // a burst above the buffer size (the buffer grows), then a half-sent APPEND
        "burst" => (vec![set("big", &"y".repeat(10_000)), set("foo", "bar")], b"*3\r\n$6\r\nAPPEND\r\n$5\r\nstale\r\n$14\r\n".to_vec()),
        // the same with nothing complete before it (the buffer was never consumed from)
        "half_set_first" => (vec![], b"*3\r\n$3\r\nSET\r\n$3\r\nfoo\r\n$20\r\n".to_vec()),
        "half_append_first" => (vec![], b"*3\r\n$6\r\nAPPEND\r\n$5\r\nstale\r\n$14\r\n".to_vec()),
        // only a few bytes of a header
        _ => (vec![set("foo", "bar")], b"*2\r\n$3\r\nGE".to_vec()),
    };
    let mut cmds: Vec<(Value, Argv)> = Vec::new();
    let mut all_replies: Vec<RespValue> = Vec::new();
    let mut undecoded = 0;
    let mut wire = Vec::new();
    for (_, a) in &first {
        wire.extend(encode_argv(a));
    }
    wire.extend_from_slice(&partial);
    let conns: Vec<(Vec<(Value, Argv)>, Vec<u8>)> = std::iter::once((first.clone(), wire))
        .chain((0..later).map(|i| {
            let c = if i % 2 == 0 { vec![get("foo"), ping()] } else { vec![ping(), ping(), get("stale")] };
            let mut w = Vec::new();
            for (_, a) in &c {
                w.extend(encode_argv(a));
            }
            (c, w)
        }))
        .collect();
    for (c, w) in conns {
        let written = Arc::new(Mutex::new(Vec::new()));
        let stream = ScriptedStream { segs: vec![w].into(), written: written.clone(), reads: Arc::new(Mutex::new(0)), wcap: 0, unread: Arc::new(Mutex::new(0)) };
        let r = tokio::time::timeout(std::time::Duration::from_secs(20), run_connection_with_pool(stream, state.clone(), cfg.clone(), pool.clone())).await;
        let bytes = written.lock().unwrap().clone();
        let (mut replies, left) = decode_all(&bytes);
        if r.is_err() {
            replies.push(RespValue::err("HANG connection handler did not finish"));
        }
        // a connection's replies must be exactly those of its own commands: pad / cut is visible as a count mismatch below
        undecoded += left;
        cmds.extend(c);
        all_replies.extend(replies);
    }
    let final_s = crate::shard_plain::project(&state).await;
    out.emit(&json!({"t": "pipe", "run": run, "shards": 0, "source": format!("pool/{kind}"), "size": pool_size, "nostate": kind == "burst",
        "cfg": {"min_pipeline_buffer": cfg.min_pipeline_buffer, "batch_threshold": cfg.batch_threshold, "pool": pool_size, "connections": later + 1},
        "cmds": cmds.iter().map(|(c, _)| if c["op"] == "SET" && c["k"] == "big" { json!({"op": "SET", "k": "big", "v": [], "ex": -1, "px": -1, "nx": false, "xx": false, "get": false, "keepttl": false}) } else { c.clone() }).collect::<Vec<_>>(),
        "argv": cmds.iter().map(|(_, a)| a.iter().map(|x| if x.len() > 40 { format!("<{} bytes>", x.len()) } else { String::from_utf8_lossy(x).to_string() }).collect::<Vec<_>>()).collect::<Vec<_>>(),
        "malformed": false, "junk": [], "bad_at": cmds.len(), "nsegs": later + 1, "nbytes": 0,
        "replies": all_replies.iter().map(rv_json).collect::<Vec<_>>(), "undecoded": undecoded, "s": final_s}));
}

/// TLC-generated scenario: frames (GET/SET/INCR/PING/BAD), reads [[n complete frames, fragment?]...]
async fn replay_case(run: usize, scn: &Value, out: &mut Out) {
    let frames = scn["frames"].as_array().unwrap();
    let mut cmds: Vec<Value> = Vec::new();
    let mut encs: Vec<Vec<u8>> = Vec::new();
    let mut argvs: Vec<Vec<String>> = Vec::new();
    let mut bad_seen = false;
    for f in frames {
        let k = f["k"].as_str().unwrap_or("");
        let (c, argv): (Option<Value>, Option<Argv>) = match f["op"].as_str().unwrap() {
            "GET" => (Some(json!({"op": "GET", "k": k})), Some(vec![b("GET"), b(k)])),
            "SET" => (Some(json!({"op": "SET", "k": k, "v": f["v"].as_str().unwrap().as_bytes(), "ex": -1, "px": -1, "nx": false, "xx": false, "get": false, "keepttl": false})),
                      Some(vec![b("SET"), b(k), b(f["v"].as_str().unwrap())])),
            "INCR" => (Some(json!({"op": "INCRBY", "k": k, "d": {"neg": false, "d": [1]}, "dmin": false})), Some(vec![b("INCR"), b(k)])),
            "PING" => (Some(json!({"op": "PING", "has": false, "v": []})), Some(vec![b("PING")])),
            _ => (None, None),
        };
        match (c, argv) {
            (Some(c), Some(argv)) => {
                if !bad_seen {
                    cmds.push(c);
                    argvs.push(argv.iter().map(|x| String::from_utf8_lossy(x).to_string()).collect());
                }
                encs.push(encode_argv(&argv));
            }
            _ => {
                bad_seen = true;
                encs.push(b"*1\r\n$-5\r\n".to_vec());
            }
        }
    }
    // byte segments from the reads
    let mut segs: Vec<Vec<u8>> = Vec::new();
    let mut fi = 0usize; // next frame
    let mut carry: Vec<u8> = Vec::new(); // rest of a fragmented frame
    let mut class = run;
    for r in scn["reads"].as_array().unwrap() {
        let n = r[0].as_u64().unwrap() as usize;
        let frag = r[1].as_u64().unwrap() == 1;
        let mut seg = std::mem::take(&mut carry);
        let mut take = n;
        if !seg.is_empty() && take > 0 {
            take -= 1; // the completed fragment counts as one of the n complete frames
        }
        for _ in 0..take {
            if fi < encs.len() {
                seg.extend_from_slice(&encs[fi]);
                fi += 1;
            }
        }
        if frag && fi < encs.len() {
            let e = &encs[fi];
            let cut = match class % 4 { 0 => 1, 1 => 3.min(e.len() - 1), 2 => e.len() / 2, _ => e.len() - 1 };
            class += 1;
            seg.extend_from_slice(&e[..cut]);
            carry = e[cut..].to_vec();
            fi += 1;
        }
        if !seg.is_empty() {
            segs.push(seg);
        }
    }
    if !carry.is_empty() {
        segs.push(carry);
    }
    let shards = if run % 2 == 0 { 1 } else { 4 };
    let state = ShardedActorState::with_config(ShardConfig::with_shards(shards));
    let cfg = ConnectionConfig {
        max_buffer_size: 1 << 20,
        read_buffer_size: 8192,
        min_pipeline_buffer: if scn["minbuf"].as_u64().unwrap_or(1) <= 1 { 0 } else { 30 },
        batch_threshold: scn["threshold"].as_u64().unwrap_or(2) as usize,
    };
    let nsegs = segs.len();
    let nbytes: usize = segs.iter().map(|s| s.len()).sum();
    let (replies, left) = run_conn(&state, &cfg, segs).await;
    let final_s = crate::shard_plain::project(&state).await;
    let n = cmds.len();
    out.emit(&json!({"t": "pipe", "run": run, "shards": shards, "source": "tlc",
        "cfg": {"min_pipeline_buffer": cfg.min_pipeline_buffer, "batch_threshold": cfg.batch_threshold},
        "cmds": cmds, "argv": argvs, "malformed": bad_seen, "bad_at": n, "nsegs": nsegs, "nbytes": nbytes,
        "replies": replies.iter().map(rv_json).collect::<Vec<_>>(), "undecoded": left,
        "s": if bad_seen { json!("skip") } else { final_s }}));
}

pub fn main(args: &[String]) -> i32 {
    let a = Args::parse(args);
    quiet_panics();
    let mut out = Out::create(&a.str("out", "conn_cases.ndjson"));
    let rt = tokio::runtime::Builder::new_current_thread().enable_all().build().unwrap();
    let mut gen = Gen::new(a.u64("seed", 1), false);
    match a.pos.first().map(|s| s.as_str()) {
        Some("pipe") => {
            for i in 0..a.usize("n", 200) {
                let r = catch(|| rt.block_on(pipe_case(i + 1, &mut gen, &mut out)));
                if let Err(p) = r {
                    out.emit(&json!({"t": "pipe", "run": i + 1, "panic": p, "cmds": [], "replies": [], "malformed": false, "bad_at": 0, "undecoded": 0, "s": []}));
                }
            }
        }
        Some("recover") => {
            for i in 0..a.usize("n", 200) {
                let r = catch(|| rt.block_on(recover_case(i + 1, &mut gen, &mut out)));
                if let Err(p) = r {
                    out.emit(&json!({"t": "pipe", "run": i + 1, "panic": p, "cmds": [], "replies": [], "malformed": false, "bad_at": 0, "undecoded": 0, "s": []}));
                }
            }
        }
        Some("replay") => {
            for (i, scn) in read_ndjson(&a.pos[1]).iter().enumerate() {
                let r = catch(|| rt.block_on(replay_case(i + 1, scn, &mut out)));
                if let Err(p) = r {
                    out.emit(&json!({"t": "pipe", "run": i + 1, "panic": p, "cmds": [], "replies": [], "malformed": false, "bad_at": 0, "undecoded": 0, "s": []}));
                }
            }
        }
        Some("scale") => {
            let thorough = a.str("tier", "quick") == "thorough";
            let mut run = 0;
            let mut sizes: Vec<usize> = vec![40_000, (1 << 20) - 100, (1 << 20) + 100, 1_500_000];
            if thorough {
                sizes.extend([3 << 20, 9_000_000]);
            }
            for size in sizes {
                for split_at in [1usize, 4, 9, 13] {
                    run += 1;
                    let r = catch(|| rt.block_on(scale_case(run, "large", size, split_at, &mut out)));
                    if let Err(p) = r {
                        out.emit(&json!({"t": "pipe", "run": run, "panic": p, "cmds": [], "replies": [], "malformed": false, "bad_at": 0, "undecoded": 0, "s": []}));
                    }
                }
            }
            for size in if thorough { vec![65_535usize, 65_536, 70_000, 100_000] } else { vec![65_536usize, 70_000] } {
                for split_at in [0usize, 1, 2] {
                    run += 1;
                    let r = catch(|| rt.block_on(scale_case(run, "bigreply", size, split_at, &mut out)));
                    if let Err(p) = r {
                        out.emit(&json!({"t": "pipe", "run": run, "panic": p, "cmds": [], "replies": [], "malformed": false, "bad_at": 0, "undecoded": 0, "s": []}));
                    }
                }
            }
            let mut depths: Vec<usize> = vec![100, 585, 1000, 1024, 1025, 1500, 3000];
            if thorough {
                depths.extend([4096, 4097, 10000, 20000]);
            }
            for depth in depths {
                run += 1;
                let r = catch(|| rt.block_on(scale_case(run, "deep", depth, 0, &mut out)));
                if let Err(p) = r {
                    out.emit(&json!({"t": "pipe", "run": run, "panic": p, "cmds": [], "replies": [], "malformed": false, "bad_at": 0, "undecoded": 0, "s": []}));
                }
            }
        }
        Some("pool") => {
            let mut run = 0;
            for kind in ["half_set", "half_set_first", "half_append_first", "burst", "header"] {
                for (pool_size, later) in [(1usize, 3usize), (2, 5), (4, 10), (64, 70)] {
                    run += 1;
                    let r = catch(|| rt.block_on(pool_case(run, kind, pool_size, later, &mut out)));
                    if let Err(p) = r {
                        out.emit(&json!({"t": "pipe", "run": run, "panic": p, "cmds": [], "replies": [], "malformed": false, "bad_at": 0, "undecoded": 0, "s": []}));
                    }
                }
            }
        }
        Some("txn") => return crate::txn::main(&a, &rt, &mut gen, &mut out),
        _ => {
            eprintln!("usage: vh conn pipe|txn");
            return 2;
        }
    }
    println!("{{\"cases\": {}}}", out.finish());
    0
}
