//! C16 binding.
//!   vh parse frames --seed S --tier T --out cases   both RESP command parsers on a grammar-directed frame space
//!   vh parse lua --seed S --n N --out cases         twin executors: direct commands vs redis.call / redis.pcall programs
use crate::ks::{parse_argv, project, Argv, Gen};
use crate::resp::rv_json;
use crate::util::*;
use bytes::{Bytes, BytesMut};
use rand::Rng;
use redis_sim::redis::{Command, CommandExecutor, RespCodec, RespParser, RespValue, RespValueZeroCopy};
use redis_sim::simulator::VirtualTime;
use serde_json::{json, Value};

fn b(s: &str) -> Vec<u8> {
    s.as_bytes().to_vec()
}

/// One element of a frame as a client may send it.
#[derive(Clone, Debug)]
enum El {
    Bulk(Vec<u8>),
    Null,
    Int(i64),
    Simple(Vec<u8>),
    Arr(Vec<El>),
}

impl El {
    fn plain(&self) -> RespValue {
        match self {
            El::Bulk(x) => RespValue::BulkString(Some(x.clone())),
            El::Null => RespValue::BulkString(None),
            El::Int(i) => RespValue::Integer(*i),
            El::Simple(x) => RespValue::SimpleString(String::from_utf8_lossy(x).to_string().into()),
            El::Arr(v) => RespValue::Array(Some(v.iter().map(|e| e.plain()).collect())),
        }
    }
    fn zc(&self) -> RespValueZeroCopy {
        match self {
            El::Bulk(x) => RespValueZeroCopy::BulkString(Some(Bytes::copy_from_slice(x))),
            El::Null => RespValueZeroCopy::BulkString(None),
            El::Int(i) => RespValueZeroCopy::Integer(*i),
            El::Simple(x) => RespValueZeroCopy::SimpleString(Bytes::copy_from_slice(x)),
            El::Arr(v) => RespValueZeroCopy::Array(Some(v.iter().map(|e| e.zc()).collect())),
        }
    }
    fn wire(&self, out: &mut Vec<u8>) {
        match self {
            El::Bulk(x) => {
                out.extend_from_slice(format!("${}\r\n", x.len()).as_bytes());
                out.extend_from_slice(x);
                out.extend_from_slice(b"\r\n");
            }
            El::Null => out.extend_from_slice(b"$-1\r\n"),
            El::Int(i) => out.extend_from_slice(format!(":{i}\r\n").as_bytes()),
            El::Simple(x) => {
                out.push(b'+');
                out.extend_from_slice(x);
                out.extend_from_slice(b"\r\n");
            }
            El::Arr(v) => {
                out.extend_from_slice(format!("*{}\r\n", v.len()).as_bytes());
                for e in v {
                    e.wire(out);
                }
            }
        }
    }
    fn show(&self) -> Value {
        match self {
            El::Bulk(x) => json!(String::from_utf8_lossy(x)),
            El::Null => json!("<null>"),
            El::Int(i) => json!(format!("<int {i}>")),
            El::Simple(x) => json!(format!("<simple {}>", String::from_utf8_lossy(x))),
            El::Arr(v) => json!(format!("<array of {}>", v.len())),
        }
    }
    fn kind(&self) -> &'static str {
        match self {
            El::Bulk(_) => "bulk",
            El::Null => "null",
            El::Int(_) => "int",
            El::Simple(_) => "simple",
            El::Arr(_) => "array",
        }
    }
}

const NAMES: &[&str] = &[
    "PING", "ECHO", "GET", "SET", "SETNX", "SETEX", "PSETEX", "GETSET", "GETDEL", "GETEX", "APPEND", "STRLEN", "INCR", "DECR", "INCRBY", "DECRBY",
    "INCRBYFLOAT", "MGET", "MSET", "MSETNX", "GETRANGE", "SUBSTR", "SETRANGE", "SETBIT", "GETBIT", "DEL", "UNLINK", "EXISTS", "TYPE", "KEYS", "FLUSHDB",
    "FLUSHALL", "EXPIRE", "PEXPIRE", "EXPIREAT", "PEXPIREAT", "TTL", "PTTL", "EXPIRETIME", "PEXPIRETIME", "PERSIST", "RENAME", "RENAMENX", "RANDOMKEY",
    "DBSIZE", "LPUSH", "RPUSH", "LPOP", "RPOP", "LLEN", "LINDEX", "LRANGE", "LSET", "LTRIM", "RPOPLPUSH", "LMOVE", "SADD", "SREM", "SMEMBERS",
    "SISMEMBER", "SCARD", "SPOP", "HSET", "HGET", "HDEL", "HGETALL", "HKEYS", "HVALS", "HLEN", "HEXISTS", "HINCRBY", "ZADD", "ZREM", "ZRANGE",
    "ZREVRANGE", "ZSCORE", "ZRANK", "ZCARD", "ZCOUNT", "ZRANGEBYSCORE", "SCAN", "HSCAN", "ZSCAN", "MULTI", "EXEC", "DISCARD", "WATCH", "UNWATCH",
    "EVAL", "EVALSHA", "SCRIPT", "INFO", "AUTH", "ACL", "CONFIG", "SELECT", "COMMAND", "FUNCTION", "CLIENT", "OBJECT", "DEBUG", "WAIT", "TIME", "SORT",
    "NOSUCHCMD", "",
];

fn mixed(s: &str) -> String {
    s.chars().enumerate().map(|(i, c)| if i % 2 == 0 { c.to_ascii_lowercase() } else { c.to_ascii_uppercase() }).collect()
}

fn outcome(r: Result<Result<Command, String>, String>) -> Value {
    match r {
        Ok(Ok(c)) => json!({"ok": true, "s": format!("{c:?}"), "panic": false}),
        Ok(Err(e)) => json!({"ok": false, "s": e, "panic": false}),
        Err(p) => json!({"ok": false, "s": p, "panic": true}),
    }
}

/// The four entry paths of one frame: both parsers on a constructed value, and both
/// decoder + parser pipelines on the wire image.
fn four(top: &El) -> [Value; 4] {
    let pv = top.plain();
    let zv = top.zc();
    let a = outcome(catch(|| Command::from_resp(&pv)));
    let bb = outcome(catch(|| Command::from_resp_zero_copy(&zv)));
    let mut wire = Vec::new();
    top.wire(&mut wire);
    let pa = outcome(catch(|| match RespParser::parse(&wire) {
        Ok((v, _)) => Command::from_resp(&v),
        Err(e) => Err(format!("<decoder> {e}")),
    }));
    let pb = outcome(catch(|| {
        let mut buf = BytesMut::from(&wire[..]);
        match RespCodec::parse(&mut buf) {
            Ok(Some(v)) => Command::from_resp_zero_copy(&v),
            Ok(None) => Err("<decoder> incomplete".to_string()),
            Err(e) => Err(format!("<decoder> {e}")),
        }
    }));
    [a, bb, pa, pb]
}

fn upper_first(top: &El) -> El {
    match top {
        El::Arr(v) if !v.is_empty() => {
            let mut w = v.clone();
            if let El::Bulk(n) = &w[0] {
                w[0] = El::Bulk(n.to_ascii_uppercase());
            }
            El::Arr(w)
        }
        x => x.clone(),
    }
}

fn frame_case(out: &mut Out, top: &El, origin: &str) {
    let run = out.n + 1;
    let [a, bb, pa, pb] = four(top);
    // the same frame with the command name in upper case (letter case must not matter)
    let u = outcome(catch(|| Command::from_resp(&upper_first(top).plain())));
    let (name, nargs, argv, kinds) = match top {
        El::Arr(v) if !v.is_empty() => (
            match &v[0] {
                El::Bulk(n) => String::from_utf8_lossy(n).to_uppercase(),
                _ => "<nonbulk>".to_string(),
            },
            v.len() - 1,
            v.iter().map(|e| e.show()).collect::<Vec<_>>(),
            v.iter().map(|e| e.kind()).collect::<Vec<_>>(),
        ),
        x => ("<noframe>".to_string(), 0, vec![x.show()], vec![x.kind()]),
    };
    let allbulk = kinds.iter().all(|k| *k == "bulk") && matches!(top, El::Arr(_));
    out.emit(&json!({"t": "parse", "run": run, "origin": origin, "name": name, "nargs": nargs, "allbulk": allbulk, "kinds": kinds,
                     "argv": argv, "a": a, "b": bb, "pa": pa, "pb": pb, "u": u}));
}

fn bulk_frame(argv: &Argv) -> El {
    El::Arr(argv.iter().map(|x| El::Bulk(x.clone())).collect())
}

fn frames(out: &mut Out, gen: &mut Gen, thorough: bool) {
    let fillers: [&[u8]; 16] = [b"k", b"1", b"-1", b"0", b"abc", b"", b"EX", b"NX", b"MATCH", b"COUNT", b"WITHSCORES", b"LIMIT", b"9223372036854775808",
                                &[0xff, 0xfe], b"-9223372036854775809", b"1.5"];
    for name in NAMES {
        // letters written with characters whose upper case is an ASCII letter (dotless i, long s, the fl ligature):
        // whatever such a name means, it means the same on every path
        let alike = name.to_lowercase().replace("fl", "\u{fb02}").replace('i', "\u{131}").replace('s', "\u{17f}");
        let mut variants = vec![name.to_string(), name.to_lowercase(), mixed(name)];
        if alike != name.to_lowercase() {
            variants.push(alike);
        }
        for variant in variants {
            let lookalike = !variant.is_ascii();
            for arity in 0..=6usize {
                if lookalike && arity > 3 {
                    continue;
                }
                // a few argument vectors per arity: all keys, numeric, keywords, random mix
                let mut vecs: Vec<Vec<Vec<u8>>> = vec![
                    (0..arity).map(|_| b("k")).collect(),
                    (0..arity).map(|i| if i == 0 { b("k") } else { b("1") }).collect(),
                    (0..arity).map(|i| if i == 0 { b("k") } else { b("abc") }).collect(),
                ];
                let extra = if thorough { 12 } else { 3 };
                for _ in 0..extra {
                    vecs.push((0..arity).map(|i| if i == 0 && gen.rng.gen_bool(0.7) { b("k") } else { fillers[gen.rng.gen_range(0..fillers.len())].to_vec() }).collect());
                }
                for v in vecs {
                    let mut argv = vec![variant.clone().into_bytes()];
                    argv.extend(v);
                    frame_case(out, &bulk_frame(&argv), "grid");
                    if arity == 0 {
                        break;
                    }
                }
            }
        }
    }
    // option keywords: every keyword of a command at every position after the fixed arguments, with and without a value
    let opts: &[(&[&str], &[&str])] = &[
        (&["SET", "k", "v"], &["EX", "PX", "EXAT", "PXAT", "NX", "XX", "GET", "KEEPTTL", "ex", "Nx", "BOGUS"]),
        (&["GETEX", "k"], &["EX", "PX", "EXAT", "PXAT", "PERSIST", "persist", "BOGUS"]),
        (&["EXPIRE", "k", "10"], &["NX", "XX", "GT", "LT", "gt", "BOGUS"]),
        (&["PEXPIRE", "k", "10"], &["NX", "XX", "GT", "LT", "BOGUS"]),
        (&["ZADD", "k"], &["NX", "XX", "GT", "LT", "CH", "INCR", "ch", "1", "m", "BOGUS"]),
        (&["ZRANGE", "k", "0", "-1"], &["WITHSCORES", "withscores", "REV", "BYSCORE", "BOGUS"]),
        (&["ZREVRANGE", "k", "0", "-1"], &["WITHSCORES", "withscores", "BOGUS"]),
        (&["ZRANGEBYSCORE", "k", "0", "1"], &["WITHSCORES", "LIMIT", "limit", "0", "5", "-1", "BOGUS"]),
        (&["SCAN", "0"], &["MATCH", "COUNT", "TYPE", "match", "*", "10", "-1", "BOGUS"]),
        (&["HSCAN", "k", "0"], &["MATCH", "COUNT", "NOVALUES", "*", "10", "BOGUS"]),
        (&["ZSCAN", "k", "0"], &["MATCH", "COUNT", "*", "10", "abc"]),
        (&["LMOVE", "a", "b"], &["LEFT", "RIGHT", "left", "Right", "UP"]),
        (&["LPOP", "k"], &["1", "0", "-1", "abc"]),
        (&["SPOP", "k"], &["1", "0", "-1", "abc"]),
        (&["EVAL", "return 1"], &["0", "1", "2", "-1", "k", "abc", "9223372036854775807"]),
        (&["EVALSHA", "abc"], &["0", "1", "2", "-1", "k", "abc"]),
        (&["SORT", "k"], &["ASC", "DESC", "ALPHA", "LIMIT", "0", "1", "BY", "STORE", "d", "GET", "#"]),
        (&["INFO"], &["server", "all", "x"]),
        (&["OBJECT"], &["ENCODING", "FREQ", "HELP", "k"]),
        (&["CLIENT"], &["SETNAME", "GETNAME", "ID", "INFO", "LIST", "x"]),
        (&["CONFIG"], &["GET", "SET", "RESETSTAT", "*", "a", "b"]),
        (&["SCRIPT"], &["LOAD", "EXISTS", "FLUSH", "KILL", "return 1", "a"]),
        (&["ACL"], &["WHOAMI", "LIST", "USERS", "GETUSER", "SETUSER", "DELUSER", "CAT", "GENPASS", "LOG", "DRYRUN", "HELP", "LOAD", "SAVE", "u", "on", "RESET", "64", "get", "k"]),
        (&["FUNCTION"], &["FLUSH", "LIST", "x"]),
        (&["DEBUG"], &["SLEEP", "0", "OBJECT", "k", "SET-ACTIVE-EXPIRE", "1"]),
        (&["COMMAND"], &["COUNT", "DOCS", "INFO", "get"]),
        (&["AUTH"], &["u", "p", "x"]),
        (&["SELECT"], &["0", "1", "-1", "abc"]),
        (&["WAIT"], &["0", "1", "abc"]),
    ];
    let maxlen = if thorough { 4 } else { 3 };
    for (fixed, pool) in opts {
        // all words of length 0..maxlen over the pool (capped), appended to the fixed part
        let mut words: Vec<Vec<usize>> = vec![vec![]];
        let mut frontier: Vec<Vec<usize>> = vec![vec![]];
        for _ in 0..maxlen {
            let mut next = Vec::new();
            for w in &frontier {
                for i in 0..pool.len() {
                    let mut x = w.clone();
                    x.push(i);
                    next.push(x);
                }
            }
            // cap the product: sample when it is large
            let cap = if thorough { 3000 } else { 500 };
            if next.len() > cap {
                let mut sampled = Vec::new();
                for _ in 0..cap {
                    sampled.push(next[gen.rng.gen_range(0..next.len())].clone());
                }
                next = sampled;
            }
            words.extend(next.iter().cloned());
            frontier = next;
        }
        for w in words {
            let mut argv: Argv = fixed.iter().map(|s| b(s)).collect();
            argv.extend(w.iter().map(|i| b(pool[*i])));
            frame_case(out, &bulk_frame(&argv), "options");
        }
    }
    // frames whose elements are not bulk strings, and non-frames
    let shapes: Vec<El> = vec![
        El::Arr(vec![]),
        El::Null,
        El::Int(5),
        El::Simple(b("PING")),
        El::Bulk(b("PING")),
        El::Arr(vec![El::Null]),
        El::Arr(vec![El::Int(1)]),
        El::Arr(vec![El::Simple(b("PING"))]),
        El::Arr(vec![El::Arr(vec![El::Bulk(b("PING"))])]),
    ];
    for s in &shapes {
        frame_case(out, s, "shape");
    }
    let subst: Vec<El> = vec![El::Null, El::Int(1), El::Int(-1), El::Int(i64::MAX), El::Int(i64::MIN), El::Simple(b("k")), El::Simple(b("1")), El::Arr(vec![]), El::Arr(vec![El::Bulk(b("k"))])];
    let nshape = if thorough { 6000 } else { 1200 };
    for _ in 0..nshape {
        let (_, argv) = if gen.rng.gen_bool(0.6) { gen.command() } else { gen.other_command() };
        let mut els: Vec<El> = argv.iter().map(|x| El::Bulk(x.clone())).collect();
        let at = gen.rng.gen_range(0..els.len());
        els[at] = subst[gen.rng.gen_range(0..subst.len())].clone();
        frame_case(out, &El::Arr(els), "shape");
    }
    for _ in 0..(if thorough { 30000 } else { 4000 }) {
        let (_, argv) = if gen.rng.gen_bool(0.5) { gen.command() } else { gen.other_command() };
        frame_case(out, &bulk_frame(&argv), "generator");
    }
    // numeric limits in every numeric position of the generated commands
    let limits: [&[u8]; 10] = [b"9223372036854775807", b"9223372036854775808", b"-9223372036854775808", b"-9223372036854775809", b"18446744073709551616",
                               b"+1", b" 1", b"1 ", b"0x10", b"1e3"];
    for _ in 0..(if thorough { 8000 } else { 1500 }) {
        let (_, mut argv) = gen.command();
        if argv.len() < 2 {
            continue;
        }
        let at = gen.rng.gen_range(1..argv.len());
        argv[at] = limits[gen.rng.gen_range(0..limits.len())].to_vec();
        frame_case(out, &bulk_frame(&argv), "limits");
    }
}

/// Replies whose element order is that of a hash table: two executors with equal content may differ.
const UNORDERED: &[&str] = &["SMEMBERS", "HKEYS", "HVALS", "HGETALL", "SUNION", "SINTER", "SDIFF"];

/// Commands that have no meaning inside a script (the code refuses them there by design).
fn script_safe(argv: &Argv) -> bool {
    let name = String::from_utf8_lossy(&argv[0]).to_uppercase();
    // refused inside scripts by design, or answering from hash-map order / randomness / the environment
    // (twins differ by nature there)
    !["EVAL", "EVALSHA", "SCRIPT", "MULTI", "EXEC", "DISCARD", "WATCH", "UNWATCH", "AUTH", "ACL", "HELLO", "QUIT", "CLIENT", "SELECT", "FUNCTION", "",
      "RANDOMKEY", "SPOP", "SRANDMEMBER", "KEYS", "SCAN", "HSCAN", "SSCAN", "ZSCAN", "INFO", "TIME", "DEBUG", "COMMAND", "CONFIG", "OBJECT", "WAIT"].contains(&name.as_str())
}

/// Every command name at arities 0..3 with plain fillers: direct vs redis.pcall on twin executors.
fn lua_grid(out: &mut Out) {
    for name in NAMES {
        for arity in 0..=3usize {
            for filler in ["k", "1"] {
                let mut argv: Argv = vec![b(name)];
                for i in 0..arity {
                    argv.push(if i == 0 { b("k") } else { b(filler) });
                }
                // replies that depend on hash-map order, randomness or the environment differ between twins by nature
                if !script_safe(&argv) || ["KEYS", "SCAN", "HSCAN", "RANDOMKEY", "SPOP", "INFO", "TIME", "DEBUG", "COMMAND", "CONFIG", "OBJECT", "WAIT", "FLUSHALL", "FLUSHDB"].contains(name) {
                    continue;
                }
                lua_fixed(out, &argv);
                if arity < 2 {
                    break;
                }
            }
        }
    }
}

fn lua_fixed(out: &mut Out, argv: &Argv) {
    lua_fixed_with(out, argv, false)
}

/// `literal`: arguments that are canonical integers are written into the script as Lua integer literals
/// (redis.call('EXPIRE', ARGV[1], -1)) instead of travelling as strings: a number a script passes means the
/// same as its decimal rendering sent by a client.
fn lua_fixed_with(out: &mut Out, argv: &Argv, literal: bool) {
    let run = out.n + 1;
    let now = 1000u64;
    let mut twins: Vec<CommandExecutor> = (0..3).map(|_| CommandExecutor::new()).collect();
    for ex in twins.iter_mut() {
        ex.set_time(VirtualTime::from_millis(now));
        // a little state of every type, so that commands find something
        for pre in [vec![b("SET"), b("s"), b("v")], vec![b("RPUSH"), b("l"), b("a")], vec![b("SADD"), b("st"), b("a")], vec![b("HSET"), b("h"), b("f"), b("1")], vec![b("ZADD"), b("z"), b("1"), b("a")]] {
            if let Ok(cmd) = parse_argv(&pre) {
                let _ = ex.execute(&cmd);
            }
        }
    }
    let j = |r: &Result<RespValue, String>| match r {
        Ok(v) => rv_json(v),
        Err(p) => json!({"t": "panic", "b": p.as_bytes(), "a": []}),
    };
    let (t1, rest) = twins.split_at_mut(1);
    let (t2, t3) = rest.split_at_mut(1);
    let direct = catch(|| match parse_argv(argv) {
        Ok(cmd) => t1[0].execute(&cmd),
        Err(e) => RespValue::err(e),
    });
    let script = |f: &str, ex: &mut CommandExecutor| {
        let text = if literal {
            let parts: Vec<String> = argv.iter().enumerate().map(|(i, x)| {
                let t = String::from_utf8_lossy(x).to_string();
                let canon = i > 0 && t.parse::<i64>().map(|n| n.to_string() == t && n.abs() < (1 << 50)).unwrap_or(false);
                if canon { t } else { format!("ARGV[{}]", i + 1) }
            }).collect();
            format!("return redis.{f}({})", parts.join(", "))
        } else {
            format!("return redis.{f}(table.unpack(ARGV))")
        };
        let mut a: Argv = vec![b("EVAL"), b(&text), b("0")];
        a.extend(argv.clone());
        catch(|| match parse_argv(&a) {
            Ok(cmd) => ex.execute(&cmd),
            Err(e) => RespValue::err(format!("<frame> {e}")),
        })
    };
    let call = script("call", &mut t2[0]);
    let pcall = script("pcall", &mut t3[0]);
    let (ds, cs, ps) = (project(&mut t1[0], now), project(&mut t2[0], now), project(&mut t3[0], now));
    let canon = |v: &Value| serde_json::to_string(v).unwrap_or_default();
    out.emit(&json!({"t": "lua", "run": run, "ncmd": 1, "unordered": UNORDERED.contains(&String::from_utf8_lossy(&argv[0]).to_uppercase().as_str()), "prog": [argv.iter().map(|x| String::from_utf8_lossy(x).to_string()).collect::<Vec<_>>()], "prefix": ["<fixed state>"],
                     "direct": {"rs": [j(&direct)], "sh": canon(&ds), "sh_first_err": canon(&ds), "s": ds},
                     "call": {"r": j(&call), "sh": canon(&cs), "s": cs},
                     "pcall": {"r": j(&pcall), "sh": canon(&ps), "s": ps}}));
}

/// Numbers passed by a script as numbers: every numeric argument position of the data commands with negative,
/// zero and positive integers (cursors, counts, offsets, indices, TTLs, increments, scores, limits).
fn lua_numeric(out: &mut Out) {
    let cases: Vec<Vec<&str>> = vec![
        vec!["SCAN", "-1"], vec!["SCAN", "0", "COUNT", "-5"], vec!["SCAN", "0", "COUNT", "0"], vec!["HSCAN", "h", "-1"], vec!["ZSCAN", "z", "-3"],
        vec!["SETRANGE", "s", "-1", "x"], vec!["SETRANGE", "s", "2", "x"], vec!["GETBIT", "s", "-1"], vec!["GETBIT", "s", "3"], vec!["SETBIT", "s", "-1", "1"],
        vec!["SETBIT", "s", "7", "1"], vec!["SETBIT", "s", "7", "-1"], vec!["LPOP", "l", "-1"], vec!["LPOP", "l", "1"], vec!["RPOP", "l", "-2"], vec!["RPOP", "l", "0"],
        vec!["SELECT", "-1"], vec!["SELECT", "0"], vec!["EXPIRE", "s", "-1"], vec!["EXPIRE", "s", "100"], vec!["PEXPIRE", "s", "-5"], vec!["PEXPIRE", "s", "5000"],
        vec!["EXPIREAT", "s", "-1"], vec!["PEXPIREAT", "s", "-1"], vec!["INCRBY", "n", "-7"], vec!["INCRBY", "n", "7"], vec!["DECRBY", "n", "-3"], vec!["INCRBY", "s", "1"],
        vec!["LRANGE", "l", "-2", "-1"], vec!["LRANGE", "l", "0", "-1"], vec!["LTRIM", "l", "-1", "0"], vec!["LINDEX", "l", "-1"], vec!["LSET", "l", "-1", "q"], vec!["LSET", "l", "-9", "q"],
        vec!["GETRANGE", "s", "-3", "-1"], vec!["ZRANGE", "z", "-2", "-1"], vec!["ZREVRANGE", "z", "0", "-1"], vec!["ZADD", "z", "-5", "m"], vec!["ZADD", "z", "3", "m"],
        vec!["ZRANGEBYSCORE", "z", "-1", "5", "LIMIT", "0", "-1"], vec!["ZRANGEBYSCORE", "z", "0", "5", "LIMIT", "-1", "2"], vec!["ZRANGEBYSCORE", "z", "0", "5", "LIMIT", "0", "0"],
        vec!["ZCOUNT", "z", "-1", "1"], vec!["HINCRBY", "h", "f", "-4"], vec!["HINCRBY", "h", "f", "4"], vec!["SETEX", "s", "-1", "v"], vec!["SETEX", "s", "10", "v"], vec!["PSETEX", "s", "0", "v"],
        vec!["SET", "s", "v", "EX", "-1"], vec!["SET", "s", "v", "PX", "100"], vec!["SET", "s", "5"], vec!["SET", "s", "-5"], vec!["GETEX", "s", "EX", "-1"], vec!["GETEX", "s", "PX", "50"],
        vec!["APPEND", "s", "12"], vec!["RPUSH", "l", "-1", "2"], vec!["SADD", "st", "-1", "0"], vec!["HSET", "h", "g", "-2"], vec!["SISMEMBER", "st", "-1"], vec!["MSET", "a", "-1", "b2", "2"],
        vec!["ECHO", "-17"], vec!["DEL", "s", "-1"], vec!["EXISTS", "s", "0"], vec!["LPUSH", "l", "0"], vec!["HGET", "h", "0"],
    ];
    for c in cases {
        let argv: Argv = c.iter().map(|x| b(x)).collect();
        lua_fixed_with(out, &argv, true);
    }
}

/// Twin executors: a program of commands run directly, through redis.call and through redis.pcall.
fn lua_case(out: &mut Out, gen: &mut Gen) {
    let run = out.n + 1;
    // a common prefix of commands builds the state
    let mut twins: Vec<CommandExecutor> = (0..3).map(|_| CommandExecutor::new()).collect();
    let now = 1000u64;
    for ex in twins.iter_mut() {
        ex.set_time(VirtualTime::from_millis(now));
    }
    let nprefix = gen.rng.gen_range(0..6);
    let mut prefix = Vec::new();
    for _ in 0..nprefix {
        let (_, argv) = gen.command();
        if let Ok(cmd) = parse_argv(&argv) {
            for ex in twins.iter_mut() {
                let _ = catch(|| ex.execute(&cmd));
            }
            prefix.push(argv.iter().map(|x| String::from_utf8_lossy(x).to_string()).collect::<Vec<_>>());
        }
    }
    // the program: 1..3 commands; the script returns the last command's reply
    let ncmd = if gen.rng.gen_bool(0.5) { 1 } else { gen.rng.gen_range(2..4) };
    // mostly well-formed commands; some from the failure pool (wrong arity, bad options, unknown names)
    let mut prog: Vec<(Value, Argv)> = (0..ncmd).map(|_| if gen.rng.gen_range(0..5) == 0 { gen.other_command() } else { gen.command() }).filter(|(_, a)| script_safe(a)).collect();
    if prog.is_empty() {
        return;
    }
    // commands that look at the environment (clock, a random key, the key count); their own reply is not
    // compared (they never come last), what they do to the commands after them is
    if gen.rng.gen_range(0..4) == 0 {
        let obs: [&[&str]; 6] = [&["TIME"], &["RANDOMKEY"], &["DBSIZE"], &["KEYS", "*"], &["SCAN", "0"], &["INFO"]];
        let o = obs[gen.rng.gen_range(0..obs.len())];
        let at = gen.rng.gen_range(0..prog.len());
        prog.insert(at, (json!({"op": "OTHER"}), o.iter().map(|x| b(x)).collect()));
    }
    let ncmd = prog.len();
    // a call the scripting layer refuses before any command is built (a command that may not run from a script, an argument that
    // is not a string or a number, no argument at all), caught by the script: it is no command, so the direct twin has nothing to
    // run for it - and it must leave nothing behind for the calls that follow it in the same script
    let refused: Option<(usize, &str)> = if gen.rng.gen_range(0..3) == 0 {
        let texts = ["pcall(redis.call, 'MULTI') ", "redis.pcall('EXEC') ", "pcall(redis.call, 'RPUSH', 'x', {}) ",
                     "pcall(redis.call) ", "redis.pcall('WATCH', 'x') ", "redis.pcall('SUBSCRIBE', 'c') "];
        Some((gen.rng.gen_range(0..prog.len()), texts[gen.rng.gen_range(0..texts.len())]))
    } else {
        None
    };
    let j = |r: &Result<RespValue, String>| match r {
        Ok(v) => rv_json(v),
        Err(p) => json!({"t": "panic", "b": p.as_bytes(), "a": []}),
    };
    // direct: every command in order
    let mut direct = Vec::new();
    let (t1, rest) = twins.split_at_mut(1);
    let (t2, t3) = rest.split_at_mut(1);
    // (redis.call aborts the script at the first error: the direct twin for `call` stops there too)
    let mut stopped = false;
    let mut dcall_state = None;
    for (_, argv) in &prog {
        let r = catch(|| match parse_argv(argv) {
            Ok(cmd) => t1[0].execute(&cmd),
            Err(e) => RespValue::err(e),
        });
        let is_err = matches!(&r, Ok(RespValue::Error(_)) | Err(_));
        direct.push(j(&r));
        if is_err && !stopped {
            stopped = true;
            dcall_state = Some(project(&mut t1[0], now));
        }
    }
    let dstate = project(&mut t1[0], now);
    let script = |f: &str, ex: &mut CommandExecutor| {
        let mut text = String::new();
        let mut flat: Argv = Vec::new();
        for (i, (_, argv)) in prog.iter().enumerate() {
            let lo = flat.len() + 1;
            flat.extend(argv.clone());
            let hi = flat.len();
            if let Some((at, t)) = refused {
                if at == i {
                    text.push_str(t);
                }
            }
            if i + 1 == prog.len() {
                text.push_str(&format!("return redis.{f}(table.unpack(ARGV, {lo}, {hi}))"));
            } else {
                text.push_str(&format!("redis.{f}(table.unpack(ARGV, {lo}, {hi})) "));
            }
        }
        let mut a: Argv = vec![b("EVAL"), b(&text), b("0")];
        a.extend(flat);
        catch(|| match parse_argv(&a) {
            Ok(cmd) => ex.execute(&cmd),
            Err(e) => RespValue::err(format!("<frame> {e}")),
        })
    };
    let call = script("call", &mut t2[0]);
    let pcall = script("pcall", &mut t3[0]);
    let cs = project(&mut t2[0], now);
    let ps = project(&mut t3[0], now);
    let first = dcall_state.unwrap_or_else(|| dstate.clone());
    let canon = |v: &Value| serde_json::to_string(v).unwrap_or_default();
    let last_name = prog.last().map(|(_, a)| String::from_utf8_lossy(&a[0]).to_uppercase()).unwrap_or_default();
    out.emit(&json!({"t": "lua", "run": run, "ncmd": ncmd, "refused": refused.map(|(i, t)| json!([i, t])), "unordered": UNORDERED.contains(&last_name.as_str()),
                     "prog": prog.iter().map(|(_, argv)| argv.iter().map(|x| String::from_utf8_lossy(x).to_string()).collect::<Vec<_>>()).collect::<Vec<_>>(),
                     "prefix": prefix,
                     "direct": {"rs": direct, "sh": canon(&dstate), "sh_first_err": canon(&first), "s": dstate},
                     "call": {"r": j(&call), "sh": canon(&cs), "s": cs},
                     "pcall": {"r": j(&pcall), "sh": canon(&ps), "s": ps}}));
}

pub fn main(args: &[String]) -> i32 {
    let a = Args::parse(args);
    quiet_panics();
    let mut out = Out::create(&a.str("out", "parse_cases.ndjson"));
    let mut gen = Gen::new(a.u64("seed", 1), false);
    match a.pos.first().map(|s| s.as_str()) {
        Some("frames") => frames(&mut out, &mut gen, a.str("tier", "quick") == "thorough"),
        Some("lua") => {
            lua_grid(&mut out);
            lua_numeric(&mut out);
            for _ in 0..a.usize("n", 1000) {
                lua_case(&mut out, &mut gen);
            }
        }
        _ => {
            eprintln!("usage: vh parse frames|lua");
            return 2;
        }
    }
    println!("{{\"cases\": {}}}", out.finish());
    0
}
