//! Resp.tla binding (C15): both decoders on enumerated / random / targeted byte strings, the
//! incremental codec under every fragmentation, and the three encoders.
//!   vh resp enum --maxlen L --out cases        every string over the grammar alphabet
//!   vh resp random --seed S --n N --out cases  random strings (panic/alloc check on all, sample logged)
//!   vh resp targeted --out cases               huge / negative lengths, deep nesting (may kill the process)
//!   vh resp frag --out cases                   every fragmentation of valid streams
//!   vh resp encode --seed S --out cases        value trees through the three encoders
use crate::util::*;
use bytes::{Bytes, BytesMut};
use rand::Rng;
use redis_sim::redis::{RespCodec, RespParser, RespValue, RespValueZeroCopy};
use serde_json::{json, Value};

pub const ALPHABET: [u8; 11] = [b'+', b'-', b':', b'$', b'*', b'0', b'1', b'2', b'\r', b'\n', b'a'];

fn v_json(t: &str, b: &[u8], a: Vec<Value>) -> Value {
    json!({"t": t, "b": b, "a": a})
}

fn zc_json(v: &RespValueZeroCopy) -> Value {
    match v {
        RespValueZeroCopy::SimpleString(b) => v_json("simple", b, vec![]),
        RespValueZeroCopy::Error(b) => v_json("error", b, vec![]),
        RespValueZeroCopy::Integer(n) => v_json("int", n.to_string().as_bytes(), vec![]),
        RespValueZeroCopy::BulkString(Some(b)) => v_json("bulk", b, vec![]),
        RespValueZeroCopy::BulkString(None) => v_json("nullbulk", &[], vec![]),
        RespValueZeroCopy::Array(Some(a)) => v_json("array", &[], a.iter().map(zc_json).collect()),
        RespValueZeroCopy::Array(None) => v_json("nullarray", &[], vec![]),
    }
}

pub fn rv_json(v: &RespValue) -> Value {
    match v {
        RespValue::SimpleString(s) => v_json("simple", s.as_bytes(), vec![]),
        RespValue::Error(s) => v_json("error", s.as_bytes(), vec![]),
        RespValue::Integer(n) => v_json("int", n.to_string().as_bytes(), vec![]),
        RespValue::BulkString(Some(b)) => v_json("bulk", b, vec![]),
        RespValue::BulkString(None) => v_json("nullbulk", &[], vec![]),
        RespValue::Array(Some(a)) => v_json("array", &[], a.iter().map(rv_json).collect()),
        RespValue::Array(None) => v_json("nullarray", &[], vec![]),
    }
}

fn codec_outcome(s: &[u8]) -> Value {
    let mut buf = BytesMut::from(s);
    match catch(|| RespCodec::parse(&mut buf)) {
        Ok(Ok(Some(v))) => json!({"k": "val", "n": s.len() - buf.len(), "v": zc_json(&v)}),
        Ok(Ok(None)) => {
            if buf.len() != s.len() {
                json!({"k": "consumed-without-value"})
            } else {
                json!({"k": "more"})
            }
        }
        Ok(Err(_)) => json!({"k": "err"}),
        Err(p) => json!({"k": "panic", "msg": p}),
    }
}

fn parser_outcome(s: &[u8]) -> Value {
    match catch(|| RespParser::parse(s)) {
        Ok(Ok((v, n))) => json!({"k": "val", "n": n, "v": rv_json(&v)}),
        Ok(Err(e)) => {
            // RespParser reports "need more" as an error string too
            if e == "Empty input" || e == "No CRLF found" || e == "Incomplete bulk string" {
                json!({"k": "more"})
            } else {
                json!({"k": "err"})
            }
        }
        Err(p) => json!({"k": "panic", "msg": p}),
    }
}

fn emit_case(out: &mut Out, s: &[u8], alloc: Option<(usize, usize)>) {
    let run = out.n + 1;
    let mut ev = json!({"t": "dec", "run": run, "s": s, "c": codec_outcome(s), "p": parser_outcome(s)});
    if let Some((c, p)) = alloc {
        ev["alloc"] = json!([c, p]);
    }
    out.emit(&ev);
}

/// bytes allocated by f (sum of allocation sizes on this thread's run, from the counting allocator)
fn allocated<T>(f: impl FnOnce() -> T) -> (T, usize) {
    let before = crate::ALLOCATED.load(std::sync::atomic::Ordering::Relaxed);
    let r = f();
    let after = crate::ALLOCATED.load(std::sync::atomic::Ordering::Relaxed);
    (r, after - before)
}

fn alloc_pair(s: &[u8]) -> (usize, usize) {
    let (_, a) = allocated(|| {
        let mut buf = BytesMut::from(s);
        let _ = catch(|| RespCodec::parse(&mut buf));
    });
    let (_, b) = allocated(|| {
        let _ = catch(|| RespParser::parse(s));
    });
    (a, b)
}

fn enumerate(maxlen: usize, out: &mut Out) {
    let mut cur: Vec<u8> = Vec::new();
    fn rec(cur: &mut Vec<u8>, maxlen: usize, out: &mut Out) {
        emit_case(out, cur, None);
        if cur.len() == maxlen {
            return;
        }
        for b in ALPHABET {
            cur.push(b);
            rec(cur, maxlen, out);
            cur.pop();
        }
    }
    rec(&mut cur, maxlen, out);
}

fn targeted() -> Vec<Vec<u8>> {
    let mut v: Vec<Vec<u8>> = Vec::new();
    for t in ["$", "*"] {
        for n in ["-2", "-1", "-0", "-9223372036854775808", "-9223372036854775809", "9223372036854775807", "9223372036854775808",
                  "99999999999999999999", "9999999999", "2147483648", "4294967295", "4294967296", "1000000000", "+3", "03", " 3", "3 ", "", "+", "-", "1e3", "0x10"] {
            v.push(format!("{t}{n}\r\n").into_bytes());
            v.push(format!("{t}{n}\r\nabc\r\n").into_bytes());
            v.push(format!("*2\r\n{t}{n}\r\n:1\r\n").into_bytes());
        }
    }
    for n in [":9223372036854775807\r\n", ":9223372036854775808\r\n", ":-9223372036854775808\r\n", ":-9223372036854775809\r\n", ":+5\r\n", ":007\r\n", ":-0\r\n", ":\r\n", ":-\r\n", ":1 \r\n"] {
        v.push(n.as_bytes().to_vec());
    }
    // CR without LF, LF without CR
    for s in ["+a\rb\r\n", "+a\rb", "+a\nb\r\n", "-e\r", "$3\r\nab\rc\r\n", "$1\r\naXY", "*1\r\n+x\ry\r\n", "\r\n", "+\r\n"] {
        v.push(s.as_bytes().to_vec());
    }
    // nesting
    for d in [127usize, 128, 129, 1000, 100_000] {
        let mut s = Vec::new();
        for _ in 0..d {
            s.extend_from_slice(b"*1\r\n");
        }
        v.push(s.clone());
        s.extend_from_slice(b":1\r\n");
        v.push(s);
    }
    // wide arrays announced but absent / partly present
    v.push(b"*1000000000\r\n:1\r\n:2\r\n".to_vec());
    v.push(b"*3\r\n:1\r\n:2\r\n".to_vec());
    v.push(b"$1000000000\r\nabc".to_vec());
    v
}

/// a cheap digest of a rendering (frames of many kB are compared by digest)
fn md5ish(s: &str) -> u64 {
    let mut h: u64 = 0xcbf29ce484222325;
    for x in s.bytes() {
        h = (h ^ x as u64).wrapping_mul(0x100000001b3);
    }
    h
}

fn random_value(rng: &mut impl Rng, depth: usize) -> RespValue {
    let line = |rng: &mut dyn rand::RngCore| -> String {
        let n = rng.gen_range(0..6);
        (0..n).map(|_| ['O', 'K', ' ', 'e', '-', '\'', ':', 'é'][rng.gen_range(0..8)]).collect()
    };
    match rng.gen_range(0..if depth == 0 { 6 } else { 8 }) {
        0 => RespValue::SimpleString(line(rng).into()),
        1 => {
            // any error code word, also none: an encoder writes the text it is given
            let code = ["ERR ", "ERR ", "WRONGTYPE ", "NOSCRIPT ", "MYCODE ", "", "BUSY ", "noauth ", "EXECABORT "][rng.gen_range(0..9)];
            RespValue::Error(format!("{code}{}", line(rng)).into())
        }
        2 => RespValue::Integer([0, 1, -1, 42, i64::MAX, i64::MIN][rng.gen_range(0..6)]),
        3 => RespValue::BulkString(None),
        4 => RespValue::Array(None),
        5 => {
            let n = rng.gen_range(0..5);
            RespValue::BulkString(Some((0..n).map(|_| [0u8, 13, 10, 97, 255, 36][rng.gen_range(0..6)]).collect()))
        }
        _ => {
            let n = rng.gen_range(0..4);
            RespValue::Array(Some((0..n).map(|_| random_value(rng, depth - 1)).collect()))
        }
    }
}

fn to_zc(v: &RespValue) -> RespValueZeroCopy {
    match v {
        RespValue::SimpleString(s) => RespValueZeroCopy::SimpleString(Bytes::copy_from_slice(s.as_bytes())),
        RespValue::Error(s) => RespValueZeroCopy::Error(Bytes::copy_from_slice(s.as_bytes())),
        RespValue::Integer(n) => RespValueZeroCopy::Integer(*n),
        RespValue::BulkString(b) => RespValueZeroCopy::BulkString(b.as_ref().map(|b| Bytes::copy_from_slice(b))),
        RespValue::Array(a) => RespValueZeroCopy::Array(a.as_ref().map(|a| a.iter().map(to_zc).collect())),
    }
}

pub fn emit_encode_case(out: &mut Out, v: &RespValue, origin: &str) {
    let run = out.n + 1;
    let e1 = catch(|| RespParser::encode(v));
    let e2 = catch(|| RespCodec::encode(&to_zc(v)).to_vec());
    let e3 = catch(|| redis_sim::production::verif::encode_resp(v));
    let enc = |r: Result<Vec<u8>, String>| match r {
        Ok(b) => json!(b),
        Err(_) => json!([0]),
    };
    out.emit(&json!({"t": "enc", "run": run, "origin": origin, "v": rv_json(v), "e": [enc(e1), enc(e2), enc(e3)]}));
}

pub fn main(args: &[String]) -> i32 {
    let a = Args::parse(args);
    quiet_panics();
    let mut out = Out::create(&a.str("out", "resp_cases.ndjson"));
    match a.pos.first().map(|s| s.as_str()) {
        Some("enum") => enumerate(a.usize("maxlen", 4), &mut out),
        Some("random") => {
            let mut rng = rng(a.u64("seed", 1));
            let n = a.usize("n", 100000);
            let log_every = (n / a.usize("log", 5000)).max(1);
            let mut worst = (0usize, 0usize);
            for i in 0..n {
                let len = rng.gen_range(0..40);
                let s: Vec<u8> = (0..len)
                    .map(|_| if rng.gen_bool(0.8) { ALPHABET[rng.gen_range(0..ALPHABET.len())] } else { rng.gen() })
                    .collect();
                let (ca, pa) = alloc_pair(&s);
                worst = (worst.0.max(ca.saturating_sub(64 * s.len())), worst.1.max(pa.saturating_sub(64 * s.len())));
                if i % log_every == 0 || ca > 64 * s.len() + 4096 || pa > 64 * s.len() + 4096 {
                    emit_case(&mut out, &s, Some((ca, pa)));
                } else {
                    // still require: no panic
                    let c = codec_outcome(&s);
                    let p = parser_outcome(&s);
                    if c["k"] == "panic" || p["k"] == "panic" || c["k"] == "consumed-without-value" {
                        emit_case(&mut out, &s, Some((ca, pa)));
                    }
                }
            }
        }
        Some("targeted") => {
            for (i, s) in targeted().iter().enumerate() {
                eprintln!("TARGET {i}");
                let (ca, pa) = alloc_pair(s);
                // log long inputs by a short prefix (nesting family); the verdict for those is on k only
                if s.len() > 400 {
                    let run = out.n + 1;
                    let d = s.windows(4).filter(|w| w == b"*1\r\n").count();
                    out.emit(&json!({"t": "deep", "run": run, "len": s.len(), "d": d, "payload": s.ends_with(b":1\r\n"),
                                     "c": codec_outcome(s)["k"], "p": parser_outcome(s)["k"], "alloc": [ca, pa]}));
                } else {
                    emit_case(&mut out, s, Some((ca, pa)));
                }
            }
            eprintln!("TARGET done");
        }
        Some("frag") => {
            let streams: Vec<&[u8]> = vec![
                b"+OK\r\n:12\r\n$3\r\nabc\r\n",
                b"*2\r\n$3\r\nGET\r\n$1\r\nk\r\n*1\r\n$4\r\nPING\r\n",
                b"$-1\r\n*-1\r\n*0\r\n",
                b"*2\r\n*1\r\n:1\r\n$2\r\n\r\n\r\n-ERR x\r\n",
                b"$5\r\na\r\nb\r\n\r\n+a\rb\r\n",
            ];
            for s in streams {
                for i in 0..=s.len() {
                    for j in i..=s.len() {
                        let run = out.n + 1;
                        let mut buf = BytesMut::new();
                        let mut frames = Vec::new();
                        let mut bad = String::new();
                        for part in [&s[..i], &s[i..j], &s[j..]] {
                            buf.extend_from_slice(part);
                            loop {
                                match catch(|| RespCodec::parse(&mut buf)) {
                                    Ok(Ok(Some(v))) => frames.push(zc_json(&v)),
                                    Ok(Ok(None)) => break,
                                    Ok(Err(e)) => {
                                        bad = format!("err {e}");
                                        break;
                                    }
                                    Err(p) => {
                                        bad = format!("panic {p}");
                                        break;
                                    }
                                }
                            }
                        }
                        out.emit(&json!({"t": "frag", "run": run, "s": s, "cuts": [i, j], "frames": frames, "left": buf.len(), "bad": bad}));
                    }
                }
            }
        }
        // frames far larger than any buffer size constant, fed in pieces: same frames as when fed whole
        Some("fragbig") => {
            for n in [1000usize, 8192, 65000, 65536, 65537, 70000, 100_000, 1 << 20, (4 << 20) + 3] {
                let mut s: Vec<u8> = Vec::new();
                s.extend_from_slice(b"*3\r\n$6\r\nAPPEND\r\n$1\r\nk\r\n");
                s.extend_from_slice(format!("${n}\r\n").as_bytes());
                s.extend((0..n).map(|i| b'a' + (i % 23) as u8));
                s.extend_from_slice(b"\r\n*1\r\n$4\r\nPING\r\n:7\r\n");
                let feed = |parts: Vec<&[u8]>| -> (Vec<String>, usize, String) {
                    let mut buf = BytesMut::new();
                    let mut frames = Vec::new();
                    let mut bad = String::new();
                    'outer: for part in parts {
                        buf.extend_from_slice(part);
                        loop {
                            match catch(|| RespCodec::parse(&mut buf)) {
                                Ok(Ok(Some(v))) => frames.push(format!("{:x}", md5ish(&zc_json(&v).to_string()))),
                                Ok(Ok(None)) => break,
                                Ok(Err(e)) => {
                                    bad = format!("err {e}");
                                    break 'outer;
                                }
                                Err(p) => {
                                    bad = format!("panic {p}");
                                    break 'outer;
                                }
                            }
                        }
                    }
                    (frames, buf.len(), bad)
                };
                let whole = feed(vec![&s[..]]);
                let len = s.len();
                let mut cutsets: Vec<Vec<usize>> = vec![vec![n / 2], vec![10, n + 5], vec![len - 1], vec![len - 20, len - 3], vec![30 + n / 3, 30 + 2 * n / 3]];
                if len > 65537 {
                    cutsets.push(vec![65536]);
                    cutsets.push(vec![65537]);
                    cutsets.push(vec![65536, 65538]);
                }
                cutsets.push((1..len / 8192 + 1).map(|i| i * 8192).filter(|c| *c < len).collect());
                cutsets.push((1..len / 16384 + 1).map(|i| i * 16384 - 1).filter(|c| *c < len).collect());
                for cuts in cutsets {
                    let mut parts: Vec<&[u8]> = Vec::new();
                    let mut last = 0;
                    for c in &cuts {
                        if *c > last && *c < len {
                            parts.push(&s[last..*c]);
                            last = *c;
                        }
                    }
                    parts.push(&s[last..]);
                    let got = feed(parts);
                    out.emit(&json!({"t": "fragbig", "run": out.n + 1, "n": n, "ncuts": cuts.len(), "first_cut": cuts.first(), "nframes": got.0.len(), "whole_nframes": whole.0.len(),
                                     "same": got.0 == whole.0, "left": got.1, "bad": got.2, "whole_bad": whole.2}));
                }
            }
        }
        Some("encode") => {
            let mut rng = rng(a.u64("seed", 1));
            for _ in 0..a.usize("n", 2000) {
                let v = random_value(&mut rng, 2);
                emit_encode_case(&mut out, &v, "random");
            }
        }
        _ => {
            eprintln!("usage: vh resp enum|random|targeted|frag|encode");
            return 2;
        }
    }
    println!("{{\"cases\": {}}}", out.finish());
    0
}
