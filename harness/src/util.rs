//! Shared helpers: argument parsing, ndjson output, seeded RNG, panic capture.
use rand::SeedableRng;
use rand_chacha::ChaCha8Rng;
use serde_json::Value;
use std::collections::HashMap;
use std::io::{BufRead, BufWriter, Write};

pub struct Args {
    pub pos: Vec<String>,
    pub kv: HashMap<String, String>,
}

impl Args {
    pub fn parse(a: &[String]) -> Args {
        let mut pos = Vec::new();
        let mut kv = HashMap::new();
        let mut i = 0;
        while i < a.len() {
            if let Some(k) = a[i].strip_prefix("--") {
                if i + 1 < a.len() && !a[i + 1].starts_with("--") {
                    kv.insert(k.to_string(), a[i + 1].clone());
                    i += 2;
                } else {
                    kv.insert(k.to_string(), "1".to_string());
                    i += 1;
                }
            } else {
                pos.push(a[i].clone());
                i += 1;
            }
        }
        Args { pos, kv }
    }
    pub fn get(&self, k: &str) -> Option<&str> {
        self.kv.get(k).map(|s| s.as_str())
    }
    pub fn u64(&self, k: &str, d: u64) -> u64 {
        self.get(k).and_then(|s| s.parse().ok()).unwrap_or(d)
    }
    pub fn usize(&self, k: &str, d: usize) -> usize {
        self.u64(k, d as u64) as usize
    }
    pub fn str(&self, k: &str, d: &str) -> String {
        self.get(k).unwrap_or(d).to_string()
    }
}

pub fn rng(seed: u64) -> ChaCha8Rng {
    ChaCha8Rng::seed_from_u64(seed)
}

pub struct Out {
    w: BufWriter<std::fs::File>,
    pub n: usize,
}

impl Out {
    pub fn create(path: &str) -> Out {
        let f = std::fs::File::create(path).unwrap_or_else(|e| panic!("create {path}: {e}"));
        Out { w: BufWriter::new(f), n: 0 }
    }
    pub fn emit(&mut self, v: &Value) {
        // TLC's Json module cannot read `null`: never emit it
        let v = &scrub(v);
        serde_json::to_writer(&mut self.w, v).unwrap();
        self.w.write_all(b"\n").unwrap();
        self.n += 1;
    }
    pub fn finish(mut self) -> usize {
        self.w.flush().unwrap();
        self.n
    }
}

pub fn read_ndjson(path: &str) -> Vec<Value> {
    let f = std::fs::File::open(path).unwrap_or_else(|e| panic!("open {path}: {e}"));
    std::io::BufReader::new(f)
        .lines()
        .map(|l| l.unwrap())
        .filter(|l| !l.trim().is_empty())
        .map(|l| serde_json::from_str(&l).unwrap_or_else(|e| panic!("bad json {l}: {e}")))
        .collect()
}

/// Run `f`, turning a panic of the code under test into data.
pub fn catch<T>(f: impl FnOnce() -> T) -> Result<T, String> {
    let r = std::panic::catch_unwind(std::panic::AssertUnwindSafe(f));
    r.map_err(|e| {
        if let Some(s) = e.downcast_ref::<&str>() {
            s.to_string()
        } else if let Some(s) = e.downcast_ref::<String>() {
            s.clone()
        } else {
            "panic".to_string()
        }
    })
}

pub fn quiet_panics() {
    std::panic::set_hook(Box::new(|_| {}));
}

/// Bytes as a JSON array of ints (TLC cannot index strings).
pub fn bytes_json(b: &[u8]) -> Value {
    Value::Array(b.iter().map(|x| Value::from(*x as u64)).collect())
}

fn scrub(v: &Value) -> Value {
    match v {
        Value::Null => Value::String("null".into()),
        Value::Array(a) => Value::Array(a.iter().map(scrub).collect()),
        Value::Object(o) => Value::Object(o.iter().map(|(k, x)| (k.clone(), scrub(x))).collect()),
        x => x.clone(),
    }
}

/// Choose the four bytes at `pos` of `data` so that `sum_of(data)` (any CRC-32 of an image in which those
/// bytes appear verbatim - an affine map of their 32 bits) equals `target`.  Returns whether it was reached.
pub fn forge_crc(data: &mut [u8], pos: usize, target: u32, sum_of: &dyn Fn(&[u8]) -> u32) -> bool {
    for j in 0..4 {
        data[pos + j] = 0;
    }
    let base = sum_of(data);
    let mut cols = [0u32; 32];
    for bit in 0..32 {
        data[pos + bit / 8] = 1 << (bit % 8);
        cols[bit] = sum_of(data) ^ base;
        data[pos + bit / 8] = 0;
    }
    let want = target ^ base;
    let mut rows: Vec<(u32, bool)> = (0..32)
        .map(|ob| {
            let mut m = 0u32;
            for (b, c) in cols.iter().enumerate() {
                if (c >> ob) & 1 == 1 {
                    m |= 1 << b;
                }
            }
            (m, (want >> ob) & 1 == 1)
        })
        .collect();
    let mut pivot = [usize::MAX; 32];
    let mut r = 0;
    for v in 0..32 {
        if let Some(p) = (r..32).find(|&i| (rows[i].0 >> v) & 1 == 1) {
            rows.swap(r, p);
            for i in 0..32 {
                if i != r && (rows[i].0 >> v) & 1 == 1 {
                    rows[i].0 ^= rows[r].0;
                    rows[i].1 ^= rows[r].1;
                }
            }
            pivot[v] = r;
            r += 1;
        }
    }
    let mut x = 0u32;
    for v in 0..32 {
        if pivot[v] != usize::MAX && rows[pivot[v]].1 {
            x |= 1 << v;
        }
    }
    for j in 0..4 {
        data[pos + j] = (x >> (8 * j)) as u8;
    }
    sum_of(data) == target
}
