//! C20 binding: every built-in simulation / DST harness run from (harness, preset, seed).
//!   vh repro run --harness H|all --seeds a,b,c --ops N --tag T --out trace
//! One record per step (where the harness exposes its last operation) and a final record
//! with the state dump and the verdict.  The driver runs this in separate processes and in
//! the same process twice and hands the traces to TLC (ReproTrace) for comparison.
use crate::util::*;
use redis_sim::redis::{
    ExecutorDSTConfig, ExecutorDSTHarness, HashDSTConfig, HashDSTHarness, ListDSTConfig, ListDSTHarness, SetDSTConfig, SetDSTHarness,
    SortedSetDSTConfig, SortedSetDSTHarness, TransactionDSTConfig, TransactionDSTHarness,
};
use redis_sim::replication::crdt_dst::{CRDTDSTConfig, GCounterDSTHarness, ORSetDSTHarness, PNCounterDSTHarness, VectorClockDSTHarness};
use redis_sim::simulator::dst_integration::{KeyDistribution, RedisDSTSimulation};
use redis_sim::simulator::partition_tests::{run_partition_test, PartitionConfig};
use redis_sim::simulator::{DSTConfig, DSTSimulation, PipelineSimulator};
use redis_sim::streaming::compaction_dst::{CompactionDSTConfig, CompactionDSTHarness};
use redis_sim::streaming::dst::{StreamingDSTConfig, StreamingDSTHarness};
use redis_sim::streaming::wal_dst::{WalDSTConfig, WalDSTHarness};
use serde_json::json;

/// Canonical form of a Debug rendering: the members of every `{...}` group are sorted
/// (hash maps / hash sets print in iteration order, which differs between two maps with the
/// same content); `[...]` and `(...)` keep their order.
pub fn canon(s: &str) -> String {
    let b: Vec<char> = s.chars().collect();
    let mut i = 0;
    let out = canon_seq(&b, &mut i, None);
    out
}

fn canon_seq(b: &[char], i: &mut usize, close: Option<char>) -> String {
    // items separated by ',' at this depth
    let mut items: Vec<String> = Vec::new();
    let mut cur = String::new();
    while *i < b.len() {
        let c = b[*i];
        match c {
            '"' => {
                cur.push(c);
                *i += 1;
                while *i < b.len() {
                    let d = b[*i];
                    cur.push(d);
                    *i += 1;
                    if d == '\\' && *i < b.len() {
                        cur.push(b[*i]);
                        *i += 1;
                    } else if d == '"' {
                        break;
                    }
                }
            }
            '{' | '[' | '(' => {
                *i += 1;
                let cl = match c {
                    '{' => '}',
                    '[' => ']',
                    _ => ')',
                };
                let inner = canon_seq(b, i, Some(cl));
                cur.push(c);
                cur.push_str(&inner);
                cur.push(cl);
            }
            '}' | ']' | ')' if Some(c) == close => {
                *i += 1;
                if !cur.trim().is_empty() {
                    items.push(cur.trim().to_string());
                }
                if c == '}' {
                    items.sort();
                }
                return items.join(", ");
            }
            ',' => {
                *i += 1;
                if !cur.trim().is_empty() {
                    items.push(cur.trim().to_string());
                }
                cur = String::new();
            }
            _ => {
                cur.push(c);
                *i += 1;
            }
        }
    }
    if !cur.trim().is_empty() {
        items.push(cur.trim().to_string());
    }
    items.join(", ")
}

fn dbg<T: std::fmt::Debug>(x: &T) -> String {
    canon(&format!("{x:?}"))
}

struct Rec<'a> {
    out: &'a mut Out,
    h: String,
    seed: u64,
    tag: String,
    i: usize,
}

impl<'a> Rec<'a> {
    fn step(&mut self, what: String) {
        self.i += 1;
        self.out.emit(&json!({"h": self.h, "seed": self.seed, "tag": self.tag, "i": self.i, "k": "step", "v": what}));
    }
    fn fin(&mut self, state: String, verdict: String) {
        self.i += 1;
        self.out.emit(&json!({"h": self.h, "seed": self.seed, "tag": self.tag, "i": self.i, "k": "final", "v": state, "verdict": verdict}));
    }
}

pub const HARNESSES: &[&str] = &[
    "executor/calm", "executor/chaos", "executor/string_heavy", "list/default", "list/high_churn", "list/modify_heavy", "set/small_members", "set/high_churn",
    "set/large_members", "hash/small_fields", "hash/high_churn", "sorted_set/small_keyspace", "sorted_set/large_keyspace", "transaction/default",
    "transaction/high_conflict", "transaction/error_heavy", "crdt_gcounter/calm", "crdt_gcounter/chaos", "crdt_pncounter/moderate", "crdt_orset/calm",
    "crdt_orset/chaos", "crdt_vectorclock/moderate", "streaming/calm", "streaming/moderate", "streaming/chaos", "wal/baseline", "wal/crash_only", "wal/chaos",
    "compaction/calm", "compaction/aggressive", "compaction/chaos", "dst/calm", "dst/chaos", "redis_dst/zipf", "redis_dst/uniform", "partition/isolate",
    "partition/split_brain", "partition/ring", "pipeline/default",
    // configurations other than the presets (the harnesses take them; a result is a function of seed AND configuration)
    "redis_dst/zipf_hot", "redis_dst/zipf_flat", "redis_dst/zipf_small", "streaming/noflush", "compaction/noflush",
];

macro_rules! stepwise {
    ($rec:expr, $h:expr, $ops:expr, $state:expr) => {{
        let mut h = $h;
        for _ in 0..$ops {
            h.run(1);
            let r = h.result();
            $rec.step(format!("{} | violations {}", dbg(&r.last_op), r.invariant_violations.len()));
            if !r.invariant_violations.is_empty() {
                break;
            }
        }
        let st = $state(&h);
        let r = h.result();
        $rec.fin(format!("{} || {}", st, dbg(r)), format!("success={} violations={:?}", r.is_success(), r.invariant_violations));
    }};
}

macro_rules! crdt {
    ($rec:expr, $ty:ident, $cfg:expr, $ops:expr) => {{
        let mut h = $ty::new($cfg);
        // the harness exposes no last operation: run in slices and log the result after each
        let slices = 10usize;
        for _ in 0..slices {
            h.run($ops / slices + 1);
            $rec.step(dbg(h.result()));
        }
        h.sync_all();
        h.check_convergence();
        let r = h.result();
        $rec.fin(dbg(r), format!("success={} converged={} violations={:?}", r.is_success(), r.converged, r.invariant_violations));
    }};
}

fn one(out: &mut Out, name: &str, seed: u64, ops: usize, tag: &str, rt: &tokio::runtime::Runtime, slow_ms: u64) {
    // real time passing between blocks of operations must not matter (slow machine, loaded machine)
    let pause = || if slow_ms > 0 { std::thread::sleep(std::time::Duration::from_millis(slow_ms)) };
    let mut rec = Rec { out, h: name.to_string(), seed, tag: tag.to_string(), i: 0 };
    match name {
        "executor/calm" | "executor/chaos" | "executor/string_heavy" => {
            let cfg = match name {
                "executor/calm" => ExecutorDSTConfig::calm(seed),
                "executor/chaos" => ExecutorDSTConfig::chaos(seed),
                _ => ExecutorDSTConfig::string_heavy(seed),
            };
            stepwise!(rec, ExecutorDSTHarness::new(cfg), ops, |h: &ExecutorDSTHarness| {
                dbg(h.executor().get_data())
            });
        }
        "list/default" | "list/high_churn" | "list/modify_heavy" => {
            let cfg = match name {
                "list/high_churn" => ListDSTConfig::high_churn(seed),
                "list/modify_heavy" => ListDSTConfig::modify_heavy(seed),
                _ => ListDSTConfig::new(seed),
            };
            stepwise!(rec, ListDSTHarness::new(cfg), ops, |h: &ListDSTHarness| dbg(h.list()));
        }
        "set/small_members" | "set/high_churn" | "set/large_members" => {
            let cfg = match name {
                "set/small_members" => SetDSTConfig::small_members(seed),
                "set/high_churn" => SetDSTConfig::high_churn(seed),
                _ => SetDSTConfig::large_members(seed),
            };
            stepwise!(rec, SetDSTHarness::new(cfg), ops, |h: &SetDSTHarness| dbg(h.set()));
        }
        "hash/small_fields" | "hash/high_churn" => {
            let cfg = if name == "hash/small_fields" { HashDSTConfig::small_fields(seed) } else { HashDSTConfig::high_churn(seed) };
            stepwise!(rec, HashDSTHarness::new(cfg), ops, |h: &HashDSTHarness| dbg(h.hash()));
        }
        "sorted_set/small_keyspace" | "sorted_set/large_keyspace" => {
            let cfg = if name == "sorted_set/small_keyspace" { SortedSetDSTConfig::small_keyspace(seed) } else { SortedSetDSTConfig::large_keyspace(seed) };
            stepwise!(rec, SortedSetDSTHarness::new(cfg), ops, |h: &SortedSetDSTHarness| dbg(h.sorted_set()));
        }
        "transaction/default" | "transaction/high_conflict" | "transaction/error_heavy" => {
            let cfg = match name {
                "transaction/high_conflict" => TransactionDSTConfig::high_conflict(seed),
                "transaction/error_heavy" => TransactionDSTConfig::error_heavy(seed),
                _ => TransactionDSTConfig::new(seed),
            };
            stepwise!(rec, TransactionDSTHarness::new(cfg), ops, |_h: &TransactionDSTHarness| String::new());
        }
        "crdt_gcounter/calm" => crdt!(rec, GCounterDSTHarness, CRDTDSTConfig::calm(seed), ops),
        "crdt_gcounter/chaos" => crdt!(rec, GCounterDSTHarness, CRDTDSTConfig::chaos(seed), ops),
        "crdt_pncounter/moderate" => crdt!(rec, PNCounterDSTHarness, CRDTDSTConfig::moderate(seed), ops),
        "crdt_orset/calm" => crdt!(rec, ORSetDSTHarness, CRDTDSTConfig::calm(seed), ops),
        "crdt_orset/chaos" => crdt!(rec, ORSetDSTHarness, CRDTDSTConfig::chaos(seed), ops),
        "crdt_vectorclock/moderate" => crdt!(rec, VectorClockDSTHarness, CRDTDSTConfig::moderate(seed), ops),
        "streaming/calm" | "streaming/moderate" | "streaming/chaos" | "streaming/noflush" => {
            let cfg = match name {
                "streaming/calm" => StreamingDSTConfig::calm(seed),
                "streaming/moderate" => StreamingDSTConfig::moderate(seed),
                // nothing is ever flushed: the write buffer fills up until it pushes back
                "streaming/noflush" => StreamingDSTConfig { flush_probability: 0.0, ..StreamingDSTConfig::calm(seed) },
                _ => StreamingDSTConfig::chaos(seed),
            };
            let ops = if name == "streaming/noflush" { ops.max(4000) } else { ops };
            rt.block_on(async {
                let mut h = StreamingDSTHarness::new(cfg).await;
                for _ in 0..10 {
                    h.run(ops / 10 + 1).await;
                    rec.step(dbg(h.result()));
                    pause();
                }
                h.check_invariants().await;
                let r = h.result();
                rec.fin(dbg(r), format!("success={}", r.is_success()));
            });
        }
        "wal/baseline" | "wal/crash_only" | "wal/chaos" => {
            let mut cfg = match name {
                "wal/baseline" => WalDSTConfig::baseline(),
                "wal/crash_only" => WalDSTConfig::crash_only(),
                _ => WalDSTConfig::chaos(),
            };
            cfg.num_writes = ops.min(cfg.num_writes.max(50));
            let r = WalDSTHarness::new(seed, cfg).run();
            rec.fin(dbg(&r), format!("passed={} error={:?}", r.passed, r.error_message));
        }
        "compaction/calm" | "compaction/aggressive" | "compaction/chaos" | "compaction/noflush" => {
            let cfg = match name {
                "compaction/calm" => CompactionDSTConfig::calm(seed),
                "compaction/aggressive" => CompactionDSTConfig::aggressive(seed),
                "compaction/noflush" => CompactionDSTConfig { flush_probability: 0.0, compact_probability: 0.0, ..CompactionDSTConfig::calm(seed) },
                _ => CompactionDSTConfig::chaos(seed),
            };
            let ops = if name == "compaction/noflush" { ops.max(4000) } else { ops };
            rt.block_on(async {
                let mut h = CompactionDSTHarness::new(cfg).await;
                for _ in 0..10 {
                    h.run(ops / 10 + 1).await;
                    rec.step(dbg(h.result()));
                    pause();
                }
                h.check_invariants().await;
                let r = h.result();
                rec.fin(dbg(r), format!("success={}", r.is_success()));
            });
        }
        "dst/calm" | "dst/chaos" => {
            let cfg = if name == "dst/calm" { DSTConfig::calm(seed) } else { DSTConfig::chaos(seed) };
            let mut sim = DSTSimulation::with_config(cfg);
            // `--slow` of several seconds: a simulation that was created long before it runs (a loaded or suspended host)
            if slow_ms >= 1000 { pause(); }
            for _ in 0..ops {
                sim.step();
                rec.step(format!("t={:?}", sim.current_time()));
            }
            let r = sim.finalize();
            rec.fin(dbg(r), format!("success={}", r.is_success()));
        }
        "redis_dst/zipf" | "redis_dst/uniform" | "redis_dst/zipf_hot" | "redis_dst/zipf_flat" | "redis_dst/zipf_small" => {
            let mut sim = match name {
                "redis_dst/zipf" => RedisDSTSimulation::new(seed, 3),
                "redis_dst/zipf_hot" => RedisDSTSimulation::with_key_distribution(seed, 3, KeyDistribution::Zipfian { num_keys: 1000, skew: 1.5 }),
                "redis_dst/zipf_flat" => RedisDSTSimulation::with_key_distribution(seed, 3, KeyDistribution::Zipfian { num_keys: 1000, skew: 0.5 }),
                "redis_dst/zipf_small" => RedisDSTSimulation::with_key_distribution(seed, 3, KeyDistribution::Zipfian { num_keys: 10, skew: 1.0 }),
                _ => RedisDSTSimulation::new_uniform(seed, 3, 20),
            };
            if slow_ms >= 1000 { pause(); }
            let r = dbg(sim.run(ops));
            let conv = sim.check_convergence();
            let st = dbg(&sim.stats());
            rec.fin(format!("{r} || {st}"), format!("converged={conv}"));
        }
        "partition/isolate" | "partition/split_brain" | "partition/ring" => {
            let cfg = match name {
                "partition/isolate" => PartitionConfig::isolate_node(0, 3),
                "partition/split_brain" => PartitionConfig::split_brain(vec![0, 1], vec![2, 3]),
                _ => PartitionConfig::ring(4),
            };
            let n = if name == "partition/isolate" { 3 } else { 4 };
            let r = run_partition_test(name, n, seed, cfg, vec![(0, "k", "a"), (n - 1, "k", "b"), (1, "j", "c")], vec![(1, "k", "d"), (0, "m", "e")], 20);
            rec.fin(dbg(&r), format!("converged={} rounds={} linearizable={}", r.converged, r.convergence_rounds, r.linearizable));
        }
        "pipeline/default" => {
            let mut p = PipelineSimulator::new(seed);
            let r = dbg(&p.run().to_vec());
            rec.fin(r, p.summary());
        }
        other => panic!("unknown harness {other}"),
    }
}

pub fn main(args: &[String]) -> i32 {
    let a = Args::parse(args);
    quiet_panics();
    let mut out = Out::create(&a.str("out", "repro.ndjson"));
    let which = a.str("harness", "all");
    let names: Vec<&str> = if which == "all" { HARNESSES.to_vec() } else { which.split(',').collect() };
    let mut names = names;
    if a.get("order") == Some("reverse") {
        names.reverse();
    }
    let seeds: Vec<u64> = a.str("seeds", "1,2,3").split(',').filter_map(|s| s.parse().ok()).collect();
    let ops = a.usize("ops", 200);
    let tag = a.str("tag", "A");
    let reps = a.usize("reps", 1);
    let slow_ms = a.u64("slow", 0);
    // --debuglog: a subscriber that enables every tracing callsite down to TRACE is installed for the whole process (somebody
    // re-running a failing seed with verbose logging): what is logged must not change what happens
    if a.get("debuglog").is_some() {
        struct AllOn;
        impl tracing::Subscriber for AllOn {
            fn enabled(&self, _: &tracing::Metadata<'_>) -> bool { true }
            fn new_span(&self, _: &tracing::span::Attributes<'_>) -> tracing::span::Id { tracing::span::Id::from_u64(1) }
            fn record(&self, _: &tracing::span::Id, _: &tracing::span::Record<'_>) {}
            fn record_follows_from(&self, _: &tracing::span::Id, _: &tracing::span::Id) {}
            fn event(&self, _: &tracing::Event<'_>) {}
            fn enter(&self, _: &tracing::span::Id) {}
            fn exit(&self, _: &tracing::span::Id) {}
        }
        let _ = tracing::subscriber::set_global_default(AllOn);
    }
    // --neighbour: another thread of the same process keeps building and running simulations with other fault configurations
    // (what `cargo test` does with its test threads): a simulation is a function of its own seed and configuration only
    let stop = std::sync::Arc::new(std::sync::atomic::AtomicBool::new(false));
    let neighbour = if a.get("neighbour").is_some() {
        let stop = stop.clone();
        Some(std::thread::spawn(move || {
            let rt = tokio::runtime::Builder::new_current_thread().enable_all().start_paused(true).build().unwrap();
            let mut sink = Out::create("/dev/null");
            let noisy = ["dst/chaos", "dst/calm", "wal/chaos", "redis_dst/uniform", "streaming/calm", "compaction/chaos", "wal/default", "dst/moderate"];
            let mut i = 0u64;
            while !stop.load(std::sync::atomic::Ordering::SeqCst) {
                let name = noisy[(i % noisy.len() as u64) as usize];
                if HARNESSES.contains(&name) {
                    let s = &mut sink;
                    let _ = catch(std::panic::AssertUnwindSafe(|| one(s, name, 9000 + i, 120, "N", &rt, 0)));
                }
                i += 1;
            }
        }))
    } else {
        None
    };
    let rt = tokio::runtime::Builder::new_current_thread().enable_all().start_paused(true).build().unwrap();
    for rep in 0..reps {
        let t = if reps == 1 { tag.to_string() } else { format!("{tag}{}", rep + 1) };
        for name in &names {
            for seed in &seeds {
                let mut failed = None;
                {
                    let o = &mut out;
                    if let Err(p) = catch(|| one(o, name, *seed, ops, &t, &rt, slow_ms)) {
                        failed = Some(p);
                    }
                }
                if let Some(p) = failed {
                    out.emit(&json!({"h": name, "seed": seed, "tag": t, "i": 1000000, "k": "final", "v": format!("panic: {p}"), "verdict": "panic"}));
                }
            }
        }
    }
    stop.store(true, std::sync::atomic::Ordering::SeqCst);
    if let Some(h) = neighbour {
        let _ = h.join();
    }
    println!("{{\"records\": {}}}", out.finish());
    0
}
