//! AntiEntropy.tla binding (C18): real StateDigest on independently built maps, and real
//! MultiNodeSimulation::run_anti_entropy_sync rounds under a per-round key limit.
//!   vh ae record --seed S --n N --out cases
use crate::crdt::obs;
use crate::stream::mk_delta;
use crate::util::*;
use rand::seq::SliceRandom;
use rand::Rng;
use redis_sim::replication::anti_entropy::{KeyDigest, StateDigest};
use redis_sim::replication::lattice::ReplicaId;
use redis_sim::replication::state::ReplicatedValue;
use redis_sim::simulator::multi_node::MultiNodeSimulation;
use serde_json::{json, Value};
use std::collections::{BTreeMap, HashMap};

/// depths of the digest tree tried (the default is 8; the configuration allows any)
const DEPTHS: [usize; 6] = [8, 4, 10, 1, 12, 9];

/// key names: several per real bucket (a low, a middle and the highest bucket in use), found by asking the real KeyDigest
fn colliding_keys(depth: usize) -> Vec<String> {
    let probe = mk_delta(&json!({"id": 0, "k": "x", "t": "set", "v": "v", "ts": 1, "r": 1})).value;
    let mut by_bucket: HashMap<usize, Vec<String>> = HashMap::new();
    for i in 0..4000 {
        let k = format!("key{i}");
        let b = KeyDigest::new(&k, &probe).bucket(depth);
        by_bucket.entry(b).or_default().push(k);
    }
    let mut out = Vec::new();
    let mut bs: Vec<_> = by_bucket.into_iter().filter(|(_, ks)| ks.len() >= if depth >= 10 { 1 } else { 5 }).collect();
    bs.sort();
    let n = bs.len();
    let picks: Vec<usize> = if n >= 3 { vec![0, n / 2, n - 1] } else { (0..n).collect() };
    let per = 15 / picks.len().max(1);
    for p in picks {
        out.extend(bs[p].1.iter().take(per).cloned());
    }
    // deep trees: few keys share a bucket; fill up with keys of further high buckets
    let mut j = n;
    while out.len() < 15 && j > 0 {
        j -= 1;
        for k in &bs[j].1 {
            if out.len() < 15 && !out.contains(k) {
                out.push(k.clone());
            }
        }
    }
    out // 15 keys in (at least) 3 buckets
}

fn random_updates(rng: &mut impl Rng, keys: &[String], n: usize) -> Vec<Value> {
    let mut used = std::collections::HashSet::new();
    (1..=n)
        .map(|id| {
            let ki = rng.gen_range(0..keys.len());
            let k = &keys[ki];
            let r = rng.gen_range(1..=3u64);
            let del = !rng.gen_bool(0.8);
            // final stamp of the update (an hdel is stamped two ticks after its base); a replica
            // never issues one stamp twice
            let mut ts = rng.gen_range(1..8u64) + if del && ki % 2 == 0 { 2 } else { 0 };
            while !used.insert((ts, r)) {
                ts += 1;
            }
            // kind fixed per key: even index = hash, odd = register
            if ki % 2 == 0 {
                if !del {
                    json!({"id": id, "k": k, "t": "hset", "f": format!("f{}", rng.gen_range(1..=3)), "v": format!("v{id}"), "ts": ts, "r": r})
                } else {
                    json!({"id": id, "k": k, "t": "hdel", "f": format!("f{}", rng.gen_range(1..=3)), "ts": ts, "r": r})
                }
            } else if !del {
                json!({"id": id, "k": k, "t": "set", "v": format!("v{}", rng.gen_range(1..=2)), "ts": ts, "r": r})
            } else {
                json!({"id": id, "k": k, "t": "del", "ts": ts, "r": r})
            }
        })
        .collect()
}

/// Builds a state by merging the given updates in the given order into a FRESH HashMap.
fn build(ups: &[&Value]) -> HashMap<String, ReplicatedValue> {
    let mut m: HashMap<String, ReplicatedValue> = HashMap::new();
    for u in ups {
        let d = mk_delta(u);
        let v = match m.get(&d.key) {
            Some(c) => c.merge(&d.value),
            None => d.value,
        };
        m.insert(d.key, v);
    }
    m
}

fn state_json(m: &HashMap<String, ReplicatedValue>, depth: usize) -> Value {
    let s: BTreeMap<&String, &ReplicatedValue> = m.iter().collect();
    json!(s.iter().map(|(k, v)| json!([k, KeyDigest::new(k, v).bucket(depth), obs(v)])).collect::<Vec<_>>())
}


/// One digest case and (optionally) one sync case for the two update orders.
fn emit_cases(out: &mut Out, oa: &[&Value], ob: &[&Value], sync: bool, limit: usize, nkeys: usize, depth: usize) {
    let run = out.n + 1;
    let sa = build(oa);
    let sb = build(ob);
    let r = catch(|| {
        let da = StateDigest::from_state(&sa, ReplicaId::new(1), 0, depth);
        let db = StateDigest::from_state(&sb, ReplicaId::new(2), 0, depth);
        // a second digest of an independent copy of A: must always be equal
        let sa2: HashMap<String, ReplicatedValue> = sa.iter().map(|(k, v)| (k.clone(), v.clone())).collect();
        let da2 = StateDigest::from_state(&sa2, ReplicaId::new(1), 0, depth);
        (da.differs_from(&db), da.divergent_buckets(&db), da.differs_from(&da2), db.differs_from(&da))
    });
    match r {
        Ok((differs, div, selfdiff, differs_rev)) => out.emit(&json!({"t": "digest", "run": run, "depth": depth, "a": state_json(&sa, depth), "b": state_json(&sb, depth),
            "differs": differs, "differs_rev": differs_rev, "divergent": div, "selfdiff": selfdiff})),
        Err(p) => out.emit(&json!({"t": "digest", "run": run, "a": [], "b": [], "differs": false, "differs_rev": false, "divergent": [], "selfdiff": false, "panic": p})),
    }
    if sync {
        let run = out.n + 1;
        let mut sim = MultiNodeSimulation::new_without_anti_entropy(2, 7);
        // every third sync case: replica 1 has been up for a long time (its stamps are 2^21 and more ahead), replica 2 is young;
        // the old node's state is what it holds, not something it receives
        let far = run % 3 == 0;
        for (node, order) in [(0usize, oa), (1usize, ob)] {
            sim.nodes[node].anti_entropy.config.max_keys_per_sync = limit;
            sim.nodes[node].anti_entropy.config.merkle_tree_depth = depth;
            for u in order.iter() {
                if far && node == 0 {
                    let mut u2 = (*u).clone();
                    u2["ts"] = json!(u["ts"].as_u64().unwrap_or(0) + (1u64 << 21));
                    let d = mk_delta(&u2);
                    let keys = &mut sim.nodes[node].replica_state.replicated_keys;
                    let v = match keys.get(&d.key) { Some(c) => c.merge(&d.value), None => d.value };
                    keys.insert(d.key, v);
                } else {
                    sim.nodes[node].replica_state.apply_remote_delta(mk_delta(u));
                }
            }
        }
        let bound = 2 * ((nkeys + limit - 1) / limit) + 2;
        let mut rounds = vec![json!([state_json(&sim.nodes[0].replica_state.replicated_keys, depth), state_json(&sim.nodes[1].replica_state.replicated_keys, depth)])];
        let res = catch(|| {
            for _ in 0..bound {
                sim.run_anti_entropy_sync(0, 1);
                rounds.push(json!([state_json(&sim.nodes[0].replica_state.replicated_keys, depth), state_json(&sim.nodes[1].replica_state.replicated_keys, depth)]));
            }
        });
        let mut ev = json!({"t": "sync", "run": run, "depth": depth, "limit": limit, "bound": bound, "rounds": rounds});
        if let Err(p) = res {
            ev["panic"] = json!(p);
        }
        out.emit(&ev);
    }
}

/// The protocol objects themselves: two AntiEntropyManagers with their states, the harness is the network.
/// Steps: a local write (state + on_local_write), an update merged from a third replica (state only: gossip
/// does not go through the manager), an exchange "X receives Y's digest" (process_peer_digest; when it reports
/// divergence the sync request / response / push-back round follows).  Every exchange logs both states before,
/// the verdict of the manager, and both states after the round.
fn mgr_case(out: &mut Out, rng: &mut impl Rng, keys: &[String], depth: usize) {
    use redis_sim::replication::anti_entropy::{AntiEntropyConfig, AntiEntropyManager};
    let run = out.n + 1;
    let mut cfg = AntiEntropyConfig::default();
    cfg.merkle_tree_depth = depth;
    cfg.max_keys_per_sync = [1usize, 2, 1000][rng.gen_range(0..3)];
    let mut mgr = [AntiEntropyManager::new(ReplicaId::new(1), cfg.clone()), AntiEntropyManager::new(ReplicaId::new(2), cfg.clone())];
    let mut st: [HashMap<String, ReplicatedValue>; 2] = [HashMap::new(), HashMap::new()];
    let mut steps: Vec<Value> = Vec::new();
    let mut ts = 0u64;
    let nk = rng.gen_range(2..keys.len().min(5));
    let apply = |m: &mut HashMap<String, ReplicatedValue>, u: &Value| {
        let d = mk_delta(u);
        let v = match m.get(&d.key) {
            Some(c) => c.merge(&d.value),
            None => d.value,
        };
        m.insert(d.key, v);
    };
    let res = catch(std::panic::AssertUnwindSafe(|| {
        let n = rng.gen_range(4..=12);
        for i in 0..n {
            let kind = if i == n - 1 { 9 } else { rng.gen_range(0..10) };
            match kind {
                0..=2 => {
                    // local write on one node
                    let x = rng.gen_range(0..2usize);
                    ts += 1;
                    let u = json!({"id": ts, "k": keys[rng.gen_range(0..nk)], "t": "set", "v": format!("w{ts}"), "ts": ts, "r": x + 1});
                    apply(&mut st[x], &u);
                    mgr[x].on_local_write();
                    steps.push(json!({"s": "write", "x": x + 1}));
                }
                3..=5 => {
                    // an update that originated on replica 3 reaches one node, or both, by gossip
                    ts += 1;
                    let u = json!({"id": ts, "k": keys[rng.gen_range(0..nk)], "t": "set", "v": format!("g{ts}"), "ts": ts, "r": 3});
                    let to = rng.gen_range(0..3usize);
                    for x in 0..2 {
                        if to == 2 || to == x {
                            apply(&mut st[x], &u);
                        }
                    }
                    steps.push(json!({"s": "gossip", "to": to}));
                }
                _ => {
                    // x receives y's digest
                    let x = rng.gen_range(0..2usize);
                    let y = 1 - x;
                    let before = json!([state_json(&st[0], depth), state_json(&st[1], depth)]);
                    let dy = mgr[y].generate_digest(&st[y]);
                    let dx = mgr[x].generate_digest(&st[x]);
                    let verdict = mgr[x].process_peer_digest(dy, &dx);
                    let mut ev = json!({"s": "exchange", "x": x + 1, "before": before, "insync": verdict.is_none(), "buckets": verdict.clone().unwrap_or_default()});
                    if let Some(buckets) = verdict {
                        let req = mgr[x].create_sync_request(ReplicaId::new(y as u64 + 1), dx, Some(buckets.clone()), 1000 + i as u64);
                        let (mx, my) = if x == 0 { let (a, b) = mgr.split_at_mut(1); (&mut a[0], &mut b[0]) } else { let (a, b) = mgr.split_at_mut(1); (&mut b[0], &mut a[0]) };
                        let resp = my.handle_sync_request(req, &st[y]);
                        for d in resp.deltas {
                            let v = match st[x].get(&d.key) {
                                Some(c) => c.merge(&d.value),
                                None => d.value.clone(),
                            };
                            st[x].insert(d.key.clone(), v);
                        }
                        // and x pushes its side of the divergent buckets back
                        let back = mx.get_keys_in_buckets(&st[x], &buckets);
                        for d in back {
                            let v = match st[y].get(&d.key) {
                                Some(c) => c.merge(&d.value),
                                None => d.value.clone(),
                            };
                            st[y].insert(d.key.clone(), v);
                        }
                        ev["after"] = json!([state_json(&st[0], depth), state_json(&st[1], depth)]);
                    }
                    steps.push(ev);
                }
            }
        }
    }));
    let mut ev = json!({"t": "mgr", "run": run, "depth": depth, "steps": steps});
    if let Err(p) = res {
        ev["panic"] = json!(p);
    }
    out.emit(&ev);
}

pub fn main(args: &[String]) -> i32 {
    let a = Args::parse(args);
    quiet_panics();
    let mut out = Out::create(&a.str("out", "ae_cases.ndjson"));
    let mut rng = rng(a.u64("seed", 1));
    let keysets: Vec<Vec<String>> = DEPTHS.iter().map(|d| colliding_keys(*d)).collect();
    let keys = keysets[0].clone();
    let n = a.usize("n", 200);
    if a.pos.first().map(|s| s.as_str()) == Some("replay") {
        // TLC-exported version maps: keys 1..3 share a real bucket, key 4 lies in another
        let ks = [keys[0].clone(), keys[1].clone(), keys[2].clone(), keys[5].clone()];
        for scn in read_ndjson(&a.pos[1]) {
            let side = |name: &str, r: u64| -> Vec<Value> {
                scn[name].as_array().unwrap().iter().enumerate().filter(|(_, v)| v.as_u64().unwrap() > 0)
                    .map(|(i, v)| { let ver = v.as_u64().unwrap();
                        json!({"id": i, "k": ks[i], "t": "set", "v": format!("v{ver}"), "ts": ver, "r": if ver % 2 == 0 { r } else { 1 }}) }).collect()
            };
            let ua = side("A", 1);
            let ub = side("B", 1);
            let oa: Vec<&Value> = ua.iter().collect();
            let ob: Vec<&Value> = ub.iter().collect();
            emit_cases(&mut out, &oa, &ob, true, scn["limit"].as_u64().unwrap() as usize, 4, 8);
        }
        println!("{{\"cases\": {}}}", out.finish());
        return 0;
    }
    // hashes with hundreds of fields: equal outer stamp and field count on both sides, one older field differs
    for (ci, nf) in [257usize, 300, 40].iter().enumerate() {
        let k = &keys[0];
        let base: Vec<Value> = (0..*nf).map(|j| json!({"id": j, "k": k, "t": "hset", "f": format!("f{j}"), "v": "v", "ts": j + 1, "r": 1})).collect();
        let over = json!({"id": 9000, "k": k, "t": "hset", "f": "f0", "v": "new", "ts": nf + 50, "r": 1});
        let del = json!({"id": 9001, "k": k, "t": "hdel", "f": "f1", "ts": nf + 60, "r": 1});
        let last = json!({"id": 9002, "k": k, "t": "hset", "f": "f5", "v": "z", "ts": nf + 100, "r": 2});
        for (vi, extra) in [vec![&over], vec![&del], vec![]].iter().enumerate() {
            let mut oa: Vec<&Value> = base.iter().collect();
            oa.extend(extra.iter().cloned());
            oa.push(&last);
            let mut ob: Vec<&Value> = base.iter().collect();
            ob.push(&last);
            ob.reverse();
            emit_cases(&mut out, &oa, &ob, ci < 2 && vi < 2, 3, 1, 8);
        }
    }
    for i in 0..n {
        // the depth of the digest tree rotates (default 8; shallower and deeper trees are configurations too)
        let depth = DEPTHS[i % DEPTHS.len()];
        let keys = &keysets[i % DEPTHS.len()];
        let nk = rng.gen_range(2..keys.len());
        let nu = rng.gen_range(1..10);
        let ups = random_updates(&mut rng, &keys[..nk], nu);
        let all: Vec<&Value> = ups.iter().collect();
        // side A: everything in one order; side B: the same set in another order (equal content),
        // or a subset / a different last writer (unequal content)
        let mut oa = all.clone();
        oa.shuffle(&mut rng);
        let mut ob = all.clone();
        ob.shuffle(&mut rng);
        match i % 4 {
            0 => {}
            1 => {
                let cut = rng.gen_range(0..ob.len());
                ob.truncate(cut);
            }
            2 => {
                let j = rng.gen_range(0..oa.len());
                oa.remove(j);
            }
            _ => {
                // each side lacks something the other has (both wrote during a partition)
                let ja = rng.gen_range(0..oa.len());
                let gone = oa.remove(ja);
                if let Some(jb) = ob.iter().position(|u| !std::ptr::eq(*u, gone)) {
                    ob.remove(jb);
                }
            }
        }
        emit_cases(&mut out, &oa, &ob, i % 2 == 0, rng.gen_range(1..=3usize), keys.len(), depth);
        mgr_case(&mut out, &mut rng, keys, depth);
    }
    println!("{{\"cases\": {}}}", out.finish());
    0
}
