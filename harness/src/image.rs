//! C14 binding: encodings of replicated updates.
//!   vh image roundtrip [--scn exported.ndjson] --seed S --n N --out cases
//!       every value (replayed CRDT scenarios, payload classes) through WAL entry, segment,
//!       checkpoint and gossip message and back; structural comparison over all fields
//!   vh image damage --tier T --seed S --out cases
//!       every cut length and every bit flip (and short bursts) of small real images; the
//!       real readers classify; region lengths are logged so that the specification can
//!       compute the expected class from the layout
use crate::crdt;
use crate::util::*;
use rand::Rng;
use redis_sim::redis::SDS;
use redis_sim::replication::gossip::GossipMessage;
use redis_sim::replication::lattice::{LamportClock, ReplicaId, VectorClock};
use redis_sim::replication::state::{CrdtValue, ReplicatedValue, ReplicationDelta};
use redis_sim::streaming::{CheckpointReader, CheckpointWriter, Compression, SegmentReader, SegmentWriter, WalEntry};
use serde_json::{json, Value};
use std::collections::HashMap;

/// Structural image of a value over all its fields.  Hash sets serialize in iteration order:
/// arrays of strings (GSet elements) and arrays of objects (ORSet tags) are sorted; byte
/// strings (arrays of numbers) keep their order.
fn jv<T: serde::Serialize>(x: &T) -> Value {
    canon(serde_json::to_value(x).unwrap_or(json!("<unserializable>")))
}

fn canon(v: Value) -> Value {
    match v {
        Value::Array(a) => {
            let mut a: Vec<Value> = a.into_iter().map(canon).collect();
            if !a.is_empty() && a.iter().all(|x| x.is_string() || x.is_object()) {
                a.sort_by_key(|x| x.to_string());
            }
            Value::Array(a)
        }
        Value::Object(m) => Value::Object(m.into_iter().map(|(k, x)| (k, canon(x))).collect()),
        x => x,
    }
}

/// Raw payload bytes of a value, taken through accessors (independent of any Serialize impl):
/// the register value, or every hash field with its value.
fn raw_of(v: &ReplicatedValue) -> Value {
    match &v.crdt {
        CrdtValue::Lww(l) => json!({"lww": l.get().map(|s| s.as_bytes().to_vec()), "tomb": l.tombstone}),
        CrdtValue::Hash(h) => {
            let mut fs: Vec<(&String, Option<Vec<u8>>, bool)> = h.iter().map(|(f, l)| (f, l.get().map(|s| s.as_bytes().to_vec()), l.tombstone)).collect();
            fs.sort_by(|a, b| a.0.cmp(b.0));
            json!({"hash": fs.iter().map(|(f, v, t)| json!([f.as_bytes(), v, t])).collect::<Vec<_>>()})
        }
        _ => json!(null),
    }
}

/// What the value does next: the same operation applied to the original and to the decoded copy must give
/// the same result (state that a Serialize impl skips or rebuilds shows up here, e.g. ORSet tag counters).
fn probe_of(v: &ReplicatedValue) -> Value {
    let mut c = v.clone();
    match c.crdt_mut() {
        CrdtValue::ORSet(o) => {
            let mut out = Vec::new();
            for r in 1..=3u64 {
                o.add("zz-probe".to_string(), ReplicaId::new(r));
                let mut tags: Vec<(u64, u64)> = o.get_tags(&"zz-probe".to_string()).map(|t| t.iter().map(|u| (u.replica_id.0, u.sequence)).collect()).unwrap_or_default();
                tags.sort();
                out.push(json!(tags));
            }
            json!({"orset_next_tags": out})
        }
        CrdtValue::GCounter(g) => {
            g.increment_by(ReplicaId::new(1), 1);
            json!({"gcounter_after_inc": jv(g)})
        }
        CrdtValue::PNCounter(p) => {
            p.increment_by(ReplicaId::new(1), 1);
            p.decrement_by(ReplicaId::new(2), 1);
            json!({"pncounter_after_ops": jv(p)})
        }
        _ => json!(null),
    }
}

/// Structural image of a delta: every field through serde plus the raw payload bytes.
fn dv(d: &ReplicationDelta) -> Value {
    json!({"serde": jv(d), "raw": raw_of(&d.value), "probe": probe_of(&d.value), "key": d.key.as_bytes()})
}

fn kind_of(v: &ReplicatedValue) -> &'static str {
    match &v.crdt {
        CrdtValue::Lww(l) => {
            if l.tombstone {
                "tombstone"
            } else {
                "lww"
            }
        }
        CrdtValue::GCounter(_) => "gcounter",
        CrdtValue::PNCounter(_) => "pncounter",
        CrdtValue::GSet(_) => "gset",
        CrdtValue::ORSet(_) => "orset",
        CrdtValue::Hash(_) => "hash",
    }
}

/// One delta through the four codecs; each result is the decoded delta as JSON, or an error text.
fn through(delta: &ReplicationDelta) -> Vec<(&'static str, Result<Value, String>)> {
    let mut out = Vec::new();
    out.push(("wal", catch(|| -> Result<Value, String> {
        let e = WalEntry::from_delta(delta, delta.value.timestamp.time).map_err(|e| format!("{e:?}"))?;
        let bytes = e.encode();
        let (d, used) = WalEntry::decode(&bytes).ok_or("decode returned None")?;
        if used != bytes.len() {
            return Err(format!("decode consumed {used} of {}", bytes.len()));
        }
        if d.timestamp != e.timestamp {
            return Err("stamp changed".into());
        }
        Ok(dv(&d.to_delta().map_err(|e| format!("{e:?}"))?))
    }).unwrap_or_else(|p| Err(format!("panic: {p}")))));
    out.push(("segment", catch(|| -> Result<Value, String> {
        let mut w = SegmentWriter::new(Compression::None);
        w.write_delta(delta).map_err(|e| format!("{e:?}"))?;
        let bytes = w.finish().map_err(|e| format!("{e:?}"))?;
        let r = SegmentReader::open(&bytes).map_err(|e| format!("{e:?}"))?;
        r.validate().map_err(|e| format!("{e:?}"))?;
        let ds = r.read_all().map_err(|e| format!("{e:?}"))?;
        if ds.len() != 1 {
            return Err(format!("{} records", ds.len()));
        }
        Ok(dv(&ds[0]))
    }).unwrap_or_else(|p| Err(format!("panic: {p}")))));
    out.push(("checkpoint", catch(|| -> Result<Value, String> {
        let mut st = HashMap::new();
        st.insert(delta.key.clone(), delta.value.clone());
        let bytes = CheckpointWriter::new(Compression::None).write(st, 12345, 7).map_err(|e| format!("{e:?}"))?;
        let r = CheckpointReader::open(&bytes).map_err(|e| format!("{e:?}"))?;
        r.validate().map_err(|e| format!("{e:?}"))?;
        let data = r.load().map_err(|e| format!("{e:?}"))?;
        if data.state.len() != 1 || r.key_count() != 1 || r.timestamp_ms() != 12345 || r.last_segment_id() != 7 {
            return Err("checkpoint metadata changed".into());
        }
        let v = data.state.get(&delta.key).ok_or("key missing after load")?;
        Ok(dv(&ReplicationDelta::new(delta.key.clone(), v.clone(), delta.source_replica)))
    }).unwrap_or_else(|p| Err(format!("panic: {p}")))));
    out.push(("gossip", catch(|| -> Result<Value, String> {
        let m = GossipMessage::new_delta_batch(delta.source_replica, vec![delta.clone()], 3);
        let bytes = m.serialize().map_err(|e| format!("{e}"))?;
        let back = GossipMessage::deserialize(&bytes).map_err(|e| format!("{e}"))?;
        let src = back.source_replica();
        let ds = back.into_deltas().ok_or("no deltas")?;
        if ds.len() != 1 || src != delta.source_replica {
            return Err("message envelope changed".into());
        }
        Ok(dv(&ds[0]))
    }).unwrap_or_else(|p| Err(format!("panic: {p}")))));
    out
}

/// A batch of updates (all batch sizes of the property: one object, several updates - also several successive states of ONE
/// key, which may well share their stamp: counters and sets built with `with_crdt` never tick it, a merge keeps the greater one)
/// through the codecs that carry batches: a segment, a WAL file read back by the rotator, a gossip message.
fn rt_batch_case(out: &mut Out, origin: &str, deltas: &[ReplicationDelta]) {
    use redis_sim::streaming::wal_store::InMemoryWalStore;
    use redis_sim::streaming::WalRotator;
    let run = out.n + 1;
    let want: Vec<Value> = deltas.iter().map(dv).collect();
    let mut res: Vec<Value> = Vec::new();
    let mut push = |codec: &str, r: Result<Vec<Value>, String>| match r {
        Ok(v) => res.push(json!({"codec": codec, "ok": true, "equal": v == want, "err": if v.len() != want.len() { format!("{} of {} updates came back", v.len(), want.len()) } else { String::new() }})),
        Err(e) => res.push(json!({"codec": codec, "ok": false, "equal": false, "err": e})),
    };
    push("segment", catch(|| -> Result<Vec<Value>, String> {
        let mut w = SegmentWriter::new(Compression::None);
        for d in deltas {
            w.write_delta(d).map_err(|e| format!("{e:?}"))?;
        }
        let bytes = w.finish().map_err(|e| format!("{e:?}"))?;
        let r = SegmentReader::open(&bytes).map_err(|e| format!("{e:?}"))?;
        r.validate().map_err(|e| format!("{e:?}"))?;
        Ok(r.read_all().map_err(|e| format!("{e:?}"))?.iter().map(dv).collect())
    }).unwrap_or_else(|p| Err(format!("panic: {p}"))));
    push("wal", catch(|| -> Result<Vec<Value>, String> {
        let store = InMemoryWalStore::new();
        let mut rot = WalRotator::new(store.clone(), 400).map_err(|e| format!("{e:?}"))?;
        for d in deltas {
            rot.append(&WalEntry::from_delta(d, d.value.timestamp.time).map_err(|e| format!("{e:?}"))?).map_err(|e| format!("{e:?}"))?;
        }
        rot.sync().map_err(|e| format!("{e:?}"))?;
        let back = WalRotator::new(store, 1 << 30).map_err(|e| format!("{e:?}"))?.recover_all_entries().map_err(|e| format!("{e:?}"))?;
        let mut v = Vec::new();
        for e in back {
            v.push(dv(&e.to_delta().map_err(|e| format!("{e:?}"))?));
        }
        Ok(v)
    }).unwrap_or_else(|p| Err(format!("panic: {p}"))));
    push("gossip", catch(|| -> Result<Vec<Value>, String> {
        let m = GossipMessage::new_delta_batch(deltas[0].source_replica, deltas.to_vec(), 3);
        let bytes = m.serialize().map_err(|e| format!("{e}"))?;
        let back = GossipMessage::deserialize(&bytes).map_err(|e| format!("{e}"))?;
        Ok(back.into_deltas().ok_or("no deltas")?.iter().map(dv).collect())
    }).unwrap_or_else(|p| Err(format!("panic: {p}"))));
    // (a checkpoint holds one value per key: it is not a carrier of batches)
    res.push(json!({"codec": "checkpoint", "ok": true, "equal": true, "err": ""}));
    out.emit(&json!({"t": "rt", "run": run, "origin": origin, "kind": "batch", "key": deltas[0].key, "bytes": 0, "n": deltas.len(), "res": res}));
}

fn rt_case(out: &mut Out, origin: &str, delta: &ReplicationDelta) {
    let run = out.n + 1;
    let want = dv(delta);
    let res: Vec<Value> = through(delta)
        .into_iter()
        .map(|(c, r)| match r {
            Ok(v) => json!({"codec": c, "ok": true, "equal": v == want, "err": ""}),
            Err(e) => json!({"codec": c, "ok": false, "equal": false, "err": e}),
        })
        .collect();
    let size = bincode::serialized_size(delta).unwrap_or(0);
    let mut rec = json!({"t": "rt", "run": run, "origin": origin, "kind": kind_of(&delta.value), "key": delta.key, "bytes": size, "res": res});
    if size < 600 {
        rec["value"] = want["serde"].clone();
    }
    out.emit(&rec);
}

fn lww(bytes: Vec<u8>, t: u64, r: u64) -> ReplicatedValue {
    ReplicatedValue::with_value(SDS::new(bytes), LamportClock { time: t, replica_id: ReplicaId::new(r) })
}

/// Payload classes crossed with metadata classes.
fn payload_values(rng: &mut impl Rng, n: usize) -> Vec<(String, ReplicationDelta)> {
    let mut out = Vec::new();
    let all256: Vec<u8> = (0..=255u8).collect();
    let payloads: Vec<Vec<u8>> = vec![vec![], vec![0], vec![0xff], all256.clone(), vec![0xc3, 0x28], b"hello".to_vec(), vec![b'x'; 65536],
                                      (0..70000).map(|i| (i * 7 % 256) as u8).collect(),
                                      // around and above 1 MiB (an encoded update has no documented size limit)
                                      vec![b'y'; (1 << 20) - 64], vec![b'z'; (1 << 20) + 1], (0..(3usize << 20)).map(|i| (i % 251) as u8).collect()];
    let keys = ["", "k", "a key with spaces", "k\u{e9}\u{4e2d}\u{1f600}", "\u{0}nul", "\r\n"];
    let long_key: String = "K".repeat(5000);
    let stamps: [(u64, u64); 5] = [(0, 0), (1, 1), (u64::MAX, u64::MAX), (1 << 40, 65535), (7, 3)];
    let expiries: [Option<u64>; 4] = [None, Some(0), Some(1234567890123), Some(u64::MAX)];
    for p in &payloads {
        for (i, key) in keys.iter().chain(std::iter::once(&long_key.as_str())).enumerate() {
            if p.len() > 100_000 && i > 0 {
                continue; // the large payloads once
            }
            let (t, r) = stamps[i % stamps.len()];
            let mut v = lww(p.clone(), t, r);
            v.expiry_ms = expiries[(i + p.len()) % expiries.len()];
            out.push(("payload".to_string(), ReplicationDelta::new(key.to_string(), v, ReplicaId::new(r))));
        }
    }
    // values chosen so that a checksum of their encoded image takes an edge value (all zeros, all ones, one bit)
    for target in [0u32, u32::MAX, 1, 1 << 31] {
        for codec in ["wal", "segment", "checkpoint"] {
            let mut bytes = b"tok=....;v=1".to_vec();
            let mk = |b: &[u8]| ReplicationDelta::new("session:42".to_string(), lww(b.to_vec(), 200, 1), ReplicaId::new(1));
            let sum_of = |b: &[u8]| -> u32 {
                let d = mk(b);
                match codec {
                    "wal" => WalEntry::from_delta(&d, 200).map(|e| e.checksum).unwrap_or(7),
                    "segment" => {
                        let mut w = SegmentWriter::new(Compression::None);
                        let _ = w.write_delta(&d);
                        w.finish().ok().and_then(|img| SegmentReader::open(&img).ok().map(|r| r.footer().data_checksum)).unwrap_or(7)
                    }
                    _ => {
                        let mut st = HashMap::new();
                        st.insert(d.key.clone(), d.value.clone());
                        CheckpointWriter::new(Compression::None).write(st, 12345, 7).ok()
                            .map(|img| u32::from_le_bytes([img[img.len() - 16], img[img.len() - 15], img[img.len() - 14], img[img.len() - 13]])).unwrap_or(7)
                    }
                }
            };
            if forge_crc(&mut bytes, 4, target, &sum_of) {
                out.push((format!("checksum_{codec}_{target:08x}"), mk(&bytes)));
            }
        }
    }
    // metadata: vector clocks, replication factor, tombstones
    for (i, (t, r)) in stamps.iter().enumerate() {
        let mut v = lww(b"v".to_vec(), *t, *r);
        let mut vc = VectorClock::new();
        for j in 0..(i as u64 * 3) {
            for _ in 0..(j + 1) {
                vc.increment(ReplicaId::new(j * 1000));
            }
        }
        v.vector_clock = Some(vc);
        v.replication_factor = Some(i as u8);
        v.expiry_ms = expiries[i % expiries.len()];
        out.push(("metadata".to_string(), ReplicationDelta::new(format!("m{i}"), v, ReplicaId::new(*r))));
        let mut d = ReplicatedValue::new(ReplicaId::new(*r));
        d.delete(&mut LamportClock { time: t.saturating_sub(1), replica_id: ReplicaId::new(*r) });
        out.push(("metadata".to_string(), ReplicationDelta::new(format!("t{i}"), d, ReplicaId::new(*r))));
    }
    // many hash fields, binary field values, deleted fields
    for nf in [0usize, 1, 300] {
        let mut h: HashMap<String, redis_sim::replication::lattice::LwwRegister<SDS>> = HashMap::new();
        for j in 0..nf {
            let mut reg = redis_sim::replication::lattice::LwwRegister::new(ReplicaId::new(2));
            let mut clock = LamportClock { time: j as u64 + 1, replica_id: ReplicaId::new(2) };
            if j % 5 == 4 {
                reg.delete(&mut clock);
            } else {
                reg.set(SDS::new(payloads[j % 6].clone()), &mut clock);
            }
            h.insert(format!("f\u{e9}{j}"), reg);
        }
        let mut v = ReplicatedValue::new(ReplicaId::new(2));
        v.crdt = CrdtValue::Hash(h);
        v.timestamp = LamportClock { time: 400, replica_id: ReplicaId::new(2) };
        out.push(("hash".to_string(), ReplicationDelta::new(format!("h{nf}"), v, ReplicaId::new(2))));
    }
    // other kinds, built by random CRDT scenarios
    for _ in 0..n {
        let kinds = ["lww", "hash", "gcounter", "pncounter", "gset", "orset"];
        let k = kinds[rng.gen_range(0..kinds.len())];
        let len = rng.gen_range(1..14);
        let ops = crdt::random_ops(rng, len, &[k]);
        for (rid, v) in crdt::final_values(&ops) {
            out.push(("random_scenario".to_string(), ReplicationDelta::new("k".into(), v, ReplicaId::new(rid))));
        }
    }
    out
}

// ---------------------------------------------------------------------------
// damage

fn small_deltas(n: usize) -> Vec<ReplicationDelta> {
    let mut v = Vec::new();
    for i in 0..n {
        let mut val = lww(vec![b'a' + i as u8; 3 + i], 10 + i as u64, 1 + (i as u64 % 2));
        if i == 1 {
            val.expiry_ms = Some(99);
        }
        v.push(ReplicationDelta::new(format!("k{i}"), val, ReplicaId::new(1 + (i as u64 % 2))));
    }
    if n >= 3 {
        let mut h = ReplicatedValue::new(ReplicaId::new(2));
        let mut m = HashMap::new();
        let mut reg = redis_sim::replication::lattice::LwwRegister::new(ReplicaId::new(2));
        reg.set(SDS::new(b"x".to_vec()), &mut LamportClock { time: 4, replica_id: ReplicaId::new(2) });
        m.insert("f".to_string(), reg);
        h.crdt = CrdtValue::Hash(m);
        h.timestamp = LamportClock { time: 5, replica_id: ReplicaId::new(2) };
        v[2] = ReplicationDelta::new("h".into(), h, ReplicaId::new(2));
    }
    v
}

/// What the real reader makes of an image: (class, detail) with class in
/// "error" | "same" | "different" | "panic"; for the WAL entry also "same_payload" (stamp differs).
fn read_segment(bytes: &[u8], want: &Value) -> (String, String) {
    let r = catch(|| -> Result<Value, String> {
        let r = SegmentReader::open(bytes).map_err(|e| format!("open: {e:?}"))?;
        r.validate().map_err(|e| format!("validate: {e:?}"))?;
        let ds = r.read_all().map_err(|e| format!("read: {e:?}"))?;
        Ok(json!({"deltas": jv(&ds), "count": r.header().record_count, "min": r.header().min_timestamp, "max": r.header().max_timestamp}))
    });
    classify(r, want)
}

fn read_checkpoint(bytes: &[u8], want: &Value) -> (String, String) {
    let r = catch(|| -> Result<Value, String> {
        let r = CheckpointReader::open(bytes).map_err(|e| format!("open: {e:?}"))?;
        r.validate().map_err(|e| format!("validate: {e:?}"))?;
        let d = r.load().map_err(|e| format!("load: {e:?}"))?;
        Ok(json!({"state": jv(&d.state), "count": r.key_count(), "ts": r.timestamp_ms(), "last": r.last_segment_id()}))
    });
    classify(r, want)
}

fn classify(r: Result<Result<Value, String>, String>, want: &Value) -> (String, String) {
    match r {
        Err(p) => ("panic".into(), p),
        Ok(Err(e)) => ("error".into(), e.chars().take(80).collect()),
        Ok(Ok(v)) => {
            if &v == want {
                ("same".into(), String::new())
            } else {
                ("different".into(), String::new())
            }
        }
    }
}

fn read_wal_entry(bytes: &[u8], want: &Value, stamp: u64) -> (String, String) {
    let r = catch(|| -> Result<(Value, u64), String> {
        let (e, _) = WalEntry::decode(bytes).ok_or("decode: None")?;
        let d = e.to_delta().map_err(|e| format!("to_delta: {e:?}"))?;
        Ok((jv(&d), e.timestamp))
    });
    match r {
        Err(p) => ("panic".into(), p),
        Ok(Err(e)) => ("error".into(), e),
        Ok(Ok((v, ts))) => {
            if &v != want {
                ("different".into(), String::new())
            } else if ts != stamp {
                ("same_payload".into(), format!("stamp {ts} for {stamp}"))
            } else {
                ("same".into(), String::new())
            }
        }
    }
}

struct Img {
    fmt: &'static str,
    bytes: Vec<u8>,
    /// region lengths, in order, as named in ImageLayout.tla
    lens: Vec<usize>,
    want: Value,
    stamp: u64,
    /// WAL entry read through the rotator's recovery as the only entry of a sealed file (not the newest one)
    sealed: bool,
}

fn images(n: usize) -> Vec<Img> {
    let ds = small_deltas(n);
    let mut v = Vec::new();
    // segment
    let mut w = SegmentWriter::new(Compression::None);
    let mut recs = 0usize;
    for d in &ds {
        w.write_delta(d).unwrap();
        recs += 4 + bincode::serialized_size(d).unwrap() as usize;
    }
    let bytes = w.finish().unwrap();
    let (_, _) = (recs, bytes.len());
    let want = json!({"deltas": jv(&ds), "count": ds.len(), "min": ds.iter().map(|d| d.value.timestamp.time).min().unwrap(), "max": ds.iter().map(|d| d.value.timestamp.time).max().unwrap()});
    v.push(Img { fmt: "segment", lens: vec![recs], bytes, want, stamp: 0, sealed: false });
    // checkpoint
    let mut st = HashMap::new();
    for d in &ds {
        st.insert(d.key.clone(), d.value.clone());
    }
    let bytes = CheckpointWriter::new(Compression::None).write(st.clone(), 777, 5).unwrap();
    let dlen = bytes.len() - 48 - 4 - 16;
    let want = json!({"state": jv(&st), "count": st.len(), "ts": 777, "last": 5});
    v.push(Img { fmt: "checkpoint", lens: vec![dlen], bytes, want, stamp: 0, sealed: false });
    // WAL entry (the last delta)
    let d = &ds[ds.len() - 1];
    let e = WalEntry::from_delta(d, 4242).unwrap();
    let bytes = e.encode();
    v.push(Img { fmt: "wal", lens: vec![bytes.len() - 16], bytes: bytes.clone(), want: jv(d), stamp: 4242, sealed: false });
    // the same entry as the only entry of a rotated-away file, read back by the rotator's recovery
    v.push(Img { fmt: "wal", lens: vec![bytes.len() - 16], bytes, want: jv(d), stamp: 4242, sealed: true });
    v
}

/// The same WAL entry read the way a restart reads it: it is the only entry of a sealed (rotated-away) file
/// that is followed by a newer file; WalRotator::recover_all_entries over both.  `bytes` are the entry's bytes.
fn read_wal_sealed(bytes: &[u8], want: &Value, stamp: u64) -> (String, String) {
    use redis_sim::streaming::wal_store::{InMemoryWalStore, WalFileWriter, WalStore};
    use redis_sim::streaming::{WalRotator, WalWriter};
    let r = catch(|| -> Result<Option<(Value, u64)>, String> {
        let st = InMemoryWalStore::new();
        // file 1: real header + the (damaged) entry; file 2: a real, newer file with one intact entry
        let w1 = st.create("wal-00000001.wal").map_err(|e| e.to_string())?;
        let mut ww = WalWriter::new(w1, 1).map_err(|e| e.to_string())?;
        ww.sync().map_err(|e| e.to_string())?;
        drop(ww);
        let hdr = st.open_read("wal-00000001.wal").map_err(|e| e.to_string())?;
        let mut hdr = hdr;
        let mut data = redis_sim::streaming::wal_store::WalFileReader::read_all(&mut hdr).map_err(|e| e.to_string())?;
        data.extend_from_slice(bytes);
        st.delete("wal-00000001.wal").map_err(|e| e.to_string())?;
        let mut w1 = st.create("wal-00000001.wal").map_err(|e| e.to_string())?;
        w1.append(&data).map_err(|e| e.to_string())?;
        w1.sync().map_err(|e| e.to_string())?;
        let w2 = st.create("wal-00000002.wal").map_err(|e| e.to_string())?;
        let mut ww2 = WalWriter::new(w2, 2).map_err(|e| e.to_string())?;
        let newer = small_deltas(1);
        ww2.append_entry(&WalEntry::from_delta(&newer[0], 9999).map_err(|e| format!("{e:?}"))?).map_err(|e| e.to_string())?;
        ww2.sync().map_err(|e| e.to_string())?;
        let rot = WalRotator::new(st, 1 << 30).map_err(|e| e.to_string())?;
        let es = rot.recover_all_entries().map_err(|e| e.to_string())?;
        // the newer file's entry is stamped 9999; anything else came out of the sealed file
        match es.iter().find(|e| e.timestamp != 9999) {
            None => Ok(None),
            Some(e) => {
                let d = e.to_delta().map_err(|e| format!("to_delta: {e:?}"))?;
                Ok(Some((jv(&d), e.timestamp)))
            }
        }
    });
    match r {
        Err(p) => ("panic".into(), p),
        Ok(Err(e)) => ("error".into(), e),
        Ok(Ok(None)) => ("error".into(), "recovery of the sealed file ended before the entry".into()),
        Ok(Ok(Some((v, ts)))) => {
            if &v != want {
                ("different".into(), String::new())
            } else if ts != stamp {
                ("same_payload".into(), format!("stamp {ts} for {stamp}"))
            } else {
                ("same".into(), String::new())
            }
        }
    }
}

fn read(img: &Img, bytes: &[u8]) -> (String, String) {
    match img.fmt {
        "wal" if img.sealed => read_wal_sealed(bytes, &img.want, img.stamp),
        "segment" => read_segment(bytes, &img.want),
        "checkpoint" => read_checkpoint(bytes, &img.want),
        _ => read_wal_entry(bytes, &img.want, img.stamp),
    }
}

fn dmg_case(out: &mut Out, img: &Img, kind: &str, pos: usize, width: usize, bit: usize, bytes: &[u8]) {
    let run = out.n + 1;
    let (class, detail) = read(img, bytes);
    out.emit(&json!({"t": "dmg", "run": run, "fmt": img.fmt, "sealed": img.sealed, "total": img.bytes.len(), "lens": img.lens, "kind": kind, "pos": pos, "width": width, "bit": bit,
                     "class": class, "detail": detail}));
}

fn damage(out: &mut Out, thorough: bool, rng: &mut impl Rng) {
    for n in if thorough { vec![1usize, 2, 3] } else { vec![1usize, 3] } {
        for img in images(n) {
            // the undamaged image reads back the same
            dmg_case(out, &img, "none", 0, 0, 0, &img.bytes);
            for cut in 0..img.bytes.len() {
                dmg_case(out, &img, "cut", cut, 0, 0, &img.bytes[..cut]);
            }
            for pos in 0..img.bytes.len() {
                for bit in 0..8 {
                    let mut b = img.bytes.clone();
                    b[pos] ^= 1 << bit;
                    dmg_case(out, &img, "flip", pos, 1, bit, &b);
                }
            }
            // bursts of 2..4 bytes: every position (thorough) or a sample; xor with a non-zero pattern
            let npos = img.bytes.len();
            for width in 2..=4usize {
                let positions: Vec<usize> = if thorough { (0..npos - width).collect() } else { (0..200).map(|_| rng.gen_range(0..npos - width)).collect() };
                for pos in positions {
                    let mut b = img.bytes.clone();
                    for j in 0..width {
                        let x: u8 = rng.gen_range(1..=255);
                        b[pos + j] ^= x;
                    }
                    dmg_case(out, &img, "burst", pos, width, 0, &b);
                }
            }
            // zero fill of a window
            for _ in 0..(if thorough { 400 } else { 60 }) {
                let width = rng.gen_range(1..=4usize);
                let pos = rng.gen_range(0..npos - width);
                let mut b = img.bytes.clone();
                let before = b[pos..pos + width].to_vec();
                for j in 0..width {
                    b[pos + j] = 0;
                }
                if b[pos..pos + width] == before[..] {
                    continue;
                }
                // report the first and last byte that really changed
                let first = (0..width).find(|j| before[*j] != 0).unwrap();
                let last = (0..width).rev().find(|j| before[*j] != 0).unwrap();
                dmg_case(out, &img, "burst", pos + first, last - first + 1, 0, &b);
            }
        }
    }
}

pub fn main(args: &[String]) -> i32 {
    let a = Args::parse(args);
    quiet_panics();
    let mut out = Out::create(&a.str("out", "image_cases.ndjson"));
    let mut rng = rng(a.u64("seed", 1));
    match a.pos.first().map(|s| s.as_str()) {
        Some("roundtrip") => {
            if let Some(p) = a.get("scn") {
                for scn in read_ndjson(p) {
                    for (rid, v) in crdt::final_values(scn.as_array().unwrap()) {
                        rt_case(&mut out, "tlc_scenario", &ReplicationDelta::new("k".into(), v, ReplicaId::new(rid)));
                    }
                }
            }
            for (origin, d) in payload_values(&mut rng, a.usize("n", 300)) {
                rt_case(&mut out, &origin, &d);
            }
            // batches: the successive states of one key on one replica along the TLC scenarios ...
            if let Some(p) = a.get("scn") {
                for scn in read_ndjson(p) {
                    for (rid, hist) in crdt::history_values(scn.as_array().unwrap()) {
                        if hist.len() >= 2 {
                            let ds: Vec<ReplicationDelta> = hist.into_iter().map(|v| ReplicationDelta::new("k".into(), v, ReplicaId::new(rid))).collect();
                            rt_batch_case(&mut out, "tlc_scenario_history", &ds);
                        }
                    }
                }
            }
            // ... counters and sets built with with_crdt (their stamp never moves), and batches over several keys
            {
                use redis_sim::replication::state::CrdtValue;
                let r = ReplicaId::new(2);
                let mut g = CrdtValue::new_gcounter();
                let mut states = Vec::new();
                for i in 1..=4u64 {
                    g.as_gcounter_mut().unwrap().increment_by(r, i);
                    states.push(ReplicationDelta::new("ctr".into(), ReplicatedValue::with_crdt(g.clone(), r), r));
                }
                rt_batch_case(&mut out, "with_crdt_counter_states", &states);
                let mut mixed = states.clone();
                mixed.insert(2, ReplicationDelta::new("other".into(), lww(b"x".to_vec(), 0, 2), r));
                mixed.push(ReplicationDelta::new("ctr".into(), lww(b"now a string".to_vec(), 0, 2), r));
                rt_batch_case(&mut out, "with_crdt_counter_states_mixed", &mixed);
                let many: Vec<ReplicationDelta> = (0..300u64).map(|i| ReplicationDelta::new(format!("k{}", i % 7), lww(format!("v{i}").into_bytes(), 5, 1 + i % 3), ReplicaId::new(1 + i % 3))).collect();
                rt_batch_case(&mut out, "300_updates_7_keys_one_stamp_per_replica", &many);
            }
        }
        Some("damage") => damage(&mut out, a.str("tier", "quick") == "thorough", &mut rng),
        _ => {
            eprintln!("usage: vh image roundtrip|damage");
            return 2;
        }
    }
    println!("{{\"cases\": {}}}", out.finish());
    0
}
