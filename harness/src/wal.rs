//! Wal.tla binding.
//!   vh wal replay <scenarios.ndjson> --out trace   (C09) real always-fsync actor on a scripted store
//!   vh wal record --seed S --n N --out trace        (C09) random bursts / faults
//!   vh wal format --seed S --tier quick --out cases (C10) damaged images -> real recovery / truncation
use crate::util::*;
use rand::Rng;
use redis_sim::redis::SDS;
use redis_sim::replication::lattice::{LamportClock, ReplicaId};
use redis_sim::replication::state::{ReplicatedValue, ReplicationDelta};
use redis_sim::streaming::wal_store::{InMemoryWalStore, WalError, WalFileReader, WalFileWriter, WalStore};
use redis_sim::streaming::{spawn_wal_actor, FsyncPolicy, WalConfig, WalEntry, WalRotator};
use serde_json::{json, Value};
use std::collections::{BTreeMap, HashMap};
use std::sync::{Arc, Mutex};
use std::time::Duration;

// ---------------------------------------------------------------------------------------------
// Scripted store: logs every call, injects scripted outcomes, tracks the fsynced prefix,
// and after every call runs the real recovery on the crash image.
// ---------------------------------------------------------------------------------------------
#[derive(Clone, Default)]
struct FileImg {
    data: Vec<u8>,
    synced: usize,
}

#[derive(Default)]
pub struct Inner {
    files: BTreeMap<String, FileImg>,
    calls: usize,
    script: HashMap<usize, String>, // call index -> "fail" | "torn" | "diskfull"
    pub log: Vec<Value>,
    registry: HashMap<Vec<u8>, u64>, // encoded entry -> writer id
    crash_check: bool,
}

#[derive(Clone)]
pub struct ScriptedWalStore {
    pub inner: Arc<Mutex<Inner>>,
}

fn file_seq(name: &str) -> u64 {
    let v = name.strip_prefix("wal-")
        .and_then(|s| s.strip_suffix(".wal"))
        .and_then(|s| u64::from_str_radix(s, 16).ok())
        .unwrap_or(0);
    // sequences near and beyond 2^32 (a directory that has seen that many rotations) are shifted into TLC's
    // integer range, order kept
    if v >= 0xffff_0000 { v - 0xffff_0000 + 100_000 } else { v }
}

/// A synced, header-only WAL file with the given sequence, as the real WalWriter writes it.
fn header_only_file(seq: u64) -> (String, Vec<u8>) {
    let st = InMemoryWalStore::new();
    let name = format!("wal-{:08x}.wal", seq);
    let w = st.create(&name).unwrap();
    let mut ww = redis_sim::streaming::WalWriter::new(w, seq).unwrap();
    ww.sync().unwrap();
    let data = st.open_read(&name).unwrap().read_all().unwrap();
    (name, data)
}

/// Writer id of an encoded entry: the registry of pre-encoded entries, or (node-level runs, where the
/// node stamps the delta itself) the key name "nk<id>" of the decoded delta.
fn ident(registry: &HashMap<Vec<u8>, u64>, data: &[u8]) -> Option<u64> {
    if let Some(w) = registry.get(data) {
        return Some(*w);
    }
    let (e, used) = WalEntry::decode(data)?;
    if used != data.len() {
        return None;
    }
    let d = e.to_delta().ok()?;
    d.key.strip_prefix("nk").and_then(|s| s.parse().ok())
}

fn recover_image(files: &BTreeMap<String, Vec<u8>>, registry: &HashMap<Vec<u8>, u64>) -> Value {
    let r = catch(|| {
        let st = InMemoryWalStore::new();
        for (name, data) in files {
            let mut w = st.create(name).unwrap();
            if !data.is_empty() {
                w.append(data).unwrap();
            }
        }
        let rot = WalRotator::new(st, 1 << 30).unwrap();
        rot.recover_all_entries()
    });
    match r {
        Ok(Ok(entries)) => {
            let ids: Vec<Value> = entries
                .iter()
                .map(|e| match ident(registry, &e.encode()) {
                    Some(w) => json!(w),
                    None => json!(0), // not one of the appended entries
                })
                .collect();
            json!({"rec": ids})
        }
        Ok(Err(e)) => json!({"rec": [], "err": e.to_string()}),
        Err(p) => json!({"rec": [], "panic": p}),
    }
}

impl Inner {
    fn next_call(&mut self) -> (usize, Option<String>) {
        self.calls += 1;
        (self.calls, self.script.get(&self.calls).cloned())
    }
    fn after_call(&mut self) {
        if self.crash_check {
            let img: BTreeMap<String, Vec<u8>> =
                self.files.iter().map(|(n, f)| (n.clone(), f.data[..f.synced].to_vec())).collect();
            let mut v = recover_image(&img, &self.registry);
            v["a"] = json!("crashcheck");
            self.log.push(v);
        }
    }
}

impl ScriptedWalStore {
    /// what a crash would leave right now: the fsynced prefix of every file
    pub fn crash_image(&self) -> BTreeMap<String, Vec<u8>> {
        let g = self.inner.lock().unwrap();
        g.files.iter().map(|(n, f)| (n.clone(), f.data[..f.synced].to_vec())).collect()
    }
    pub fn new(script: HashMap<usize, String>, crash_check: bool) -> Self {
        ScriptedWalStore {
            inner: Arc::new(Mutex::new(Inner { script, crash_check, ..Default::default() })),
        }
    }
    pub fn log(&self, v: Value) {
        self.inner.lock().unwrap().log.push(v);
    }
    /// A crash: every file keeps its fsynced prefix.
    pub fn crash(&self) {
        let mut g = self.inner.lock().unwrap();
        for f in g.files.values_mut() {
            let n = f.synced;
            f.data.truncate(n);
        }
    }
    /// A file that is not a WAL segment appears in the directory (lock file, backup copy, editor droppings).
    pub fn add_stray(&self, name: &str) {
        let mut g = self.inner.lock().unwrap();
        g.files.insert(name.to_string(), FileImg { data: b"not a wal segment".to_vec(), synced: 17 });
    }
}

pub struct ScriptedWriter {
    name: String,
    inner: Arc<Mutex<Inner>>,
    size: u64,
}

impl WalFileWriter for ScriptedWriter {
    fn append(&mut self, data: &[u8]) -> Result<u64, WalError> {
        let mut g = self.inner.lock().unwrap();
        let (idx, fault) = g.next_call();
        let (kind, w) = if data.len() == 16 && &data[0..4] == b"RWAL" {
            ("hdr", 0)
        } else {
            match ident(&g.registry, data) {
                Some(w) => ("ent", w),
                None => ("alien", 0),
            }
        };
        let f = file_seq(&self.name);
        let res = match fault.as_deref() {
            // the file was deleted under the writer (an unlinked file still accepts writes; they go nowhere)
            _ if !g.files.contains_key(&self.name) => {
                self.size += data.len() as u64;
                g.log.push(json!({"a": "append", "f": f, "kind": kind, "w": w, "res": "ok", "unlinked": true, "call": idx}));
                Ok(self.size)
            }
            None => {
                let name = self.name.clone();
                let file = g.files.get_mut(&name).unwrap();
                file.data.extend_from_slice(data);
                self.size = file.data.len() as u64;
                g.log.push(json!({"a": "append", "f": f, "kind": kind, "w": w, "res": "ok", "call": idx}));
                Ok(self.size)
            }
            Some("torn") => {
                let name = self.name.clone();
                let n = data.len() / 2;
                let file = g.files.get_mut(&name).unwrap();
                file.data.extend_from_slice(&data[..n]);
                g.log.push(json!({"a": "append", "f": f, "kind": kind, "w": w, "res": "torn", "call": idx}));
                Err(WalError::PartialWrite { expected: data.len(), actual: n })
            }
            Some("diskfull") => {
                g.log.push(json!({"a": "append", "f": f, "kind": kind, "w": w, "res": "fail", "call": idx}));
                Err(WalError::DiskFull)
            }
            Some(_) => {
                g.log.push(json!({"a": "append", "f": f, "kind": kind, "w": w, "res": "fail", "call": idx}));
                Err(WalError::Io(std::io::Error::new(std::io::ErrorKind::Other, "injected append failure")))
            }
        };
        g.after_call();
        res
    }
    fn sync(&mut self) -> Result<(), WalError> {
        let mut g = self.inner.lock().unwrap();
        let (idx, fault) = g.next_call();
        let f = file_seq(&self.name);
        let res = if fault.is_some() {
            g.log.push(json!({"a": "sync", "f": f, "ok": false, "call": idx}));
            Err(WalError::FsyncFailed("injected fsync failure".into()))
        } else {
            let name = self.name.clone();
            if let Some(file) = g.files.get_mut(&name) {
                file.synced = file.data.len();
            }
            g.log.push(json!({"a": "sync", "f": f, "ok": true, "call": idx}));
            Ok(())
        };
        g.after_call();
        res
    }
    fn size(&self) -> u64 {
        self.size
    }
}

pub struct ScriptedReader {
    data: Vec<u8>,
}
impl WalFileReader for ScriptedReader {
    fn read_all(&mut self) -> Result<Vec<u8>, WalError> {
        Ok(self.data.clone())
    }
}

impl WalStore for ScriptedWalStore {
    type Writer = ScriptedWriter;
    type Reader = ScriptedReader;
    fn create(&self, name: &str) -> Result<Self::Writer, WalError> {
        let mut g = self.inner.lock().unwrap();
        let (idx, fault) = g.next_call();
        let f = file_seq(name);
        let res = if fault.is_some() {
            g.log.push(json!({"a": "create", "f": f, "ok": false, "call": idx}));
            Err(WalError::Io(std::io::Error::new(std::io::ErrorKind::Other, "injected create failure")))
        } else {
            g.files.insert(name.to_string(), FileImg::default());
            g.log.push(json!({"a": "create", "f": f, "ok": true, "call": idx}));
            Ok(ScriptedWriter { name: name.to_string(), inner: self.inner.clone(), size: 0 })
        };
        g.after_call();
        res
    }
    fn open_read(&self, name: &str) -> Result<Self::Reader, WalError> {
        let g = self.inner.lock().unwrap();
        g.files
            .get(name)
            .map(|f| ScriptedReader { data: f.data.clone() })
            .ok_or_else(|| WalError::NotFound(name.to_string()))
    }
    fn list(&self) -> Result<Vec<String>, WalError> {
        Ok(self.inner.lock().unwrap().files.keys().cloned().collect())
    }
    fn delete(&self, name: &str) -> Result<(), WalError> {
        let mut g = self.inner.lock().unwrap();
        g.files.remove(name);
        let f = file_seq(name);
        g.log.push(json!({"a": "delete", "f": f}));
        g.after_call();
        Ok(())
    }
    fn exists(&self, name: &str) -> Result<bool, WalError> {
        Ok(self.inner.lock().unwrap().files.contains_key(name))
    }
}

// ---------------------------------------------------------------------------------------------
pub fn make_delta(w: u64, ts: u64, vlen: usize) -> ReplicationDelta {
    let rid = ReplicaId::new(1);
    let clock = LamportClock { time: ts, replica_id: rid };
    let val: String = std::iter::repeat((b'a' + (w % 26) as u8) as char).take(vlen.max(1)).collect();
    let rv = ReplicatedValue::with_value(SDS::from_str(&val), clock);
    ReplicationDelta::new(format!("key{:04}", w), rv, rid)
}

/// One scenario on the real actor. `bursts`: writer ids enqueued together; `faults`: I/O call
/// index -> outcome; `cap`: entries per file; `batch`: group_commit_max_entries.
fn run_actor_scenario(run: usize, scn: &Value, out: &mut Out) {
    let cap = scn["cap"].as_u64().unwrap_or(2) as usize;
    let batch = scn["batch"].as_u64().unwrap_or(3) as usize;
    let bursts: Vec<Vec<u64>> = scn["bursts"]
        .as_array()
        .unwrap()
        .iter()
        .map(|b| b.as_array().unwrap().iter().map(|w| w.as_u64().unwrap()).collect())
        .collect();
    let mut script = HashMap::new();
    for f in scn["faults"].as_array().cloned().unwrap_or_default() {
        script.insert(f[0].as_u64().unwrap() as usize, f[1].as_str().unwrap().to_string());
    }
    let store = ScriptedWalStore::new(script, true);
    // equal-sized entries so that `cap` entries fill a file exactly
    // "huge": writer id whose value is that many bytes (an entry far above any sanity bound a reader may apply)
    let huge_w = scn["huge"][0].as_u64().unwrap_or(0);
    let huge_len = scn["huge"][1].as_u64().unwrap_or(0) as usize;
    let deltas: HashMap<u64, Arc<ReplicationDelta>> =
        bursts.iter().flatten().map(|w| (*w, Arc::new(make_delta(*w, 100 + *w, if *w == huge_w && huge_len > 0 { huge_len } else { 4 })))).collect();
    let mut esize = 0;
    {
        let mut g = store.inner.lock().unwrap();
        for (w, d) in &deltas {
            let enc = WalEntry::from_delta(d, 100 + *w).unwrap().encode();
            esize = enc.len();
            g.registry.insert(enc, *w);
        }
    }
    let config = WalConfig {
        enabled: true,
        wal_dir: "/nonexistent".into(),
        fsync_policy: FsyncPolicy::Always,
        max_file_size: if huge_len > 0 { 1 << 30 } else { 16 + cap * esize },
        group_commit_max_entries: batch,
        group_commit_max_wait: Duration::from_micros(200),
        truncation_check_interval: Duration::from_secs(3600),
    };
    out.emit(&json!({"a": "reset", "run": run, "cap": cap, "batch": batch, "scn": scn}));
    let rt = tokio::runtime::Builder::new_current_thread().enable_all().start_paused(true).build().unwrap();
    let st2 = store.clone();
    let res = catch(|| {
        rt.block_on(async move {
            let (handle, task) = spawn_wal_actor(st2.clone(), config).unwrap();
            for burst in &bursts {
                let mut tasks = Vec::new();
                for w in burst {
                    let h = handle.clone();
                    let d = deltas[w].clone();
                    let s = st2.clone();
                    let w = *w;
                    s.log(json!({"a": "send", "w": w}));
                    tasks.push(tokio::spawn(async move {
                        let r = h.write_durable(d, 100 + w).await;
                        s.log(json!({"a": "ack", "w": w, "ok": r.is_ok(), "err": r.err().map(|e| e.to_string()).unwrap_or_default()}));
                    }));
                    tokio::task::yield_now().await;
                }
                for t in tasks {
                    let _ = t.await;
                }
                tokio::time::sleep(Duration::from_millis(5)).await;
            }
            handle.shutdown().await;
            let _ = task.await;
        })
    });
    let mut g = store.inner.lock().unwrap();
    for mut ev in std::mem::take(&mut g.log) {
        ev["run"] = json!(run);
        out.emit(&ev);
    }
    if let Err(p) = res {
        out.emit(&json!({"a": "panic", "run": run, "msg": p}));
    }
}

/// Two lives of the actor on one store: writes, crash, (a stray file appears,) restart, more writes, crash.
/// Every write acknowledged in either life must be in the recovery of every later crash image.
fn run_restart_scenario(run: usize, stray: &str, n1: u64, n2: u64, cap: usize, out: &mut Out) {
    let store = ScriptedWalStore::new(HashMap::new(), true);
    let ws: Vec<u64> = (1..=(n1 + n2)).collect();
    let deltas: HashMap<u64, Arc<ReplicationDelta>> = ws.iter().map(|w| (*w, Arc::new(make_delta(*w, 100 + *w, 4)))).collect();
    let mut esize = 0;
    {
        let mut g = store.inner.lock().unwrap();
        for (w, d) in &deltas {
            let enc = WalEntry::from_delta(d, 100 + *w).unwrap().encode();
            esize = enc.len();
            g.registry.insert(enc, *w);
        }
    }
    let config = WalConfig {
        enabled: true,
        wal_dir: "/nonexistent".into(),
        fsync_policy: FsyncPolicy::Always,
        max_file_size: 16 + cap * esize,
        group_commit_max_entries: 2,
        group_commit_max_wait: Duration::from_micros(200),
        truncation_check_interval: Duration::from_secs(3600),
    };
    out.emit(&json!({"a": "reset", "run": run, "cap": cap, "batch": 2, "scn": {"restart": true, "stray": stray, "n1": n1, "n2": n2}}));
    // "HIGHSEQ:<hex>": the directory already holds a (synced, empty) segment with that sequence number
    if let Some(h) = stray.strip_prefix("HIGHSEQ:") {
        let (name, data) = header_only_file(u64::from_str_radix(h, 16).unwrap());
        let n = data.len();
        store.inner.lock().unwrap().files.insert(name, FileImg { data, synced: n });
    }
    let stray = if stray.starts_with("HIGHSEQ:") { "" } else { stray };
    let rt = tokio::runtime::Builder::new_current_thread().enable_all().start_paused(true).build().unwrap();
    let res = catch(|| {
        for (life, range) in [(1, 1..=n1), (2, (n1 + 1)..=(n1 + n2))] {
            let st2 = store.clone();
            let cfg = config.clone();
            let ds = deltas.clone();
            rt.block_on(async move {
                let (handle, task) = spawn_wal_actor(st2.clone(), cfg).unwrap();
                for w in range {
                    st2.log(json!({"a": "send", "w": w}));
                    let r = handle.write_durable(ds[&w].clone(), 100 + w).await;
                    st2.log(json!({"a": "ack", "w": w, "ok": r.is_ok(), "err": r.err().map(|e| e.to_string()).unwrap_or_default()}));
                }
                // no orderly shutdown: the process dies
                drop(handle);
                task.abort();
                let _ = task.await;
            });
            store.crash();
            if life == 1 && !stray.is_empty() {
                store.add_stray(stray);
            }
        }
    });
    let mut g = store.inner.lock().unwrap();
    for mut ev in std::mem::take(&mut g.log) {
        ev["run"] = json!(run);
        out.emit(&ev);
    }
    // the image after the second crash
    let img: BTreeMap<String, Vec<u8>> = g.files.iter().map(|(n, f)| (n.clone(), f.data[..f.synced.min(f.data.len())].to_vec())).collect();
    let mut v = recover_image(&img, &g.registry);
    v["a"] = json!("crashcheck");
    v["run"] = json!(run);
    out.emit(&v);
    if let Err(p) = res {
        out.emit(&json!({"a": "panic", "run": run, "msg": p}));
    }
}

/// WalPolicy.tla binding: one life of the real actor under any fsync policy with SyncTick, TruncateUpTo and
/// graceful Shutdown messages between the writes.  ops: "w" next writer (stamp ts[w]), "k" tick followed by a
/// barrier (paused time: a sleep returns only when the actor has drained its mailbox), "t<i>" truncation up to
/// th[i] (no barrier: it stays in the mailbox among the writes), "y" barrier only.
fn run_policy_scenario(run: usize, scn: &Value, out: &mut Out) {
    let cap = scn["cap"].as_u64().unwrap_or(2) as usize;
    let batch = scn["batch"].as_u64().unwrap_or(2) as usize;
    let policy = scn["policy"].as_str().unwrap_or("everysec").to_string();
    let ops: Vec<String> = scn["ops"].as_array().unwrap().iter().map(|o| o.as_str().unwrap().to_string()).collect();
    let ts: Vec<u64> = scn["ts"].as_array().unwrap().iter().map(|t| t.as_u64().unwrap()).collect();
    let th: Vec<u64> = scn["th"].as_array().map(|a| a.iter().map(|t| t.as_u64().unwrap()).collect()).unwrap_or_default();
    let mut script = HashMap::new();
    for f in scn["faults"].as_array().cloned().unwrap_or_default() {
        script.insert(f[0].as_u64().unwrap() as usize, f[1].as_str().unwrap().to_string());
    }
    let nw = ops.iter().filter(|o| o.as_str() == "w").count();
    let store = ScriptedWalStore::new(script, true);
    let stamp = |w: usize| ts[(w - 1) % ts.len()];
    let deltas: Vec<Arc<ReplicationDelta>> = (1..=nw).map(|w| Arc::new(make_delta(w as u64, stamp(w), 4))).collect();
    let mut esize = 0;
    {
        let mut g = store.inner.lock().unwrap();
        for w in 1..=nw {
            let enc = WalEntry::from_delta(&deltas[w - 1], stamp(w)).unwrap().encode();
            esize = enc.len();
            g.registry.insert(enc, w as u64);
        }
    }
    let config = WalConfig {
        enabled: true,
        wal_dir: "/nonexistent".into(),
        fsync_policy: match policy.as_str() { "always" => FsyncPolicy::Always, "no" => FsyncPolicy::No, _ => FsyncPolicy::EverySecond },
        max_file_size: 16 + cap * esize.max(1),
        group_commit_max_entries: batch,
        group_commit_max_wait: Duration::from_micros(200),
        truncation_check_interval: Duration::from_secs(3600),
    };
    let tsmap: Vec<u64> = (1..=nw).map(stamp).collect();
    out.emit(&json!({"a": "reset", "run": run, "policy": policy, "ts": tsmap, "scn": scn}));
    let rt = tokio::runtime::Builder::new_current_thread().enable_all().start_paused(true).build().unwrap();
    let st2 = store.clone();
    let res = catch(|| {
        rt.block_on(async move {
            let (handle, task) = spawn_wal_actor(st2.clone(), config).unwrap();
            let mut tasks = Vec::new();
            let mut w = 0usize;
            for op in &ops {
                match op.as_str() {
                    "w" => {
                        w += 1;
                        let (h, d, s, wid, t) = (handle.clone(), deltas[w - 1].clone(), st2.clone(), w, stamp(w));
                        s.log(json!({"a": "send", "w": wid}));
                        tasks.push(tokio::spawn(async move {
                            let r = h.write_durable(d, t).await;
                            s.log(json!({"a": "ack", "w": wid, "ok": r.is_ok(), "err": r.err().map(|e| e.to_string()).unwrap_or_default()}));
                        }));
                        tokio::task::yield_now().await;
                    }
                    "k" => {
                        handle.sync_tick();
                        tokio::time::sleep(Duration::from_millis(5)).await;
                        st2.log(json!({"a": "tick"}));
                    }
                    "y" => tokio::time::sleep(Duration::from_millis(5)).await,
                    t if t.starts_with('t') => {
                        let i: usize = t[1..].parse().unwrap_or(1);
                        let v = th.get(i - 1).copied().unwrap_or(0);
                        st2.log(json!({"a": "truncreq", "t": v}));
                        handle.truncate(v);
                    }
                    _ => {}
                }
            }
            for t in tasks {
                let _ = t.await;
            }
            handle.shutdown().await;
            st2.log(json!({"a": "down"}));
            let _ = task.await;
        })
    });
    let mut g = store.inner.lock().unwrap();
    for mut ev in std::mem::take(&mut g.log) {
        ev["run"] = json!(run);
        out.emit(&ev);
    }
    if let Err(p) = res {
        out.emit(&json!({"a": "panic", "run": run, "msg": p}));
    }
}

fn random_policy_scenario(rng: &mut impl Rng) -> Value {
    // files of one to three entries, or (one scenario in three) of four to eight: a file then holds entries on both sides of a
    // truncation threshold in every proportion
    let cap = if rng.gen_range(0..3) == 0 { [4usize, 5, 8][rng.gen_range(0..3)] } else { rng.gen_range(1..=3usize) };
    let n = if cap > 3 { rng.gen_range(8..=22usize) } else { rng.gen_range(2..=14usize) };
    let mut ops = Vec::new();
    for _ in 0..n {
        ops.push(["w", "w", "w", "w", "k", "y", "t1", "t2", "t3"][rng.gen_range(0..9)]);
    }
    // stamps: any order (several shards write one WAL), or mostly rising with a straggler now and then
    let rising = rng.gen_bool(0.5);
    let ts: Vec<u64> = if !rising { (0..24).map(|_| rng.gen_range(1..=30u64)).collect() }
                       else { (0..24u64).map(|i| if rng.gen_range(0..8) == 0 { 28 + i % 3 } else { 1 + i }).collect() };
    let mut th: Vec<u64> = (0..3).map(|_| rng.gen_range(1..=30u64)).collect();
    if rng.gen_bool(0.5) {
        th.sort();
    }
    if cap > 3 && rising {
        // thresholds that leave exactly the last entry (or the last two) of some file still needed
        // (one threshold per scenario, asked for again and again: the judge only knows the greatest threshold requested so far)
        let t = if rng.gen_bool(0.5) { cap as u64 - 1 } else { 2 * cap as u64 - 1 };
        th = vec![t, t, t];
    }
    let nf = [0, 0, 1, 1, 2][rng.gen_range(0..5)];
    let mut faults = Vec::new();
    for _ in 0..nf {
        let idx = rng.gen_range(1..=(3 * n + 4));
        let kind = ["fail", "torn", "diskfull", "fail"][rng.gen_range(0..4)];
        faults.push(json!([idx, kind]));
    }
    let policy = if cap > 3 && rng.gen_bool(0.5) { "always" } else { ["always", "everysec", "everysec", "no"][rng.gen_range(0..4)] };
    json!({"policy": policy, "cap": cap, "batch": rng.gen_range(1..=4),
           "ops": ops, "ts": ts, "th": th, "faults": faults})
}

fn random_scenario(rng: &mut impl Rng) -> Value {
    let nw = rng.gen_range(1..=8u64);
    let mut ws: Vec<u64> = (1..=nw).collect();
    let mut bursts = Vec::new();
    while !ws.is_empty() {
        let k = rng.gen_range(1..=ws.len().min(5));
        bursts.push(ws.drain(..k).collect::<Vec<_>>());
    }
    let nf = [0, 1, 1, 2, 3][rng.gen_range(0..5)];
    let mut faults = Vec::new();
    for _ in 0..nf {
        let idx = rng.gen_range(1..=(3 * nw as usize + 4));
        let kind = ["fail", "torn", "diskfull", "fail"][rng.gen_range(0..4)];
        faults.push(json!([idx, kind]));
    }
    json!({"cap": rng.gen_range(1..=3), "batch": rng.gen_range(1..=4), "bursts": bursts, "faults": faults})
}

pub fn main(args: &[String]) -> i32 {
    let a = Args::parse(args);
    quiet_panics();
    match a.pos.first().map(|s| s.as_str()) {
        Some("replay") => {
            let mut out = Out::create(&a.str("out", "wal_trace.ndjson"));
            for (i, s) in read_ndjson(&a.pos[1]).iter().enumerate() {
                run_actor_scenario(i + 1, s, &mut out);
            }
            println!("{{\"events\": {}}}", out.finish());
            0
        }
        Some("record") => {
            let mut out = Out::create(&a.str("out", "wal_trace.ndjson"));
            let mut rng = rng(a.u64("seed", 1));
            for i in 0..a.usize("n", 100) {
                let s = random_scenario(&mut rng);
                run_actor_scenario(i + 1, &s, &mut out);
            }
            println!("{{\"events\": {}}}", out.finish());
            0
        }
        Some("policy") => {
            // vh wal policy [scenarios.ndjson] --seed S --n N --out trace : exported scenarios, then N random ones
            let mut out = Out::create(&a.str("out", "wal_trace.ndjson"));
            let mut run = 0;
            if a.pos.len() > 1 {
                for s in read_ndjson(&a.pos[1]).iter() {
                    run += 1;
                    run_policy_scenario(run, s, &mut out);
                }
            }
            let mut rng = rng(a.u64("seed", 1));
            for _ in 0..a.usize("n", 0) {
                run += 1;
                let s = random_policy_scenario(&mut rng);
                run_policy_scenario(run, &s, &mut out);
            }
            println!("{{\"events\": {}}}", out.finish());
            0
        }
        Some("special") => {
            let mut out = Out::create(&a.str("out", "wal_trace.ndjson"));
            let mut run = 0;
            // an entry of 17 MiB among small ones (no faults; crash after every call)
            for (hw, len) in [(2u64, 17usize << 20), (1, 5 << 20), (3, (1 << 20) + 7)] {
                run += 1;
                run_actor_scenario(run, &json!({"cap": 2, "batch": 2, "bursts": [[1, 2], [3, 4]], "faults": [], "huge": [hw, len]}), &mut out);
            }
            // two lives on one store, with and without a stray file that sorts last / in between
            for stray in ["", "wal.lock", "wal-00000001.wal.bak", "zzz", "wal-zzzzzzzz.wal", ".hidden", "HIGHSEQ:fffffffe", "HIGHSEQ:ffffffff", "HIGHSEQ:1ffffffff"] {
                for (n1, n2, cap) in [(3u64, 1u64, 2usize), (2, 2, 1), (4, 3, 3)] {
                    run += 1;
                    run_restart_scenario(run, stray, n1, n2, cap, &mut out);
                }
            }
            println!("{{\"events\": {}}}", out.finish());
            0
        }
        Some("format") => crate::walfmt::main(&a),
        _ => {
            eprintln!("usage: vh wal replay|record|format");
            2
        }
    }
}
