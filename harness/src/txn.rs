//! C05 driver: two REAL connection handlers (duplex streams) on one ShardedActorState; client A
//! runs WATCH / MULTI / body / EXEC|DISCARD, client B writes in every gap.
use crate::conn::encode_argv;
use crate::ks::{Argv, Gen};
use crate::resp::rv_json;
use crate::util::*;
use rand::Rng;
use redis_sim::production::verif::run_connection;
use redis_sim::production::{ConnectionConfig, ShardConfig, ShardedActorState};
use redis_sim::redis::{RespParser, RespValue};
use serde_json::{json, Value};
use tokio::io::{AsyncReadExt, AsyncWriteExt, DuplexStream};

fn b(s: &str) -> Vec<u8> {
    s.as_bytes().to_vec()
}

pub struct Client {
    io: DuplexStream,
    buf: Vec<u8>,
}
impl Client {
    pub fn connect(state: &ShardedActorState) -> Client {
        let (ours, theirs) = tokio::io::duplex(1 << 16);
        let st = state.clone();
        tokio::spawn(async move { run_connection(theirs, st, ConnectionConfig::default()).await });
        Client { io: ours, buf: Vec::new() }
    }
    pub async fn call(&mut self, argv: &Argv) -> RespValue {
        if self.io.write_all(&encode_argv(argv)).await.is_err() {
            return RespValue::err("IOERR write");
        }
        self.read_reply().await
    }
    /// send without waiting (pipelining); replies are read with read_reply
    pub async fn send_all(&mut self, argvs: &[Argv]) -> bool {
        let mut wire = Vec::new();
        for a in argvs {
            wire.extend_from_slice(&encode_argv(a));
        }
        self.io.write_all(&wire).await.is_ok()
    }
    pub async fn read_reply(&mut self) -> RespValue {
        let mut tmp = [0u8; 4096];
        loop {
            if let Ok((v, n)) = RespParser::parse(&self.buf) {
                self.buf.drain(..n);
                return v;
            }
            match tokio::time::timeout(std::time::Duration::from_secs(30), self.io.read(&mut tmp)).await {
                Ok(Ok(0)) => return RespValue::err("IOERR connection closed"),
                Ok(Ok(n)) => self.buf.extend_from_slice(&tmp[..n]),
                Ok(Err(_)) => return RespValue::err("IOERR read"),
                Err(_) => return RespValue::err("HANG no reply"),
            }
        }
    }
}

fn set(k: &str, v: &str) -> (Value, Argv) {
    (json!({"op": "SET", "k": k, "v": v.as_bytes(), "ex": -1, "px": -1, "nx": false, "xx": false, "get": false, "keepttl": false}), vec![b("SET"), b(k), b(v)])
}
fn ctl(op: &str) -> (Value, Argv) {
    (json!({"op": op}), vec![b(op)])
}
fn push(k: &str, v: &str) -> (Value, Argv) {
    (json!({"op": "PUSH", "k": k, "vs": [v.as_bytes()], "left": false}), vec![b("RPUSH"), b(k), b(v)])
}
fn hset(k: &str, f: &str, v: &str) -> (Value, Argv) {
    (json!({"op": "HSET", "k": k, "fs": [f.as_bytes()], "vs": [v.as_bytes()]}), vec![b("HSET"), b(k), b(f), b(v)])
}
fn del(k: &str) -> (Value, Argv) {
    (json!({"op": "DEL", "ks": [k]}), vec![b("DEL"), b(k)])
}

/// what client B does in a gap
fn b_writes(gen: &mut Gen, wtype: &str) -> Vec<(Value, Argv)> {
    match gen.rng.gen_range(0..10) {
        0..=3 => vec![],
        4 => vec![set("w", "v0")],            // same value again (for a string w) / type change otherwise
        5 => vec![set("w", "other")],
        6 => vec![del("w")],
        7 => match wtype { "list" => vec![push("w", "b")], "hash" => vec![hset("w", "g", "2")], _ => vec![push("q", "z")] },
        8 => match wtype {                     // change and revert
            "list" => vec![push("w", "tmp"), (json!({"op": "POP", "k": "w", "left": false}), vec![b("RPOP"), b("w")])],
            "hash" => vec![hset("w", "tmp", "1"), (json!({"op": "HDEL", "k": "w", "fs": [b("tmp")]}), vec![b("HDEL"), b("w"), b("tmp")])],
            _ => vec![set("w", "tmp"), set("w", "v0")],
        },
        _ => vec![set("x", "9")],              // unrelated key
    }
}

async fn case(run: usize, gen: &mut Gen, out: &mut Out, fixed_shards: usize, nowatch: bool) {
    let shards = if fixed_shards > 0 { fixed_shards } else { [1usize, 4][gen.rng.gen_range(0..2)] };
    let state = ShardedActorState::with_config(ShardConfig::with_shards(shards));
    let mut a = Client::connect(&state);
    let mut bc = Client::connect(&state);
    let mut steps: Vec<Value> = Vec::new();
    macro_rules! step {
        ($who:expr, $cl:expr, $ca:expr) => {{
            let (c, argv) = $ca;
            let r = $cl.call(&argv).await;
            steps.push(json!({"who": $who, "c": c, "argv": argv.iter().map(|x| String::from_utf8_lossy(x).to_string()).collect::<Vec<_>>(), "r": rv_json(&r)}));
        }};
    }
    // setup: the watched key's type
    let wtype = ["none", "string", "list", "hash"][gen.rng.gen_range(0..4)];
    match wtype {
        "string" => step!("B", bc, set("w", "v0")),
        "list" => step!("B", bc, push("w", "a")),
        "hash" => step!("B", bc, hset("w", "f", "1")),
        _ => {}
    }
    if gen.rng.gen_bool(0.3) {
        step!("B", bc, set("x", ["1", "abc"][gen.rng.gen_range(0..2)]));
    }
    // one to three transactions in a row on the same connection: what one leaves behind (queue, watch set,
    // error flag) must not leak into the next, whichever way it ended (EXEC, nil EXEC, EXECABORT, DISCARD)
    let rounds = [1, 1, 1, 2, 2, 3][gen.rng.gen_range(0..6)];
    for _round in 0..rounds {
    let watch = !nowatch && gen.rng.gen_bool(0.7);
    if watch {
        // one or several watched keys, in one WATCH or in two; B writes w, x and q
        let sets: [&[&str]; 7] = [&["w"], &["w"], &["w", "x"], &["x", "w"], &["q", "w"], &["w", "q", "x"], &["x"]];
        let ks = sets[gen.rng.gen_range(0..sets.len())];
        if ks.len() >= 2 && gen.rng.gen_bool(0.3) {
            for k in ks {
                step!("A", a, (json!({"op": "WATCH", "ks": [k]}), vec![b("WATCH"), b(k)]));
            }
        } else {
            let mut argv = vec![b("WATCH")];
            argv.extend(ks.iter().map(|k| b(k)));
            step!("A", a, (json!({"op": "WATCH", "ks": ks}), argv));
        }
        if gen.rng.gen_range(0..10) == 0 {
            step!("A", a, ctl("UNWATCH"));
        }
    }
    for ca in b_writes(gen, wtype) {
        step!("B", bc, ca);
    }
    // now and then a key is watched a second time (after B may have written it): the first WATCH is the one that counts
    if watch && gen.rng.gen_range(0..4) == 0 {
        let again: [&[&str]; 4] = [&["w"], &["w", "q"], &["x", "w"], &["q"]];
        let ks = again[gen.rng.gen_range(0..again.len())];
        let mut argv = vec![b("WATCH")];
        argv.extend(ks.iter().map(|k| b(k)));
        step!("A", a, (json!({"op": "WATCH", "ks": ks}), argv));
        for ca in b_writes(gen, wtype) {
            step!("B", bc, ca);
        }
    }
    step!("A", a, ctl("MULTI"));
    for ca in b_writes(gen, wtype) {
        step!("B", bc, ca);
    }
    let nbody = gen.rng.gen_range(0..=3);
    for _ in 0..nbody {
        let ca = match gen.rng.gen_range(0..16) {
            // multi-key and whole-keyspace commands: on several shards they fan out
            9 => (json!({"op": "MSET", "ks": ["x", "q2", "w2"], "vs": [b("1"), b("2"), b("3")]}), vec![b("MSET"), b("x"), b("1"), b("q2"), b("2"), b("w2"), b("3")]),
            10 => (json!({"op": "MGET", "ks": ["x", "w", "q2", "l"]}), vec![b("MGET"), b("x"), b("w"), b("q2"), b("l")]),
            11 => (json!({"op": "DEL", "ks": ["x", "q2", "w2"]}), vec![b("DEL"), b("x"), b("q2"), b("w2")]),
            12 => (json!({"op": "EXISTS", "ks": ["x", "w", "q2", "w2"]}), vec![b("EXISTS"), b("x"), b("w"), b("q2"), b("w2")]),
            13 => (json!({"op": "FLUSHALL"}), vec![b("FLUSHALL")]),
            14 => {
                let kb: Vec<Value> = ["w", "x", "q", "l", "q2", "w2"].iter().map(|k| json!([k, k.as_bytes()])).collect();
                (json!({"op": "KEYS", "pat": b("*"), "kb": kb}), vec![b("KEYS"), b("*")])
            }
            0 => set("x", "1"),
            1 => (json!({"op": "INCRBY", "k": "x", "d": {"neg": false, "d": [1]}, "dmin": false}), vec![b("INCR"), b("x")]),
            2 => push("l", "a"),
            3 => (json!({"op": "GET", "k": "x"}), vec![b("GET"), b("x")]),
            4 => (json!({"op": "BAD"}), vec![b("NOSUCHCOMMAND"), b("x")]),
            5 => (json!({"op": "BAD"}), vec![b("GET")]),
            6 => ctl("MULTI"),
            7 => (json!({"op": "WATCH", "ks": ["x"]}), vec![b("WATCH"), b("x")]),
            // UNWATCH between MULTI and EXEC: queued like any command
            8 => ctl("UNWATCH"),
            _ => (json!({"op": "GET", "k": "w"}), vec![b("GET"), b("w")]),
        };
        step!("A", a, ca);
    }
    for ca in b_writes(gen, wtype) {
        step!("B", bc, ca);
    }
    if gen.rng.gen_range(0..6) == 0 {
        step!("A", a, ctl("DISCARD"));
    } else {
        step!("A", a, ctl("EXEC"));
    }
    // afterwards: the connection is back to normal
    step!("A", a, (json!({"op": "GET", "k": "x"}), vec![b("GET"), b("x")]));
    if gen.rng.gen_bool(0.3) {
        step!("A", a, ctl("EXEC"));
    }
    }
    let s = crate::shard_plain::project(&state).await;
    out.emit(&json!({"t": "txn", "run": run, "shards": shards, "wtype": wtype, "steps": steps, "s": s}));
}

/// The same rules on the executor's own MULTI / EXEC / WATCH (the path the simulator uses): one
/// CommandExecutor; "B" writes are plain commands issued before MULTI (after it everything queues).
fn case_executor(run: usize, gen: &mut Gen, out: &mut Out) {
    use redis_sim::redis::CommandExecutor;
    let mut ex = CommandExecutor::new();
    ex.set_time(redis_sim::simulator::VirtualTime::from_millis(0));
    let mut steps: Vec<Value> = Vec::new();
    let mut go = |who: &str, ca: (Value, Argv), ex: &mut CommandExecutor, steps: &mut Vec<Value>| {
        let (c, argv) = ca;
        let r = match crate::ks::parse_argv(&argv) {
            Ok(cmd) => ex.execute(&cmd),
            Err(e) => RespValue::err(e),
        };
        steps.push(json!({"who": who, "c": c, "argv": argv.iter().map(|x| String::from_utf8_lossy(x).to_string()).collect::<Vec<_>>(), "r": rv_json(&r)}));
    };
    let wtype = ["none", "string", "list", "hash"][gen.rng.gen_range(0..4)];
    match wtype {
        "string" => go("B", set("w", "v0"), &mut ex, &mut steps),
        "list" => go("B", push("w", "a"), &mut ex, &mut steps),
        "hash" => go("B", hset("w", "f", "1"), &mut ex, &mut steps),
        _ => {}
    }
    if gen.rng.gen_bool(0.3) {
        go("B", set("x", "1"), &mut ex, &mut steps);
    }
    if gen.rng.gen_bool(0.8) {
        let sets: [&[&str]; 5] = [&["w"], &["w", "x"], &["x", "w"], &["q", "w"], &["x"]];
        let ks = sets[gen.rng.gen_range(0..sets.len())];
        let mut argv = vec![b("WATCH")];
        argv.extend(ks.iter().map(|k| b(k)));
        go("A", (json!({"op": "WATCH", "ks": ks}), argv), &mut ex, &mut steps);
        if gen.rng.gen_range(0..10) == 0 {
            go("A", ctl("UNWATCH"), &mut ex, &mut steps);
        }
    }
    for ca in b_writes(gen, wtype) {
        go("B", ca, &mut ex, &mut steps);
    }
    go("A", ctl("MULTI"), &mut ex, &mut steps);
    for _ in 0..gen.rng.gen_range(0..=3) {
        let ca = match gen.rng.gen_range(0..6) {
            0 => set("x", "1"),
            1 => (json!({"op": "INCRBY", "k": "x", "d": {"neg": false, "d": [1]}, "dmin": false}), vec![b("INCR"), b("x")]),
            2 => push("l", "a"),
            3 => (json!({"op": "GET", "k": "x"}), vec![b("GET"), b("x")]),
            4 => del("w"),
            _ => (json!({"op": "GET", "k": "w"}), vec![b("GET"), b("w")]),
        };
        go("A", ca, &mut ex, &mut steps);
    }
    if gen.rng.gen_range(0..6) == 0 {
        go("A", ctl("DISCARD"), &mut ex, &mut steps);
    } else {
        go("A", ctl("EXEC"), &mut ex, &mut steps);
    }
    go("A", (json!({"op": "GET", "k": "x"}), vec![b("GET"), b("x")]), &mut ex, &mut steps);
    let s = crate::ks::project(&mut ex, 0);
    out.emit(&json!({"t": "txn", "run": run, "shards": 0, "level": "executor", "wtype": wtype, "steps": steps, "s": s}));
}

/// WATCH at its edges: the watched key changes only because its deadline passes (real time, no command
/// touches it in between), or it holds a value far larger than the usual payloads and is or is not
/// modified.  The rule (ConnTrace!WatchCaseVerdict) needs only: changed?, EXEC's reply, body applied?
async fn wcase(run: usize, gen: &mut Gen, out: &mut Out) {
    let shards = [1usize, 4, 2][run % 3];
    let state = ShardedActorState::with_config(ShardConfig::with_shards(shards));
    let mut a = Client::connect(&state);
    let mut bc = Client::connect(&state);
    let kind = ["ttl", "big", "ttl", "big", "ttl_long"][run % 5];
    let mut detail = json!({});
    let changed;
    // a second watched key on (possibly) another shard in some cases
    let extra = gen.rng.gen_bool(0.3);
    let mut wargv = vec![b("WATCH"), b("w")];
    if extra {
        wargv.push(b("other"));
    }
    match kind {
        "ttl" | "ttl_long" => {
            let ttl: u64 = if kind == "ttl" { [60u64, 100, 150][gen.rng.gen_range(0..3)] } else { 600_000 };
            let how = gen.rng.gen_range(0..3);
            match how {
                0 => { bc.call(&vec![b("SET"), b("w"), b("v0"), b("PX"), b(&ttl.to_string())]).await; }
                1 => { bc.call(&vec![b("SET"), b("w"), b("v0")]).await; bc.call(&vec![b("PEXPIRE"), b("w"), b(&ttl.to_string())]).await; }
                _ => { bc.call(&vec![b("RPUSH"), b("w"), b("a")]).await; bc.call(&vec![b("PEXPIRE"), b("w"), b(&ttl.to_string())]).await; }
            }
            a.call(&wargv).await;
            // the case presupposes that the key was still alive when WATCH ran: if the host stalled for longer than the TTL
            // between the SET and the WATCH, the snapshot is of a missing key and nothing changes afterwards - not a case
            let alive_after_watch = matches!(bc.call(&vec![b("PTTL"), b("w")]).await, RespValue::Integer(n) if n > 0);
            if !alive_after_watch {
                out.emit(&json!({"t": "wcase", "run": run, "kind": "skipped", "changed": false, "exec": {"t": "array", "a": [], "b": []}, "applied": true, "applied_all": true,
                                 "detail": {"why": "the key had expired before WATCH ran (host stall)"}}));
                return;
            }
            let between = gen.rng.gen_range(0..4);
            if between == 3 {
                a.call(&vec![b("MULTI")]).await;
            }
            tokio::time::sleep(std::time::Duration::from_millis(if kind == "ttl" { ttl + 80 } else { 30 })).await;
            match between {
                1 => { bc.call(&vec![b("GET"), b("w")]).await; }      // another client's plain read of the key
                2 => { bc.call(&vec![b("SET"), b("unrelated"), b("1")]).await; }
                _ => {}
            }
            if between != 3 {
                a.call(&vec![b("MULTI")]).await;
            }
            changed = kind == "ttl";
            detail = json!({"ttl": ttl, "set_how": how, "between": between, "shards": shards, "extra": extra});
        }
        _ => {
            let size = [1usize << 20, (1 << 20) + 1, 2_100_000, 70_000, (1 << 20) - 1, 5 << 20][gen.rng.gen_range(0..6)];
            let payload: Vec<u8> = (0..size).map(|i| b'a' + ((i * 7 + i / 251) % 23) as u8).collect();
            bc.call(&vec![b("SET"), b("w"), payload.clone()]).await;
            a.call(&wargv).await;
            let act = gen.rng.gen_range(0..6);
            changed = match act {
                0 | 1 => false,
                2 => { bc.call(&vec![b("SET"), b("unrelated"), b("1")]).await; false }
                3 => { bc.call(&vec![b("APPEND"), b("w"), b("z")]).await; true }
                4 => { bc.call(&vec![b("SETRANGE"), b("w"), b(&(size / 2).to_string()), b("#")]).await; true }
                _ => { bc.call(&vec![b("SET"), b("w"), payload.clone()]).await; false }   // the same value again
            };
            a.call(&vec![b("MULTI")]).await;
            detail = json!({"size": size, "act": act, "shards": shards, "extra": extra});
        }
    }
    a.call(&vec![b("SET"), b("x"), b("applied")]).await;
    a.call(&vec![b("INCR"), b("n")]).await;
    let exec = a.call(&vec![b("EXEC")]).await;
    let x = bc.call(&vec![b("GET"), b("x")]).await;
    let n = bc.call(&vec![b("GET"), b("n")]).await;
    let applied_x = matches!(&x, RespValue::BulkString(Some(v)) if v == b"applied");
    let applied_n = matches!(&n, RespValue::BulkString(Some(v)) if v == b"1");
    out.emit(&json!({"t": "wcase", "run": run, "kind": kind, "changed": changed, "exec": rv_json(&exec),
                     "applied": applied_x || applied_n, "applied_all": applied_x && applied_n, "detail": detail}));
}

pub fn main(a: &Args, rt: &tokio::runtime::Runtime, gen: &mut Gen, out: &mut Out) -> i32 {
    if a.get("level") == Some("wcase") {
        for i in 0..a.usize("n", 60) {
            let mut tmp = Out::create("/dev/null");
            std::mem::swap(out, &mut tmp);
            let mut o = tmp;
            let r = catch(|| rt.block_on(wcase(i + 1, gen, &mut o)));
            if let Err(p) = r {
                o.emit(&json!({"t": "wcase", "run": i + 1, "panic": p}));
            }
            std::mem::swap(out, &mut o);
        }
        return 0;
    }
    if a.get("level") == Some("executor") {
        for i in 0..a.usize("n", 200) {
            let mut tmp = Out::create("/dev/null");
            std::mem::swap(out, &mut tmp);
            let mut o = tmp;
            if let Err(p) = catch(|| case_executor(i + 1, gen, &mut o)) {
                o.emit(&json!({"t": "txn", "run": i + 1, "panic": p, "steps": [], "s": []}));
            }
            std::mem::swap(out, &mut o);
        }
        return 0;
    }
    for i in 0..a.usize("n", 200) {
        let mut tmp = Out::create("/dev/null");
        std::mem::swap(out, &mut tmp);
        let mut o = tmp;
        let r = catch(|| rt.block_on(case(i + 1, gen, &mut o, a.usize("shards", 0), a.get("nowatch").is_some())));
        if let Err(p) = r {
            o.emit(&json!({"t": "txn", "run": i + 1, "panic": p, "steps": [], "s": []}));
        }
        std::mem::swap(out, &mut o);
    }
    0
}
