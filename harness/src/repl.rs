//! Replication.tla binding (C06): N real ReplicatedShardActors for one key, the harness is the
//! network. Every step logs each node's replication state (obs) and what it serves.
//!   vh repl replay <scenarios.ndjson> --out trace     (scenario = list of steps from TLC)
//!   vh repl record --seed S --n N --out trace
use crate::crdt::obs;
use crate::stream::HarnessTime;
use crate::util::*;
use std::sync::{Arc, Mutex};
use rand::Rng;
use redis_sim::production::{ReplicatedShardActor, ReplicatedShardHandle};
use redis_sim::redis::{Command, RespValue};
use redis_sim::replication::lattice::ReplicaId;
use redis_sim::replication::state::ReplicationDelta;
use redis_sim::replication::ConsistencyLevel;
use serde_json::{json, Value};
use std::collections::BTreeMap;

pub const KEY: &str = "k";

pub fn argv_cmd(argv: &[&str]) -> Command {
    let v = RespValue::Array(Some(argv.iter().map(|a| RespValue::BulkString(Some(a.as_bytes().to_vec()))).collect()));
    Command::from_resp(&v).unwrap_or_else(|e| panic!("parse {argv:?}: {e}"))
}

fn bulk(r: &RespValue) -> Option<String> {
    match r {
        RespValue::BulkString(Some(b)) => Some(String::from_utf8_lossy(b).to_string()),
        _ => None,
    }
}

/// A node of the cluster under test: a production shard actor, or the simulator's node (multi_node.rs: executor +
/// ShardReplicaState + the glue of SimulatedNode::execute / apply_remote_deltas).
enum NodeH {
    Actor(ReplicatedShardHandle),
    Sim(std::cell::RefCell<redis_sim::simulator::multi_node::SimulatedNode>),
}

impl NodeH {
    async fn execute(&self, cmd: Command) -> (RespValue, Option<ReplicationDelta>) {
        match self {
            NodeH::Actor(h) => h.execute(cmd).await,
            NodeH::Sim(n) => {
                let mut n = n.borrow_mut();
                let r = n.execute(&cmd);
                let mut ds: Vec<ReplicationDelta> = n.drain_deltas().into_iter().filter(|d| d.key == KEY).collect();
                (r, ds.pop())
            }
        }
    }
    fn apply_remote_delta(&self, d: ReplicationDelta) {
        match self {
            NodeH::Actor(h) => h.apply_remote_delta(d),
            NodeH::Sim(n) => n.borrow_mut().apply_remote_deltas(vec![d]),
        }
    }
    async fn snapshot_key(&self) -> Option<redis_sim::replication::state::ReplicatedValue> {
        match self {
            NodeH::Actor(h) => h.get_snapshot().await.get(KEY).cloned(),
            NodeH::Sim(n) => n.borrow().replica_state.replicated_keys.get(KEY).cloned(),
        }
    }
    async fn shutdown(&self) {
        if let NodeH::Actor(h) = self {
            h.shutdown().await;
        }
    }
}

/// What a node serves for the key: [t, v, h] like Replication.tla's served value.
async fn served(h: &NodeH) -> Value {
    let t = h.execute(argv_cmd(&["TYPE", KEY])).await.0;
    let ts = match &t {
        RespValue::SimpleString(s) => s.to_string(),
        other => format!("{other:?}"),
    };
    match ts.as_str() {
        "none" => json!({"t": "none", "v": "", "h": []}),
        "string" => {
            let g = h.execute(argv_cmd(&["GET", KEY])).await.0;
            // the TTL the node reports (its clock stands still: the TTL the key was given), -1 = none
            let e = match h.execute(argv_cmd(&["PTTL", KEY])).await.0 { RespValue::Integer(n) if n >= 0 => n, _ => -1 };
            json!({"t": "str", "v": bulk(&g).unwrap_or_default(), "h": [], "e": e})
        }
        "hash" => {
            let g = h.execute(argv_cmd(&["HGETALL", KEY])).await.0;
            let mut m = BTreeMap::new();
            if let RespValue::Array(Some(items)) = g {
                for p in items.chunks(2) {
                    if p.len() == 2 {
                        m.insert(bulk(&p[0]).unwrap_or_default(), bulk(&p[1]).unwrap_or_default());
                    }
                }
            }
            json!({"t": "hash", "v": "", "h": m.iter().map(|(f, v)| json!([f, v])).collect::<Vec<_>>()})
        }
        other => json!({"t": other, "v": "", "h": []}),
    }
}

async fn node_view(h: &NodeH) -> Value {
    let snap = h.snapshot_key().await;
    let rs = match &snap {
        Some(v) => obs(v),
        None => json!({"absent": true}),
    };
    json!({"rs": rs, "served": served(h).await})
}

/// `with_get`: SET .. NX carries the GET option too (same effect on the keyspace; with XX or alone GET
/// turns a hash key into a WRONGTYPE error, which the abstract op does not know;
/// the reply is then the old value, which is what the "was it applied?" rule of the glue has to read).
fn cmd_of(step: &Value, with_get: bool) -> Command {
    let v = step["v"].as_str().unwrap_or("");
    let f = step["f"].as_str().unwrap_or("");
    let e = step["e"].as_i64().unwrap_or(-1);
    let es = e.to_string();
    match step["op"].as_str().unwrap() {
        "set" if e >= 0 && e % 1000 == 0 && with_get => argv_cmd(&["SET", KEY, v, "EX", &(e / 1000).to_string()]),
        "set" if e >= 0 => argv_cmd(&["SET", KEY, v, "PX", &es]),
        "set" => argv_cmd(&["SET", KEY, v]),
        "setnx" if with_get => argv_cmd(&["SET", KEY, v, "NX", "GET"]),
        "setnx" => argv_cmd(&["SET", KEY, v, "NX"]),
        "setxx" => argv_cmd(&["SET", KEY, v, "XX"]),
        "getset" => argv_cmd(&["GETSET", KEY, v]),
        "del" => argv_cmd(&["DEL", KEY]),
        "incr" => argv_cmd(&["INCR", KEY]),
        "append" => argv_cmd(&["APPEND", KEY, v]),
        "hset" => argv_cmd(&["HSET", KEY, f, v]),
        "hdel" => argv_cmd(&["HDEL", KEY, f]),
        o => panic!("op {o}"),
    }
}

struct Cluster {
    nodes: Vec<NodeH>,
    sim: bool,
    deltas: BTreeMap<u64, (usize, ReplicationDelta)>, // seq -> (origin, delta)
    nsent: u64,
    run: usize,
    ncmd: u64,
}

impl Cluster {
    fn new(run: usize, nn: usize, log: &mut Vec<Value>) -> Cluster {
        Cluster::with(run, nn, false, log)
    }
    /// `sim`: the nodes are the simulator's (multi_node.rs), built as MultiNodeSimulation::new builds them.
    fn with(run: usize, nn: usize, sim: bool, log: &mut Vec<Value>) -> Cluster {
        let nodes = (1..=nn)
            .map(|i| {
                if sim {
                    let peers = (1..=nn).filter(|j| *j != i).map(|j| format!("127.0.0.1:{}", 3000 + j)).collect();
                    let cfg = redis_sim::replication::ReplicationConfig::new_cluster(i as u64, peers);
                    NodeH::Sim(std::cell::RefCell::new(redis_sim::simulator::multi_node::SimulatedNode::new(i - 1, cfg)))
                } else {
                    NodeH::Actor(ReplicatedShardActor::spawn(ReplicaId::new(i as u64), ConsistencyLevel::Eventual, 0))
                }
            })
            .collect();
        log.push(json!({"a": "reset", "run": run, "n": nn}));
        Cluster { nodes, sim, deltas: BTreeMap::new(), nsent: 0, run, ncmd: 0 }
    }
    /// Executes one step; returns the sequence number of the delta a client step produced (0 = none).
    async fn step(&mut self, st: &Value, log: &mut Vec<Value>) -> u64 {
        let mut ev = st.clone();
        let mut produced = 0;
        match st["a"].as_str().unwrap() {
            "client" => {
                let n = st["n"].as_u64().unwrap() as usize;
                self.ncmd += 1;
                // (for the simulator's nodes the flag selects EX, the only expiry option its glue looks at)
                let with_get = if self.sim { st["op"] == "set" } else { (self.ncmd + self.run as u64) % 3 == 0 };
                let (resp, d) = self.nodes[n - 1].execute(cmd_of(st, with_get)).await;
                ev["err"] = json!(matches!(resp, RespValue::Error(_)));
                ev["reply"] = json!(format!("{resp:?}"));
                if let Some(d) = d {
                    self.nsent += 1;
                    produced = self.nsent;
                    self.deltas.insert(self.nsent, (n, d));
                }
                ev["seq"] = json!(produced);
            }
            "deliver" | "dup" => {
                let seq = st["seq"].as_u64().unwrap();
                let to = st["to"].as_u64().unwrap() as usize;
                match self.deltas.get(&seq) {
                    Some((origin, d)) if *origin != to => self.nodes[to - 1].apply_remote_delta(d.clone()),
                    _ => ev["skipped"] = json!(true),
                }
            }
            "ae" => {
                let from = st["from"].as_u64().unwrap() as usize;
                let to = st["to"].as_u64().unwrap() as usize;
                let snap = self.nodes[from - 1].snapshot_key().await;
                if let Some(v) = &snap {
                    self.nodes[to - 1].apply_remote_delta(ReplicationDelta::new(KEY.into(), v.clone(), ReplicaId::new(from as u64)));
                } else {
                    ev["skipped"] = json!(true);
                }
            }
            a => panic!("step {a}"),
        }
        let mut views = Vec::new();
        for h in &self.nodes {
            views.push(node_view(h).await);
        }
        ev["nodes"] = json!(views);
        ev["run"] = json!(self.run);
        log.push(ev);
        produced
    }
    async fn shutdown(&self) {
        for h in &self.nodes {
            h.shutdown().await;
        }
    }
}

async fn run_async(run: usize, nn: usize, steps: Vec<Value>, log: &mut Vec<Value>) {
    let mut c = Cluster::new(run, nn, log);
    for st in &steps {
        c.step(st, log).await;
    }
    c.shutdown().await;
}

/// Random run: client commands at random nodes; the deltas really produced are delivered in
/// random order, some twice, some only after later commands; occasional anti-entropy; ends quiescent.
async fn run_random(run: usize, nn: usize, kinds: &[&str], sim: bool, rng: &mut rand_chacha::ChaCha8Rng, log: &mut Vec<Value>) {
    let mut c = Cluster::with(run, nn, sim, log);
    let mut inflight: Vec<(u64, usize)> = Vec::new();
    let ncmd = rng.gen_range(2..=7);
    for _ in 0..ncmd {
        let n = rng.gen_range(1..=nn);
        let op = kinds[rng.gen_range(0..kinds.len())];
        let v = ["1", "2", "x", ""][rng.gen_range(0..4)];
        let f = ["f", "g"][rng.gen_range(0..2)];
        let e = if op == "set" && rng.gen_bool(0.3) { [if sim { 7000 } else { 500 }, 5000][rng.gen_range(0..2)] } else { -1 };
        let seq = c.step(&json!({"a": "client", "n": n, "op": op, "v": v, "f": f, "e": e}), log).await;
        if seq != 0 {
            for to in 1..=nn {
                if to != n {
                    inflight.push((seq, to));
                }
            }
        }
        while !inflight.is_empty() && rng.gen_bool(0.4) {
            let i = rng.gen_range(0..inflight.len());
            let (s, to) = inflight[i];
            if rng.gen_bool(0.15) {
                c.step(&json!({"a": "dup", "seq": s, "to": to}), log).await;
            } else {
                inflight.swap_remove(i);
                c.step(&json!({"a": "deliver", "seq": s, "to": to}), log).await;
            }
        }
        if rng.gen_bool(0.1) {
            let a = rng.gen_range(1..=nn);
            let b = 1 + (a % nn);
            c.step(&json!({"a": "ae", "from": a, "to": b}), log).await;
        }
    }
    while !inflight.is_empty() {
        let i = rng.gen_range(0..inflight.len());
        let (s, to) = inflight.swap_remove(i);
        c.step(&json!({"a": "deliver", "seq": s, "to": to}), log).await;
    }
    c.shutdown().await;
}

pub fn main(args: &[String]) -> i32 {
    let a = Args::parse(args);
    quiet_panics();
    let mut out = Out::create(&a.str("out", "repl_trace.ndjson"));
    let rt = tokio::runtime::Builder::new_current_thread().enable_all().build().unwrap();
    let mut run_one = |run: usize, nn: usize, steps: Vec<Value>, out: &mut Out| {
        let mut log = Vec::new();
        let r = catch(|| rt.block_on(run_async(run, nn, steps, &mut log)));
        for ev in &log {
            out.emit(ev);
        }
        if let Err(p) = r {
            out.emit(&json!({"a": "panic", "run": run, "msg": p}));
        }
    };
    match a.pos.first().map(|s| s.as_str()) {
        Some("replay") => {
            for (i, s) in read_ndjson(&a.pos[1]).iter().enumerate() {
                run_one(i + 1, s["n"].as_u64().unwrap() as usize, s["steps"].as_array().unwrap().clone(), &mut out);
            }
        }
        // hashes far above any per-delta size threshold, crossed with a concurrent write of another type
        Some("bighash") => {
            let mut run = 0;
            for nf in [8usize, 63, 64, 65, 70, 130] {
                for other in ["set", "del"] {
                    run += 1;
                    let mut steps: Vec<Value> = Vec::new();
                    for i in 1..=nf {
                        steps.push(json!({"a": "client", "n": 1, "op": "hset", "v": "1", "f": format!("f{i}"), "e": -1}));
                        steps.push(json!({"a": "deliver", "seq": i, "to": 2}));
                    }
                    steps.push(json!({"a": "client", "n": 2, "op": other, "v": "s", "f": "", "e": -1}));        // seq nf+1, held back
                    // two more field writes on node 1: the first ties with the other write on time, the second is newer
                    // (node 2's clock is ahead by the deltas it received: several writes until node 1's stamp passes it)
                    for (j, fld) in ["a", "b", "c", "d", "e"].iter().enumerate() {
                        steps.push(json!({"a": "client", "n": 1, "op": "hset", "v": "9", "f": fld, "e": -1}));   // seq nf+2+j
                        steps.push(json!({"a": "deliver", "seq": nf + 2 + j, "to": 2}));
                    }
                    steps.push(json!({"a": "deliver", "seq": nf + 1, "to": 1}));
                    run_one(run, 2, steps, &mut out);
                }
            }
        }
        // node level (ReplicatedShardedState, 16 shards): a write accepted by A and delivered to B is served by B
        Some("nodepair") => {
            use redis_sim::production::ReplicatedShardedState;
            use redis_sim::replication::ReplicationConfig;
            let rt = tokio::runtime::Builder::new_current_thread().enable_all().build().unwrap();
            let keys = ["k", "user:1", "{user:1}:name", "a{b}c", "{}x", "{tag}", "x{y", "é{é}", "{a}{b}", "key with space"];
            let mut run = 0;
            for key in keys {
                run += 1;
                let ev = rt.block_on(async {
                    let na = ReplicatedShardedState::new(ReplicationConfig { replica_id: 1, ..Default::default() });
                    let nb = ReplicatedShardedState::new(ReplicationConfig { replica_id: 2, ..Default::default() });
                    let _ = na.execute(argv_cmd(&["SET", key, "v1"])).await;
                    let ds: Vec<ReplicationDelta> = na.collect_pending_deltas().await;
                    let nd = ds.len();
                    nb.apply_remote_deltas(ds);
                    // B accepts a hash field elsewhere and A gets it back
                    let hk = format!("h{key}");
                    let _ = nb.execute(argv_cmd(&["HSET", &hk, "f", "1"])).await;
                    let back: Vec<ReplicationDelta> = nb.collect_pending_deltas().await.into_iter().filter(|d| d.key == hk).collect();
                    na.apply_remote_deltas(back);
                    let ga = format!("{:?}", na.execute(argv_cmd(&["GET", key])).await);
                    let gb = format!("{:?}", nb.execute(argv_cmd(&["GET", key])).await);
                    let ha = format!("{:?}", na.execute(argv_cmd(&["HGET", &hk, "f"])).await);
                    let hb = format!("{:?}", nb.execute(argv_cmd(&["HGET", &hk, "f"])).await);
                    json!({"a": "nodepair", "key": key, "deltas": nd, "a_get": ga, "b_get": gb, "a_hget": ha, "b_hget": hb})
                });
                out.emit(&json!({"a": "reset", "run": run, "n": 2}));
                let mut ev = ev;
                ev["run"] = json!(run);
                out.emit(&ev);
            }
        }
        // node level, commands that name several keys (MSET, DEL, MGET, EXISTS) and DBSIZE: accepted at A, shipped to B,
        // read back on both nodes key by key and through the multi-key reads
        Some("multikey") => {
            use redis_sim::production::ReplicatedShardedState;
            use redis_sim::replication::ReplicationConfig;
            let rt = tokio::runtime::Builder::new_current_thread().enable_all().build().unwrap();
            let mut rng = rng(a.u64("seed", 1));
            let show = |r: &RespValue| -> Value {
                match r {
                    RespValue::BulkString(Some(b)) => json!(String::from_utf8_lossy(b).to_string()),
                    RespValue::BulkString(None) => json!("<nil>"),
                    RespValue::Integer(n) => json!(n),
                    RespValue::SimpleString(x) => json!(format!("+{}", x)),
                    RespValue::Array(Some(a)) => json!(a.iter().map(|x| match x { RespValue::BulkString(Some(b)) => String::from_utf8_lossy(b).to_string(), RespValue::BulkString(None) => "<nil>".to_string(), o => format!("{o:?}") }).collect::<Vec<_>>()),
                    o => json!(format!("{o:?}")),
                }
            };
            for run in 1..=a.usize("n", 40) {
                let nk = rng.gen_range(2..=6usize);
                let keys: Vec<String> = (0..nk).map(|i| format!("mk{}:{}", run, i)).collect();
                // script: abstract ops over key indices 1..nk
                let mut script: Vec<Value> = Vec::new();
                let first: Vec<usize> = (1..=nk).collect();
                script.push(json!({"op": "mset", "ks": first, "vs": (1..=nk).map(|i| format!("v{i}")).collect::<Vec<_>>()}));
                for _ in 0..rng.gen_range(0..4) {
                    match rng.gen_range(0..4) {
                        0 => script.push(json!({"op": "set", "ks": [rng.gen_range(1..=nk)], "vs": ["single"]})),
                        1 | 2 => {
                            let ks: Vec<usize> = (1..=nk).filter(|_| rng.gen_bool(0.5)).collect();
                            if !ks.is_empty() {
                                script.push(json!({"op": "del", "ks": ks, "vs": []}));
                            }
                        }
                        _ => {
                            let ks: Vec<usize> = (1..=nk).filter(|_| rng.gen_bool(0.4)).collect();
                            if !ks.is_empty() {
                                let vs: Vec<String> = ks.iter().map(|k| format!("again{k}")).collect();
                                script.push(json!({"op": "mset", "ks": ks, "vs": vs}));
                            }
                        }
                    }
                }
                let ev = rt.block_on(async {
                    let na = ReplicatedShardedState::new(ReplicationConfig { replica_id: 1, ..Default::default() });
                    let nb = ReplicatedShardedState::new(ReplicationConfig { replica_id: 2, ..Default::default() });
                    let mut replies = Vec::new();
                    for c in &script {
                        let ks: Vec<usize> = c["ks"].as_array().unwrap().iter().map(|k| k.as_u64().unwrap() as usize).collect();
                        let vs: Vec<String> = c["vs"].as_array().unwrap().iter().map(|v| v.as_str().unwrap().to_string()).collect();
                        let mut argv: Vec<String> = Vec::new();
                        match c["op"].as_str().unwrap() {
                            "mset" => { argv.push("MSET".into()); for (k, v) in ks.iter().zip(vs.iter()) { argv.push(keys[k - 1].clone()); argv.push(v.clone()); } }
                            "set" => { argv = vec!["SET".into(), keys[ks[0] - 1].clone(), vs[0].clone()]; }
                            _ => { argv.push("DEL".into()); for k in &ks { argv.push(keys[k - 1].clone()); } }
                        }
                        let av: Vec<&str> = argv.iter().map(|x| x.as_str()).collect();
                        replies.push(show(&na.execute(argv_cmd(&av)).await));
                        let ds: Vec<ReplicationDelta> = na.collect_pending_deltas().await;
                        nb.apply_remote_deltas(ds);
                    }
                    let mut view = Vec::new();
                    for n in [&na, &nb] {
                        let mut gets = Vec::new();
                        for k in &keys {
                            gets.push(show(&n.execute(argv_cmd(&["GET", k])).await));
                        }
                        let mut mg = vec!["MGET"];
                        mg.extend(keys.iter().map(|k| k.as_str()));
                        let mget = show(&n.execute(argv_cmd(&mg)).await);
                        let mut ex = vec!["EXISTS"];
                        ex.extend(keys.iter().map(|k| k.as_str()));
                        let exists = show(&n.execute(argv_cmd(&ex)).await);
                        let dbsize = show(&n.execute(argv_cmd(&["DBSIZE"])).await);
                        view.push(json!({"gets": gets, "mget": mget, "exists": exists, "dbsize": dbsize}));
                    }
                    json!({"a": "multikey", "nk": nk, "script": script, "replies": replies, "views": view})
                });
                out.emit(&json!({"a": "reset", "run": run, "n": 2}));
                let mut ev = ev;
                ev["run"] = json!(run);
                out.emit(&ev);
            }
        }
        // a cluster of real nodes whose updates travel the way they do in production: execute() queues them in the node's
        // GossipState, the harness is the wire - it drains the outbound queues, serialises every message to JSON and back,
        // and delivers, delays, duplicates or loses it; lost messages are made up for by an anti-entropy style resend of the
        // origin's replication state at the end.  After full delivery every node answers every read alike.
        Some("cluster") => {
            use redis_sim::production::ReplicatedShardedState;
            use redis_sim::replication::gossip::GossipMessage;
            use redis_sim::replication::ReplicationConfig;
            let rt = tokio::runtime::Builder::new_current_thread().enable_all().build().unwrap();
            let mut rng = rng(a.u64("seed", 1));
            for run in 1..=a.usize("n", 40) {
                let nn = rng.gen_range(2..=4usize);
                let skeys = ["cs:1", "cs:2", "{t}cs"];
                let hkeys = ["ch:1", "ch:{2}"];
                let nsteps = rng.gen_range(4..=14usize);
                let ev = rt.block_on(async {
                    // every other run the nodes share a hand-driven clock: some SETs carry a TTL, time passes between the steps,
                    // the TTL manager's tick (evict_expired_all_shards) runs on some node now and then
                    let timed = run % 2 == 0;
                    let clock = Arc::new(Mutex::new(1_000_000u64));
                    let nodes: Vec<ReplicatedShardedState<HarnessTime>> = (1..=nn).map(|i| ReplicatedShardedState::with_time_source(ReplicationConfig { replica_id: i as u64, enabled: true, ..Default::default() }, HarnessTime(clock.clone()))).collect();
                    let mut wire: Vec<(usize, String)> = Vec::new();   // (destination, JSON of the message)
                    let mut script: Vec<Value> = Vec::new();
                    let mut lost = 0usize;
                    let mut serial = 0u64;
                    for _ in 0..nsteps {
                        let x = rng.gen_range(0..nn);
                        serial += 1;
                        if timed {
                            *clock.lock().unwrap() += [0u64, 1, 40, 120, 400][rng.gen_range(0..5)];
                            if rng.gen_bool(0.3) {
                                let _ = nodes[rng.gen_range(0..nn)].evict_expired_all_shards().await;
                            }
                        }
                        let argv: Vec<String> = match rng.gen_range(0..9) {
                            0 if timed => vec!["SET".into(), skeys[rng.gen_range(0..3)].into(), format!("v{serial}"), "PX".into(), [30u64, 100, 250][rng.gen_range(0..3)].to_string()],
                            0 | 1 => vec!["SET".into(), skeys[rng.gen_range(0..3)].into(), format!("v{serial}")],
                            2 => vec!["DEL".into(), skeys[rng.gen_range(0..3)].into()],
                            3 => vec!["MSET".into(), skeys[0].into(), format!("m{serial}"), skeys[1].into(), format!("n{serial}")],
                            4 => vec!["DEL".into(), skeys[0].into(), skeys[2].into()],
                            5 | 6 => vec!["HSET".into(), hkeys[rng.gen_range(0..2)].into(), format!("f{}", rng.gen_range(0..3)), format!("h{serial}")],
                            7 => vec!["HDEL".into(), hkeys[rng.gen_range(0..2)].into(), format!("f{}", rng.gen_range(0..3))],
                            _ => vec!["APPEND".into(), skeys[rng.gen_range(0..3)].into(), format!("a{serial}")],
                        };
                        let av: Vec<&str> = argv.iter().map(|s| s.as_str()).collect();
                        let _ = nodes[x].execute(argv_cmd(&av)).await;
                        script.push(json!({"n": x + 1, "argv": argv}));
                        // what the node queued for its peers goes on the wire (broadcast: one copy per peer)
                        if let Some(gs) = nodes[x].get_gossip_state() {
                            let out = gs.write().drain_outbound();
                            for m in out {
                                let js = serde_json::to_string(&m.message).unwrap_or_default();
                                for y in 0..nn {
                                    if y != x && m.target.map(|t| t.0 as usize == y + 1).unwrap_or(true) {
                                        wire.push((y, js.clone()));
                                    }
                                }
                            }
                        }
                        // the network: deliver some message (any order), duplicate one, lose one
                        for _ in 0..rng.gen_range(0..3) {
                            if wire.is_empty() {
                                break;
                            }
                            let i = rng.gen_range(0..wire.len());
                            match rng.gen_range(0..10) {
                                0 => { wire.remove(i); lost += 1; }
                                1 => { let (y, js) = wire[i].clone(); if let Ok(m) = serde_json::from_str::<GossipMessage>(&js) { nodes[y].apply_remote_deltas(m.into_deltas().unwrap_or_default()); } }
                                _ => { let (y, js) = wire.remove(i); if let Ok(m) = serde_json::from_str::<GossipMessage>(&js) { nodes[y].apply_remote_deltas(m.into_deltas().unwrap_or_default()); } }
                            }
                        }
                    }
                    // (timed runs) every TTL runs out and the ticks run everywhere BEFORE the late messages arrive ...
                    if timed {
                        *clock.lock().unwrap() += 1000;
                        for n in &nodes {
                            let _ = n.evict_expired_all_shards().await;
                        }
                    }
                    // everything still on the wire arrives, in any order
                    while !wire.is_empty() {
                        let i = rng.gen_range(0..wire.len());
                        let (y, js) = wire.remove(i);
                        if let Ok(m) = serde_json::from_str::<GossipMessage>(&js) {
                            nodes[y].apply_remote_deltas(m.into_deltas().unwrap_or_default());
                        }
                    }
                    // lost messages are made up for: every node ships its replication state to every other (anti-entropy)
                    if lost > 0 {
                        for x in 0..nn {
                            let snap = nodes[x].snapshot_state().await;
                            let ds: Vec<ReplicationDelta> = snap.into_iter().map(|(k, v)| ReplicationDelta::new(k, v, redis_sim::replication::lattice::ReplicaId::new(x as u64 + 1))).collect();
                            for y in 0..nn {
                                if y != x {
                                    nodes[y].apply_remote_deltas(ds.clone());
                                }
                            }
                        }
                    }
                    // ... and once more afterwards: a TTL that a late delivery re-armed on the receiver has run out as well
                    if timed {
                        for _ in 0..2 {
                            *clock.lock().unwrap() += 1000;
                            for n in &nodes {
                                let _ = n.evict_expired_all_shards().await;
                            }
                        }
                    }
                    // let the shard actors drain their mailboxes, then read everything on every node
                    let mut views = Vec::new();
                    for n in &nodes {
                        let mut v = Vec::new();
                        for k in skeys {
                            v.push(format!("{:?}", n.execute(argv_cmd(&["GET", k])).await));
                            v.push(format!("{:?}", n.execute(argv_cmd(&["EXISTS", k])).await));
                        }
                        for k in hkeys {
                            let mut h = match n.execute(argv_cmd(&["HGETALL", k])).await { RespValue::Array(Some(a)) => a.iter().map(|x| format!("{x:?}")).collect::<Vec<_>>(), o => vec![format!("{o:?}")] };
                            let mut pairs: Vec<String> = h.chunks(2).map(|c| c.join("=")).collect();
                            pairs.sort();
                            h = pairs;
                            v.push(h.join(","));
                        }
                        let snap: std::collections::BTreeMap<String, redis_sim::replication::state::ReplicatedValue> = n.snapshot_state().await.into_iter().collect();
                        views.push(json!({"reads": v, "rs": snap.iter().map(|(k, x)| json!([k, crate::crdt::obs(x)])).collect::<Vec<_>>()}));
                    }
                    json!({"a": "cluster", "nn": nn, "timed": timed, "lost": lost, "script": script, "views": views})
                });
                out.emit(&json!({"a": "reset", "run": run, "n": nn}));
                let mut ev = ev;
                ev["run"] = json!(run);
                out.emit(&ev);
            }
        }
        // the simulator's nodes (multi_node.rs) under the same rules: SET (plain, NX, XX, EX) and DEL, the commands its glue replicates
        Some("simnode") => {
            let mut rng = rng(a.u64("seed", 1));
            let kinds = ["set", "setnx", "setxx", "del", "set"];
            for i in 0..a.usize("n", 100) {
                let nn = 2 + i % 3;
                let mut log = Vec::new();
                let r = catch(|| rt.block_on(run_random(i + 1, nn, &kinds, true, &mut rng, &mut log)));
                for ev in &log {
                    out.emit(ev);
                }
                if let Err(p) = r {
                    out.emit(&json!({"a": "panic", "run": i + 1, "msg": p}));
                }
            }
        }
        // the simulator's whole cluster (MultiNodeSimulation): its own network (delays, loss, partitions that drop), its own gossip
        // rounds (broadcast, or selective through the hash ring), its own anti-entropy.  Stamps are read off the accepting node
        // after each write; at the end everything is healed and delivered (gossip until the queue is empty, anti-entropy until no
        // digest differs): ReplTrace!SimClusterVerdict demands that every responsible node holds and serves, for every key, the
        // write with the greatest stamp, and that a node never serves what its replication state does not say.
        Some("simcluster") => {
            use redis_sim::simulator::multi_node::MultiNodeSimulation;
            let mut rng = rng(a.u64("seed", 1));
            let show = |r: &RespValue| -> String {
                match r {
                    RespValue::BulkString(Some(b)) => String::from_utf8_lossy(b).to_string(),
                    RespValue::BulkString(None) => "<nil>".to_string(),
                    o => format!("{o:?}"),
                }
            };
            for run in 1..=a.usize("n", 40) {
                let nn = rng.gen_range(2..=5usize);
                let selective = rng.gen_bool(0.5);
                let rf = if selective { rng.gen_range(1..=nn) } else { nn };
                let calm = rng.gen_bool(0.4);      // no partition, no loss: selective gossip alone has to reach every owner
                let loss = if calm { 0.0 } else { [0.0, 0.0, 0.3][rng.gen_range(0..3)] };
                let nk = rng.gen_range(1..=4usize);
                let keys: Vec<String> = (1..=nk).map(|i| format!("sk{run}:{i}")).collect();
                let r = catch(|| {
                    let mut sim = if selective { MultiNodeSimulation::new_partitioned(nn, rf, run as u64 * 7 + 1) } else { MultiNodeSimulation::new(nn, run as u64 * 7 + 1) };
                    sim = sim.with_packet_loss(loss).with_auto_anti_entropy(rng.gen_bool(0.5));
                    if rng.gen_bool(0.3) {
                        sim = sim.with_message_delay(0, 60);
                    }
                    let mut writes: Vec<Value> = Vec::new();
                    let mut steps: Vec<Value> = Vec::new();
                    let mut cut = false;
                    let stamp_of = |sim: &MultiNodeSimulation, n: usize, k: &str| -> Option<(u64, u64, String)> {
                        sim.nodes[n].replica_state.replicated_keys.get(k).map(|rv| {
                            let v = if rv.is_tombstone() { "<del>".to_string() } else { rv.get().map(|s| String::from_utf8_lossy(s.as_bytes()).to_string()).unwrap_or_else(|| "<none>".into()) };
                            (rv.timestamp.time, rv.timestamp.replica_id.0, v)
                        })
                    };
                    for serial in 1..=rng.gen_range(4..=24usize) {
                        match rng.gen_range(if calm { 2 } else { 0 }..10) {
                            0 => { let (x, y) = (rng.gen_range(0..nn), rng.gen_range(0..nn)); if x != y { sim.partition(x, y); cut = true; } }
                            1 => { let (x, y) = (rng.gen_range(0..nn), rng.gen_range(0..nn)); if x != y { sim.heal_partition(x, y); } }
                            2 | 3 => { sim.advance_time_ms(rng.gen_range(1..40)); sim.gossip_round(); }
                            c => {
                                let n = rng.gen_range(0..nn);
                                let ki = rng.gen_range(0..nk);
                                let val = format!("v{serial}");
                                let mut touched = vec![ki];
                                let argv: Vec<String> = match c {
                                    4 | 5 | 6 => vec!["SET".into(), keys[ki].clone(), val],
                                    7 => vec!["SET".into(), keys[ki].clone(), val, ["NX", "XX"][rng.gen_range(0..2)].into()],
                                    8 => vec!["DEL".into(), keys[ki].clone()],
                                    _ => { let k2 = rng.gen_range(0..nk); if k2 != ki { touched.push(k2); } vec!["DEL".into(), keys[ki].clone(), keys[k2].clone()] }
                                };
                                let before: Vec<_> = touched.iter().map(|k| stamp_of(&sim, n, &keys[*k])).collect();
                                let av: Vec<&str> = argv.iter().map(|s| s.as_str()).collect();
                                let reply = sim.execute(0, n, argv_cmd(&av));
                                for (j, k) in touched.iter().enumerate() {
                                    let after = stamp_of(&sim, n, &keys[*k]);
                                    if after != before[j] {
                                        let (t, r, v) = after.clone().unwrap();
                                        writes.push(json!({"k": k + 1, "n": n + 1, "t": t, "r": r, "v": v}));
                                    }
                                    let get = show(&sim.nodes[n].executor.execute(&argv_cmd(&["GET", &keys[*k]])));
                                    let rsv = match &after { Some((_, _, v)) if v != "<del>" => v.clone(), _ => "<nil>".to_string() };
                                    steps.push(json!({"n": n + 1, "k": k + 1, "argv": argv, "reply": format!("{reply:?}"), "get": get, "rsv": rsv}));
                                }
                            }
                        }
                    }
                    // the network heals; whatever is queued arrives; what was dropped is made up for by anti-entropy
                    for x in 0..nn {
                        for y in (x + 1)..nn {
                            sim.heal_partition(x, y);
                        }
                    }
                    sim.packet_loss_rate = 0.0;
                    let mut rounds = 0;
                    loop {
                        sim.advance_time_ms(100);
                        sim.gossip_round();
                        rounds += 1;
                        if (sim.message_queue.is_empty() && rounds >= 2) || rounds > 60 {
                            break;
                        }
                    }
                    let ae = cut || loss > 0.0 || rng.gen_bool(0.5);
                    let mut ae_rounds = 0;
                    if ae {
                        loop {
                            sim.run_full_anti_entropy();
                            ae_rounds += 1;
                            let ds: Vec<_> = sim.nodes.iter().map(|n| n.generate_digest()).collect();
                            if ds.iter().all(|d| !d.differs_from(&ds[0])) || ae_rounds > 40 {
                                break;
                            }
                        }
                    }
                    // who must hold key k: everybody after anti-entropy (it ships whole buckets to every peer) or under
                    // broadcast gossip; under selective gossip alone, the ring's replicas of the key
                    let resp: Vec<Vec<usize>> = keys.iter().map(|k| match (&sim.hash_ring, ae) {
                        (Some(ring), false) => { let mut v: Vec<usize> = ring.read().unwrap().get_replicas(k).iter().map(|r| r.0 as usize).collect(); v.sort(); v }
                        _ => (1..=nn).collect(),
                    }).collect();
                    let views: Vec<Value> = (0..nn).map(|n| {
                        let gets: Vec<String> = keys.iter().map(|k| show(&sim.nodes[n].executor.execute(&argv_cmd(&["GET", k])))).collect();
                        let rs: Vec<Value> = keys.iter().map(|k| match stamp_of(&sim, n, k) { Some((t, r, v)) => json!([t, r, v]), None => json!([]) }).collect();
                        json!({"gets": gets, "rs": rs})
                    }).collect();
                    json!({"a": "simcluster", "nn": nn, "nk": nk, "selective": selective, "rf": rf, "loss": loss > 0.0, "cut": cut, "ae": ae,
                           "queue_left": sim.message_queue.len(), "ae_rounds": ae_rounds,
                           "writes": writes,
                           "steps": steps, "resp": resp, "views": views})
                });
                out.emit(&json!({"a": "reset", "run": run, "n": 2}));
                match r {
                    Ok(mut ev) => { ev["run"] = json!(run); out.emit(&ev); }
                    Err(p) => out.emit(&json!({"a": "panic", "run": run, "msg": p})),
                }
            }
        }
        // two directed shapes on real nodes with instant delivery (same ReplTrace rule as `cluster`: every node answers alike):
        // keep-alive - the same SET .. PX written again before it runs out, read between the two deadlines;
        // lagging - a node that has been idle receives only the newest state of a key from a node 70 000 writes ahead, then writes it
        Some("shapes") => {
            use redis_sim::production::ReplicatedShardedState;
            use redis_sim::replication::gossip::GossipMessage;
            use redis_sim::replication::ReplicationConfig;
            let rt = tokio::runtime::Builder::new_current_thread().enable_all().build().unwrap();
            let mut run = 0;
            let ship = |from: &ReplicatedShardedState<HarnessTime>, to: &[&ReplicatedShardedState<HarnessTime>], only_last: bool| {
                if let Some(gs) = from.get_gossip_state() {
                    let mut out = gs.write().drain_outbound();
                    if only_last && out.len() > 1 {
                        out = out.split_off(out.len() - 1);
                    }
                    for m in out {
                        let js = serde_json::to_string(&m.message).unwrap_or_default();
                        for t in to {
                            if let Ok(mm) = serde_json::from_str::<GossipMessage>(&js) {
                                t.apply_remote_deltas(mm.into_deltas().unwrap_or_default());
                            }
                        }
                    }
                }
            };
            for (opt, ttl, second_same, gap) in [("PX", 1000u64, true, 600u64), ("PX", 1000, false, 600), ("EX", 1, true, 700), ("PX", 300, true, 299), ("PX", 1000, true, 999), ("PX", 50, true, 10)] {
                run += 1;
                let ev = rt.block_on(async {
                    let clock = Arc::new(Mutex::new(1_000_000u64));
                    let mk = |i: u64| ReplicatedShardedState::with_time_source(ReplicationConfig { replica_id: i, enabled: true, ..Default::default() }, HarnessTime(clock.clone()));
                    let (na, nb) = (mk(1), mk(2));
                    let ttl_ms = if opt == "EX" { ttl * 1000 } else { ttl };
                    let first = vec!["SET".to_string(), "ka".into(), "v".into(), opt.into(), ttl.to_string()];
                    let second = if second_same { first.clone() } else { vec!["SET".to_string(), "ka".into(), "v2".into(), opt.into(), ttl.to_string()] };
                    let mut script = Vec::new();
                    for (i, argv) in [&first, &second].iter().enumerate() {
                        let av: Vec<&str> = argv.iter().map(|s| s.as_str()).collect();
                        let _ = na.execute(argv_cmd(&av)).await;
                        ship(&na, &[&nb], false);
                        script.push(json!({"n": 1, "argv": argv, "at": *clock.lock().unwrap()}));
                        if i == 0 {
                            *clock.lock().unwrap() += gap;
                            let _ = na.evict_expired_all_shards().await;
                            let _ = nb.evict_expired_all_shards().await;
                        }
                    }
                    // between the first deadline and the second
                    *clock.lock().unwrap() += ttl_ms - gap + (gap / 2).max(1);
                    let _ = na.evict_expired_all_shards().await;
                    let _ = nb.evict_expired_all_shards().await;
                    let mut views = Vec::new();
                    for n in [&na, &nb] {
                        let v = vec![format!("{:?}", n.execute(argv_cmd(&["GET", "ka"])).await), format!("{:?}", n.execute(argv_cmd(&["EXISTS", "ka"])).await)];
                        views.push(json!({"reads": v, "rs": []}));
                    }
                    json!({"a": "cluster", "nn": 2, "shape": "keepalive", "script": script, "views": views})
                });
                out.emit(&json!({"a": "reset", "run": run, "n": 2}));
                let mut ev = ev;
                ev["run"] = json!(run);
                out.emit(&ev);
            }
            for ahead in [70_000usize, 3000] {
                run += 1;
                let ev = rt.block_on(async {
                    let clock = Arc::new(Mutex::new(1_000_000u64));
                    let mk = |i: u64| ReplicatedShardedState::with_time_source(ReplicationConfig { replica_id: i, enabled: true, ..Default::default() }, HarnessTime(clock.clone()));
                    let (na, nb) = (mk(1), mk(2));
                    for i in 0..ahead {
                        let _ = na.execute(argv_cmd(&["SET", "lag", &format!("a-{i}")])).await;
                        if i % 1000 == 999 && i + 1 < ahead {
                            if let Some(gs) = na.get_gossip_state() { let _ = gs.write().drain_outbound(); }   // lost on the way
                        }
                    }
                    ship(&na, &[&nb], true);           // only the newest state arrives
                    let _ = nb.execute(argv_cmd(&["SET", "lag", "from-b"])).await;
                    ship(&nb, &[&na], false);
                    let mut views = Vec::new();
                    for n in [&na, &nb] {
                        let v = vec![format!("{:?}", n.execute(argv_cmd(&["GET", "lag"])).await)];
                        let snap: std::collections::BTreeMap<String, redis_sim::replication::state::ReplicatedValue> = n.snapshot_state().await.into_iter().filter(|(k, _)| k == "lag").collect();
                        views.push(json!({"reads": v, "rs": snap.iter().map(|(k, x)| json!([k, crate::crdt::obs(x)])).collect::<Vec<_>>()}));
                    }
                    json!({"a": "cluster", "nn": 2, "shape": "lagging", "ahead": ahead, "script": [], "views": views})
                });
                out.emit(&json!({"a": "reset", "run": run, "n": 2}));
                let mut ev = ev;
                ev["run"] = json!(run);
                out.emit(&ev);
            }
        }
        Some("record") => {
            let mut rng = rng(a.u64("seed", 1));
            let reg = ["set", "setnx", "setxx", "getset", "del", "incr", "append"];
            let hash = ["hset", "hdel", "hset"];
            let all = ["set", "setnx", "setxx", "getset", "del", "incr", "append", "hset", "hdel"];
            for i in 0..a.usize("n", 100) {
                let nn = 2 + i % 3;
                let kinds: &[&str] = match i % 4 {
                    0 => &reg,
                    1 => &hash,
                    _ => &all,
                };
                let mut log = Vec::new();
                let r = catch(|| rt.block_on(run_random(i + 1, nn, kinds, false, &mut rng, &mut log)));
                for ev in &log {
                    out.emit(ev);
                }
                if let Err(p) = r {
                    out.emit(&json!({"a": "panic", "run": i + 1, "msg": p}));
                }
            }
        }
        _ => {
            eprintln!("usage: vh repl replay|record");
            return 2;
        }
    }
    println!("{{\"events\": {}}}", out.finish());
    0
}
