//! Keyspace projection of a production-clock ShardedActorState through commands (no TTL column:
//! the production clock is not scripted, so cases using it avoid expiring keys).
use crate::ks::{parse_argv, Argv};
use redis_sim::production::ShardedActorState;
use redis_sim::redis::RespValue;
use serde_json::{json, Value};

fn b(s: &str) -> Vec<u8> {
    s.as_bytes().to_vec()
}
pub async fn exec(st: &ShardedActorState, argv: &Argv) -> RespValue {
    match parse_argv(argv) {
        Ok(cmd) => st.execute(&cmd).await,
        Err(e) => RespValue::err(e),
    }
}
fn bulk(r: &RespValue) -> Vec<u8> {
    match r {
        RespValue::BulkString(Some(b)) => b.clone(),
        _ => vec![],
    }
}
fn arr(r: RespValue) -> Vec<RespValue> {
    match r {
        RespValue::Array(Some(a)) => a,
        _ => vec![],
    }
}
pub async fn project(st: &ShardedActorState) -> Value {
    let mut keys: Vec<Vec<u8>> = arr(exec(st, &vec![b("KEYS"), b("*")]).await).iter().map(bulk).collect();
    keys.sort();
    keys.dedup();
    let mut out = Vec::new();
    for k in keys {
        let t = match exec(st, &vec![b("TYPE"), k.clone()]).await {
            RespValue::SimpleString(s) => s.to_string(),
            o => format!("{o:?}"),
        };
        let v = match t.as_str() {
            "string" => json!(bulk(&exec(st, &vec![b("GET"), k.clone()]).await)),
            "list" => json!(arr(exec(st, &vec![b("LRANGE"), k.clone(), b("0"), b("-1")]).await).iter().map(bulk).collect::<Vec<_>>()),
            "set" => {
                let mut m: Vec<Vec<u8>> = arr(exec(st, &vec![b("SMEMBERS"), k.clone()]).await).iter().map(bulk).collect();
                m.sort();
                json!(m)
            }
            "hash" => {
                let a = arr(exec(st, &vec![b("HGETALL"), k.clone()]).await);
                let mut m: Vec<(Vec<u8>, Vec<u8>)> = a.chunks(2).filter(|c| c.len() == 2).map(|c| (bulk(&c[0]), bulk(&c[1]))).collect();
                m.sort();
                json!(m.iter().map(|(f, v)| json!([f, v])).collect::<Vec<_>>())
            }
            "zset" => {
                let a = arr(exec(st, &vec![b("ZRANGE"), k.clone(), b("0"), b("-1"), b("WITHSCORES")]).await);
                let mut m: Vec<(Vec<u8>, i64)> = a.chunks(2).filter(|c| c.len() == 2)
                    .map(|c| (bulk(&c[0]), (String::from_utf8_lossy(&bulk(&c[1])).parse::<f64>().unwrap_or(0.0) * 4.0).round() as i64)).collect();
                m.sort();
                json!(m.iter().map(|(mm, q)| json!([mm, q])).collect::<Vec<_>>())
            }
            _ => json!([]),
        };
        out.push(json!([String::from_utf8_lossy(&k), if t == "none" { "ghost".to_string() } else { t }, v, -1]));
    }
    json!(out)
}
