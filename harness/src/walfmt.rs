//! C10 binding: real WAL images (written with the real WalWriter / WalRotator), damaged in
//! every way the case generator knows, read back with the real recovery; and truncation.
//! One ndjson record per case; WalFormatTrace.tla judges each record.
use crate::util::*;
use rand::Rng;
use redis_sim::streaming::wal_store::{InMemoryWalStore, WalStore};
use redis_sim::streaming::{WalEntry, WalRotator, WalWriter};
use serde_json::{json, Value};

fn name(seq: u64) -> String {
    format!("wal-{:08x}.wal", seq)
}

fn entry(gid: usize, size: usize, stamp: u64) -> WalEntry {
    let mut data = vec![0xA0u8 ^ (gid as u8); size];
    data[0] = gid as u8;
    let checksum = crc32fast::hash(&data);
    WalEntry { data, timestamp: stamp, checksum }
}

struct Image {
    store: InMemoryWalStore,
    entries: Vec<WalEntry>, // by gid-1
    sizes: Vec<Vec<usize>>,
}

/// files[k] = payload sizes; stamps[k][i] = stamp. Written with the real WalWriter.
fn build(sizes: &[Vec<usize>], stamps: &[Vec<u64>]) -> Image {
    let store = InMemoryWalStore::new();
    let mut entries = Vec::new();
    for (k, f) in sizes.iter().enumerate() {
        let w = store.create(&name(k as u64 + 1)).unwrap();
        let mut ww = WalWriter::new(w, k as u64 + 1).unwrap();
        for (i, sz) in f.iter().enumerate() {
            let e = entry(entries.len() + 1, *sz, stamps[k][i]);
            ww.append_entry(&e).unwrap();
            entries.push(e);
        }
        ww.sync().unwrap();
    }
    Image { store, entries, sizes: sizes.to_vec() }
}

fn same(a: &WalEntry, b: &WalEntry) -> bool {
    a.data == b.data && a.timestamp == b.timestamp && a.checksum == b.checksum
}

fn recover(img: &Image) -> Value {
    let st = img.store.clone();
    let r = catch(|| {
        let rot = WalRotator::new(st, 1 << 30).unwrap();
        let all = rot.recover_all_entries();
        // recover_entries_after runs bincode on the payloads: it may fail, it must not panic
        let _ = rot.recover_entries_after(0);
        all
    });
    match r {
        Ok(Ok(es)) => {
            let ids: Vec<usize> = es
                .iter()
                .map(|e| img.entries.iter().position(|o| same(o, e)).map(|p| p + 1).unwrap_or(0))
                .collect();
            json!({"rec": ids})
        }
        Ok(Err(e)) => json!({"rec": [], "err": e.to_string()}),
        Err(p) => json!({"rec": [], "panic": p}),
    }
}

fn case(out: &mut Out, sizes: &[Vec<usize>], file: usize, kind: &str, f: impl FnOnce(&mut Vec<u8>) -> (i64, i64, i64, usize)) {
    let stamps: Vec<Vec<u64>> = {
        let mut g = 0;
        sizes.iter().map(|f| f.iter().map(|_| { g += 1; 7 + g }).collect()).collect()
    };
    let img = build(sizes, &stamps);
    let nm = name(file as u64);
    let mut data = img.store.get_file_data(&nm).unwrap();
    let orig = data.clone();
    let (cut, _lo, _hi, ext) = f(&mut data);
    // actual changed range among surviving original bytes
    let n = data.len().min(orig.len());
    let lo = (0..n).find(|i| data[*i] != orig[*i]).map(|x| x as i64).unwrap_or(-1);
    let hi = (0..n).rev().find(|i| data[*i] != orig[*i]).map(|x| x as i64).unwrap_or(-1);
    img.store.set_file_data(&nm, data);
    let mut rec = recover(&img);
    let m = rec.as_object_mut().unwrap();
    m.insert("t".into(), json!("dmg"));
    m.insert("run".into(), json!(out.n + 1));
    m.insert("files".into(), json!(img.sizes));
    m.insert("file".into(), json!(file));
    m.insert("kind".into(), json!(kind));
    m.insert("cut".into(), json!(cut));
    m.insert("lo".into(), json!(lo));
    m.insert("hi".into(), json!(hi));
    m.insert("ext".into(), json!(ext));
    out.emit(&rec);
}

fn damage_cases(out: &mut Out, sizes: &[Vec<usize>], every_bit: bool, rng: &mut impl Rng) {
    for file in 1..=sizes.len() {
        let flen = 16 + sizes[file - 1].iter().map(|s| 16 + s).sum::<usize>();
        for n in 0..=flen {
            case(out, sizes, file, "cut", |d| { d.truncate(n); (n as i64, -1, -1, 0) });
        }
        for pos in 0..flen {
            for bit in 0..8 {
                if every_bit || bit == 0 || bit == 7 || rng.gen_range(0..4) == 0 {
                    case(out, sizes, file, "flip", |d| { d[pos] ^= 1 << bit; (-1, 0, 0, 0) });
                }
            }
            for w in 2..=4usize {
                if pos + w <= flen {
                    case(out, sizes, file, "burst", |d| { for b in &mut d[pos..pos + w] { *b ^= 0xFF; } (-1, 0, 0, 0) });
                }
            }
            if pos % 16 == 0 || every_bit {
                let w = 16.min(flen - pos);
                case(out, sizes, file, "zero", |d| { for b in &mut d[pos..pos + w] { *b = 0; } (-1, 0, 0, 0) });
            }
        }
        for k in [1usize, 15, 16, 17, 32, 48, 100] {
            case(out, sizes, file, "ext", |d| { d.extend(std::iter::repeat(0u8).take(k)); (-1, -1, -1, k) });
        }
        // cut inside, then zero extension (preallocated file after a crash)
        for n in [flen.saturating_sub(3), flen.saturating_sub(17)] {
            case(out, sizes, file, "cut+ext", |d| { d.truncate(n); d.extend(std::iter::repeat(0u8).take(40)); (n as i64, -1, -1, 40) });
        }
    }
}

/// Truncation: older files written with WalWriter, the active one through the rotator.
fn trunc_case(out: &mut Out, stamps: &[Vec<u64>], t: u64, with_active: bool) {
    let sizes: Vec<Vec<usize>> = stamps.iter().map(|f| f.iter().map(|_| 3).collect()).collect();
    let nold = if with_active { stamps.len() - 1 } else { stamps.len() };
    let img = build(&sizes[..nold], &stamps[..nold]);
    let st = img.store.clone();
    let stamps2 = stamps.to_vec();
    let r = catch(move || {
        let mut rot = WalRotator::new(st.clone(), 1 << 20).unwrap();
        if with_active {
            for (i, s) in stamps2[nold].iter().enumerate() {
                rot.append(&entry(200 + i, 3, *s)).unwrap();
            }
            rot.sync().unwrap();
        }
        let deleted = rot.truncate_before(t).unwrap();
        let remaining: Vec<u64> = st
            .list()
            .unwrap()
            .iter()
            .filter_map(|n| n.strip_prefix("wal-").and_then(|s| s.strip_suffix(".wal")).and_then(|s| u64::from_str_radix(s, 16).ok()))
            .collect();
        let after: Vec<u64> = rot.recover_all_entries().unwrap().iter().map(|e| e.timestamp).collect();
        (deleted, remaining, after)
    });
    let mut rec = json!({"t": "trunc", "run": out.n + 1, "stamps": stamps, "T": t,
                         "active": if with_active { stamps.len() } else { 0 }});
    match r {
        Ok((deleted, remaining, after)) => {
            rec["deleted"] = json!(deleted);
            rec["remaining"] = json!(remaining);
            rec["after"] = json!(after);
        }
        Err(p) => {
            rec["panic"] = json!(p);
            rec["remaining"] = json!([]);
            rec["after"] = json!([]);
        }
    }
    out.emit(&rec);
}

/// recover_entries_after on real deltas whose stamps are not monotone in append order (several shards
/// with clocks of their own write one WAL): the deltas with stamp >= x, in append order.
fn order_case(out: &mut Out, stamps: &[Vec<u64>], x: u64) {
    let store = InMemoryWalStore::new();
    let mut gid = 0u64;
    for (k, f) in stamps.iter().enumerate() {
        let w = store.create(&name(k as u64 + 1)).unwrap();
        let mut ww = WalWriter::new(w, k as u64 + 1).unwrap();
        for st in f {
            gid += 1;
            let d = crate::wal::make_delta(gid, *st, 3);
            ww.append_entry(&WalEntry::from_delta(&d, *st).unwrap()).unwrap();
        }
        ww.sync().unwrap();
    }
    let st = store.clone();
    let r = catch(move || {
        let rot = WalRotator::new(st, 1 << 20).unwrap();
        rot.recover_entries_after(x).map(|ds| ds.iter().map(|d| d.key.trim_start_matches("key").parse::<u64>().unwrap_or(0)).collect::<Vec<u64>>())
    });
    let mut rec = json!({"t": "order", "run": out.n + 1, "stamps": stamps, "x": x, "got": [], "err": ""});
    match r {
        Ok(Ok(g)) => rec["got"] = json!(g),
        Ok(Err(e)) => rec["err"] = json!(e.to_string()),
        Err(p) => rec["panic"] = json!(p),
    }
    out.emit(&rec);
}

pub fn main(a: &Args) -> i32 {
    let mut out = Out::create(&a.str("out", "walfmt.ndjson"));
    let thorough = a.str("tier", "quick") == "thorough";
    let mut rng = rng(a.u64("seed", 1));
    let mut layouts: Vec<Vec<Vec<usize>>> = vec![
        vec![vec![1, 2, 7]],
        vec![vec![1], vec![2, 7]],
        vec![vec![3, 1], vec![2], vec![1, 1]],
    ];
    if thorough {
        layouts.push(vec![vec![7, 1, 2, 5], vec![1, 9]]);
        for _ in 0..4 {
            let nf = rng.gen_range(1..=3);
            layouts.push((0..nf).map(|_| (0..rng.gen_range(1..=4)).map(|_| rng.gen_range(1..=12)).collect()).collect());
        }
    }
    for l in &layouts {
        damage_cases(&mut out, l, thorough, &mut rng);
    }
    // truncation: every stamp layout over {1,2,3} for files of 1-2 entries, 2-3 files, every T
    let vals = [1u64, 2, 3];
    let mut file_opts: Vec<Vec<u64>> = Vec::new();
    for a1 in vals {
        file_opts.push(vec![a1]);
        for b1 in vals {
            file_opts.push(vec![a1, b1]);
        }
    }
    for f1 in &file_opts {
        for f2 in &file_opts {
            for t in 0..=4u64 {
                trunc_case(&mut out, &[f1.clone(), f2.clone()], t, true);
                trunc_case(&mut out, &[f1.clone(), f2.clone()], t, false);
                if thorough || (f1.len() == 1 && f2.len() == 1) {
                    for f3 in &file_opts {
                        if thorough || f3.len() == 1 {
                            trunc_case(&mut out, &[f1.clone(), f2.clone(), f3.clone()], t, true);
                        }
                    }
                }
            }
        }
    }
    // append order under non-monotone stamps
    for stamps in [vec![vec![100u64, 5, 101, 6, 102]], vec![vec![7, 3], vec![9, 1, 8]], vec![vec![2, 2, 1], vec![1, 3]], vec![vec![5], vec![4], vec![6, 2]]] {
        for x in [0u64, 2, 5, 100] {
            order_case(&mut out, &stamps, x);
        }
    }
    for _ in 0..(if thorough { 400 } else { 60 }) {
        let nf = rng.gen_range(1..=3);
        let stamps: Vec<Vec<u64>> = (0..nf).map(|_| (0..rng.gen_range(1..=4)).map(|_| rng.gen_range(1..=9)).collect()).collect();
        order_case(&mut out, &stamps, rng.gen_range(0..=9));
    }
    println!("{{\"cases\": {}}}", out.finish());
    0
}
