//! C10 binding: real WAL images (written with the real WalWriter / WalRotator), damaged in
//! every way the case generator knows, read back with the real recovery; and truncation.
//! One ndjson record per case; WalFormatTrace.tla judges each record.
use crate::util::*;
use rand::Rng;
use redis_sim::streaming::wal_store::{InMemoryWalStore, WalStore};
use redis_sim::streaming::{WalEntry, WalRotator, WalWriter};
use serde_json::{json, Value};

fn name(seq: u64) -> String {
    format!("wal-{:08x}.wal", seq)
}

thread_local! {
    /// (entry, value): the payload of that entry is chosen so that its checksum is that value
    static FORGE: std::cell::Cell<Option<(usize, u32)>> = std::cell::Cell::new(None);
    /// (gid, offset, bytes): the payload of entry `gid` carries these bytes at `offset` (a value is arbitrary binary data: it may
    /// well look like an encoded WAL entry)
    static EMBED: std::cell::RefCell<Option<(usize, usize, Vec<u8>)>> = std::cell::RefCell::new(None);
}

fn entry(gid: usize, size: usize, stamp: u64) -> WalEntry {
    let mut data = vec![0xA0u8 ^ (gid as u8); size];
    data[0] = gid as u8;
    if let Some((g, target)) = FORGE.with(|f| f.get()) {
        if g == gid && size >= 5 {
            forge_crc(&mut data, size - 4, target, &|b| crc32fast::hash(b));
        }
    }
    EMBED.with(|e| {
        if let Some((g, off, bytes)) = &*e.borrow() {
            if *g == gid && off + bytes.len() <= data.len() {
                data[*off..off + bytes.len()].copy_from_slice(bytes);
            }
        }
    });
    let checksum = crc32fast::hash(&data);
    WalEntry { data, timestamp: stamp, checksum }
}

/// A payload that carries a well-formed encoded entry, and one flipped bit in the length prefix of its frame (the prefix is
/// not covered by the checksum) that moves the end of the frame exactly onto the embedded bytes: a reader that steps over a
/// frame it cannot verify must not come back with an entry nobody appended.
fn ghost_cases(out: &mut Out) {
    for (size, bit) in [(192usize, 7u32), (192, 6), (80, 6), (80, 4), (1104, 10), (300, 8)] {
        let shorter = size ^ (1usize << bit);
        if shorter >= size {
            continue;
        }
        let ghost = entry(99, 5, 77).encode();
        if shorter + ghost.len() > size {
            continue;
        }
        for second in [0usize, 1] {
            // the carrier is the first or the second entry of the file; an intact entry follows it
            let sizes: Vec<Vec<usize>> = if second == 0 { vec![vec![size, 3]] } else { vec![vec![4, size, 3]] };
            let gid = 1 + second;
            EMBED.with(|e| *e.borrow_mut() = Some((gid, shorter, ghost.clone())));
            let at = 16 + if second == 0 { 0 } else { 16 + 4 } + (bit as usize / 8);
            case(out, &sizes, 1, "ghost", |d| { d[at] ^= 1u8 << (bit % 8); (-1, at as i64, at as i64, 0) });
            EMBED.with(|e| *e.borrow_mut() = None);
        }
    }
}

struct Image {
    store: InMemoryWalStore,
    entries: Vec<WalEntry>, // by gid-1
    sizes: Vec<Vec<usize>>,
}

/// files[k] = payload sizes; stamps[k][i] = stamp. Written with the real WalWriter.
fn build(sizes: &[Vec<usize>], stamps: &[Vec<u64>]) -> Image {
    let store = InMemoryWalStore::new();
    let mut entries = Vec::new();
    for (k, f) in sizes.iter().enumerate() {
        let w = store.create(&name(k as u64 + 1)).unwrap();
        let mut ww = WalWriter::new(w, k as u64 + 1).unwrap();
        for (i, sz) in f.iter().enumerate() {
            let e = entry(entries.len() + 1, *sz, stamps[k][i]);
            ww.append_entry(&e).unwrap();
            entries.push(e);
        }
        ww.sync().unwrap();
    }
    Image { store, entries, sizes: sizes.to_vec() }
}

fn same(a: &WalEntry, b: &WalEntry) -> bool {
    a.data == b.data && a.timestamp == b.timestamp && a.checksum == b.checksum
}

/// A store in which one file cannot be read: opening it fails, or reading it fails half way (an I/O
/// error, not a damaged image).  Everything else is the in-memory store.
#[derive(Clone)]
struct UnreadableStore {
    inner: InMemoryWalStore,
    bad: String,
    mode: u8, // 0: open_read fails with an I/O error; 1: read_all fails with an I/O error; 2: open_read reports NotFound
}
struct FailingReader;
impl redis_sim::streaming::wal_store::WalFileReader for FailingReader {
    fn read_all(&mut self) -> Result<Vec<u8>, redis_sim::streaming::wal_store::WalError> {
        Err(std::io::Error::new(std::io::ErrorKind::Other, "injected: input/output error").into())
    }
}
enum EitherReader<R> {
    Real(R),
    Failing(FailingReader),
}
impl<R: redis_sim::streaming::wal_store::WalFileReader> redis_sim::streaming::wal_store::WalFileReader for EitherReader<R> {
    fn read_all(&mut self) -> Result<Vec<u8>, redis_sim::streaming::wal_store::WalError> {
        match self {
            EitherReader::Real(r) => r.read_all(),
            EitherReader::Failing(f) => f.read_all(),
        }
    }
}
impl WalStore for UnreadableStore {
    type Writer = <InMemoryWalStore as WalStore>::Writer;
    type Reader = EitherReader<<InMemoryWalStore as WalStore>::Reader>;
    fn create(&self, name: &str) -> Result<Self::Writer, redis_sim::streaming::wal_store::WalError> {
        self.inner.create(name)
    }
    fn open_read(&self, name: &str) -> Result<Self::Reader, redis_sim::streaming::wal_store::WalError> {
        if name == self.bad {
            return match self.mode {
                0 => Err(std::io::Error::new(std::io::ErrorKind::PermissionDenied, "injected: permission denied").into()),
                2 => Err(std::io::Error::new(std::io::ErrorKind::NotFound, "injected: vanished").into()),
                _ => Ok(EitherReader::Failing(FailingReader)),
            };
        }
        self.inner.open_read(name).map(EitherReader::Real)
    }
    fn list(&self) -> Result<Vec<String>, redis_sim::streaming::wal_store::WalError> {
        self.inner.list()
    }
    fn delete(&self, name: &str) -> Result<(), redis_sim::streaming::wal_store::WalError> {
        self.inner.delete(name)
    }
    fn exists(&self, name: &str) -> Result<bool, redis_sim::streaming::wal_store::WalError> {
        self.inner.exists(name)
    }
}

/// A directory in which no new file can be created for a while (disk full, quota, permissions): everything else works.
#[derive(Clone)]
struct CreateDenyStore {
    inner: InMemoryWalStore,
    deny: std::sync::Arc<std::sync::atomic::AtomicBool>,
}
impl WalStore for CreateDenyStore {
    type Writer = <InMemoryWalStore as WalStore>::Writer;
    type Reader = <InMemoryWalStore as WalStore>::Reader;
    fn create(&self, name: &str) -> Result<Self::Writer, redis_sim::streaming::wal_store::WalError> {
        if self.deny.load(std::sync::atomic::Ordering::SeqCst) {
            return Err(std::io::Error::new(std::io::ErrorKind::Other, "injected: no space left on device").into());
        }
        self.inner.create(name)
    }
    fn open_read(&self, name: &str) -> Result<Self::Reader, redis_sim::streaming::wal_store::WalError> { self.inner.open_read(name) }
    fn list(&self) -> Result<Vec<String>, redis_sim::streaming::wal_store::WalError> { self.inner.list() }
    fn delete(&self, name: &str) -> Result<(), redis_sim::streaming::wal_store::WalError> { self.inner.delete(name) }
    fn exists(&self, name: &str) -> Result<bool, redis_sim::streaming::wal_store::WalError> { self.inner.exists(name) }
}

/// Rotation that cannot create the next file, then truncation: `before` entries go into files of at most `maxsize` bytes; from
/// entry `deny_from` on no file can be created (appends may fail or not - whatever is acknowledged counts); `truncate_before(T)`;
/// creation works again from `allow_at` further entries on; `later` more entries stamped above everything.  Every acknowledged
/// entry stamped later than T must come back; nothing that was never appended may.
fn rotfail_case(out: &mut Out, before: usize, deny_from: usize, t: u64, later: usize, allow_at: usize, maxsize: usize) {
    use std::sync::atomic::Ordering;
    let inner = InMemoryWalStore::new();
    let deny = std::sync::Arc::new(std::sync::atomic::AtomicBool::new(false));
    let st = CreateDenyStore { inner: inner.clone(), deny: deny.clone() };
    let d2 = deny.clone();
    let r = catch(move || {
        let mut rot = WalRotator::new(st, maxsize).unwrap();
        let (mut acked, mut maybe) = (Vec::new(), Vec::new());
        for i in 0..before {
            if i == deny_from { d2.store(true, Ordering::SeqCst); }
            let stamp = i as u64 + 1;
            match rot.append(&entry(100 + i, 20, stamp)) { Ok(_) => acked.push(stamp), Err(_) => maybe.push(stamp) }
        }
        let _ = rot.sync();
        let deleted = rot.truncate_before(t).map(|d| d as i64).unwrap_or(-1);
        for j in 0..later {
            if j == allow_at { d2.store(false, Ordering::SeqCst); }
            let stamp = 1000 + j as u64;
            match rot.append(&entry(200 + j, 20, stamp)) { Ok(_) => acked.push(stamp), Err(_) => maybe.push(stamp) }
        }
        let synced = rot.sync().is_ok();
        (acked, maybe, deleted, synced)
    });
    let mut rec = json!({"t": "rotfail", "run": out.n + 1, "shape": [before, deny_from, later, allow_at, maxsize], "T": t, "acked": [], "maybe": [], "after": []});
    match r {
        Ok((acked, maybe, deleted, synced)) => {
            rec["acked"] = json!(acked); rec["maybe"] = json!(maybe); rec["deleted"] = json!(deleted); rec["synced"] = json!(synced);
            match catch(|| WalRotator::new(inner.clone(), 1 << 30).unwrap().recover_all_entries().map(|es| es.iter().map(|e| e.timestamp).collect::<Vec<u64>>())) {
                Ok(Ok(a)) => rec["after"] = json!(a),
                Ok(Err(e)) => rec["panic"] = json!(format!("recovery failed: {e}")),
                Err(p) => rec["panic"] = json!(p),
            }
        }
        Err(p) => rec["panic"] = json!(p),
    }
    out.emit(&rec);
}

fn recover(img: &Image) -> Value {
    recover_from(img, img.store.clone())
}

fn recover_from<S: WalStore + Clone + std::panic::UnwindSafe>(img: &Image, st: S) -> Value {
    let r = catch(|| {
        let rot = WalRotator::new(st, 1 << 30).unwrap();
        let all = rot.recover_all_entries();
        // recover_entries_after runs bincode on the payloads: it may fail, it must not panic
        let _ = rot.recover_entries_after(0);
        all
    });
    match r {
        Ok(Ok(es)) => {
            let ids: Vec<usize> = es
                .iter()
                .map(|e| img.entries.iter().position(|o| same(o, e)).map(|p| p + 1).unwrap_or(0))
                .collect();
            json!({"rec": ids})
        }
        Ok(Err(e)) => json!({"rec": [], "err": e.to_string()}),
        Err(p) => json!({"rec": [], "panic": p}),
    }
}

fn case(out: &mut Out, sizes: &[Vec<usize>], file: usize, kind: &str, f: impl FnOnce(&mut Vec<u8>) -> (i64, i64, i64, usize)) {
    let stamps: Vec<Vec<u64>> = {
        let mut g = 0;
        sizes.iter().map(|f| f.iter().map(|_| { g += 1; 7 + g }).collect()).collect()
    };
    let img = build(sizes, &stamps);
    let nm = name(file as u64);
    let mut data = img.store.get_file_data(&nm).unwrap();
    let orig = data.clone();
    let (cut, _lo, _hi, ext) = f(&mut data);
    // actual changed range among surviving original bytes
    let n = data.len().min(orig.len());
    let lo = (0..n).find(|i| data[*i] != orig[*i]).map(|x| x as i64).unwrap_or(-1);
    let hi = (0..n).rev().find(|i| data[*i] != orig[*i]).map(|x| x as i64).unwrap_or(-1);
    img.store.set_file_data(&nm, data);
    let mut rec = recover(&img);
    let m = rec.as_object_mut().unwrap();
    m.insert("t".into(), json!("dmg"));
    m.insert("run".into(), json!(out.n + 1));
    m.insert("files".into(), json!(img.sizes));
    m.insert("file".into(), json!(file));
    m.insert("kind".into(), json!(kind));
    m.insert("cut".into(), json!(cut));
    m.insert("lo".into(), json!(lo));
    m.insert("hi".into(), json!(hi));
    m.insert("ext".into(), json!(ext));
    out.emit(&rec);
}

fn damage_cases(out: &mut Out, sizes: &[Vec<usize>], every_bit: bool, rng: &mut impl Rng) {
    for file in 1..=sizes.len() {
        let flen = 16 + sizes[file - 1].iter().map(|s| 16 + s).sum::<usize>();
        for n in 0..=flen {
            case(out, sizes, file, "cut", |d| { d.truncate(n); (n as i64, -1, -1, 0) });
        }
        for pos in 0..flen {
            for bit in 0..8 {
                if every_bit || bit == 0 || bit == 7 || rng.gen_range(0..4) == 0 {
                    case(out, sizes, file, "flip", |d| { d[pos] ^= 1 << bit; (-1, 0, 0, 0) });
                }
            }
            for w in 2..=4usize {
                if pos + w <= flen {
                    case(out, sizes, file, "burst", |d| { for b in &mut d[pos..pos + w] { *b ^= 0xFF; } (-1, 0, 0, 0) });
                }
            }
            if pos % 16 == 0 || every_bit {
                let w = 16.min(flen - pos);
                case(out, sizes, file, "zero", |d| { for b in &mut d[pos..pos + w] { *b = 0; } (-1, 0, 0, 0) });
            }
        }
        for k in [1usize, 15, 16, 17, 32, 48, 100] {
            case(out, sizes, file, "ext", |d| { d.extend(std::iter::repeat(0u8).take(k)); (-1, -1, -1, k) });
        }
        // cut inside, then zero extension (preallocated file after a crash)
        for n in [flen.saturating_sub(3), flen.saturating_sub(17)] {
            case(out, sizes, file, "cut+ext", |d| { d.truncate(n); d.extend(std::iter::repeat(0u8).take(40)); (n as i64, -1, -1, 40) });
        }
    }
}

/// One file of an otherwise intact image cannot be read (I/O error): like a file cut to nothing, it must
/// not hide the entries of the other files.
fn unreadable_cases(out: &mut Out, sizes: &[Vec<usize>]) {
    let stamps: Vec<Vec<u64>> = {
        let mut g = 0;
        sizes.iter().map(|f| f.iter().map(|_| { g += 1; 7 + g }).collect()).collect()
    };
    for file in 1..=sizes.len() {
        for mode in 0..3u8 {
            let img = build(sizes, &stamps);
            let st = UnreadableStore { inner: img.store.clone(), bad: name(file as u64), mode };
            let mut rec = recover_from(&img, st);
            let m = rec.as_object_mut().unwrap();
            m.insert("t".into(), json!("dmg"));
            m.insert("run".into(), json!(out.n + 1));
            m.insert("files".into(), json!(img.sizes));
            m.insert("file".into(), json!(file));
            m.insert("kind".into(), json!(["unreadable_open", "unreadable_read", "unreadable_gone"][mode as usize]));
            m.insert("cut".into(), json!(0));
            m.insert("lo".into(), json!(-1));
            m.insert("hi".into(), json!(-1));
            m.insert("ext".into(), json!(0));
            out.emit(&rec);
        }
    }
}

/// An intact image in which one entry's checksum takes an edge value (all zeros, all ones, a single bit).
fn checksum_cases(out: &mut Out) {
    for target in [0u32, u32::MAX, 1, 1 << 31] {
        for (sizes, gid, file) in [(vec![vec![6usize, 9, 7]], 2usize, 1usize), (vec![vec![5], vec![8, 6]], 2, 2), (vec![vec![7, 5], vec![6]], 1, 1)] {
            FORGE.with(|f| f.set(Some((gid, target))));
            case(out, &sizes, file, "intact_checksum_edge", |_| (-1, -1, -1, 0));
            FORGE.with(|f| f.set(None));
        }
    }
}

/// Entries far larger than the usual ones (up to beyond 64 MiB; the bulk limit is 512 MiB): intact, with a
/// damaged neighbour, with their own tail cut; and truncation around them.
fn big_cases(out: &mut Out, big: usize) {
    for sizes in [vec![vec![3usize, big, 2]], vec![vec![2], vec![big, 1], vec![4]]] {
        let file = if sizes.len() == 1 { 1 } else { 2 };
        let flen = 16 + sizes[file - 1].iter().map(|s| 16 + s).sum::<usize>();
        case(out, &sizes, file, "intact", |_| (-1, -1, -1, 0));
        case(out, &sizes, file, "cut", |d| { d.truncate(flen - 1); ((flen - 1) as i64, -1, -1, 0) });
        case(out, &sizes, file, "flip", |d| { let p = d.len() - 1; d[p] ^= 1; (-1, 0, 0, 0) });
        case(out, &sizes, file, "ext", |d| { d.extend(std::iter::repeat(0u8).take(48)); (-1, -1, -1, 48) });
    }
    for t in [0u64, 1, 4, 5, 6] {
        trunc_case_sized(out, &[vec![1, 5], vec![2]], &[vec![3, big], vec![3]], t, true);
        trunc_case_sized(out, &[vec![5, 1], vec![6]], &[vec![big, 3], vec![3]], t, false);
    }
}

/// Truncation: older files written with WalWriter, the active one through the rotator.
fn trunc_case(out: &mut Out, stamps: &[Vec<u64>], t: u64, with_active: bool) {
    let sizes: Vec<Vec<usize>> = stamps.iter().map(|f| f.iter().map(|_| 3).collect()).collect();
    trunc_case_sized(out, stamps, &sizes, t, with_active)
}

fn trunc_case_sized(out: &mut Out, stamps: &[Vec<u64>], sizes: &[Vec<usize>], t: u64, with_active: bool) {
    trunc_case_fault(out, stamps, sizes, t, with_active, None)
}

/// `fault`: (file, mode) - while the truncation examines the files, that file cannot be read (a transient I/O
/// error: open fails, the read fails, or the file seems gone); afterwards it is readable again.  The rule is
/// the same: nothing stamped later than T disappears, the active file stays.
fn trunc_case_fault(out: &mut Out, stamps: &[Vec<u64>], sizes: &[Vec<usize>], t: u64, with_active: bool, fault: Option<(usize, u8)>) {
    let nold = if with_active { stamps.len() - 1 } else { stamps.len() };
    let img = build(&sizes[..nold], &stamps[..nold]);
    let healthy = img.store.clone();
    let st = UnreadableStore { inner: img.store.clone(), bad: fault.map(|(f, _)| name(f as u64)).unwrap_or_default(), mode: fault.map(|(_, m)| m).unwrap_or(0) };
    let stamps2 = stamps.to_vec();
    let r = catch(move || {
        let mut rot = WalRotator::new(st.clone(), 1 << 30).unwrap();
        if with_active {
            for (i, s) in stamps2[nold].iter().enumerate() {
                rot.append(&entry(200 + i, 3, *s)).unwrap();
            }
            rot.sync().unwrap();
        }
        let deleted = rot.truncate_before(t).map(|d| d as i64).unwrap_or(-1);
        let remaining: Vec<u64> = healthy
            .list()
            .unwrap()
            .iter()
            .filter_map(|n| n.strip_prefix("wal-").and_then(|s| s.strip_suffix(".wal")).and_then(|s| u64::from_str_radix(s, 16).ok()))
            .collect();
        let after: Vec<u64> = WalRotator::new(healthy.clone(), 1 << 30).unwrap().recover_all_entries().unwrap().iter().map(|e| e.timestamp).collect();
        (deleted, remaining, after)
    });
    let mut rec = json!({"t": "trunc", "run": out.n + 1, "stamps": stamps, "T": t, "fault": fault.map(|(f, m)| json!([f, m])),
                         "active": if with_active { stamps.len() } else { 0 }});
    match r {
        Ok((deleted, remaining, after)) => {
            rec["deleted"] = json!(deleted);
            rec["remaining"] = json!(remaining);
            rec["after"] = json!(after);
        }
        Err(p) => {
            rec["panic"] = json!(p);
            rec["remaining"] = json!([]);
            rec["after"] = json!([]);
        }
    }
    out.emit(&rec);
}

/// recover_entries_after on real deltas whose stamps are not monotone in append order (several shards
/// with clocks of their own write one WAL): the deltas with stamp >= x, in append order.
fn order_case(out: &mut Out, stamps: &[Vec<u64>], x: u64) {
    let store = InMemoryWalStore::new();
    let mut gid = 0u64;
    for (k, f) in stamps.iter().enumerate() {
        let w = store.create(&name(k as u64 + 1)).unwrap();
        let mut ww = WalWriter::new(w, k as u64 + 1).unwrap();
        for st in f {
            gid += 1;
            let d = crate::wal::make_delta(gid, *st, 3);
            ww.append_entry(&WalEntry::from_delta(&d, *st).unwrap()).unwrap();
        }
        ww.sync().unwrap();
    }
    let st = store.clone();
    let r = catch(move || {
        let rot = WalRotator::new(st, 1 << 20).unwrap();
        rot.recover_entries_after(x).map(|ds| ds.iter().map(|d| d.key.trim_start_matches("key").parse::<u64>().unwrap_or(0)).collect::<Vec<u64>>())
    });
    let mut rec = json!({"t": "order", "run": out.n + 1, "stamps": stamps, "x": x, "got": [], "err": ""});
    match r {
        Ok(Ok(g)) => rec["got"] = json!(g),
        Ok(Err(e)) => rec["err"] = json!(e.to_string()),
        Err(p) => rec["panic"] = json!(p),
    }
    out.emit(&rec);
}

pub fn main(a: &Args) -> i32 {
    let mut out = Out::create(&a.str("out", "walfmt.ndjson"));
    let thorough = a.str("tier", "quick") == "thorough";
    if a.str("only", "") == "ghost" {
        // the subset that C14 shares: a WAL payload that carries a well-formed entry, and the bit flips that lead the reader onto it
        ghost_cases(&mut out);
        println!("{{\"cases\": {}}}", out.finish());
        return 0;
    }
    let mut rng = rng(a.u64("seed", 1));
    let mut layouts: Vec<Vec<Vec<usize>>> = vec![
        vec![vec![1, 2, 7]],
        vec![vec![1], vec![2, 7]],
        vec![vec![3, 1], vec![2], vec![1, 1]],
    ];
    if thorough {
        layouts.push(vec![vec![7, 1, 2, 5], vec![1, 9]]);
        for _ in 0..4 {
            let nf = rng.gen_range(1..=3);
            layouts.push((0..nf).map(|_| (0..rng.gen_range(1..=4)).map(|_| rng.gen_range(1..=12)).collect()).collect());
        }
    }
    for l in &layouts {
        damage_cases(&mut out, l, thorough, &mut rng);
    }
    for l in &layouts[..3] {
        if l.len() > 1 {
            unreadable_cases(&mut out, l);
        }
    }
    checksum_cases(&mut out);
    for big in if thorough { vec![(1usize << 20) + 1, 17 << 20, (64 << 20) + 5, 130 << 20] } else { vec![(1usize << 20) + 1, (64 << 20) + 5] } {
        big_cases(&mut out, big);
    }
    ghost_cases(&mut out);
    // truncation: every stamp layout over {1,2,3} for files of 1-2 entries, 2-3 files, every T
    let vals = [1u64, 2, 3];
    let mut file_opts: Vec<Vec<u64>> = Vec::new();
    for a1 in vals {
        file_opts.push(vec![a1]);
        for b1 in vals {
            file_opts.push(vec![a1, b1]);
        }
    }
    for f1 in &file_opts {
        for f2 in &file_opts {
            for t in 0..=4u64 {
                trunc_case(&mut out, &[f1.clone(), f2.clone()], t, true);
                trunc_case(&mut out, &[f1.clone(), f2.clone()], t, false);
                // one of the files cannot be read while the truncation looks at it
                if thorough || t == 0 || (f1.len() + f2.len() + t as usize) % 3 == 0 {
                    let sz: Vec<Vec<usize>> = [f1, f2].iter().map(|f| f.iter().map(|_| 3).collect()).collect();
                    for mode in 0..3u8 {
                        trunc_case_fault(&mut out, &[f1.clone(), f2.clone()], &sz, t, true, Some((1, mode)));
                        trunc_case_fault(&mut out, &[f1.clone(), f2.clone()], &sz, t, false, Some((1 + (t as usize % 2), mode)));
                    }
                }
                if thorough || (f1.len() == 1 && f2.len() == 1) {
                    for f3 in &file_opts {
                        if thorough || f3.len() == 1 {
                            trunc_case(&mut out, &[f1.clone(), f2.clone(), f3.clone()], t, true);
                        }
                    }
                }
            }
        }
    }
    // rotation that cannot create the next file, then truncation, then more appends
    for before in [3usize, 4, 6] {
        for deny_from in 0..=before {
            for t in [0u64, 2, before as u64, 999, 2000] {
                for (later, allow_at) in [(0usize, 0usize), (3, 0), (3, 2), (3, 9)] {
                    for maxsize in [90usize, 130] {
                        if thorough || (before + deny_from + later + allow_at + maxsize / 10 + t as usize) % 3 == 0 {
                            rotfail_case(&mut out, before, deny_from, t, later, allow_at, maxsize);
                        }
                    }
                }
            }
        }
    }
    // append order under non-monotone stamps
    for stamps in [vec![vec![100u64, 5, 101, 6, 102]], vec![vec![7, 3], vec![9, 1, 8]], vec![vec![2, 2, 1], vec![1, 3]], vec![vec![5], vec![4], vec![6, 2]]] {
        for x in [0u64, 2, 5, 100] {
            order_case(&mut out, &stamps, x);
        }
    }
    for _ in 0..(if thorough { 400 } else { 60 }) {
        let nf = rng.gen_range(1..=3);
        let stamps: Vec<Vec<u64>> = (0..nf).map(|_| (0..rng.gen_range(1..=4)).map(|_| rng.gen_range(1..=9)).collect()).collect();
        order_case(&mut out, &stamps, rng.gen_range(0..=9));
    }
    println!("{{\"cases\": {}}}", out.finish());
    0
}
