//! Sharding binding (C03): the keyspace generator's sequences on real ShardedActorStates with
//! N shards under a harness clock, GET/SET mixed over the generic, fast, pooled and batched
//! entry points; same event format as `ks`, so KsTrace validates an N-shard server directly
//! against the one-keyspace specification.
//!   vh shard record --seed S --n RUNS --len L --shards N --out trace
use crate::ks::{parse_argv, Argv, Gen};
use crate::resp::rv_json;
use crate::stream::HarnessTime;
use crate::util::*;
use rand::Rng;
use redis_sim::production::{ShardConfig, ShardedActorState};
use redis_sim::redis::RespValue;
use serde_json::{json, Value};
use std::sync::{Arc, Mutex};

fn b(s: &str) -> Vec<u8> {
    s.as_bytes().to_vec()
}
type State = ShardedActorState<HarnessTime>;

pub async fn exec(st: &State, argv: &Argv) -> RespValue {
    match parse_argv(argv) {
        Ok(cmd) => st.execute(&cmd).await,
        Err(e) => RespValue::err(e),
    }
}

fn bulk(r: &RespValue) -> Vec<u8> {
    match r {
        RespValue::BulkString(Some(b)) => b.clone(),
        _ => vec![],
    }
}
fn arr(r: RespValue) -> Vec<RespValue> {
    match r {
        RespValue::Array(Some(a)) => a,
        _ => vec![],
    }
}
fn quarter(s: &[u8]) -> i64 {
    (String::from_utf8_lossy(s).parse::<f64>().unwrap_or(0.0) * 4.0).round() as i64
}

/// Visible keyspace through commands only: KEYS *, TYPE, PTTL and a dump per type.
pub async fn project(st: &State, now: u64) -> Value {
    let mut keys: Vec<Vec<u8>> = arr(exec(st, &vec![b("KEYS"), b("*")]).await).iter().map(bulk).collect();
    keys.sort();
    keys.dedup();
    let mut out = Vec::new();
    for k in keys {
        let t = match exec(st, &vec![b("TYPE"), k.clone()]).await {
            RespValue::SimpleString(s) => s.to_string(),
            o => format!("{o:?}"),
        };
        if t == "none" {
            // listed by KEYS but invisible through its own home shard: report as a ghost
            out.push(json!([String::from_utf8_lossy(&k), "ghost", [], -1]));
            continue;
        }
        let pttl = match exec(st, &vec![b("PTTL"), k.clone()]).await {
            RespValue::Integer(n) => n,
            _ => -3,
        };
        let exp = if pttl >= 0 { now as i64 + pttl } else { -1 };
        let v = match t.as_str() {
            "string" => json!(bulk(&exec(st, &vec![b("GET"), k.clone()]).await)),
            "list" => json!(arr(exec(st, &vec![b("LRANGE"), k.clone(), b("0"), b("-1")]).await).iter().map(bulk).collect::<Vec<_>>()),
            "set" => {
                let mut m: Vec<Vec<u8>> = arr(exec(st, &vec![b("SMEMBERS"), k.clone()]).await).iter().map(bulk).collect();
                m.sort();
                json!(m)
            }
            "hash" => {
                let a = arr(exec(st, &vec![b("HGETALL"), k.clone()]).await);
                let mut m: Vec<(Vec<u8>, Vec<u8>)> = a.chunks(2).filter(|c| c.len() == 2).map(|c| (bulk(&c[0]), bulk(&c[1]))).collect();
                m.sort();
                json!(m.iter().map(|(f, v)| json!([f, v])).collect::<Vec<_>>())
            }
            "zset" => {
                let a = arr(exec(st, &vec![b("ZRANGE"), k.clone(), b("0"), b("-1"), b("WITHSCORES")]).await);
                let mut m: Vec<(Vec<u8>, i64)> = a.chunks(2).filter(|c| c.len() == 2).map(|c| (bulk(&c[0]), quarter(&bulk(&c[1])))).collect();
                m.sort();
                json!(m.iter().map(|(mm, q)| json!([mm, q])).collect::<Vec<_>>())
            }
            _ => json!([]),
        };
        out.push(json!([String::from_utf8_lossy(&k), t, v, exp]));
    }
    json!(out)
}

/// GET / plain SET go through a randomly chosen entry point.
async fn exec_mixed(st: &State, c: &Value, argv: &Argv, rng: &mut impl Rng) -> (RespValue, &'static str) {
    let key = || bytes::Bytes::from(argv[1].clone());
    if c["op"] == "GET" {
        return match rng.gen_range(0..4) {
            0 => (st.fast_get(key()).await, "fast"),
            1 => (st.pooled_fast_get(key()).await, "pooled"),
            2 => (st.fast_batch_get_pipeline(vec![key()]).await.into_iter().next().unwrap_or(RespValue::err("ERR empty batch")), "batch"),
            _ => (exec(st, argv).await, "generic"),
        };
    }
    if c["op"] == "SET" && argv.len() == 3 {
        let val = bytes::Bytes::from(argv[2].clone());
        return match rng.gen_range(0..4) {
            0 => (st.fast_set(key(), val).await, "fast"),
            1 => (st.pooled_fast_set(key(), val).await, "pooled"),
            2 => (st.fast_batch_set_pipeline(vec![(key(), val)]).await.into_iter().next().unwrap_or(RespValue::err("ERR empty batch")), "batch"),
            _ => (exec(st, argv).await, "generic"),
        };
    }
    (exec(st, argv).await, "generic")
}

async fn run_async(run: usize, shards: usize, gen: &mut Gen, len: usize, two_key: bool, scripts: bool, log: &mut Vec<Value>) {
    let clock = HarnessTime(Arc::new(Mutex::new(1000)));
    let st: State = ShardedActorState::with_config_and_time_source(ShardConfig::with_shards(shards), clock.clone());
    let mut now: u64 = 0;
    log.push(json!({"a": "reset", "run": run, "shards": shards}));
    let mut steps = 0;
    let mut ttl_keys: Vec<String> = Vec::new();
    while steps < len {
        let before_jump = now;
        match gen.rng.gen_range(0..10) {
            0..=4 => {}
            5..=6 => now += 1,
            7 => now += gen.rng.gen_range(1..2500),
            _ => now += 100_000,
        }
        let want_two = two_key && steps + 1 == len;
        let (c, argv) = loop {
            if !want_two && (gen.rng.gen_range(0..8) == 0 || (scripts && gen.rng.gen_bool(0.6))) {
                // script-cache commands (one cache per server) and the modelled extras
                let (mut c, mut argv) = if gen.rng.gen_bool(0.7) { gen.script_command() } else { gen.extra_command() };
                // SORT ... STORE names two keys: on several shards that is the listed finding two_key_commands_single_shard,
                // which has its own runs (--twokey); here SORT goes without STORE
                if c["op"] == "SORT" && c["store"].as_str().map(|d| !d.is_empty()).unwrap_or(false) {
                    c["store"] = json!("");
                    argv.truncate(2);
                }
                break (c, argv);
            }
            let (c, argv) = gen.command();
            let op = c["op"].as_str().unwrap_or("").to_string();
            let is_two_key = matches!(op.as_str(), "RENAME" | "LMOVE" | "MSETNX" | "MSET");
            if is_two_key == want_two {
                break (c, argv);
            }
        };
        *clock.0.lock().unwrap() = 1000 + now;
        let jumped = now - before_jump >= 100_000;
        {
            let name = String::from_utf8_lossy(&argv[0]).to_uppercase();
            let has_ttl_word = argv.iter().skip(2).any(|a| a.eq_ignore_ascii_case(b"EX") || a.eq_ignore_ascii_case(b"PX"));
            if argv.len() > 1 && (has_ttl_word || matches!(name.as_str(), "SETEX" | "PSETEX" | "EXPIRE" | "PEXPIRE" | "GETEX")) {
                let k = String::from_utf8_lossy(&argv[1]).to_string();
                if !ttl_keys.contains(&k) {
                    ttl_keys.push(k);
                }
            }
        }
        // the TTL manager's tick (active expiry on every shard) may fall between any two commands: it removes what
        // has expired and nothing else, so the model has no step for it
        // (after a long jump of the clock the tick is likelier: that is when deadlines have come due)
        let ticked = gen.rng.gen_range(0..6) == 0 || (jumped && gen.rng.gen_bool(0.5));
        if ticked {
            let _ = st.evict_expired_all_shards().await;
        }
        // right after a tick, more often than not, a plain GET (on whichever path) of some key - preferably one that was given a
        // TTL earlier in the run: the tick has told every shard the time
        let (c, argv) = if ticked && !want_two && gen.rng.gen_bool(0.6) {
            let k = if !ttl_keys.is_empty() && gen.rng.gen_bool(0.7) { ttl_keys[gen.rng.gen_range(0..ttl_keys.len())].clone() } else { gen.keys[gen.rng.gen_range(0..gen.keys.len())].clone() };
            (json!({"op": "GET", "k": k}), vec![b("GET"), k.clone().into_bytes()])
        } else {
            (c, argv)
        };
        let (r, path) = exec_mixed(&st, &c, &argv, &mut gen.rng).await;
        let ro = parse_argv(&argv).map(|cmd| cmd.is_read_only()).unwrap_or(false);
        let s = project(&st, now).await;
        log.push(json!({"a": "cmd", "run": run, "now": now, "c": c, "path": path, "ro": ro, "r": rv_json(&r), "s": s, "ticked": ticked,
                        "argv": argv.iter().map(|a| String::from_utf8_lossy(a).to_string()).collect::<Vec<_>>()}));
        steps += 1;
    }
}

/// C03 read literally: the same command sequence on a one-shard server and on an N-shard twin - modelled commands and
/// commands outside the model alike (server settings, stubs, scripts, malformed argument lists) - every reply compared (sorted
/// where the reply is an unordered collection), and the keyspaces at the end.  Left out: commands whose answer is free
/// (SPOP, SRANDMEMBER, RANDOMKEY, the SCAN family, TIME, OBJECT, DEBUG, WAIT) and the two-key commands of the listed finding.
async fn run_twin(run: usize, shards: usize, gen: &mut Gen, len: usize, log: &mut Vec<Value>) {
    let c1 = HarnessTime(Arc::new(Mutex::new(1000)));
    let cn = HarnessTime(Arc::new(Mutex::new(1000)));
    let one: State = ShardedActorState::with_config_and_time_source(ShardConfig::with_shards(1), c1.clone());
    let many: State = ShardedActorState::with_config_and_time_source(ShardConfig::with_shards(shards), cn.clone());
    let mut now: u64 = 0;
    log.push(json!({"a": "reset", "run": run, "shards": shards}));
    fn canon(r: &RespValue, unordered: bool, pairs: bool) -> String {
        match r {
            RespValue::Array(Some(items)) if unordered => {
                let mut v: Vec<String> = if pairs { items.chunks(2).map(|c| c.iter().map(|x| format!("{x:?}")).collect::<Vec<_>>().join("=")).collect() } else { items.iter().map(|x| format!("{x:?}")).collect() };
                v.sort();
                format!("[{}]", v.join(","))
            }
            // error replies are compared by their first word (the class), as everywhere
            RespValue::Error(e) => format!("error:{}", e.split_whitespace().next().unwrap_or("")),
            o => format!("{o:?}"),
        }
    }
    let mut steps = 0;
    // a third of the runs turn a server setting first and then lean on the commands it governs (string growth on every key)
    let settings = run % 3 == 0;
    let mut forced: Vec<Argv> = Vec::new();
    if settings {
        forced.push(vec![b("CONFIG"), b("SET"), b("proto-max-bulk-len"), b(["16", "64", "20"][run / 3 % 3])]);
    }
    while steps < len {
        match gen.rng.gen_range(0..10) {
            0..=5 => {}
            6 => now += gen.rng.gen_range(1..2500),
            7 => now += 1,
            _ => now += 100_000,
        }
        let (_, argv) = if let Some(a) = forced.pop() {
            (json!({}), a)
        } else if settings && gen.rng.gen_range(0..3) == 0 {
            let k = gen.keys[gen.rng.gen_range(0..gen.keys.len())].clone().into_bytes();
            (json!({}), match gen.rng.gen_range(0..4) {
                0 => vec![b("APPEND"), k, b("0123456789abcdefghij")],
                1 => vec![b("SETRANGE"), k, b(["10", "30", "70"][gen.rng.gen_range(0..3)]), b("xyz")],
                2 => vec![b("APPEND"), k, b("01234567")],
                _ => vec![b("STRLEN"), k],
            })
        } else if gen.rng.gen_range(0..10) < 4 { gen.other_command() } else { gen.command() };
        let name = String::from_utf8_lossy(&argv[0]).to_uppercase();
        let numkeys_two = name == "EVAL" && argv.get(2).map(|n| n.as_slice() != b"0" && n.as_slice() != b"1").unwrap_or(false);
        let sort_store = name == "SORT" && argv.iter().any(|a| a.eq_ignore_ascii_case(b"STORE"));
        if matches!(name.as_str(), "SPOP" | "SRANDMEMBER" | "RANDOMKEY" | "SCAN" | "HSCAN" | "SSCAN" | "ZSCAN" | "TIME" | "OBJECT" | "DEBUG" | "WAIT" | "INFO"
                    | "RENAME" | "RENAMENX" | "LMOVE" | "RPOPLPUSH" | "MSETNX" | "SMOVE" | "MULTI" | "EXEC" | "DISCARD" | "WATCH") || numkeys_two || sort_store {
            continue;
        }
        *c1.0.lock().unwrap() = 1000 + now;
        *cn.0.lock().unwrap() = 1000 + now;
        if gen.rng.gen_range(0..6) == 0 {
            let _ = one.evict_expired_all_shards().await;
            let _ = many.evict_expired_all_shards().await;
        }
        let unordered = matches!(name.as_str(), "KEYS" | "SMEMBERS" | "HKEYS" | "HVALS" | "HGETALL" | "SUNION" | "SINTER" | "SDIFF");
        let r1 = exec(&one, &argv).await;
        let rn = exec(&many, &argv).await;
        log.push(json!({"a": "twin", "run": run, "shards": shards, "now": now,
                        "argv": argv.iter().map(|a| String::from_utf8_lossy(a).to_string()).collect::<Vec<_>>(),
                        "r1": canon(&r1, unordered, name == "HGETALL"), "rn": canon(&rn, unordered, name == "HGETALL")}));
        steps += 1;
    }
    let s1 = project(&one, now).await;
    let sn = project(&many, now).await;
    log.push(json!({"a": "twinend", "run": run, "shards": shards, "s1": s1, "sn": sn}));
}

/// Many shards (beyond any machine word of bits), a few dozen keys spread over them, and commands that name
/// two or three keys at once - each key must be read and written on its own home shard.
async fn run_wide(run: usize, shards: usize, gen: &mut Gen, len: usize, log: &mut Vec<Value>) {
    let clock = HarnessTime(Arc::new(Mutex::new(1000)));
    let st: State = ShardedActorState::with_config_and_time_source(ShardConfig::with_shards(shards), clock.clone());
    let saved = std::mem::replace(&mut gen.keys, (0..40).map(|i| format!("user:{}:{}", i, ["name", "mail"][i % 2])).collect());
    log.push(json!({"a": "reset", "run": run, "shards": shards}));
    for _ in 0..len {
        let n = gen.rng.gen_range(2..=3);
        let ks: Vec<String> = (0..n).map(|_| gen.keys[gen.rng.gen_range(0..gen.keys.len())].clone()).collect();
        let kbs: Vec<Vec<u8>> = ks.iter().map(|k| k.clone().into_bytes()).collect();
        let (c, argv): (Value, Argv) = match gen.rng.gen_range(0..10) {
            0..=3 => {
                let vs: Vec<Vec<u8>> = (0..n).map(|i| format!("v{}{}", run, i).into_bytes()).collect();
                let mut argv = vec![b("MSET")];
                for i in 0..n { argv.push(kbs[i].clone()); argv.push(vs[i].clone()); }
                (json!({"op": "MSET", "ks": ks, "vs": vs}), argv)
            }
            4..=6 => { let mut argv = vec![b("MGET")]; argv.extend(kbs.clone()); (json!({"op": "MGET", "ks": ks}), argv) }
            7 => { let mut argv = vec![b("DEL")]; argv.extend(kbs.clone()); (json!({"op": "DEL", "ks": ks}), argv) }
            8 => { let mut argv = vec![b("EXISTS")]; argv.extend(kbs.clone()); (json!({"op": "EXISTS", "ks": ks}), argv) }
            _ => (json!({"op": "GET", "k": ks[0]}), vec![b("GET"), kbs[0].clone()]),
        };
        let r = exec(&st, &argv).await;
        let ro = parse_argv(&argv).map(|cmd| cmd.is_read_only()).unwrap_or(false);
        // the projection reads every key with its own single-key commands
        let s = project(&st, 0).await;
        log.push(json!({"a": "cmd", "run": run, "now": 0, "c": c, "path": "generic", "ro": ro, "r": rv_json(&r), "s": s,
                        "argv": argv.iter().map(|a| String::from_utf8_lossy(a).to_string()).collect::<Vec<_>>()}));
    }
    gen.keys = saved;
}

/// TLC-generated scenario ([{"c": cmd} | {"tick": n}]) on an N-shard state.
async fn replay_async(run: usize, shards: usize, steps: &[Value], rng: &mut impl Rng, log: &mut Vec<Value>) {
    let clock = HarnessTime(Arc::new(Mutex::new(1000)));
    let st: State = ShardedActorState::with_config_and_time_source(ShardConfig::with_shards(shards), clock.clone());
    let mut now: u64 = 0;
    log.push(json!({"a": "reset", "run": run, "shards": shards}));
    for s in steps {
        if let Some(t) = s.get("tick") {
            now += t.as_u64().unwrap_or(1);
            continue;
        }
        let c = &s["c"];
        let argv = crate::ks::render(c);
        *clock.0.lock().unwrap() = 1000 + now;
        let (r, path) = exec_mixed(&st, c, &argv, rng).await;
        let ro = parse_argv(&argv).map(|cmd| cmd.is_read_only()).unwrap_or(false);
        let proj = project(&st, now).await;
        log.push(json!({"a": "cmd", "run": run, "now": now, "c": c, "path": path, "ro": ro, "r": rv_json(&r), "s": proj,
                        "argv": argv.iter().map(|a| String::from_utf8_lossy(a).to_string()).collect::<Vec<_>>()}));
    }
}

/// Full SCAN iteration on a state with `nkeys` keys: the keys returned until the cursor is 0.
async fn scan_case(run: usize, shards: usize, nkeys: usize, count: usize, log: &mut Vec<Value>) {
    let clock = HarnessTime(Arc::new(Mutex::new(1000)));
    let st: State = ShardedActorState::with_config_and_time_source(ShardConfig::with_shards(shards), clock);
    for i in 0..nkeys {
        exec(&st, &vec![b("SET"), b(&format!("key{i}")), b("v")]).await;
    }
    let mut cursor = b("0");
    let mut got: Vec<String> = Vec::new();
    let mut rounds = 0;
    loop {
        let r = arr(exec(&st, &vec![b("SCAN"), cursor.clone(), b("COUNT"), b(&count.to_string())]).await);
        rounds += 1;
        if r.len() != 2 {
            break;
        }
        cursor = bulk(&r[0]);
        got.extend(arr(r[1].clone()).iter().map(|k| String::from_utf8_lossy(&bulk(k)).to_string()));
        if cursor == b("0") || rounds > 1000 {
            break;
        }
    }
    got.sort();
    got.dedup();
    let mut all: Vec<String> = (0..nkeys).map(|i| format!("key{i}")).collect();
    all.sort();
    log.push(json!({"a": "reset", "run": run, "shards": shards}));
    log.push(json!({"a": "scanall", "run": run, "shards": shards, "count": count, "keys": all, "returned": got, "rounds": rounds}));
    // the property read literally: one SCAN call is answered alike by a 1-shard and an N-shard server holding the
    // same keys (same cursor, same keys up to order) - the model leaves a single call free, the twin does not
    let clock1 = HarnessTime(Arc::new(Mutex::new(1000)));
    let one: State = ShardedActorState::with_config_and_time_source(ShardConfig::with_shards(1), clock1);
    for i in 0..nkeys {
        exec(&one, &vec![b("SET"), b(&format!("key{i}")), b("v")]).await;
    }
    for argv in [vec![b("SCAN"), b("0")], vec![b("SCAN"), b("0"), b("COUNT"), b(&count.to_string())], vec![b("SCAN"), b("0"), b("MATCH"), b("key1*")],
                 vec![b("SCAN"), b("0"), b("MATCH"), b("key*"), b("COUNT"), b("2")], vec![b("SCAN"), b("7"), b("COUNT"), b(&count.to_string())]] {
        let mut sides = Vec::new();
        for stx in [&one, &st] {
            let r = arr(exec(stx, &argv).await);
            let (cur, mut ks) = if r.len() == 2 { (String::from_utf8_lossy(&bulk(&r[0])).to_string(), arr(r[1].clone()).iter().map(|k| String::from_utf8_lossy(&bulk(k)).to_string()).collect::<Vec<_>>()) } else { ("?".to_string(), vec![]) };
            ks.sort();
            sides.push(json!({"cursor": cur, "keys": ks}));
        }
        log.push(json!({"a": "scanpair", "run": run, "shards": shards, "argv": argv.iter().map(|a| String::from_utf8_lossy(a).to_string()).collect::<Vec<_>>(), "one": sides[0], "many": sides[1]}));
    }
}

pub fn main(args: &[String]) -> i32 {
    let a = Args::parse(args);
    quiet_panics();
    let mut out = Out::create(&a.str("out", "shard_trace.ndjson"));
    let rt = tokio::runtime::Builder::new_current_thread().enable_all().build().unwrap();
    let shards = a.usize("shards", 4);
    match a.pos.first().map(|s| s.as_str()) {
        Some("record") => {
            let mut gen = Gen::new(a.u64("seed", 1), false);
            let two_key = a.get("twokey").is_some();
            let scripts = a.get("scripts").is_some();   // runs dense in script-cache commands
            for i in 0..a.usize("n", 50) {
                let mut log = Vec::new();
                let r = catch(|| rt.block_on(run_async(i + 1, shards, &mut gen, a.usize("len", 30), two_key, scripts, &mut log)));
                for ev in &log {
                    out.emit(ev);
                }
                if let Err(p) = r {
                    out.emit(&json!({"a": "cmd", "run": i + 1, "now": 0, "c": {"op": "OTHER"}, "argv": [], "ro": false, "panic": p, "r": {"t": "error", "b": [80], "a": []}, "s": []}));
                }
            }
        }
        Some("twin") => {
            let mut gen = Gen::new(a.u64("seed", 1), true);
            for i in 0..a.usize("n", 50) {
                let mut log = Vec::new();
                let r = catch(|| rt.block_on(run_twin(i + 1, shards, &mut gen, a.usize("len", 30), &mut log)));
                for ev in &log {
                    out.emit(ev);
                }
                if let Err(p) = r {
                    out.emit(&json!({"a": "twin", "run": i + 1, "shards": shards, "argv": [], "r1": "", "rn": format!("panic: {p}")}));
                }
            }
        }
        Some("wide") => {
            let mut gen = Gen::new(a.u64("seed", 1), false);
            for i in 0..a.usize("n", 50) {
                let mut log = Vec::new();
                let r = catch(|| rt.block_on(run_wide(i + 1, shards, &mut gen, a.usize("len", 30), &mut log)));
                for ev in &log {
                    out.emit(ev);
                }
                if let Err(p) = r {
                    out.emit(&json!({"a": "cmd", "run": i + 1, "now": 0, "c": {"op": "OTHER"}, "argv": [], "ro": false, "panic": p, "r": {"t": "error", "b": [80], "a": []}, "s": []}));
                }
            }
        }
        Some("replay") => {
            let mut r = rng(a.u64("seed", 1));
            for (i, scn) in read_ndjson(&a.pos[1]).iter().enumerate() {
                let mut log = Vec::new();
                let _ = catch(|| rt.block_on(replay_async(i + 1, shards, scn.as_array().unwrap(), &mut r, &mut log)));
                for ev in &log {
                    out.emit(ev);
                }
            }
        }
        Some("scan") => {
            let mut run = 0;
            for nkeys in [5usize, 25, 60] {
                for count in [3usize, 10, 100] {
                    run += 1;
                    let mut log = Vec::new();
                    let _ = catch(|| rt.block_on(scan_case(run, shards, nkeys, count, &mut log)));
                    for ev in &log {
                        out.emit(ev);
                    }
                }
            }
        }
        _ => {
            eprintln!("usage: vh shard record|scan");
            return 2;
        }
    }
    println!("{{\"events\": {}}}", out.finish());
    0
}
