//! NodeClock.tla binding (C08): one real node (ReplicatedShardedState, 16 shard actors) through
//! local writes, remote deltas with chosen stamps, checkpoints, crash and recovery.
//!   vh clock replay <scenarios.ndjson> --out trace | vh clock record --seed S --n N --out trace
use crate::repl::argv_cmd;
use crate::util::*;
use rand::Rng;
use redis_sim::production::ReplicatedShardedState;
use redis_sim::redis::SDS;
use redis_sim::replication::lattice::{LamportClock, ReplicaId};
use redis_sim::replication::state::{ReplicatedValue, ReplicationDelta};
use redis_sim::replication::ReplicationConfig;
use serde_json::{json, Value};
use redis_sim::streaming::{
    CheckpointInfo, CheckpointWriter, Compression, InMemoryObjectStore, Manifest, ManifestManager, ObjectStore, SegmentInfo, SegmentWriter,
};
use redis_sim::streaming::config::StreamingConfig;
use redis_sim::streaming::integration::StreamingIntegration;
use std::collections::{BTreeMap, HashMap};
use std::sync::Arc;

const PREFIX: &str = "test";

/// Restart the way the server binary does: what was streamed (checkpoint, segments, manifest) sits in an
/// object store and goes through StreamingIntegration::recover; the WAL is replayed afterwards with
/// apply_recovered_state(None, ..).  `seg` / `wal`: persisted deltas by place, in persist order.
async fn restart(node: &ReplicatedShardedState, ckpt: &Option<HashMap<String, ReplicatedValue>>, seg: &[ReplicationDelta], wal: &[ReplicationDelta]) -> Result<(), String> {
    let store = InMemoryObjectStore::new();
    let mm = ManifestManager::new(store.clone(), PREFIX);
    let mut manifest = Manifest::new(1);
    // what was streamed lies in one to three segments, cut in persist order (a flush every few writes); the manifest records
    // each segment's own stamp range - the shards' clocks are independent, so a later segment may well start lower
    let nseg = if seg.len() >= 4 { 1 + seg.len() % 3 } else if seg.len() >= 2 { 1 + seg.len() % 2 } else { 1 };
    let per = (seg.len() + nseg - 1) / nseg.max(1);
    for (ci, chunk) in seg.chunks(per.max(1)).enumerate() {
        let mut w = SegmentWriter::new(Compression::None);
        for d in chunk {
            w.write_delta(d).map_err(|e| format!("{e:?}"))?;
        }
        let data = w.finish().map_err(|e| format!("{e:?}"))?;
        let id = 5 + ci as u64;
        let key = format!("{}/segments/segment-{:08}.seg", PREFIX, id);
        store.put(&key, &data).await.map_err(|e| format!("{e}"))?;
        let ts: Vec<u64> = chunk.iter().map(|d| d.value.timestamp.time).collect();
        manifest.add_segment(SegmentInfo { id, key, record_count: chunk.len() as u32, size_bytes: data.len() as u64,
                                           min_timestamp: *ts.iter().min().unwrap(), max_timestamp: *ts.iter().max().unwrap() });
    }
    if let Some(state) = ckpt {
        let n = state.len() as u64;
        let data = CheckpointWriter::new(Compression::None).write(state.clone(), 12345, 4).map_err(|e| format!("{e:?}"))?;
        let key = format!("{}/checkpoints/chk-{:016}.chk", PREFIX, 12345);
        store.put(&key, &data).await.map_err(|e| format!("{e}"))?;
        manifest.checkpoint = Some(CheckpointInfo { key, timestamp_ms: 12345, key_count: n, last_segment_id: 4 });
    }
    if !seg.is_empty() || ckpt.is_some() {
        mm.save(&manifest).await.map_err(|e| format!("{e}"))?;
    }
    let integ = StreamingIntegration::with_store(Arc::new(store), StreamingConfig::test(), 1);
    integ.recover(node).await.map_err(|e| format!("{e}"))?;
    if !wal.is_empty() {
        node.apply_recovered_state(None, wal.to_vec());
    }
    Ok(())
}

fn new_node_with(replica_id: u64, causal: bool) -> ReplicatedShardedState {
    let consistency_level = if causal { redis_sim::replication::ConsistencyLevel::Causal } else { redis_sim::replication::ConsistencyLevel::Eventual };
    ReplicatedShardedState::new(ReplicationConfig { replica_id, consistency_level, ..Default::default() })
}

/// Logical times of a long-lived cluster lie beyond 2^32; the specification only needs order and
/// successor, so the trace carries them shifted down to 1_000_000.. (every small time stays below).
const BIG: u64 = 1 << 32;
fn ct(t: u64) -> u64 {
    if t >= (1 << 31) { t - BIG + 1_000_000 } else { t }
}

async fn mem(node: &ReplicatedShardedState) -> Value {
    let snap: BTreeMap<String, ReplicatedValue> = node.snapshot_state().await.into_iter().collect();
    json!(snap.iter().map(|(k, v)| json!([k, [ct(v.timestamp.time), v.timestamp.replica_id.0]])).collect::<Vec<_>>())
}

/// For every key that serves a string: the stamp of the write that produced the served payload.
async fn memv(node: &ReplicatedShardedState, origin: &HashMap<String, (u64, u64)>) -> Value {
    let snap: BTreeMap<String, ReplicatedValue> = node.snapshot_state().await.into_iter().collect();
    json!(snap.iter().filter_map(|(k, v)| {
        let payload = String::from_utf8_lossy(v.get()?.as_bytes()).to_string();
        origin.get(&payload).map(|(t, r)| json!([k, [ct(*t), r]]))
    }).collect::<Vec<_>>())
}

/// A real always-fsync WAL actor for the node, on `store` (what the server binary attaches at start-up).
fn attach_wal(node: &mut ReplicatedShardedState, store: &redis_sim::streaming::wal_store::InMemoryWalStore) -> (redis_sim::streaming::WalActorHandle, tokio::task::JoinHandle<()>) {
    use redis_sim::streaming::wal_config::{FsyncPolicy, WalConfig};
    let config = WalConfig {
        enabled: true,
        wal_dir: "/nonexistent".into(),
        fsync_policy: FsyncPolicy::Always,
        max_file_size: 700,
        group_commit_max_entries: 4,
        group_commit_max_wait: std::time::Duration::from_micros(200),
        truncation_check_interval: std::time::Duration::from_secs(3600),
    };
    let (handle, task) = redis_sim::streaming::spawn_wal_actor(store.clone(), config).expect("wal actor");
    node.set_wal_handle(handle.clone());
    (handle, task)
}

async fn run_async(run: usize, steps: Vec<Value>, log: &mut Vec<Value>) {
    // every third run under the causal consistency level (register writes carry vector clocks)
    let causal = run % 3 == 2;
    // every fourth run the node persists by itself: a real always-fsync WAL actor is attached, every local write is "placed"
    // by the node (the trace says "wal": an acknowledged write is durable), a crash stops the actor, recovery replays what the
    // real WAL holds - nothing the harness remembers
    let realwal = run % 4 == 1;
    let wal_store = redis_sim::streaming::wal_store::InMemoryWalStore::new();
    let mut node = new_node_with(1, causal);
    let mut wal_actor = if realwal { Some(attach_wal(&mut node, &wal_store)) } else { None };
    let mut origin: HashMap<String, (u64, u64)> = HashMap::new();   // payload -> stamp of the write that carried it
    let mut everything: Vec<ReplicationDelta> = Vec::new();          // every delta issued or received, for the peer at the end
    let mut ckpt: Option<HashMap<String, ReplicatedValue>> = None;
    let mut deltas: Vec<(bool, ReplicationDelta)> = Vec::new(); // (in the WAL?, delta): segments + WAL, in persist order
    let mut up = true;
    let mut n = 0u64;
    log.push(json!({"a": "reset", "run": run, "causal": causal}));
    for st in steps {
        let mut ev = st.clone();
        match st["a"].as_str().unwrap() {
            "write" if up => {
                let k = st["k"].as_str().unwrap();
                n += 1;
                // a delete is a stamped local write like any other (it leaves a tombstone with the stamp)
                if st.get("del").and_then(|d| d.as_bool()).unwrap_or(false) {
                    let _ = node.execute(argv_cmd(&["DEL", k])).await;
                } else if st.get("hash").and_then(|d| d.as_bool()).unwrap_or(false) {
                    // a write of another type is a stamped write too (HSET over a string fails and stamps nothing)
                    let _ = node.execute(argv_cmd(&["HSET", k, &format!("f{}", n % 3), &format!("v{n}")])).await;
                } else if let Some(px) = st.get("px").and_then(|p| p.as_u64()).filter(|p| *p > 0) {
                    // a key that will not live long is a stamped, acknowledged write like any other
                    let _ = node.execute(argv_cmd(&["SET", k, &format!("v{n}"), "PX", &px.to_string()])).await;
                } else {
                    let _ = node.execute(argv_cmd(&["SET", k, &format!("v{n}")])).await;
                }
                if realwal {
                    ev["place"] = json!("wal");
                }
                let ds = node.collect_pending_deltas().await;
                let mine: Vec<&ReplicationDelta> = ds.iter().filter(|d| d.key == k).collect();
                match mine.last() {
                    Some(d) => {
                        ev["st"] = json!([ct(d.value.timestamp.time), d.value.timestamp.replica_id.0]);
                        origin.insert(format!("v{n}"), (d.value.timestamp.time, d.value.timestamp.replica_id.0));
                        deltas.push((ev["place"] == "wal", (*d).clone()));
                        everything.push((*d).clone());
                    }
                    // DEL of a key the node does not hold writes nothing: not a clock event
                    None if st.get("del").and_then(|d| d.as_bool()).unwrap_or(false) || st.get("hash").and_then(|d| d.as_bool()).unwrap_or(false) => ev["skipped"] = json!(true),
                    None => ev["st"] = json!([0, 0]),
                }
            }
            "remote" if up => {
                let k = st["k"].as_str().unwrap();
                // "big": the peer has been up for a long time
                let t = st["t"].as_u64().unwrap() + if st.get("big").and_then(|b| b.as_bool()).unwrap_or(false) { BIG } else { 0 };
                ev["t"] = json!(ct(t));
                let rv = ReplicatedValue::with_value(SDS::from_str(&format!("r{t}")), LamportClock { time: t, replica_id: ReplicaId::new(2) });
                origin.insert(format!("r{t}"), (t, 2));
                let d = ReplicationDelta::new(k.to_string(), rv, ReplicaId::new(2));
                everything.push(d.clone());
                node.apply_remote_deltas(vec![d]);
                let _ = node.collect_pending_deltas().await;
            }
            // FLUSHALL / FLUSHDB empty the keyspace; the node's clock and what it has seen are not client data
            "flush" if up => {
                let _ = node.execute(argv_cmd(&[if st.get("db").and_then(|d| d.as_bool()).unwrap_or(false) { "FLUSHDB" } else { "FLUSHALL" }])).await;
                let _ = node.collect_pending_deltas().await;
            }
            "checkpoint" if up && realwal => ev["skipped"] = json!(true),
            "checkpoint" if up => {
                ckpt = Some(node.snapshot_state().await);
                if st.get("trim").and_then(|d| d.as_bool()).unwrap_or(false) {
                    deltas.clear(); // the checkpoint subsumes every older segment and WAL file
                }
            }
            "crash" if up => {
                if let Some((h, t)) = wal_actor.take() {
                    h.shutdown().await;
                    let _ = t.await;
                }
                node = new_node_with(1, causal);
                up = false;
            }
            "recover" if !up && realwal => {
                // the server's start-up: every entry of the real WAL, applied as recovered state; then a fresh actor on the same directory
                match redis_sim::streaming::WalRotator::new(wal_store.clone(), 1 << 30).and_then(|rot| rot.recover_all_entries()) {
                    Ok(entries) => {
                        let ds: Vec<ReplicationDelta> = entries.iter().filter_map(|e| e.to_delta().ok()).collect();
                        node.apply_recovered_state(None, ds);
                    }
                    Err(e) => ev["panic"] = json!(format!("WAL recovery failed: {e}")),
                }
                wal_actor = Some(attach_wal(&mut node, &wal_store));
                up = true;
            }
            "recover" if !up => {
                let seg: Vec<ReplicationDelta> = deltas.iter().filter(|(w, _)| !*w).map(|(_, d)| d.clone()).collect();
                let wal: Vec<ReplicationDelta> = deltas.iter().filter(|(w, _)| *w).map(|(_, d)| d.clone()).collect();
                if let Err(e) = restart(&node, &ckpt, &seg, &wal).await {
                    ev["panic"] = json!(format!("restart failed: {e}"));
                }
                up = true;
            }
            _ => ev["skipped"] = json!(true),
        }
        ev["mem"] = if up { mem(&node).await } else { json!([]) };
        ev["memv"] = if up { memv(&node, &origin).await } else { json!([]) };
        ev["run"] = json!(run);
        log.push(ev);
    }
    // a peer that receives everything this node ever issued or received, oldest last: newest write wins there too
    let peer = new_node_with(3, causal);
    for d in everything.iter().rev() {
        peer.apply_remote_deltas(vec![d.clone()]);
    }
    log.push(json!({"a": "peer", "run": run, "mem": mem(&peer).await, "memv": memv(&peer, &origin).await}));
    if let Some((h, t)) = wal_actor.take() {
        h.shutdown().await;
        let _ = t.await;
    }
}

fn random_steps(rng: &mut impl Rng) -> Vec<Value> {
    let keys = ["a", "b", "key:with:colons"];
    let mut steps = Vec::new();
    // one life in six: a busy key and a young one - the busy key's first writes go to the WAL only, its later ones are streamed,
    // and the last streamed batch also holds the first write of a key on another (younger) shard: that batch's lowest stamp is
    // below the earlier batch's, so recovery replays the later segment first
    if rng.gen_range(0..6) == 0 {
        let (busy, young) = if rng.gen_bool(0.5) { ("a", "b") } else { ("key:with:colons", "a") };
        for _ in 0..rng.gen_range(1..=2) {
            steps.push(json!({"a": "write", "k": busy, "place": "wal"}));
        }
        for _ in 0..[3usize, 5, 7][rng.gen_range(0..3)] {
            steps.push(json!({"a": "write", "k": busy, "place": "seg"}));
        }
        steps.push(json!({"a": "write", "k": young, "place": "seg"}));
        steps.push(json!({"a": "crash"}));
        steps.push(json!({"a": "recover"}));
        steps.push(json!({"a": "write", "k": busy, "place": "wal"}));
        steps.push(json!({"a": "write", "k": young, "place": "wal"}));
        return steps;
    }
    let mut up = true;
    for _ in 0..rng.gen_range(4..=14) {
        let k = keys[rng.gen_range(0..keys.len())];
        let s = match rng.gen_range(0..10) {
            0..=3 if up => {
                let kind = rng.gen_range(0..6);
                json!({"a": "write", "k": k, "place": if rng.gen_bool(0.5) { "seg" } else { "wal" }, "del": kind == 0, "hash": kind == 1,
                       "px": if kind >= 4 { [300u64, 900, 5000][rng.gen_range(0..3)] } else { 0 }})
            }
            4..=5 if up => {
                let t = [1u64, 2, 3, 7, 50, 1000][rng.gen_range(0..6)];
                json!({"a": "remote", "k": k, "t": t, "big": rng.gen_range(0..6) == 0})
            }
            6 if up => json!({"a": "checkpoint", "trim": rng.gen_bool(0.5)}),
            7 if up => {
                up = false;
                json!({"a": "crash"})
            }
            _ if !up => {
                up = true;
                json!({"a": "recover"})
            }
            8 if up && rng.gen_range(0..3) == 0 => json!({"a": "flush", "db": rng.gen_bool(0.5)}),
            _ => json!({"a": "write", "k": k, "place": "wal"}),
        };
        steps.push(s);
    }
    if !up {
        steps.push(json!({"a": "recover"}));
    }
    steps.push(json!({"a": "write", "k": "a", "place": "wal"}));
    steps
}

pub fn main(args: &[String]) -> i32 {
    let a = Args::parse(args);
    quiet_panics();
    let mut out = Out::create(&a.str("out", "clock_trace.ndjson"));
    let rt = tokio::runtime::Builder::new_current_thread().enable_all().build().unwrap();
    let mut run_one = |run: usize, steps: Vec<Value>, out: &mut Out| {
        let mut log = Vec::new();
        let r = catch(|| rt.block_on(run_async(run, steps, &mut log)));
        for ev in &log {
            out.emit(ev);
        }
        if let Err(p) = r {
            out.emit(&json!({"a": "panic", "run": run, "msg": p}));
        }
    };
    match a.pos.first().map(|s| s.as_str()) {
        Some("replay") => {
            for (i, s) in read_ndjson(&a.pos[1]).iter().enumerate() {
                run_one(i + 1, s.as_array().unwrap().clone(), &mut out);
            }
        }
        Some("record") => {
            let mut rng = rng(a.u64("seed", 1));
            for i in 0..a.usize("n", 100) {
                let steps = random_steps(&mut rng);
                run_one(i + 1, steps, &mut out);
            }
        }
        _ => {
            eprintln!("usage: vh clock replay|record");
            return 2;
        }
    }
    println!("{{\"events\": {}}}", out.finish());
    0
}
