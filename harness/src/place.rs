//! Placement.tla binding (C19): real HashRing built by add_node/remove_node sequences,
//! observed through the verif hook; real GossipRouter (new / from_config) and GossipState.
//!   vh place replay <scenarios.ndjson> --out cases | vh place record --seed S --n N --out cases
use crate::stream::mk_delta;
use crate::util::*;
use rand::seq::SliceRandom;
use rand::Rng;
use redis_sim::replication::lattice::ReplicaId;
use redis_sim::replication::{GossipRouter, GossipState, HashRing, ReplicationConfig};
use serde_json::{json, Value};
use std::collections::{BTreeMap, BTreeSet, HashMap};
use std::sync::{Arc, RwLock};

fn keys(n: usize, salt: u64) -> Vec<String> {
    (0..n).map(|i| format!("key:{}:{}", salt, i)).collect()
}

thread_local! { static IDK: std::cell::Cell<u8> = std::cell::Cell::new(0); }
/// Scenarios name nodes 1..8; the replica ids the real ring sees are these, mapped: small and dense, all equal
/// modulo 64, beyond 2^32, sparse, at the top of u64.  The trace carries the scenario's names.
fn real(i: u64) -> u64 {
    match IDK.with(|k| k.get()) {
        1 => 64 * i + 1,
        2 => i + (1u64 << 32),
        3 => i * 1000 + 7,
        4 => u64::MAX - i,
        _ => i,
    }
}
fn logical(r: u64) -> u64 {
    match IDK.with(|k| k.get()) {
        1 => (r - 1) / 64,
        2 => r - (1u64 << 32),
        3 => (r - 7) / 1000,
        4 => u64::MAX - r,
        _ => r,
    }
}

/// ops: ["add", id] | ["remove", id]
fn build_ring(ops: &[Value], vnodes: u32, rf: usize) -> HashRing {
    let mut r = HashRing::new(vec![], vnodes, rf);
    for op in ops {
        let id = ReplicaId::new(real(op[1].as_u64().unwrap()));
        match op[0].as_str().unwrap() {
            "add" => r.add_node(id),
            _ => r.remove_node(id),
        }
    }
    r
}

/// ring and key positions as dense ranks (order-preserving; TLC integers are 32 bit)
fn ranked(rings: &[&HashRing], ks: &[String]) -> (Vec<Value>, Vec<u64>) {
    let mut all: BTreeSet<u64> = BTreeSet::new();
    for r in rings {
        all.extend(r.verif_ring().iter().map(|p| p.0));
    }
    all.extend(ks.iter().map(|k| HashRing::verif_key_position(k)));
    let rank: HashMap<u64, u64> = all.iter().enumerate().map(|(i, p)| (*p, i as u64 + 1)).collect();
    let rj = rings
        .iter()
        .map(|r| json!(r.verif_ring().iter().map(|(p, n)| json!([rank[p], logical(*n)])).collect::<Vec<_>>()))
        .collect();
    let kr = ks.iter().map(|k| rank[&HashRing::verif_key_position(k)]).collect();
    (rj, kr)
}

fn ids(v: &[ReplicaId]) -> Vec<u64> {
    v.iter().map(|r| logical(r.0)).collect()
}

fn table_json(t: &HashMap<ReplicaId, Vec<redis_sim::replication::state::ReplicationDelta>>) -> Value {
    let m: BTreeMap<u64, Vec<String>> = t.iter().map(|(r, ds)| (logical(r.0), ds.iter().map(|d| d.key.clone()).collect())).collect();
    json!(m.iter().map(|(r, ks)| json!([r, ks])).collect::<Vec<_>>())
}

fn case(run: usize, scn: &Value) -> Value {
    let ops_a: Vec<Value> = scn["ops_a"].as_array().unwrap().clone();
    let ops_b: Vec<Value> = scn["ops_b"].as_array().unwrap().clone();
    let vnodes = scn["vnodes"].as_u64().unwrap() as u32;
    let rf = scn["rf"].as_u64().unwrap() as usize;
    let nk = scn["nkeys"].as_u64().unwrap_or(20) as usize;
    let ks = keys(nk, scn["salt"].as_u64().unwrap_or(1));
    IDK.with(|k| k.set(scn["idmap"].as_u64().unwrap_or(0) as u8));
    let ra = build_ring(&ops_a, vnodes, rf);
    let rb = build_ring(&ops_b, vnodes, rf);
    // the membership of A plus one extra node (for minimal disruption)
    let members: Vec<u64> = ids(ra.nodes());
    let extra = (1..=8u64).find(|x| !members.contains(x)).unwrap();
    let mut rbig = ra.clone();
    rbig.add_node(ReplicaId::new(real(extra)));
    let (rings, kranks) = ranked(&[&ra, &rb, &rbig], &ks);
    let n = members.len();
    let kj: Vec<Value> = ks
        .iter()
        .zip(kranks.iter())
        .map(|(k, kr)| {
            let by_rf: Vec<Vec<u64>> = (1..=n + 1).map(|r| ids(&ra.get_replicas_with_rf(k, r))).collect();
            json!({"k": k, "pos": kr, "def": ids(&ra.get_replicas(k)), "by_rf": by_rf,
                   "b_def": ids(&rb.get_replicas(k)), "big_all": ids(&rbig.get_replicas_with_rf(k, n + 1)),
                   "primary": ra.get_primary(k).map(|p| logical(p.0)).unwrap_or(0)})
        })
        .collect();
    // routing: every member as sender; explicit peer table and from_config (contiguous ids 1..n only)
    let shared = Arc::new(RwLock::new(ra.clone()));
    let deltas: Vec<_> = ks.iter().enumerate().map(|(i, k)| mk_delta(&json!({"id": i, "k": k, "t": "set", "v": "v", "ts": 1, "r": 1}))).collect();
    let contiguous = IDK.with(|k| k.get()) == 0 && members.iter().copied().collect::<BTreeSet<_>>() == (1..=n as u64).collect::<BTreeSet<_>>();
    let mut routes = Vec::new();
    for &s in &members {
        let peers: HashMap<ReplicaId, String> = members.iter().filter(|m| **m != s).map(|m| (ReplicaId::new(real(*m)), format!("10.0.0.{m}:7000"))).collect();
        let r1 = GossipRouter::new(shared.clone(), ReplicaId::new(real(s)), peers.clone(), true);
        let mut entry = json!({"sender": s, "new": table_json(&r1.route_deltas(deltas.clone()))});
        if contiguous && n >= 1 {
            let peer_list: Vec<String> = members.iter().filter(|m| **m != s).map(|m| format!("10.0.0.{m}:7000")).collect();
            let mut sorted = members.clone();
            sorted.sort();
            let peer_list_sorted: Vec<String> = sorted.iter().filter(|m| **m != s).map(|m| format!("10.0.0.{m}:7000")).collect();
            let _ = peer_list;
            let cfg = ReplicationConfig::new_partitioned_cluster(s, peer_list_sorted, rf).with_virtual_nodes(vnodes);
            let r2 = GossipRouter::from_config(&cfg, shared.clone());
            entry["from_config"] = table_json(&r2.route_deltas(deltas.clone()));
            // through GossipState::queue_deltas
            let r3 = GossipRouter::from_config(&cfg, shared.clone());
            let mut gs = GossipState::with_router(cfg.clone(), r3);
            gs.queue_deltas(deltas.clone());
            let mut q: BTreeMap<u64, Vec<String>> = BTreeMap::new();
            let mut broadcast = false;
            for m in gs.drain_outbound() {
                match m.target {
                    Some(t) => q.entry(t.0).or_default().extend(m.message.into_deltas().unwrap_or_default().into_iter().map(|d| d.key)),
                    None => broadcast = true,
                }
            }
            entry["queued"] = json!(q.iter().map(|(r, ks)| json!([r, ks])).collect::<Vec<_>>());
            entry["broadcast"] = json!(broadcast);
            // one round with thousands of updates (the keys repeat): per target and key, how many arrive
            if s == members[0] {
                let nbig = 2500 + (run % 7) * 131;
                let big: Vec<_> = (0..nbig).map(|i| mk_delta(&json!({"id": i, "k": ks[i % ks.len()], "t": "set", "v": "v", "ts": i + 1, "r": s}))).collect();
                let r4 = GossipRouter::from_config(&cfg, shared.clone());
                let mut gs = GossipState::with_router(cfg.clone(), r4);
                gs.queue_deltas(big);
                let mut cnt: BTreeMap<(u64, String), usize> = BTreeMap::new();
                for m in gs.drain_outbound() {
                    if let Some(t) = m.target {
                        for d in m.message.into_deltas().unwrap_or_default() {
                            *cnt.entry((t.0, d.key)).or_default() += 1;
                        }
                    }
                }
                entry["big"] = json!({"n": nbig, "mult": ks.iter().enumerate().map(|(i, k)| json!([k, (nbig + ks.len() - 1 - i) / ks.len()])).collect::<Vec<_>>(),
                                      "got": cnt.iter().map(|((t, k), n)| json!([t, k, n])).collect::<Vec<_>>()});
            }
        }
        routes.push(entry);
    }
    json!({"t": "ring", "run": run, "scn": scn, "members": members, "extra": extra, "rf": rf,
           "ring_a": rings[0], "ring_b": rings[1], "ring_big": rings[2], "keys": kj, "routes": routes})
}

/// Membership that changes while the cluster runs: one shared ring (constructed from the initial members), one router per
/// member; a join is `add_node` on the ring plus `update_peer` on every router plus a router for the newcomer, a leave is
/// `remove_node` plus `remove_peer` everywhere.  After every change each member routes a batch; the case carries one epoch per
/// membership: the observed ring, the replica lists, who says `is_responsible`, and every sender's routing table.
fn dyn_case(run: usize, rng: &mut impl Rng) -> Value {
    IDK.with(|k| k.set([0u8, 0, 1, 2, 3, 4][rng.gen_range(0..6)]));
    let vn = [1u32, 2, 3, 16, 150][rng.gen_range(0..5)];
    let rf = rng.gen_range(1..=4usize);
    let ks = keys(10, rng.gen_range(0..1000));
    let mut pool: Vec<u64> = (1..=8).collect();
    pool.shuffle(rng);
    let n0 = rng.gen_range(1..=4usize);
    let mut members: Vec<u64> = pool[..n0].to_vec();
    let addr = |m: u64| format!("10.0.0.{m}:7000");
    let shared = Arc::new(RwLock::new(HashRing::new(members.iter().map(|m| ReplicaId::new(real(*m))).collect(), vn, rf)));
    let mk_router = |me: u64, members: &[u64]| {
        let peers: HashMap<ReplicaId, String> = members.iter().filter(|m| **m != me).map(|m| (ReplicaId::new(real(*m)), addr(*m))).collect();
        GossipRouter::new(shared.clone(), ReplicaId::new(real(me)), peers, true)
    };
    let mut routers: BTreeMap<u64, GossipRouter> = members.iter().map(|m| (*m, mk_router(*m, &members))).collect();
    let deltas: Vec<_> = ks.iter().enumerate().map(|(i, k)| mk_delta(&json!({"id": i, "k": k, "t": "set", "v": "v", "ts": 1, "r": 1}))).collect();
    let mut snaps: Vec<(Value, Vec<u64>, HashRing, Vec<Value>, Vec<Value>, Vec<Value>)> = Vec::new();     // (op, members, ring, keys-without-pos, routes, routes while the peer tables lagged)
    let mut op = json!(["start", 0]);
    let mut pre: Vec<Value> = Vec::new();
    for _ in 0..=rng.gen_range(2..=6usize) {
        let ring = shared.read().unwrap().clone();
        let kj: Vec<Value> = ks.iter().map(|k| {
            let resp: Vec<u64> = (1..=8u64).filter(|m| ring.is_responsible(k, ReplicaId::new(real(*m)))).collect();
            json!({"k": k, "def": ids(&ring.get_replicas(k)), "resp": resp, "primary": ring.get_primary(k).map(|p| logical(p.0)).unwrap_or(0)})
        }).collect();
        let routes: Vec<Value> = routers.iter().map(|(s, r)| json!({"sender": s, "new": table_json(&r.route_deltas(deltas.clone()))})).collect();
        snaps.push((op.clone(), members.clone(), ring, kj, routes, std::mem::take(&mut pre)));
        // next membership change
        let join = members.len() <= 1 || (members.len() < 7 && rng.gen_bool(0.5));
        if join {
            let x = *pool.iter().find(|x| !members.contains(x)).unwrap();
            shared.write().unwrap().add_node(ReplicaId::new(real(x)));
            // the ring has changed, the peer tables have not yet: batches routed now may starve the newcomer, nobody else
            if rng.gen_bool(0.7) {
                pre = routers.iter().map(|(s, r)| json!({"sender": s, "new": table_json(&r.route_deltas(deltas.clone()))})).collect();
            }
            for r in routers.values_mut() {
                r.update_peer(ReplicaId::new(real(x)), addr(x));
            }
            members.push(x);
            let r = mk_router(x, &members);
            routers.insert(x, r);
            op = json!(["join", x]);
        } else {
            let x = members.remove(rng.gen_range(0..members.len()));
            shared.write().unwrap().remove_node(ReplicaId::new(real(x)));
            routers.remove(&x);
            if rng.gen_bool(0.7) {
                pre = routers.iter().map(|(s, r)| json!({"sender": s, "new": table_json(&r.route_deltas(deltas.clone()))})).collect();
            }
            for r in routers.values_mut() {
                r.remove_peer(ReplicaId::new(real(x)));
            }
            pool.retain(|y| *y != x);
            pool.push(x);       // may rejoin later
            op = json!(["leave", x]);
        }
    }
    let rings: Vec<&HashRing> = snaps.iter().map(|s| &s.2).collect();
    let (rj, kr) = ranked(&rings, &ks);
    let epochs: Vec<Value> = snaps.iter().enumerate().map(|(i, (op, m, _, kj, routes, pre))| {
        let keys: Vec<Value> = kj.iter().zip(kr.iter()).map(|(k, pos)| { let mut k = k.clone(); k["pos"] = json!(pos); k }).collect();
        json!({"op": op, "members": m, "ring_a": rj[i], "rf": rf, "keys": keys, "routes": routes, "pre": pre})
    }).collect();
    json!({"t": "dyn", "run": run, "vnodes": vn, "rf": rf, "idmap": IDK.with(|k| k.get()), "epochs": epochs})
}

fn random_scn(rng: &mut impl Rng) -> Value {
    let n = rng.gen_range(1..=6u64);
    let contiguous = rng.gen_bool(0.6);
    let mut members: Vec<u64> = if contiguous { (1..=n).collect() } else { let mut v: Vec<u64> = (1..=7).collect(); v.shuffle(rng); v.truncate(n as usize); v };
    members.shuffle(rng);
    let ops_a: Vec<Value> = members.iter().map(|m| json!(["add", m])).collect();
    // B: another join order, with a leave + rejoin of one member and a join + leave of a stranger
    let mut mb = members.clone();
    mb.shuffle(rng);
    let mut ops_b: Vec<Value> = mb.iter().map(|m| json!(["add", m])).collect();
    if rng.gen_bool(0.5) {
        let x = mb[rng.gen_range(0..mb.len())];
        let at = rng.gen_range(1..=ops_b.len());
        ops_b.insert(at, json!(["remove", x]));
        ops_b.push(json!(["add", x]));
    }
    if rng.gen_bool(0.5) {
        let at = rng.gen_range(0..=ops_b.len());
        ops_b.insert(at, json!(["add", 8]));
        ops_b.push(json!(["remove", 8]));
    }
    let vn = [1u32, 2, 3, 150][rng.gen_range(0..4)];
    // what the ring sees as replica ids: 1..8 as they are (from_config needs that), or mapped (see `real`)
    let idmap = if contiguous { [0u64, 0, 1][rng.gen_range(0..3)] } else { rng.gen_range(0..5u64) };
    json!({"ops_a": ops_a, "ops_b": ops_b, "vnodes": vn, "rf": rng.gen_range(1..=4),
           "nkeys": 12, "salt": rng.gen_range(0..1000), "idmap": idmap})
}

pub fn main(args: &[String]) -> i32 {
    let a = Args::parse(args);
    quiet_panics();
    let mut out = Out::create(&a.str("out", "place_cases.ndjson"));
    let mut emit = |scn: &Value, out: &mut Out| {
        let n = out.n + 1;
        match catch(|| case(n, scn)) {
            Ok(v) => out.emit(&v),
            Err(p) => out.emit(&json!({"t": "ring", "run": n, "scn": scn, "panic": p})),
        }
    };
    match a.pos.first().map(|s| s.as_str()) {
        Some("replay") => {
            for (i, s) in read_ndjson(&a.pos[1]).into_iter().enumerate() {
                // the exported scenarios name nodes 1..n: every third one is placed under other replica ids
                let mut s = s;
                if s.get("idmap").is_none() {
                    s["idmap"] = json!([0u64, 0, 1, 0, 0, 2, 0, 0, 3, 0, 0, 4][i % 12]);
                }
                emit(&s, &mut out);
            }
        }
        Some("record") => {
            let mut rng = rng(a.u64("seed", 1));
            for _ in 0..a.usize("n", 100) {
                let s = random_scn(&mut rng);
                emit(&s, &mut out);
            }
        }
        Some("dyn") => {
            let mut rng = rng(a.u64("seed", 1));
            for i in 0..a.usize("n", 100) {
                match catch(|| dyn_case(i + 1, &mut rng)) {
                    Ok(v) => out.emit(&v),
                    Err(p) => out.emit(&json!({"t": "dyn", "run": i + 1, "panic": p})),
                }
            }
        }
        // placement of a fixed scenario computed in this process (used by `xproc` in child processes)
        Some("child") => {
            let scn: Value = serde_json::from_str(&a.pos[1]).unwrap();
            let v = case(1, &scn);
            println!("{}", json!({"keys": v["keys"].as_array().unwrap().iter().map(|k| json!([k["k"], k["def"], k["primary"]])).collect::<Vec<_>>()}));
            return 0;
        }
        // every node is a process of its own: the same scenario placed by two fresh processes and by this one
        Some("xproc") => {
            let mut rng = rng(a.u64("seed", 1));
            let exe = std::env::current_exe().unwrap();
            for i in 0..a.usize("n", 6) {
                let scn = random_scn(&mut rng);
                let child = || -> Value {
                    let o = std::process::Command::new(&exe).args(["place", "child", &scn.to_string()]).output();
                    match o {
                        Ok(o) => String::from_utf8_lossy(&o.stdout).lines().find_map(|l| serde_json::from_str::<Value>(l).ok()).map(|v| v["keys"].clone()).unwrap_or(json!("no output")),
                        Err(e) => json!(format!("spawn failed: {e}")),
                    }
                };
                let here = case(1, &scn);
                let here_keys: Vec<Value> = here["keys"].as_array().unwrap().iter().map(|k| json!([k["k"], k["def"], k["primary"]])).collect();
                out.emit(&json!({"t": "xproc", "run": i + 1, "scn": scn, "here": here_keys, "p1": child(), "p2": child()}));
            }
        }
        _ => {
            eprintln!("usage: vh place replay|record");
            return 2;
        }
    }
    println!("{{\"cases\": {}}}", out.finish());
    0
}
