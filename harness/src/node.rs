//! Extension X01 (beyond the listed properties): the node-level write path.
//!   vh node record --seed S --n N --out trace
//! A real ReplicatedShardedState with the real always-fsync WAL actor on the scripted store
//! (no injected faults: the node deliberately answers OK when the WAL reports a failure).
//! Client tasks SET unique keys; "send" is logged before `execute`, "ack" when the client has
//! its OK.  Same event format as `vh wal`: WalTrace checks that an acknowledged write lies in a
//! synced prefix at the moment of the ack and in the recovery of every later crash image.  At the
//! end the node is restarted the way the server does it (recover_all_entries ->
//! apply_recovered_state) on the final crash image and every acknowledged key must be visible.
use crate::stream::HarnessTime;
use crate::util::*;
use crate::wal::ScriptedWalStore;
use rand::Rng;
use redis_sim::production::ReplicatedShardedState;
use redis_sim::redis::{Command, RespValue, SDS};
use redis_sim::replication::ReplicationConfig;
use redis_sim::streaming::wal_store::{InMemoryWalStore, WalFileWriter, WalStore};
use redis_sim::streaming::{spawn_wal_actor, WalRotator};
use redis_sim::streaming::wal_config::{FsyncPolicy, WalConfig};
use serde_json::{json, Value};
use std::collections::HashMap;
use std::sync::{Arc, Mutex};
use std::time::Duration;

fn set_cmd(w: u64, vlen: usize) -> Command {
    let val: String = std::iter::repeat((b'a' + (w % 26) as u8) as char).take(vlen.max(1)).collect();
    Command::Set { key: format!("nk{w}"), value: SDS::from_str(&val), ex: None, px: None, exat: None, pxat: None, nx: false, xx: false, get: false, keepttl: false }
}

fn run_one(run: usize, scn: &Value, out: &mut Out) {
    let batch = scn["batch"].as_u64().unwrap_or(3) as usize;
    let maxfile = scn["maxfile"].as_u64().unwrap_or(400) as usize;
    let bursts: Vec<Vec<u64>> = scn["bursts"].as_array().unwrap().iter().map(|b| b.as_array().unwrap().iter().map(|w| w.as_u64().unwrap()).collect()).collect();
    let store = ScriptedWalStore::new(HashMap::new(), true);
    let config = WalConfig {
        enabled: true,
        wal_dir: "/nonexistent".into(),
        fsync_policy: FsyncPolicy::Always,
        max_file_size: maxfile,
        group_commit_max_entries: batch,
        group_commit_max_wait: Duration::from_micros(200),
        truncation_check_interval: Duration::from_secs(3600),
    };
    out.emit(&json!({"a": "reset", "run": run, "cap": 0, "batch": batch, "scn": scn, "level": "node"}));
    let rt = tokio::runtime::Builder::new_current_thread().enable_all().start_paused(true).build().unwrap();
    let st2 = store.clone();
    let acked: Arc<Mutex<Vec<u64>>> = Arc::new(Mutex::new(Vec::new()));
    let acked2 = acked.clone();
    let res = catch(|| {
        rt.block_on(async move {
            let clock = HarnessTime(Arc::new(Mutex::new(1000)));
            let mut node = ReplicatedShardedState::with_time_source(ReplicationConfig { replica_id: 1, ..Default::default() }, clock);
            let (handle, task) = spawn_wal_actor(st2.clone(), config).unwrap();
            node.set_wal_handle(handle.clone());
            let node = Arc::new(node);
            for burst in &bursts {
                let mut tasks = Vec::new();
                for w in burst {
                    let (n, s, w, acked) = (node.clone(), st2.clone(), *w, acked2.clone());
                    s.log(json!({"a": "send", "w": w}));
                    tasks.push(tokio::spawn(async move {
                        let r = n.execute(set_cmd(w, 4 + (w as usize % 3) * 20)).await;
                        let ok = matches!(r, RespValue::SimpleString(_));
                        if ok {
                            acked.lock().unwrap().push(w);
                        }
                        s.log(json!({"a": "ack", "w": w, "ok": ok, "err": if ok { String::new() } else { format!("{r:?}") }}));
                    }));
                    tokio::task::yield_now().await;
                }
                for t in tasks {
                    let _ = t.await;
                }
                tokio::time::sleep(Duration::from_millis(5)).await;
            }
            handle.shutdown().await;
            let _ = task.await;
        })
    });
    // restart on what a crash leaves now
    let image = store.crash_image();
    let acked_now: Vec<u64> = acked.lock().unwrap().clone();
    let visible = catch(|| {
        let rt2 = tokio::runtime::Builder::new_current_thread().enable_all().start_paused(true).build().unwrap();
        rt2.block_on(async {
            let mem = InMemoryWalStore::new();
            for (name, data) in &image {
                let mut w = mem.create(name).unwrap();
                if !data.is_empty() {
                    w.append(data).unwrap();
                }
            }
            let rot = WalRotator::new(mem, 1 << 30).unwrap();
            let entries = rot.recover_all_entries().unwrap_or_default();
            let deltas: Vec<_> = entries.iter().filter_map(|e| e.to_delta().ok()).collect();
            let clock = HarnessTime(Arc::new(Mutex::new(2000)));
            let node = ReplicatedShardedState::with_time_source(ReplicationConfig { replica_id: 1, ..Default::default() }, clock);
            node.apply_recovered_state(None, deltas);
            let mut vis = Vec::new();
            for w in &acked_now {
                if let RespValue::BulkString(Some(_)) = node.execute(Command::Get(format!("nk{w}"))).await {
                    vis.push(*w);
                }
            }
            vis
        })
    });
    let mut g = store.inner.lock().unwrap();
    for mut ev in std::mem::take(&mut g.log) {
        ev["run"] = json!(run);
        out.emit(&ev);
    }
    match (res, visible) {
        (Err(p), _) | (_, Err(p)) => out.emit(&json!({"a": "panic", "run": run, "msg": p})),
        (Ok(_), Ok(vis)) => out.emit(&json!({"a": "restart", "run": run, "acked": acked_now, "visible": vis})),
    }
}

/// A node whose WAL disk misbehaves: whatever the node answers, a command answered with an error must
/// not have changed what the node serves (C17 at node level).
fn errs_one(run: usize, rng: &mut impl Rng, out: &mut Out) {
    let mut script = HashMap::new();
    for _ in 0..rng.gen_range(1..=4) {
        script.insert(rng.gen_range(2..=20usize), ["fail", "torn", "diskfull", "fail"][rng.gen_range(0..4)].to_string());
    }
    let store = ScriptedWalStore::new(script.clone(), false);
    let config = WalConfig {
        enabled: true,
        wal_dir: "/nonexistent".into(),
        fsync_policy: FsyncPolicy::Always,
        max_file_size: [200usize, 100000][rng.gen_range(0..2)],
        group_commit_max_entries: rng.gen_range(1..=3),
        group_commit_max_wait: Duration::from_micros(200),
        truncation_check_interval: Duration::from_secs(3600),
    };
    out.emit(&json!({"a": "reset", "run": run}));
    let cmds: Vec<Vec<String>> = (0..8)
        .map(|i| {
            let k = ["nk1", "nk2"][rng.gen_range(0..2)].to_string();
            match rng.gen_range(0..5) {
                0 => vec!["SET".into(), k, format!("v{i}")],
                1 => vec!["SETEX".into(), k, "100".into(), format!("v{i}")],
                2 => vec!["APPEND".into(), k, "x".into()],
                3 => vec!["DEL".into(), k],
                _ => vec!["INCR".into(), format!("c{}", rng.gen_range(0..2))],
            }
        })
        .collect();
    let rt = tokio::runtime::Builder::new_current_thread().enable_all().start_paused(true).build().unwrap();
    let st2 = store.clone();
    let res = catch(|| {
        rt.block_on(async move {
            let clock = HarnessTime(Arc::new(Mutex::new(1000)));
            let mut node = ReplicatedShardedState::with_time_source(ReplicationConfig { replica_id: 1, ..Default::default() }, clock);
            let (handle, task) = spawn_wal_actor(st2.clone(), config).unwrap();
            node.set_wal_handle(handle.clone());
            let mut evs = Vec::new();
            for argv in &cmds {
                let refs: Vec<&str> = argv.iter().map(|x| x.as_str()).collect();
                let key = argv[1].clone();
                let view = |n: &ReplicatedShardedState<HarnessTime>, key: String| {
                    let n = n.clone();
                    async move {
                        let g = n.execute(crate::repl::argv_cmd(&["GET", &key])).await;
                        let t = n.execute(crate::repl::argv_cmd(&["TTL", &key])).await;
                        format!("{g:?} {t:?}")
                    }
                };
                let before = view(&node, key.clone()).await;
                let r = node.execute(crate::repl::argv_cmd(&refs)).await;
                let after = view(&node, key.clone()).await;
                evs.push(json!({"a": "nodecmd", "argv": argv, "err": matches!(r, RespValue::Error(_)), "reply": format!("{r:?}"), "before": before, "after": after}));
            }
            handle.shutdown().await;
            let _ = task.await;
            evs
        })
    });
    match res {
        Ok(evs) => {
            for mut e in evs {
                e["run"] = json!(run);
                e["faults"] = json!(script.iter().map(|(k, v)| json!([k, v])).collect::<Vec<_>>());
                out.emit(&e);
            }
        }
        Err(p) => out.emit(&json!({"a": "nodecmd", "run": run, "argv": [], "err": true, "reply": format!("panic: {p}"), "before": "", "after": "panic"})),
    }
}

pub fn main(args: &[String]) -> i32 {
    let a = Args::parse(args);
    quiet_panics();
    let mut out = Out::create(&a.str("out", "node_trace.ndjson"));
    let mut rng = rng(a.u64("seed", 1));
    if a.pos.first().map(|s| s.as_str()) == Some("errs") {
        for i in 0..a.usize("n", 100) {
            errs_one(i + 1, &mut rng, &mut out);
        }
        println!("{{\"events\": {}}}", out.finish());
        return 0;
    }
    for i in 0..a.usize("n", 100) {
        let nw = rng.gen_range(1..=8u64);
        let mut ws: Vec<u64> = (1..=nw).collect();
        let mut bursts = Vec::new();
        while !ws.is_empty() {
            let k = rng.gen_range(1..=ws.len().min(5));
            bursts.push(ws.drain(..k).collect::<Vec<_>>());
        }
        let maxfile = [150, 250, 400, 100000][rng.gen_range(0..4)];
        let scn = json!({"batch": rng.gen_range(1..=4), "maxfile": maxfile, "bursts": bursts});
        run_one(i + 1, &scn, &mut out);
    }
    println!("{{\"events\": {}}}", out.finish());
    0
}
