//! C02 binding: concurrent histories on a real ShardedActorState.
//!   vh lin scripted <schedules.ndjson> --out hist     TLC-generated schedules on a single-threaded
//!        runtime: the driver creates the calls' futures and polls them in the schedule's order
//!        (inv / run / recv / cancel), so mailbox order, slot acquisition and completion order
//!        are those of the schedule
//!   vh lin free --seed S --n N --clients C --ops M --out hist   client tasks on a multi-thread
//!        runtime over all entry points (generic, fast, pooled, batched, Lua script), with
//!        occasional cancellation; invocation / response tickets from one atomic counter
//! Output: one record per (history, key): the operations on that key with tickets and results;
//! LinTrace.tla searches a linearization of each.
use crate::ks::{parse_argv, Argv};
use crate::stream::HarnessTime;
use crate::util::*;
use rand::Rng;
use redis_sim::production::{PerformanceConfig, ShardConfig, ShardedActorState};
use redis_sim::redis::RespValue;
use serde_json::{json, Value};
use std::collections::hash_map::DefaultHasher;
use std::collections::BTreeMap;
use std::future::Future;
use std::hash::Hasher;
use std::pin::Pin;
use std::sync::atomic::{AtomicU64, Ordering};
use std::sync::{Arc, Mutex};
use std::task::{Context, Poll};

type State = ShardedActorState<HarnessTime>;
const INF: u64 = 1_000_000_000;

fn b(s: &str) -> Vec<u8> {
    s.as_bytes().to_vec()
}

/// same routing function as the server (SipHash with zero keys over the key bytes)
fn home(key: &str, shards: usize) -> usize {
    let mut h = DefaultHasher::new();
    h.write(key.as_bytes());
    (h.finish() as usize) % shards
}

/// A state with a small reply-slot pool, so that slots are reused at once (as in ShardActors, PoolCap 1..2).
fn make_state(shards: usize, cap: usize, prewarm: usize) -> State {
    let clock = HarnessTime(Arc::new(Mutex::new(1000)));
    let mut perf = PerformanceConfig::default();
    perf.response_pool.capacity = cap;
    perf.response_pool.prewarm = prewarm.min(cap);
    ShardedActorState::with_perf_config_and_time_source(&perf, ShardConfig::with_shards(shards), clock)
}

/// key names: one per model key, on distinct shards where possible
fn key_names(n: usize, shards: usize) -> Vec<String> {
    let mut out: Vec<String> = Vec::new();
    let mut i = 0;
    while out.len() < n {
        let k = format!("key{i}");
        i += 1;
        let want = out.len() % shards;
        if home(&k, shards) == want {
            out.push(k);
        }
    }
    out
}

#[derive(Clone, Debug)]
struct Sub {
    key: String,
    kind: &'static str, // set get del getset incr
    arg: String,
    argn: i64,
    num: bool,
}

#[derive(Clone, Debug)]
struct Call {
    path: &'static str,
    subs: Vec<Sub>,
}

fn bytes(s: &str) -> bytes::Bytes {
    bytes::Bytes::from(s.as_bytes().to_vec())
}

async fn exec(st: &State, argv: Argv) -> RespValue {
    match parse_argv(&argv) {
        Ok(cmd) => st.execute(&cmd).await,
        Err(e) => RespValue::err(e),
    }
}

/// Issue the call on the real state; one reply per sub-operation.
async fn issue(st: Arc<State>, call: Call) -> Vec<RespValue> {
    let s0 = &call.subs[0];
    match (call.path, s0.kind) {
        ("fast", "get") => vec![st.fast_get(bytes(&s0.key)).await],
        ("fast", "set") => vec![st.fast_set(bytes(&s0.key), bytes(&s0.arg)).await],
        ("pooled", "get") => vec![st.pooled_fast_get(bytes(&s0.key)).await],
        ("pooled", "set") => vec![st.pooled_fast_set(bytes(&s0.key), bytes(&s0.arg)).await],
        ("batch", "get") => st.fast_batch_get_pipeline(call.subs.iter().map(|s| bytes(&s.key)).collect()).await,
        ("batch", "set") => st.fast_batch_set_pipeline(call.subs.iter().map(|s| (bytes(&s.key), bytes(&s.arg))).collect()).await,
        ("sha", kind) => {
            // the script is loaded (idempotent) and then run by its digest
            let (text, args): (&str, Vec<Vec<u8>>) = match kind {
                "get" => ("return redis.call('GET', KEYS[1])", vec![]),
                "set" => ("return redis.call('SET', KEYS[1], ARGV[1])", vec![b(&s0.arg)]),
                _ => ("local v = redis.call('GET', KEYS[1]) if not v then v = 0 end local n = tonumber(v) + tonumber(ARGV[1]) redis.call('SET', KEYS[1], tostring(math.floor(n))) return math.floor(n)", vec![b(&s0.arg)]),
            };
            let sha = match exec(&st, vec![b("SCRIPT"), b("LOAD"), b(text)]).await {
                RespValue::BulkString(Some(x)) => x,
                other => return vec![other],
            };
            let mut argv = vec![b("EVALSHA"), sha, b("1"), b(&s0.key)];
            argv.extend(args);
            vec![exec(&st, argv).await]
        }
        // a sloppy script that forgets `local`: its global must not outlive the call
        ("gscript", "get") => vec![exec(&st, vec![b("EVAL"), b("if redis.call('EXISTS', KEYS[1]) == 1 then val = redis.call('GET', KEYS[1]) end return val"), b("1"), b(&s0.key)]).await],
        ("script", "get") => vec![exec(&st, vec![b("EVAL"), b("return redis.call('GET', KEYS[1])"), b("1"), b(&s0.key)]).await],
        ("script", "set") => vec![exec(&st, vec![b("EVAL"), b("return redis.call('SET', KEYS[1], ARGV[1])"), b("1"), b(&s0.key), b(&s0.arg)]).await],
        // read-modify-write in one script: must be atomic
        ("script", "getset") => vec![exec(&st, vec![b("EVAL"), b("local v = redis.call('GET', KEYS[1]) redis.call('SET', KEYS[1], ARGV[1]) return v"), b("1"), b(&s0.key), b(&s0.arg)]).await],
        ("script", "incr") => vec![exec(&st, vec![b("EVAL"), b("local v = redis.call('GET', KEYS[1]) if not v then v = 0 end local n = tonumber(v) + tonumber(ARGV[1]) redis.call('SET', KEYS[1], tostring(math.floor(n))) return math.floor(n)"), b("1"), b(&s0.key), b(&s0.arg)]).await],
        (_, "get") => vec![exec(&st, vec![b("GET"), b(&s0.key)]).await],
        (_, "set") => vec![exec(&st, vec![b("SET"), b(&s0.key), b(&s0.arg)]).await],
        (_, "del") => vec![exec(&st, vec![b("DEL"), b(&s0.key)]).await],
        (_, "getset") => vec![exec(&st, vec![b("GETSET"), b(&s0.key), b(&s0.arg)]).await],
        (_, "incr") => vec![exec(&st, vec![b("INCRBY"), b(&s0.key), b(&s0.arg)]).await],
        _ => vec![RespValue::err("ERR harness: unknown call")],
    }
}

/// (res, resn) as the judge reads them
fn res_of(r: &RespValue) -> (String, i64) {
    match r {
        RespValue::SimpleString(s) => (s.to_string(), 0),
        RespValue::BulkString(Some(v)) => (String::from_utf8_lossy(v).to_string(), 0),
        RespValue::BulkString(None) | RespValue::Array(None) => ("nil".into(), 0),
        RespValue::Integer(n) => ("int".into(), *n),
        RespValue::Error(e) => (format!("error: {e}"), 0),
        RespValue::Array(Some(_)) => ("array".into(), 0),
    }
}

struct Done {
    id: usize,
    c: usize,
    call: Call,
    inv: u64,
    ret: u64,
    replies: Option<Vec<RespValue>>, // None: cancelled (effect unknown)
}

fn emit_history(out: &mut Out, mode: &str, label: Value, ops: &[Done]) {
    let run = out.n + 1;
    let mut per_key: BTreeMap<String, Vec<Value>> = BTreeMap::new();
    for d in ops {
        for (j, s) in d.call.subs.iter().enumerate() {
            let (res, resn) = match &d.replies {
                Some(rs) => rs.get(j).map(res_of).unwrap_or(("missing".into(), 0)),
                None => ("?".into(), 0),
            };
            per_key.entry(s.key.clone()).or_default().push(json!({
                "id": d.id, "c": d.c, "kind": s.kind, "path": d.call.path, "arg": s.arg, "argn": s.argn, "num": s.num,
                "res": res, "err": res.starts_with("error"), "resn": resn, "inv": d.inv, "ret": d.ret, "opt": d.replies.is_none()}));
        }
    }
    let keys: Vec<Value> = per_key.iter().map(|(k, ops)| json!({"key": k, "ops": ops})).collect();
    out.emit(&json!({"t": "hist", "run": run, "mode": mode, "label": label, "keys": keys}));
}

// ---------------------------------------------------------------------------
// scripted

type Fut = Pin<Box<dyn Future<Output = Vec<RespValue>>>>;

fn scripted_one(rt: &tokio::runtime::Runtime, scn: &[Value], serial: &mut u64, out: &mut Out) {
    let shards = 2;
    let names = key_names(2, shards);
    let kname = |k: &str| if k == "a" { names[0].clone() } else { names[1].clone() };
    let mut ops: Vec<Done> = Vec::new();
    rt.block_on(async {
        let st: Arc<State> = Arc::new(make_state(shards, 1 + (*serial as usize % 2), *serial as usize % 3 % 2));
        let waker = futures::task::noop_waker();
        let mut cx = Context::from_waker(&waker);
        let mut t: u64 = 0;
        let mut live: BTreeMap<usize, (usize, Fut)> = BTreeMap::new(); // client -> (index in ops, future)
        for ev in scn {
            let c = ev["c"].as_u64().unwrap_or(0) as usize;
            match ev["a"].as_str().unwrap_or("") {
                "inv" => {
                    *serial += 1;
                    let kind: &'static str = if ev["kind"] == "set" { "set" } else { "get" };
                    let path: &'static str = match ev["path"].as_str().unwrap_or("") {
                        "fast" => "fast",
                        "pooled" => "pooled",
                        "batch" => "batch",
                        "script" => if kind == "get" && *serial % 2 == 0 { "gscript" } else { "script" },
                        _ => "generic",
                    };
                    let call = Call { path, subs: vec![Sub { key: kname(ev["k"].as_str().unwrap_or("a")), kind, arg: format!("v{}", *serial), argn: 0, num: false }] };
                    let mut fut: Fut = Box::pin(issue(st.clone(), call.clone()));
                    t += 1;
                    let inv = t;
                    let idx = ops.len();
                    match fut.as_mut().poll(&mut cx) {
                        Poll::Ready(r) => {
                            t += 1;
                            ops.push(Done { id: idx + 1, c, call, inv, ret: t, replies: Some(r) });
                        }
                        Poll::Pending => {
                            ops.push(Done { id: idx + 1, c, call, inv, ret: INF, replies: None });
                            live.insert(c, (idx, fut));
                        }
                    }
                }
                "run" => {
                    for _ in 0..3 {
                        tokio::task::yield_now().await;
                    }
                }
                "recv" => {
                    if let Some((idx, mut fut)) = live.remove(&c) {
                        match fut.as_mut().poll(&mut cx) {
                            Poll::Ready(r) => {
                                t += 1;
                                ops[idx].ret = t;
                                ops[idx].replies = Some(r);
                            }
                            Poll::Pending => {
                                live.insert(c, (idx, fut));
                            }
                        }
                    }
                }
                "cancel" => {
                    // dropped future: the call may or may not take effect
                    live.remove(&c);
                }
                _ => {}
            }
        }
        // drain what is still in flight
        for _ in 0..50 {
            if live.is_empty() {
                break;
            }
            for _ in 0..3 {
                tokio::task::yield_now().await;
            }
            let cs: Vec<usize> = live.keys().cloned().collect();
            for c in cs {
                let (idx, mut fut) = live.remove(&c).unwrap();
                match fut.as_mut().poll(&mut cx) {
                    Poll::Ready(r) => {
                        t += 1;
                        ops[idx].ret = t;
                        ops[idx].replies = Some(r);
                    }
                    Poll::Pending => {
                        live.insert(c, (idx, fut));
                    }
                }
            }
        }
        // a call that never completes is a lost wake-up / lost reply
        for (_, (idx, _)) in live.iter() {
            ops[*idx].replies = Some(vec![RespValue::err("HARNESS never completed")]);
            t += 1;
            ops[*idx].ret = t;
        }
    });
    emit_history(out, "scripted", json!(scn.iter().map(|e| format!("{}{}", e["a"].as_str().unwrap_or(""), e["c"])).collect::<Vec<_>>().join(" ")), &ops);
}

// ---------------------------------------------------------------------------
// the TTL manager's sweep against a client write

/// One key whose TTL has lapsed but which has not been evicted yet; the TTL manager's sweep (`evict_expired_all_shards`)
/// and one client write on a chosen path are in flight together, polled in a chosen order on a single-threaded runtime
/// (so the order in which their messages reach the shard's mailbox is fixed); then reads (a generic one first, which tells
/// the shard the time).  The lapsed value is logically gone, so the history starts from an absent key and the sweep is not an operation:
/// an acknowledged write must be there for the reads that follow.
fn sweep_one(rt: &tokio::runtime::Runtime, shards: usize, path: &'static str, kind: &'static str, sweep_first: bool, extra_polls: usize, out: &mut Out) {
    let names = key_names(shards.max(2), shards);
    let key = names[0].clone();
    let mut ops: Vec<Done> = Vec::new();
    rt.block_on(async {
        let clock = Arc::new(Mutex::new(1000u64));
        let mut perf = PerformanceConfig::default();
        perf.response_pool.capacity = 2;
        perf.response_pool.prewarm = 1;
        let st: Arc<State> = Arc::new(ShardedActorState::with_perf_config_and_time_source(&perf, ShardConfig::with_shards(shards), HarnessTime(clock.clone())));
        // the key (and a neighbour) with a TTL that lapses; every shard is told the new time by a generic command
        let _ = exec(&st, vec![b("SET"), b(&key), b(if kind == "incr" { "40" } else { "old" }), b("PX"), b("50")]).await;
        let _ = exec(&st, vec![b("SET"), b(&names[1]), b("other"), b("PX"), b("50")]).await;
        // (no command between the lapse and the race: any generic command would run the executor's own expiry pass and leave
        // the sweep nothing to do)
        *clock.lock().unwrap() += 200;
        let waker = futures::task::noop_waker();
        let mut cx = Context::from_waker(&waker);
        let call = Call { path, subs: vec![Sub { key: key.clone(), kind, arg: if kind == "incr" { "2".into() } else { "new".into() }, argn: 2, num: kind == "incr" }] };
        let mut t = 0u64;
        let stc = st.clone();
        let mut sweep: Pin<Box<dyn Future<Output = usize>>> = Box::pin(async move { stc.evict_expired_all_shards().await });
        let mut sweep_done = false;
        let mut fut: Fut = Box::pin(issue(st.clone(), call.clone()));
        let mut reply = None;
        t += 1;
        let inv = t;
        if sweep_first {
            for _ in 0..=extra_polls {
                if !sweep_done && sweep.as_mut().poll(&mut cx).is_ready() { sweep_done = true; }
                if extra_polls > 0 { tokio::task::yield_now().await; }
            }
        }
        if let Poll::Ready(r) = fut.as_mut().poll(&mut cx) { reply = Some(r); }
        for _ in 0..200 {
            if reply.is_some() && sweep_done { break; }
            if !sweep_done && sweep.as_mut().poll(&mut cx).is_ready() { sweep_done = true; }
            for _ in 0..2 { tokio::task::yield_now().await; }
            if reply.is_none() { if let Poll::Ready(r) = fut.as_mut().poll(&mut cx) { reply = Some(r); } }
        }
        t += 1;
        ops.push(Done { id: 1, c: 1, call, inv, ret: t, replies: Some(reply.unwrap_or_else(|| vec![RespValue::err("HARNESS never completed")])) });
        // what the clients see afterwards, on two read paths
        for (i, rp) in ["generic", "fast"].iter().enumerate() {
            let call = Call { path: rp, subs: vec![Sub { key: key.clone(), kind: "get", arg: String::new(), argn: 0, num: false }] };
            t += 1;
            let inv = t;
            let r = issue(st.clone(), call.clone()).await;
            t += 1;
            ops.push(Done { id: 2 + i, c: 1, call, inv, ret: t, replies: Some(r) });
        }
    });
    emit_history(out, "sweep", json!({"shards": shards, "path": path, "kind": kind, "sweep_first": sweep_first, "extra_polls": extra_polls}), &ops);
}

// ---------------------------------------------------------------------------
// free running

fn random_call(rng: &mut impl Rng, regs: &[String], ctrs: &[String], serial: &AtomicU64) -> Call {
    // unique values of varied length (0-70 bytes of padding): overwrites go long -> shorter and back
    let fresh = |_: ()| {
        let n = serial.fetch_add(1, Ordering::Relaxed);
        format!("v{}{}", n, "p".repeat([0usize, 0, 25, 40, 0, 70, 33][(n % 7) as usize]))
    };
    if !ctrs.is_empty() && rng.gen_bool(0.3) {
        // counter key: incr (generic or script), numeric set, get, del
        let key = ctrs[rng.gen_range(0..ctrs.len())].clone();
        return match rng.gen_range(0..10) {
            0..=3 => {
                let d = rng.gen_range(1..5);
                Call { path: ["script", "sha", "generic", "generic"][rng.gen_range(0..4)], subs: vec![Sub { key, kind: "incr", arg: d.to_string(), argn: d, num: true }] }
            }
            4..=5 => {
                let n = rng.gen_range(0..100) * 10;
                let path = ["generic", "fast", "pooled", "batch"][rng.gen_range(0..4)];
                Call { path, subs: vec![Sub { key, kind: "set", arg: n.to_string(), argn: n, num: true }] }
            }
            6..=8 => {
                let path = ["generic", "fast", "pooled", "batch", "script"][rng.gen_range(0..5)];
                Call { path, subs: vec![Sub { key, kind: "get", arg: String::new(), argn: 0, num: false }] }
            }
            _ => Call { path: "generic", subs: vec![Sub { key, kind: "del", arg: String::new(), argn: 0, num: false }] },
        };
    }
    let key = regs[rng.gen_range(0..regs.len())].clone();
    match rng.gen_range(0..20) {
        0..=6 => {
            let path = ["generic", "fast", "pooled", "batch", "script", "sha"][rng.gen_range(0..6)];
            Call { path, subs: vec![Sub { key, kind: "set", arg: fresh(()), argn: 0, num: false }] }
        }
        7..=13 => {
            let path = ["generic", "fast", "pooled", "batch", "script", "sha", "gscript"][rng.gen_range(0..7)];
            Call { path, subs: vec![Sub { key, kind: "get", arg: String::new(), argn: 0, num: false }] }
        }
        14..=15 => Call { path: if rng.gen_bool(0.5) { "script" } else { "generic" }, subs: vec![Sub { key, kind: "getset", arg: fresh(()), argn: 0, num: false }] },
        16 => Call { path: "generic", subs: vec![Sub { key, kind: "del", arg: String::new(), argn: 0, num: false }] },
        _ => {
            // batched call over several keys (possibly on several shards)
            let kind: &'static str = if rng.gen_bool(0.5) { "set" } else { "get" };
            let mut ks: Vec<String> = regs.to_vec();
            ks.truncate(rng.gen_range(2..=regs.len().max(2)).min(regs.len()));
            // the same key more than once in one batch (a pipeline of GETs on a hot key)
            if rng.gen_bool(0.4) {
                let dup = ks[rng.gen_range(0..ks.len())].clone();
                let at = rng.gen_range(0..=ks.len());
                ks.insert(at, dup.clone());
                if rng.gen_bool(0.3) {
                    ks.push(dup);
                }
            }
            Call { path: "batch", subs: ks.into_iter().map(|k| Sub { key: k, kind, arg: if kind == "set" { fresh(()) } else { String::new() }, argn: 0, num: false }).collect() }
        }
    }
}

fn hung(ops: &[Done]) -> bool {
    ops.iter().any(|d| matches!(&d.replies, Some(rs) if rs.iter().any(|r| matches!(r, RespValue::Error(e) if e.contains("never completed") || e.contains("HANG")))))
}

/// Batches far deeper than any per-message budget: one client writes N keys in one batched pipeline call,
/// overwrites them with shorter (still long) values in a second one, reads all of them back in a third and a
/// few through the generic path, on 1, 2 and 4 shards.  Sequential, so every key's history has exactly one
/// linearization; the record format is that of the concurrent histories (LinTrace).
fn bigbatch_one(rt: &tokio::runtime::Runtime, shards: usize, n: usize, out: &mut Out) {
    let mut ops: Vec<Done> = Vec::new();
    let keys: Vec<String> = (0..n).map(|i| format!("bk{i}")).collect();
    rt.block_on(async {
        let st: Arc<State> = Arc::new(make_state(shards, 2, 1));
        let mut ticket = 1u64;
        let mut id = 0usize;
        for round in 0..2 {
            let subs: Vec<Sub> = keys.iter().enumerate().map(|(i, k)| Sub { key: k.clone(), kind: "set", arg: format!("r{round}k{i}{}", "q".repeat(if round == 0 { 60 } else { 30 })), argn: 0, num: false }).collect();
            let call = Call { path: "batch", subs };
            let inv = ticket;
            let r = tokio::time::timeout(std::time::Duration::from_secs(20), issue(st.clone(), call.clone())).await
                .unwrap_or_else(|_| vec![RespValue::err("HARNESS never completed"); n]);
            ticket += 2;
            id += 1;
            ops.push(Done { id, c: 1, call, inv, ret: inv + 1, replies: Some(r) });
        }
        let subs: Vec<Sub> = keys.iter().map(|k| Sub { key: k.clone(), kind: "get", arg: String::new(), argn: 0, num: false }).collect();
        let call = Call { path: "batch", subs };
        let inv = ticket;
        let r = tokio::time::timeout(std::time::Duration::from_secs(20), issue(st.clone(), call.clone())).await
            .unwrap_or_else(|_| vec![RespValue::err("HARNESS never completed"); n]);
        ticket += 2;
        id += 1;
        ops.push(Done { id, c: 1, call, inv, ret: inv + 1, replies: Some(r) });
        for i in (0..n).rev().step_by((n / 12).max(1)) {
            let call = Call { path: "generic", subs: vec![Sub { key: keys[i].clone(), kind: "get", arg: String::new(), argn: 0, num: false }] };
            let inv = ticket;
            let r = issue(st.clone(), call.clone()).await;
            ticket += 2;
            id += 1;
            ops.push(Done { id, c: 1, call, inv, ret: inv + 1, replies: Some(r) });
        }
    });
    emit_history(out, "bigbatch", json!({"shards": shards, "n": n}), &ops);
}

/// A burst: `n` calls (pipelined batches of three, single SETs on every path, GET batches of earlier keys) are all created and
/// polled once before the shard tasks get a turn on a single-threaded runtime, so every one of them sits in the mailboxes at the
/// same time; then all complete; then every key is read back.  Each key is written by exactly one call: an acknowledged write
/// must be there, a refused one (error reply) must not be.
fn burst_one(rt: &tokio::runtime::Runtime, shards: usize, n: usize, out: &mut Out) {
    let mut ops: Vec<Done> = Vec::new();
    rt.block_on(async {
        let st: Arc<State> = Arc::new(make_state(shards, 64, 8));
        let mut calls: Vec<Call> = Vec::new();
        for i in 0..n {
            let set = |j: usize| Sub { key: format!("u{i}:{j}"), kind: "set", arg: format!("w{i}:{j}"), argn: 0, num: false };
            calls.push(match i % 5 {
                0 | 1 => Call { path: "batch", subs: vec![set(0), set(1), set(2)] },
                2 => Call { path: ["generic", "fast", "pooled"][i / 5 % 3], subs: vec![set(0)] },
                3 => Call { path: "batch", subs: vec![set(0), set(1)] },
                _ => Call { path: "batch", subs: (0..3).map(|j| Sub { key: format!("u{}:{j}", i - 4), kind: "get", arg: String::new(), argn: 0, num: false }).collect() },
            });
        }
        let waker = futures::task::noop_waker();
        let mut cx = Context::from_waker(&waker);
        let mut live: Vec<(usize, Fut)> = Vec::new();
        let mut t = 0u64;
        for (i, call) in calls.iter().enumerate() {
            let mut fut: Fut = Box::pin(issue(st.clone(), call.clone()));
            t += 1;
            ops.push(Done { id: i + 1, c: i % 7 + 1, call: call.clone(), inv: t, ret: INF, replies: None });
            match fut.as_mut().poll(&mut cx) {
                Poll::Ready(r) => { t += 1; ops[i].ret = t; ops[i].replies = Some(r); }
                Poll::Pending => live.push((i, fut)),
            }
        }
        for _ in 0..2000 {
            if live.is_empty() { break; }
            for _ in 0..4 { tokio::task::yield_now().await; }
            let mut rest = Vec::new();
            for (i, mut fut) in live.drain(..) {
                match fut.as_mut().poll(&mut cx) {
                    Poll::Ready(r) => { t += 1; ops[i].ret = t; ops[i].replies = Some(r); }
                    Poll::Pending => rest.push((i, fut)),
                }
            }
            live = rest;
        }
        for (i, _) in live.iter() {
            t += 1;
            ops[*i].ret = t;
            ops[*i].replies = Some(vec![RespValue::err("HARNESS never completed"); ops[*i].call.subs.len()]);
        }
        // read everything back
        let written: Vec<String> = calls.iter().flat_map(|c| c.subs.iter().filter(|s| s.kind == "set").map(|s| s.key.clone())).collect();
        for (j, k) in written.iter().enumerate() {
            let call = Call { path: if j % 2 == 0 { "generic" } else { "fast" }, subs: vec![Sub { key: k.clone(), kind: "get", arg: String::new(), argn: 0, num: false }] };
            t += 1;
            let inv = t;
            let r = issue(st.clone(), call.clone()).await;
            t += 1;
            let id = ops.len() + 1;
            ops.push(Done { id, c: 1, call, inv, ret: t, replies: Some(r) });
        }
    });
    emit_history(out, "burst", json!({"shards": shards, "n": n}), &ops);
}

fn free_one(rt: &tokio::runtime::Runtime, seed: u64, clients: usize, nops: usize, nkeys: usize, out: &mut Out) -> bool {
    let shards = 4;
    let names = key_names(nkeys + 1, shards);
    let regs: Vec<String> = names[..nkeys].to_vec();
    let ctrs: Vec<String> = names[nkeys..].to_vec();
    let ticket = Arc::new(AtomicU64::new(1));
    let serial = Arc::new(AtomicU64::new(1));
    let done: Arc<Mutex<Vec<Done>>> = Arc::new(Mutex::new(Vec::new()));
    rt.block_on(async {
        let st: Arc<State> = Arc::new(make_state(shards, [1, 2, 256][(seed % 3) as usize], [0, 1, 64][(seed % 3) as usize]));
        let barrier = Arc::new(tokio::sync::Barrier::new(clients));
        let mut hs = Vec::new();
        for c in 0..clients {
            let (st, ticket, serial, done, barrier, regs, ctrs) = (st.clone(), ticket.clone(), serial.clone(), done.clone(), barrier.clone(), regs.clone(), ctrs.clone());
            hs.push(tokio::spawn(async move {
                let mut rng = rng(seed.wrapping_mul(1000).wrapping_add(c as u64));
                barrier.wait().await;
                for _ in 0..nops {
                    let call = random_call(&mut rng, &regs, &ctrs, &serial);
                    let cancel = rng.gen_range(0..12) == 0;
                    let inv = ticket.fetch_add(1, Ordering::SeqCst);
                    let fut = issue(st.clone(), call.clone());
                    let replies = if cancel {
                        // abandon the call after its first poll unless it is already complete
                        tokio::select! {
                            biased;
                            r = fut => Some(r),
                            _ = tokio::task::yield_now() => None,
                        }
                    } else {
                        // a call that never returns (lost reply / lost wake-up) is recorded as such
                        match tokio::time::timeout(std::time::Duration::from_secs(30), fut).await {
                            Ok(r) => Some(r),
                            Err(_) => Some(vec![RespValue::err("HARNESS never completed"); call.subs.len()]),
                        }
                    };
                    let ret = if replies.is_some() { ticket.fetch_add(1, Ordering::SeqCst) } else { INF };
                    done.lock().unwrap().push(Done { id: 0, c: c + 1, call, inv, ret, replies });
                    if rng.gen_range(0..4) == 0 {
                        tokio::task::yield_now().await;
                    }
                }
            }));
        }
        for h in hs {
            let _ = h.await;
        }
    });
    let mut ops = std::mem::take(&mut *done.lock().unwrap());
    ops.sort_by_key(|d| d.inv);
    for (i, d) in ops.iter_mut().enumerate() {
        d.id = i + 1;
    }
    emit_history(out, "free", json!({"seed": seed, "clients": clients, "ops": nops}), &ops);
    hung(&ops)
}

// ---------------------------------------------------------------------------
// connection level: real connection handlers on duplex streams sharing one state

fn argv_of(s: &Sub) -> Argv {
    match s.kind {
        "set" => vec![b("SET"), b(&s.key), b(&s.arg)],
        "get" => vec![b("GET"), b(&s.key)],
        "del" => vec![b("DEL"), b(&s.key)],
        "getset" => vec![b("GETSET"), b(&s.key), b(&s.arg)],
        _ => vec![b("INCRBY"), b(&s.key), b(&s.arg)],
    }
}

fn conn_one(rt: &tokio::runtime::Runtime, seed: u64, clients: usize, nops: usize, nkeys: usize, out: &mut Out) -> bool {
    let shards = 4;
    let names = key_names(nkeys + 1, shards);
    let regs: Vec<String> = names[..nkeys].to_vec();
    let ctrs: Vec<String> = names[nkeys..].to_vec();
    let ticket = Arc::new(AtomicU64::new(1));
    let serial = Arc::new(AtomicU64::new(1));
    let done: Arc<Mutex<Vec<Done>>> = Arc::new(Mutex::new(Vec::new()));
    rt.block_on(async {
        let st: redis_sim::production::ShardedActorState = ShardedActorState::with_config(ShardConfig::with_shards(shards));
        let barrier = Arc::new(tokio::sync::Barrier::new(clients));
        let mut hs = Vec::new();
        for c in 0..clients {
            let (ticket, serial, done, barrier, regs, ctrs) = (ticket.clone(), serial.clone(), done.clone(), barrier.clone(), regs.clone(), ctrs.clone());
            let mut cl = crate::txn::Client::connect(&st);
            hs.push(tokio::spawn(async move {
                let mut rng = rng(seed.wrapping_mul(1000).wrapping_add(c as u64));
                barrier.wait().await;
                let mut left = nops;
                while left > 0 {
                    // a pipeline of 1..4 single-key commands written at once
                    let depth = rng.gen_range(1..=4usize).min(left);
                    left -= depth;
                    let mut calls = Vec::new();
                    while calls.len() < depth {
                        let call = random_call(&mut rng, &regs, &ctrs, &serial);
                        if call.subs.len() == 1 {
                            calls.push(Call { path: "conn", subs: call.subs });
                        }
                    }
                    let argvs: Vec<Argv> = calls.iter().map(|c| argv_of(&c.subs[0])).collect();
                    let inv = ticket.fetch_add(1, Ordering::SeqCst);
                    if !cl.send_all(&argvs).await {
                        break;
                    }
                    for call in calls {
                        let r = cl.read_reply().await;
                        let ret = ticket.fetch_add(1, Ordering::SeqCst);
                        done.lock().unwrap().push(Done { id: 0, c: c + 1, call, inv, ret, replies: Some(vec![r]) });
                    }
                }
            }));
        }
        for h in hs {
            let _ = h.await;
        }
    });
    let mut ops = std::mem::take(&mut *done.lock().unwrap());
    ops.sort_by_key(|d| (d.inv, d.ret));
    for (i, d) in ops.iter_mut().enumerate() {
        d.id = i + 1;
    }
    emit_history(out, "connection", json!({"seed": seed, "clients": clients, "ops": nops}), &ops);
    hung(&ops)
}

pub fn main(args: &[String]) -> i32 {
    let a = Args::parse(args);
    quiet_panics();
    let mut out = Out::create(&a.str("out", "lin_hist.ndjson"));
    match a.pos.first().map(|s| s.as_str()) {
        Some("scripted") => {
            let rt = tokio::runtime::Builder::new_current_thread().enable_all().build().unwrap();
            let mut serial = 0u64;
            for scn in read_ndjson(&a.pos[1]) {
                scripted_one(&rt, scn.as_array().unwrap(), &mut serial, &mut out);
            }
        }
        Some("free") => {
            let rt = tokio::runtime::Builder::new_multi_thread().worker_threads(a.usize("threads", 4)).enable_all().build().unwrap();
            let seed = a.u64("seed", 1);
            let mut hangs = 0;
            for i in 0..a.usize("n", 100) {
                if free_one(&rt, seed * 100_000 + i as u64, a.usize("clients", 4), a.usize("ops", 5), a.usize("keys", 2), &mut out) {
                    hangs += 1;
                    if hangs >= 3 {
                        break; // every such history is a violation already; waiting out more time-outs adds nothing
                    }
                }
            }
        }
        Some("sweep") => {
            let rt = tokio::runtime::Builder::new_current_thread().enable_all().build().unwrap();
            for shards in [1usize, 2, 4] {
                for (path, kind) in [("generic", "set"), ("fast", "set"), ("pooled", "set"), ("batch", "set"), ("script", "set"), ("sha", "set"),
                                     ("generic", "getset"), ("generic", "incr"), ("script", "incr"), ("script", "getset")] {
                    for (sweep_first, extra) in [(true, 0usize), (true, 1), (true, 2), (false, 0)] {
                        sweep_one(&rt, shards, path, kind, sweep_first, extra, &mut out);
                    }
                }
            }
        }
        Some("burst") => {
            let rt = tokio::runtime::Builder::new_current_thread().enable_all().build().unwrap();
            let thorough = a.str("tier", "quick") == "thorough";
            for (shards, n) in if thorough { vec![(1usize, 1500usize), (1, 5000), (2, 3000), (4, 9000), (1, 20000)] } else { vec![(1, 1500), (2, 3000), (1, 5000)] } {
                burst_one(&rt, shards, n, &mut out);
            }
        }
        Some("bigbatch") => {
            let rt = tokio::runtime::Builder::new_multi_thread().worker_threads(2).enable_all().build().unwrap();
            let thorough = a.str("tier", "quick") == "thorough";
            for shards in [1usize, 2, 4] {
                let mut sizes = vec![63usize, 64, 65, 100, 128, 129, 300];
                if thorough {
                    sizes.extend([255, 256, 257, 1000, 1025, 4097]);
                }
                for n in sizes {
                    bigbatch_one(&rt, shards, n, &mut out);
                }
            }
        }
        Some("conn") => {
            let rt = tokio::runtime::Builder::new_multi_thread().worker_threads(a.usize("threads", 4)).enable_all().build().unwrap();
            let seed = a.u64("seed", 1);
            let mut hangs = 0;
            for i in 0..a.usize("n", 100) {
                if conn_one(&rt, seed * 100_000 + i as u64, a.usize("clients", 3), a.usize("ops", 8), a.usize("keys", 2), &mut out) {
                    hangs += 1;
                    if hangs >= 3 {
                        break;
                    }
                }
            }
        }
        _ => {
            eprintln!("usage: vh lin scripted <file> | free | conn");
            return 2;
        }
    }
    println!("{{\"histories\": {}}}", out.finish());
    0
}
