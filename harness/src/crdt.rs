//! Crdt.tla binding: replays operation scenarios (TLC-exported or random) on real
//! `ShardReplicaState`s (one key, three replicas) and logs the observable projection of
//! every replica after each step plus the results of the real `ReplicatedValue::merge`
//! on all pairs / triples at the end of a run.
use crate::util::*;
use rand::Rng;
use redis_sim::redis::SDS;
use redis_sim::replication::lattice::{LamportClock, ReplicaId};
use redis_sim::replication::state::{
    CrdtValue, ReplicatedValue, ReplicationDelta, ShardReplicaState,
};
use redis_sim::replication::ConsistencyLevel;
use serde_json::{json, Value};
use std::collections::HashSet;

const KEY: &str = "k";

/// Replica ids of the three nodes of a run.  The specification only compares ids, so the trace carries
/// their ranks 1..3; the code under test sees the real ones: small, congruent modulo 2^16 (ids of the
/// form region<<16|node), beyond 32 bits, and at the top of the u64 range.
pub const IDSETS: [[u64; 3]; 4] = [[1, 2, 3], [1, 65537, 131073], [7, (1 << 32) + 7, (1 << 33) + 7], [(1 << 63) + 5, (1 << 63) + 65536 + 5, u64::MAX - 1]];
thread_local! {
    static RIDS: std::cell::RefCell<Vec<u64>> = std::cell::RefCell::new(Vec::new());
}
pub fn set_rids(ids: &[u64]) {
    RIDS.with(|r| *r.borrow_mut() = ids.to_vec());
}
/// the rank of a replica id among the ids of the current run (ids outside it are left alone)
pub fn rid_out(id: u64) -> u64 {
    RIDS.with(|r| r.borrow().iter().position(|x| *x == id).map(|p| p as u64 + 1).unwrap_or(id))
}

fn stamp(c: &LamportClock) -> Value {
    json!([c.time, rid_out(c.replica_id.0)])
}

fn sds_str(s: &SDS) -> String {
    let b = s.as_bytes();
    if b.len() > 4096 {
        // a long value is observed through its length and a digest (traces stay small; equal values, equal text)
        let mut h: u64 = 0xcbf29ce484222325;
        for x in b {
            h = (h ^ *x as u64).wrapping_mul(0x100000001b3);
        }
        return format!("<{} bytes fnv {:016x}>", b.len(), h);
    }
    String::from_utf8_lossy(b).to_string()
}

fn obs_lww(l: &redis_sim::replication::lattice::LwwRegister<SDS>) -> Value {
    let live = l.get();
    json!([live.map(sds_str).unwrap_or_default(), live.is_some(), l.tombstone, stamp(&l.timestamp)])
}

/// [[replica, count]...] sorted, zero entries dropped, from a serialized {replica: count} map
fn counts(v: &Value) -> Value {
    let mut out: Vec<(u64, u64)> = v
        .as_object()
        .map(|m| {
            m.iter()
                .map(|(k, n)| (rid_out(k.parse::<u64>().unwrap()), n.as_u64().unwrap()))
                .filter(|(_, n)| *n != 0)
                .collect()
        })
        .unwrap_or_default();
    out.sort();
    json!(out.iter().map(|(r, n)| json!([r, n])).collect::<Vec<_>>())
}

pub fn obs(rv: &ReplicatedValue) -> Value {
    let c = match &rv.crdt {
        CrdtValue::Lww(l) => json!({"k": "lww", "l": obs_lww(l)}),
        CrdtValue::Hash(h) => {
            let mut fs: Vec<(&String, Value)> = h.iter().map(|(f, l)| (f, obs_lww(l))).collect();
            fs.sort_by(|a, b| a.0.cmp(b.0));
            json!({"k": "hash", "h": fs.iter().map(|(f, o)| json!([f, o])).collect::<Vec<_>>()})
        }
        CrdtValue::GCounter(g) => {
            let s = serde_json::to_value(g).unwrap();
            json!({"k": "gcounter", "c": counts(&s["counts"])})
        }
        CrdtValue::PNCounter(p) => {
            let s = serde_json::to_value(p).unwrap();
            json!({"k": "pncounter", "p": counts(&s["positive"]["counts"]), "n": counts(&s["negative"]["counts"])})
        }
        CrdtValue::GSet(g) => {
            let mut e: Vec<&String> = g.elements().collect();
            e.sort();
            json!({"k": "gset", "s": e})
        }
        CrdtValue::ORSet(o) => {
            let mut e: Vec<&String> = o.elements().collect();
            e.sort();
            let es: Vec<Value> = e
                .iter()
                .map(|x| {
                    let mut tags: Vec<(u64, u64)> = o
                        .get_tags(x)
                        .map(|t| t.iter().map(|u| (rid_out(u.replica_id.0), u.sequence)).collect())
                        .unwrap_or_default();
                    tags.sort();
                    json!([x, tags.iter().map(|(r, s)| json!([r, s])).collect::<Vec<_>>()])
                })
                .collect();
            json!({"k": "orset", "e": es})
        }
    };
    let vc = match &rv.vector_clock {
        Some(v) => counts(&serde_json::to_value(v).unwrap()["clocks"]),
        None => json!([]),
    };
    json!({
        "c": c,
        "vc": vc,
        "hasvc": rv.vector_clock.is_some(),
        "exp": rv.expiry_ms.map(|e| e as i64).unwrap_or(-1),
        "ts": stamp(&rv.timestamp),
        "rf": rv.replication_factor.unwrap_or(0),
    })
}

struct Node {
    st: ShardReplicaState,
}

impl Node {
    fn new(r: u64) -> Node {
        Node::with(r, false)
    }
    fn with(r: u64, causal: bool) -> Node {
        Node { st: ShardReplicaState::new(ReplicaId::new(r), if causal { ConsistencyLevel::Causal } else { ConsistencyLevel::Eventual }) }
    }
    fn val(&self) -> Option<&ReplicatedValue> {
        self.st.get_replicated(KEY)
    }
    fn obs(&self) -> Value {
        match self.val() {
            Some(v) => obs(v),
            None => json!({"absent": true}),
        }
    }
    /// crdt_mut()-style operation on a non-register kind: the application ticks its clock and stamps.
    fn with_kind(&mut self, fresh: CrdtValue, is_kind: fn(&CrdtValue) -> bool, f: impl FnOnce(&mut CrdtValue, ReplicaId)) {
        let rid = self.st.replica_id;
        let ts = self.st.lamport_clock.tick();
        let mut rv = self
            .st
            .replicated_keys
            .remove(KEY)
            .unwrap_or_else(|| ReplicatedValue::new(rid));
        if !is_kind(&rv.crdt) {
            rv.crdt = fresh;
        }
        f(rv.crdt_mut(), rid);
        rv.timestamp = ts;
        self.st.replicated_keys.insert(KEY.to_string(), rv);
    }
}

fn apply(nodes: &mut [Node], ev: &Value) {
    let r = ev["r"].as_u64().unwrap() as usize - 1;
    let s = |k: &str| ev[k].as_str().unwrap().to_string();
    match ev["a"].as_str().unwrap() {
        "set" => {
            let e = ev["e"].as_i64().unwrap();
            nodes[r].st.record_write(KEY.into(), SDS::from_str(&s("v")), if e < 0 { None } else { Some(e as u64) });
        }
        "del" => {
            nodes[r].st.record_delete(KEY.into());
        }
        "hset" => {
            nodes[r].st.record_hash_write(KEY.into(), vec![(s("f"), SDS::from_str(&s("v")))]);
        }
        "hdel" => {
            nodes[r].st.record_hash_delete(KEY.into(), vec![s("f")]);
        }
        // a write to another key of the same shard: the shard's one clock moves
        "tick" => {
            nodes[r].st.record_write("another-key".into(), SDS::from_str("x"), None);
        }
        "gcinc" => {
            let n = ev["n"].as_u64().unwrap();
            nodes[r].with_kind(CrdtValue::new_gcounter(), |c| matches!(c, CrdtValue::GCounter(_)), |c, rid| {
                c.as_gcounter_mut().unwrap().increment_by(rid, n)
            });
        }
        "pninc" => {
            let n = ev["n"].as_u64().unwrap();
            nodes[r].with_kind(CrdtValue::new_pncounter(), |c| matches!(c, CrdtValue::PNCounter(_)), |c, rid| {
                c.as_pncounter_mut().unwrap().increment_by(rid, n)
            });
        }
        "pndec" => {
            let n = ev["n"].as_u64().unwrap();
            nodes[r].with_kind(CrdtValue::new_pncounter(), |c| matches!(c, CrdtValue::PNCounter(_)), |c, rid| {
                c.as_pncounter_mut().unwrap().decrement_by(rid, n)
            });
        }
        "gsadd" => {
            let x = s("x");
            nodes[r].with_kind(CrdtValue::new_gset(), |c| matches!(c, CrdtValue::GSet(_)), |c, _| {
                c.as_gset_mut().unwrap().add(x);
            });
        }
        "oradd" => {
            let x = s("x");
            nodes[r].with_kind(CrdtValue::new_orset(), |c| matches!(c, CrdtValue::ORSet(_)), |c, rid| {
                c.as_orset_mut().unwrap().add(x, rid);
            });
        }
        "orrem" => {
            let x = s("x");
            nodes[r].with_kind(CrdtValue::new_orset(), |c| matches!(c, CrdtValue::ORSet(_)), |c, _| {
                c.as_orset_mut().unwrap().remove(&x);
            });
        }
        "merge" => {
            let src = ev["s"].as_u64().unwrap() as usize - 1;
            let v = nodes[src].val().unwrap().clone();
            let sid = nodes[src].st.replica_id;
            nodes[r].st.apply_remote_delta(ReplicationDelta::new(KEY.into(), v, sid));
        }
        a => panic!("unknown op {a}"),
    }
}

fn merged_obs(f: impl FnOnce() -> ReplicatedValue) -> Value {
    match catch(f) {
        Ok(v) => obs(&v),
        Err(p) => json!({"panic": p}),
    }
}

fn laws(nodes: &[Node]) -> Value {
    let present: Vec<usize> = (0..nodes.len()).filter(|i| nodes[*i].val().is_some()).collect();
    let v = |i: usize| nodes[i].val().unwrap();
    let mut pairs = Vec::new();
    let mut tri = Vec::new();
    for &a in &present {
        for &b in &present {
            pairs.push(json!([a + 1, b + 1, merged_obs(|| v(a).merge(v(b)))]));
            for &c in &present {
                if a != b && b != c && a != c {
                    tri.push(json!([
                        a + 1,
                        b + 1,
                        c + 1,
                        merged_obs(|| v(a).merge(v(b)).merge(v(c))),
                        merged_obs(|| v(a).merge(&v(b).merge(v(c))))
                    ]));
                }
            }
        }
    }
    json!({"pairs": pairs, "tri": tri})
}

/// The values the three replicas hold after a scenario (used by the C14 round-trip check).
/// Per replica, the successive distinct states of the key along the scenario (what a node would stream one after the other).
pub fn history_values(ops: &[Value]) -> Vec<(u64, Vec<ReplicatedValue>)> {
    let mut nodes: Vec<Node> = (1..=3).map(Node::new).collect();
    let mut hist: Vec<Vec<ReplicatedValue>> = vec![Vec::new(); 3];
    for ev in ops {
        let _ = catch(|| apply(&mut nodes, ev));
        for (i, n) in nodes.iter().enumerate() {
            if let Some(v) = n.val() {
                if hist[i].last().map(|l| serde_json::to_string(l).ok() != serde_json::to_string(v).ok()).unwrap_or(true) {
                    hist[i].push(v.clone());
                }
            }
        }
    }
    nodes.iter().zip(hist).map(|(n, h)| (n.st.replica_id.0, h)).collect()
}

pub fn final_values(ops: &[Value]) -> Vec<(u64, ReplicatedValue)> {
    let mut nodes: Vec<Node> = (1..=3).map(Node::new).collect();
    for ev in ops {
        let _ = catch(|| apply(&mut nodes, ev));
    }
    nodes.iter().filter_map(|n| n.val().map(|v| (n.st.replica_id.0, v.clone()))).collect()
}

fn run_scenario(run: usize, ops: &[Value], out: &mut Out) {
    // the replica ids and the consistency level rotate over the runs
    let ids = IDSETS[run % IDSETS.len()];
    let causal = run % 3 == 1;
    set_rids(&ids);
    let mut nodes: Vec<Node> = ids.iter().map(|r| Node::with(*r, causal)).collect();
    out.emit(&json!({"a": "reset", "run": run, "causal": causal, "idset": run % IDSETS.len()}));
    for (i, ev) in ops.iter().enumerate() {
        let mut rec = ev.clone();
        let res = catch(|| apply(&mut nodes, ev));
        let m = rec.as_object_mut().unwrap();
        m.insert("run".into(), json!(run));
        if let Err(p) = res {
            m.insert("panic".into(), json!(p));
        }
        m.insert("obs".into(), json!(nodes.iter().map(|n| n.obs()).collect::<Vec<_>>()));
        if i + 1 == ops.len() {
            m.insert("laws".into(), laws(&nodes));
        }
        out.emit(&rec);
    }
    set_rids(&[]);
}

/// Random operation sequences that respect the guards of the spec's actions.
pub fn random_ops(rng: &mut impl Rng, len: usize, kinds: &[&str]) -> Vec<Value> {
    // mirror of just enough state to respect guards: kind + hash fields / orset elems per replica
    #[derive(Clone, Default)]
    struct M {
        kind: Option<String>,
        fields: HashSet<String>,
        elems: HashSet<String>,
    }
    let mut m: Vec<M> = vec![M::default(); 3];
    let vals = ["a", "b", "", "\u{e9}x"];
    let fields = ["f", "g", "h"];
    let elems = ["e", "d"];
    let mut ops = Vec::new();
    while ops.len() < len {
        let r = rng.gen_range(0..3);
        let k = kinds[rng.gen_range(0..kinds.len())];
        let choice = rng.gen_range(0..10);
        if choice < 3 {
            // merge
            let s = rng.gen_range(0..3);
            if s == r || m[s].kind.is_none() {
                continue;
            }
            let (src, dst) = (m[s].clone(), &mut m[r]);
            match &dst.kind {
                None => *dst = src,
                Some(dk) if Some(dk) == src.kind.as_ref() => {
                    dst.fields.extend(src.fields);
                    dst.elems.extend(src.elems);
                }
                // mismatch: winner decided by stamps; the mirror cannot know. Stop guard-sensitive ops.
                Some(_) => {
                    dst.kind = Some("?".into());
                    dst.fields.clear();
                    dst.elems.clear();
                }
            }
            ops.push(json!({"a": "merge", "r": r + 1, "s": s + 1}));
            continue;
        }
        let set_kind = |mm: &mut M, k: &str| {
            if mm.kind.as_deref() != Some(k) {
                mm.kind = Some(k.into());
                mm.fields.clear();
                mm.elems.clear();
            }
        };
        match k {
            "lww" => {
                if choice < 8 {
                    let e = [-1, 5, 9, 1000][rng.gen_range(0..4)];
                    set_kind(&mut m[r], "lww");
                    ops.push(json!({"a": "set", "r": r + 1, "v": vals[rng.gen_range(0..vals.len())], "e": e}));
                } else if m[r].kind.as_deref() == Some("lww") {
                    ops.push(json!({"a": "del", "r": r + 1}));
                }
            }
            "hash" => {
                let f = fields[rng.gen_range(0..fields.len())];
                if choice < 8 {
                    set_kind(&mut m[r], "hash");
                    m[r].fields.insert(f.into());
                    ops.push(json!({"a": "hset", "r": r + 1, "f": f, "v": vals[rng.gen_range(0..vals.len())]}));
                } else if m[r].kind.as_deref() == Some("hash") && (m[r].fields.contains(f) || choice == 9) {
                    // (now and then of a field the hash does not hold: the value is stamped all the same)
                    ops.push(json!({"a": "hdel", "r": r + 1, "f": f}));
                } else if choice == 8 {
                    ops.push(json!({"a": "tick", "r": r + 1}));
                }
            }
            "gcounter" => {
                set_kind(&mut m[r], k);
                ops.push(json!({"a": "gcinc", "r": r + 1, "n": rng.gen_range(1..4)}));
            }
            "pncounter" => {
                set_kind(&mut m[r], k);
                let a = if rng.gen_bool(0.5) { "pninc" } else { "pndec" };
                ops.push(json!({"a": a, "r": r + 1, "n": rng.gen_range(1..4)}));
            }
            "gset" => {
                set_kind(&mut m[r], k);
                ops.push(json!({"a": "gsadd", "r": r + 1, "x": elems[rng.gen_range(0..2)]}));
            }
            "orset" => {
                let x = elems[rng.gen_range(0..2)];
                if choice < 8 {
                    set_kind(&mut m[r], k);
                    m[r].elems.insert(x.into());
                    ops.push(json!({"a": "oradd", "r": r + 1, "x": x}));
                } else if m[r].kind.as_deref() == Some("orset") && m[r].elems.contains(x) {
                    m[r].elems.remove(x);
                    ops.push(json!({"a": "orrem", "r": r + 1, "x": x}));
                }
            }
            _ => unreachable!(),
        }
    }
    ops
}

pub fn main(args: &[String]) -> i32 {
    let a = Args::parse(args);
    quiet_panics();
    let mut out = Out::create(&a.str("out", "crdt_trace.ndjson"));
    match a.pos.first().map(|s| s.as_str()) {
        // vh crdt replay <scenarios.ndjson> --out trace.ndjson
        Some("replay") => {
            let scn = read_ndjson(&a.pos[1]);
            for (i, s) in scn.iter().enumerate() {
                run_scenario(i + 1, s.as_array().unwrap(), &mut out);
            }
        }
        // vh crdt record --seed S --n N --len L --out trace.ndjson
        Some("record") => {
            let mut rng = rng(a.u64("seed", 1));
            let n = a.usize("n", 100);
            let len = a.usize("len", 8);
            let all = ["lww", "hash", "gcounter", "pncounter", "gset", "orset"];
            for i in 0..n {
                // half of the runs mix the two kinds the server itself produces; the rest any kinds
                let kinds: Vec<&str> = match i % 4 {
                    0 => vec!["lww", "hash"],
                    1 => vec!["lww"],
                    2 => vec![all[rng.gen_range(0..6)]],
                    _ => all.to_vec(),
                };
                let ops = random_ops(&mut rng, len, &kinds);
                run_scenario(i + 1, &ops, &mut out);
            }
        }
        _ => {
            eprintln!("usage: vh crdt replay <scn> | record --seed S --n N");
            return 2;
        }
    }
    let n = out.finish();
    println!("{{\"events\": {n}}}");
    0
}
