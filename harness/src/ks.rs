//! RedisKeyspace.tla binding (C01, C17; the generator is reused by C03/C04/C05/C16).
//!   vh ks record --seed S --n RUNS --len L [--bias fail] --out trace
//! Every step: set_time(now); execute; log the abstract command, the reply and the full visible
//! keyspace (key, type, value, deadline) at that instant.
use crate::resp::rv_json;
use crate::util::*;
use rand::Rng;
use rand_chacha::ChaCha8Rng;
use redis_sim::redis::{Command, CommandExecutor, RespValue, Value as RValue};
use redis_sim::simulator::VirtualTime;
use serde_json::{json, Value};

pub type Argv = Vec<Vec<u8>>;

pub fn parse_argv(argv: &Argv) -> Result<Command, String> {
    let v = RespValue::Array(Some(argv.iter().map(|a| RespValue::BulkString(Some(a.clone()))).collect()));
    Command::from_resp(&v)
}

fn b(s: &str) -> Vec<u8> {
    s.as_bytes().to_vec()
}

/// decimal digits of |n| and sign, as Bytes.tla's integer record
fn int_json(n: i128) -> Value {
    let neg = n < 0;
    let digits: Vec<u8> = n.unsigned_abs().to_string().bytes().map(|c| c - b'0').collect();
    json!({"neg": neg && n != 0, "d": digits})
}

/// decimal rendering of q/4
pub fn quarter_str(q: i64) -> String {
    let a = q.abs();
    let frac = ["", ".25", ".5", ".75"][(a % 4) as usize];
    format!("{}{}{}", if q < 0 { "-" } else { "" }, a / 4, frac)
}

fn sat(n: i64) -> i64 {
    n.clamp(-1_000_000, 1_000_000)
}

pub const SCRIPTS: [&str; 5] = ["return redis.call('GET', KEYS[1])", "return redis.call('INCR', KEYS[1])", "return redis.call('RPUSH', KEYS[1], ARGV[1])",
                                "return redis.call('SET', KEYS[1], ARGV[1])", "return 1"];
/// digest of script `sid` (1-based) as the code computes it, asked once from a scratch executor
pub fn script_sha(sid: usize) -> String {
    static SHAS: std::sync::OnceLock<Vec<String>> = std::sync::OnceLock::new();
    SHAS.get_or_init(|| {
        let mut ex = CommandExecutor::new();
        SCRIPTS.iter().map(|t| match ex.execute(&parse_argv(&vec![b("SCRIPT"), b("LOAD"), b(t)]).unwrap()) {
            RespValue::BulkString(Some(d)) => String::from_utf8_lossy(&d).to_string(),
            _ => "0".repeat(40),
        }).collect()
    })[sid - 1].clone()
}

pub struct ScriptOp;
impl ScriptOp {
    pub fn is(c: &Value) -> bool {
        matches!(c["op"].as_str().unwrap_or(""), "SCRIPT_LOAD" | "SCRIPT_FLUSH" | "SCRIPT_EXISTS" | "EVAL" | "EVALSHA")
    }
}

pub struct Gen {
    pub rng: ChaCha8Rng,
    pub keys: Vec<String>,
    pub fail_bias: bool,
}

impl Gen {
    pub fn new(seed: u64, fail_bias: bool) -> Gen {
        Gen { rng: rng(seed), keys: vec!["k1".into(), "k2".into(), "k3".into(), "lst".into(), "st".into(), "hs".into(), "zs".into(), "cnt".into()], fail_bias }
    }
    fn key(&mut self) -> String {
        let i = self.rng.gen_range(0..self.keys.len());
        self.keys[i].clone()
    }
    fn val(&mut self) -> Vec<u8> {
        let pool: [&[u8]; 16] = [b"", b"a", b"abc", b"hello world", b"10", b"-1", b"0", b"9223372036854775807", b"-9223372036854775808",
                                 b"+5", b"007", b" 5", b"3.5", &[0, 255, 13, 10], b"12345678901234567890", b"x"];
        pool[self.rng.gen_range(0..pool.len())].to_vec()
    }
    fn small(&mut self) -> Vec<u8> {
        let pool: [&[u8]; 6] = [b"a", b"b", b"c", b"", b"10", &[0xc3, 0xa9]];
        pool[self.rng.gen_range(0..pool.len())].to_vec()
    }
    fn field(&mut self) -> Vec<u8> {
        let pool: [&[u8]; 5] = [b"f1", b"f2", b"f3", b"n", &[0xc3, 0xa9]];
        pool[self.rng.gen_range(0..pool.len())].to_vec()
    }
    fn idx(&mut self) -> i64 {
        [0, 1, -1, 2, -2, 3, -3, 5, -5, 100, -100, i64::MAX, i64::MIN, 1 << 40][self.rng.gen_range(0..14)]
    }
    fn delta(&mut self) -> i64 {
        [1, -1, 0, 5, -7, 100, i64::MAX, i64::MIN, i64::MAX - 1, 1 << 62][self.rng.gen_range(0..10)]
    }
    fn quarter(&mut self) -> i64 {
        // score * 4
        [0, 4, -4, 1, 2, 3, 10, -6, 400, 17, 5, 8][self.rng.gen_range(0..12)]
    }
    fn score_str(q: i64) -> String {
        let neg = q < 0;
        let a = q.abs();
        let frac = ["", ".25", ".5", ".75"][(a % 4) as usize];
        format!("{}{}{}", if neg { "-" } else { "" }, a / 4, frac)
    }
    fn bound(&mut self) -> (Value, String) {
        match self.rng.gen_range(0..6) {
            0 => (json!({"q": 0, "excl": false, "inf": -1}), "-inf".into()),
            1 => (json!({"q": 0, "excl": false, "inf": 1}), "+inf".into()),
            2 => {
                let q = self.quarter();
                (json!({"q": q, "excl": true, "inf": 0}), format!("({}", Self::score_str(q)))
            }
            _ => {
                let q = self.quarter();
                (json!({"q": q, "excl": false, "inf": 0}), Self::score_str(q))
            }
        }
    }

    /// Commands outside the modelled table (stubs, bit/float ops, scans, scripts, malformed
    /// argument lists): judged only by the model-independent rules of C17.
    pub fn other_command(&mut self) -> (Value, Argv) {
        let k = self.key().into_bytes();
        let k2 = self.key().into_bytes();
        let v = self.val();
        let pool: Vec<Argv> = vec![
            vec![b("SETBIT"), k.clone(), b("7"), b("1")], vec![b("SETBIT"), k.clone(), b("-1"), b("1")], vec![b("GETBIT"), k.clone(), b("3")],
            vec![b("GETEX"), k.clone(), b("PERSIST")], vec![b("GETEX"), k.clone(), b("EX"), b("10")], vec![b("GETEX"), k.clone(), b("PX"), b("0")],
            vec![b("INCRBYFLOAT"), k.clone(), b("1.5")], vec![b("INCRBYFLOAT"), k.clone(), b("abc")], vec![b("INCRBYFLOAT"), k.clone(), b("inf")],
            vec![b("SPOP"), k.clone()], vec![b("SPOP"), k.clone(), b("2")], vec![b("SORT"), k.clone()], vec![b("SORT"), k.clone(), b("STORE"), k2.clone()],
            vec![b("EXPIREAT"), k.clone(), b("1")], vec![b("PEXPIREAT"), k.clone(), b("2000000")], vec![b("EXPIRETIME"), k.clone()],
            vec![b("KEYS"), b("*")], vec![b("SCAN"), b("0")], vec![b("SCAN"), b("0"), b("MATCH"), b("k*"), b("COUNT"), b("2")],
            vec![b("HSCAN"), k.clone(), b("0")], vec![b("ZSCAN"), k.clone(), b("0")], vec![b("RANDOMKEY")],
            vec![b("EVAL"), b("return redis.call('INCR', KEYS[1])"), b("1"), k.clone()],
            vec![b("EVAL"), b("return redis.call('LPUSH', KEYS[1], ARGV[1])"), b("1"), k.clone(), v.clone()],
            vec![b("EVAL"), b("return redis.pcall('HSET', KEYS[1], 'f', ARGV[1])"), b("1"), k.clone(), v.clone()],
            vec![b("EVAL"), b("this is not lua"), b("0")], vec![b("EVAL"), b("return redis.call('GET')"), b("0")],
            vec![b("EVAL"), b("error('boom')"), b("1"), k.clone()], vec![b("EVALSHA"), b("ffffffffffffffffffffffffffffffffffffffff"), b("0")],
            // expiry arguments whose conversion to milliseconds overflows: an error, and nothing written
            vec![b("SET"), k.clone(), v.clone(), b("EX"), b("9223372036854775807")], vec![b("SET"), k.clone(), v.clone(), b("EX"), b("9223372036854776")],
            vec![b("SET"), k.clone(), v.clone(), b("EX"), b("9223372036854776"), b("NX")], vec![b("SET"), k.clone(), v.clone(), b("EX"), b("9223372036854776"), b("XX")],
            vec![b("SETEX"), k.clone(), b("9223372036854775807"), v.clone()], vec![b("SETEX"), k.clone(), b("9223372036854776"), v.clone()],
            vec![b("EXPIRE"), k.clone(), b("9223372036854776")],
            // (PX / EXAT at i64::MAX are accepted by the code with a saturated deadline far beyond what the
            //  projection can carry in TLC integers: left out)
            // non-default server settings that change which inputs count as too large
            vec![b("CONFIG"), b("SET"), b("proto-max-bulk-len"), b("64")], vec![b("CONFIG"), b("SET"), b("proto-max-bulk-len"), b("16")],
            vec![b("CONFIG"), b("SET"), b("proto-max-bulk-len"), b("512000000")], vec![b("CONFIG"), b("GET"), b("proto-max-bulk-len")],
            vec![b("FOOBAR"), k.clone()], vec![b("GET")], vec![b("SET"), k.clone()], vec![b("SET"), k.clone(), v.clone(), b("EX"), b("abc")],
            vec![b("SET"), k.clone(), v.clone(), b("NX"), b("XX")], vec![b("SET"), k.clone(), v.clone(), b("EX"), b("10"), b("PX"), b("10")],
            vec![b("ZADD"), k.clone(), b("NX"), b("XX"), b("1"), b("a")], vec![b("ZADD"), k.clone(), b("notafloat"), b("a")], vec![b("ZADD"), k.clone(), b("1")],
            vec![b("ZADD"), k.clone(), b("GT"), b("LT"), b("1"), b("a")], vec![b("ZADD"), k.clone(), b("nan"), b("a")],
            vec![b("LINDEX"), k.clone(), b("abc")], vec![b("EXPIRE"), k.clone(), b("abc")], vec![b("EXPIRE"), k.clone(), b("9223372036854775807")],
            vec![b("HSET"), k.clone(), b("f")], vec![b("MSET"), k.clone()], vec![b("INCRBY"), k.clone(), b("1.5")], vec![b("INCRBY"), k.clone(), b("99999999999999999999")],
            vec![b("LRANGE"), k.clone(), b("0")], vec![b("SETRANGE"), k.clone(), b("536870912"), b("x")], vec![b("SETRANGE"), k.clone(), b("abc"), b("x")],
            vec![b("APPEND"), k.clone()], vec![b("RENAME"), k.clone()], vec![b("LMOVE"), k.clone(), k2.clone(), b("UP"), b("LEFT")],
            vec![b("ZRANGEBYSCORE"), k.clone(), b("a"), b("b")], vec![b("ZCOUNT"), k.clone(), b("(a"), b("1")], vec![b("HINCRBY"), k.clone(), b("f"), b("x")],
            vec![b("EXEC")], vec![b("DISCARD")], vec![b("SELECT"), b("1")], vec![b("DBSIZE"), b("x")], vec![b("TYPE")],
            vec![b("OBJECT"), b("ENCODING"), k.clone()], vec![b("DEBUG"), b("OBJECT"), k.clone()], vec![b("WAIT"), b("0"), b("0")], vec![b("TIME")],
        ];
        let argv = pool[self.rng.gen_range(0..pool.len())].clone();
        (json!({"op": "OTHER"}), argv)
    }

    /// Script-cache commands (RedisKeyspace!DoScript): five fixed one-command scripts, loaded, run by text or
    /// by digest, probed and flushed.  The digest of a script text is obtained once from a scratch executor.
    pub fn script_command(&mut self) -> (Value, Argv) {
        let k = self.key();
        let kb = k.clone().into_bytes();
        let sid = [1usize, 1, 2, 2, 3, 4, 5][self.rng.gen_range(0..7)];
        let v = self.small();
        let (text, body, tail): (&str, Value, Argv) = match sid {
            1 => (SCRIPTS[0], json!({"op": "GET", "k": k}), vec![b("1"), kb]),
            2 => (SCRIPTS[1], json!({"op": "INCRBY", "k": k, "d": int_json(1), "dmin": false}), vec![b("1"), kb]),
            3 => (SCRIPTS[2], json!({"op": "PUSH", "k": k, "vs": [v.clone()], "left": false}), vec![b("1"), kb, v.clone()]),
            4 => (SCRIPTS[3], json!({"op": "SET", "k": k, "v": v.clone(), "ex": -1, "px": -1, "nx": false, "xx": false, "get": false, "keepttl": false}), vec![b("1"), kb, v.clone()]),
            _ => (SCRIPTS[4], json!({"op": "NONE"}), vec![b("0")]),
        };
        match self.rng.gen_range(0..13) {
            0..=2 => (json!({"op": "SCRIPT_LOAD", "sid": sid}), vec![b("SCRIPT"), b("LOAD"), b(text)]),
            3 => (json!({"op": "SCRIPT_FLUSH"}), vec![b("SCRIPT"), b("FLUSH")]),
            4 => {
                let sids = [sid, self.rng.gen_range(1..=5usize)];
                (json!({"op": "SCRIPT_EXISTS", "sids": sids}), vec![b("SCRIPT"), b("EXISTS"), script_sha(sids[0]).into_bytes(), script_sha(sids[1]).into_bytes()])
            }
            5..=7 => { let mut argv = vec![b("EVAL"), b(text)]; argv.extend(tail); (json!({"op": "EVAL", "sid": sid, "body": body}), argv) }
            _ => { let mut argv = vec![b("EVALSHA"), script_sha(sid).into_bytes()]; argv.extend(tail); (json!({"op": "EVALSHA", "sid": sid, "body": body}), argv) }
        }
    }

    /// Modelled commands outside the original table: bit operations, GETEX, and the commands
    /// whose result is a random choice (SPOP, RANDOMKEY: the model lists every choice).
    pub fn extra_command(&mut self) -> (Value, Argv) {
        let which = self.rng.gen_range(0..15);
        // mostly at a key that usually has the fitting type
        let k = if self.rng.gen_bool(0.6) { (if (8..=10).contains(&which) { "st" } else { ["k1", "k2", "k3"][self.rng.gen_range(0..3)] }).to_string() } else { self.key() };
        let kb = k.clone().into_bytes();
        match which {
            0..=2 => {
                let off = [0i64, 1, 7, 8, 9, 15, 23, 30, 100][self.rng.gen_range(0..9)];
                let bit = self.rng.gen_range(0..2);
                (json!({"op": "SETBIT", "k": k, "off": off, "bit": bit}), vec![b("SETBIT"), kb, b(&off.to_string()), b(&bit.to_string())])
            }
            3..=4 => {
                let off = [0i64, 1, 7, 8, 9, 15, 23, 30, 100, 5000][self.rng.gen_range(0..10)];
                (json!({"op": "GETBIT", "k": k, "off": off}), vec![b("GETBIT"), kb, b(&off.to_string())])
            }
            5..=7 => match self.rng.gen_range(0..4) {
                0 => (json!({"op": "GETEX", "k": k, "mode": "none", "ms": 0}), vec![b("GETEX"), kb]),
                1 => (json!({"op": "GETEX", "k": k, "mode": "persist", "ms": 0}), vec![b("GETEX"), kb, b("persist")]),
                2 => { let t = [1i64, 10, 0, -1, 100][self.rng.gen_range(0..5)]; (json!({"op": "GETEX", "k": k, "mode": "rel", "ms": t * 1000}), vec![b("GETEX"), kb, b("EX"), b(&t.to_string())]) }
                _ => { let t = [1i64, 1500, 0, -3, 250][self.rng.gen_range(0..5)]; (json!({"op": "GETEX", "k": k, "mode": "rel", "ms": t}), vec![b("GETEX"), kb, b("px"), b(&t.to_string())]) }
            },
            8..=10 => {
                let n = [-1i64, -1, 0, 1, 2, 5][self.rng.gen_range(0..6)];
                let mut argv = vec![b("SPOP"), kb];
                if n >= 0 { argv.push(b(&n.to_string())); }
                (json!({"op": "SPOP", "k": k, "n": n}), argv)
            }
            11 => {
                let kbs: Vec<Value> = self.keys.iter().map(|x| json!([x, x.as_bytes()])).collect();
                (json!({"op": "RANDOMKEY", "kb": kbs}), vec![b("RANDOMKEY")])
            }
            12 => {
                // SORT [STORE]: at the list / set keys mostly
                let k = if self.rng.gen_bool(0.7) { ["lst", "st", "k1"][self.rng.gen_range(0..3)].to_string() } else { k };
                let store = if self.rng.gen_bool(0.4) { self.key() } else { String::new() };
                let mut argv = vec![b("SORT"), k.clone().into_bytes()];
                if !store.is_empty() { argv.push(b("STORE")); argv.push(store.clone().into_bytes()); }
                (json!({"op": "SORT", "k": k, "store": store}), argv)
            }
            _ => {
                // INCRBYFLOAT by a multiple of 1/4 (exact in binary), mostly at the counter key
                let k = if self.rng.gen_bool(0.7) { "cnt".to_string() } else { k };
                let q = [1i64, 2, 3, 4, -4, -1, 10, 0, 400, -13, 6][self.rng.gen_range(0..11)];
                (json!({"op": "INCRBYFLOAT", "k": k, "q": q}), vec![b("INCRBYFLOAT"), k.clone().into_bytes(), b(&quarter_str(q))])
            }
        }
    }

    /// One command: (abstract JSON in RedisKeyspace.tla's shape, argv)
    pub fn command(&mut self) -> (Value, Argv) {
        if self.fail_bias && self.rng.gen_bool(0.35) {
            return self.other_command();
        }
        let k = self.key();
        let kb = k.clone().into_bytes();
        let which = self.rng.gen_range(0..100);
        // failure bias: aim commands at keys of the wrong type more often (keys are typed by name
        // in the unbiased mode only by habit, not by rule)
        match which {
            0..=5 => (json!({"op": "GET", "k": k}), vec![b("GET"), kb]),
            6..=13 => {
                let v = self.val();
                let (mut ex, mut px) = (-1i64, -1i64);
                let mut argv = vec![b("SET"), kb, v.clone()];
                let nx = self.rng.gen_bool(0.15);
                let xx = !nx && self.rng.gen_bool(0.15);
                let get = self.rng.gen_bool(0.15);
                let mut keepttl = false;
                match self.rng.gen_range(0..8) {
                    0 => { ex = [1, 2, 100, 0, -1][self.rng.gen_range(0..5)]; argv.push(b("EX")); argv.push(b(&ex.to_string())); if ex == -1 { ex = -5; argv.pop(); argv.push(b("-5")); } }
                    1 => { px = [1, 500, 1500, 100000, 0][self.rng.gen_range(0..5)]; argv.push(b("px")); argv.push(b(&px.to_string())); }
                    2 => { keepttl = true; argv.push(b("KEEPTTL")); }
                    _ => {}
                }
                if nx { argv.push(b("NX")); }
                if xx { argv.push(b("xx")); }
                if get { argv.push(b("GET")); }
                (json!({"op": "SET", "k": k, "v": v, "ex": ex, "px": px, "nx": nx, "xx": xx, "get": get, "keepttl": keepttl}), argv)
            }
            14 => { let v = self.val(); (json!({"op": "SETNX", "k": k, "v": v}), vec![b("SETNX"), kb, v]) }
            15 => { let v = self.val(); let s = [1i64, 2, 0, -1, 1000][self.rng.gen_range(0..5)]; (json!({"op": "SETEX", "k": k, "v": v, "ms": s * 1000}), vec![b("SETEX"), kb, b(&s.to_string()), v]) }
            16 => { let v = self.val(); let ms = [1i64, 1500, 0, -3][self.rng.gen_range(0..4)]; (json!({"op": "SETEX", "k": k, "v": v, "ms": ms}), vec![b("PSETEX"), kb, b(&ms.to_string()), v]) }
            17..=18 => { let v = self.val(); (json!({"op": "GETSET", "k": k, "v": v}), vec![b("GETSET"), kb, v]) }
            19 => (json!({"op": "GETDEL", "k": k}), vec![b("GETDEL"), kb]),
            20..=22 => { let v = self.val(); (json!({"op": "APPEND", "k": k, "v": v}), vec![b("APPEND"), kb, v]) }
            23 => (json!({"op": "STRLEN", "k": k}), vec![b("STRLEN"), kb]),
            24..=26 => (json!({"op": "INCRBY", "k": k, "d": int_json(1), "dmin": false}), vec![b("INCR"), kb]),
            27 => (json!({"op": "INCRBY", "k": k, "d": int_json(-1), "dmin": false}), vec![b("DECR"), kb]),
            28..=29 => { let d = self.delta(); (json!({"op": "INCRBY", "k": k, "d": int_json(d as i128), "dmin": false}), vec![b("INCRBY"), kb, b(&d.to_string())]) }
            30 => { let d = self.delta(); (json!({"op": "INCRBY", "k": k, "d": int_json(-(d as i128)), "dmin": d == i64::MIN}), vec![b("DECRBY"), kb, b(&d.to_string())]) }
            31 => { let ks = vec![self.key(), self.key(), k.clone()]; let mut argv = vec![b("MGET")]; argv.extend(ks.iter().map(|x| x.clone().into_bytes())); (json!({"op": "MGET", "ks": ks}), argv) }
            32..=33 => {
                let ks = vec![k.clone(), self.key()];
                let vs = vec![self.val(), self.val()];
                let nxv = self.rng.gen_bool(0.3);
                let mut argv = vec![b(if nxv { "MSETNX" } else { "MSET" })];
                for i in 0..2 { argv.push(ks[i].clone().into_bytes()); argv.push(vs[i].clone()); }
                (json!({"op": if nxv { "MSETNX" } else { "MSET" }, "ks": ks, "vs": vs}), argv)
            }
            34..=35 => { let (s, e) = (self.idx(), self.idx()); (json!({"op": "GETRANGE", "k": k, "start": sat(s), "stop": sat(e)}), vec![b("GETRANGE"), kb, b(&s.to_string()), b(&e.to_string())]) }
            36 => { let off = [0i64, 1, 3, 10, -1][self.rng.gen_range(0..5)]; let v = self.small(); (json!({"op": "SETRANGE", "k": k, "off": off.max(0), "neg": off < 0, "v": v}), vec![b("SETRANGE"), kb, b(&off.to_string()), v]) }
            37..=39 => { let ks = vec![k.clone(), self.key()]; (json!({"op": "DEL", "ks": ks}), vec![b("DEL"), kb, ks[1].clone().into_bytes()]) }
            40 => { let ks = vec![k.clone(), self.key(), k.clone()]; (json!({"op": "EXISTS", "ks": ks}), vec![b("EXISTS"), kb.clone(), ks[1].clone().into_bytes(), kb]) }
            41 => (json!({"op": "TYPE", "k": k}), vec![b("TYPE"), kb]),
            42..=46 => {
                let secs = self.rng.gen_bool(0.5);
                let t = [1i64, 2, 10, 100, 0, -1, 5][self.rng.gen_range(0..7)];
                let ms = if secs { t * 1000 } else { t * 300 };
                let mut argv = vec![b(if secs { "EXPIRE" } else { "PEXPIRE" }), kb, b(&(if secs { t } else { t * 300 }).to_string())];
                let opt = self.rng.gen_range(0..8);
                let (nx, xx, gt, lt) = (opt == 0, opt == 1, opt == 2, opt == 3);
                if nx { argv.push(b("NX")); } if xx { argv.push(b("XX")); } if gt { argv.push(b("gt")); } if lt { argv.push(b("LT")); }
                (json!({"op": "EXPIRE", "k": k, "ms": ms, "nx": nx, "xx": xx, "gt": gt, "lt": lt}), argv)
            }
            47 => (json!({"op": "PTTL", "k": k}), vec![b("PTTL"), kb]),
            48 => (json!({"op": "TTL", "k": k}), vec![b("TTL"), kb]),
            49 => (json!({"op": "PERSIST", "k": k}), vec![b("PERSIST"), kb]),
            50..=51 => { let k2 = self.key(); let nx = self.rng.gen_bool(0.3); (json!({"op": "RENAME", "k": k, "k2": k2, "nx": nx}), vec![b(if nx { "RENAMENX" } else { "RENAME" }), kb, k2.into_bytes()]) }
            52 => {
                if self.rng.gen_bool(0.4) {
                    (json!({"op": "DBSIZE"}), vec![b("DBSIZE")])
                } else {
                    // KEYS with a glob pattern (the key universe travels with the command: keys are strings in the model)
                    let pats: [&[u8]; 20] = [b"*", b"k*", b"k?", b"k[12]", b"k[^1]", b"[a-k]*", b"k[1-2]", b"\\k1", b"*s", b"??", b"h*", b"[hl]s*", b"k1", b"nomatch",
                                             b"*[0-9]", b"[^k]*", b"?[s-t]*", b"[c]nt", b"k[3-1]", b"*t*"];
                    let pat = pats[self.rng.gen_range(0..pats.len())].to_vec();
                    let kbs: Vec<Value> = self.keys.iter().map(|x| json!([x, x.as_bytes()])).collect();
                    (json!({"op": "KEYS", "pat": pat, "kb": kbs}), vec![b("KEYS"), pat])
                }
            }
            53..=57 => { let n = self.rng.gen_range(1..=3); let vs: Vec<Vec<u8>> = (0..n).map(|_| self.small()).collect(); let left = self.rng.gen_bool(0.5);
                         let mut argv = vec![b(if left { "LPUSH" } else { "RPUSH" }), kb]; argv.extend(vs.clone()); (json!({"op": "PUSH", "k": k, "vs": vs, "left": left}), argv) }
            58..=59 => { let left = self.rng.gen_bool(0.5); (json!({"op": "POP", "k": k, "left": left}), vec![b(if left { "LPOP" } else { "RPOP" }), kb]) }
            60 => (json!({"op": "LLEN", "k": k}), vec![b("LLEN"), kb]),
            61 => { let i = self.idx(); (json!({"op": "LINDEX", "k": k, "i": sat(i)}), vec![b("LINDEX"), kb, b(&i.to_string())]) }
            62..=63 => { let (s, e) = (self.idx(), self.idx()); (json!({"op": "LRANGE", "k": k, "start": sat(s), "stop": sat(e)}), vec![b("LRANGE"), kb, b(&s.to_string()), b(&e.to_string())]) }
            64 => { let i = self.idx(); let v = self.small(); (json!({"op": "LSET", "k": k, "i": sat(i), "v": v}), vec![b("LSET"), kb, b(&i.to_string()), v]) }
            65 => { let (s, e) = (self.idx(), self.idx()); (json!({"op": "LTRIM", "k": k, "start": sat(s), "stop": sat(e)}), vec![b("LTRIM"), kb, b(&s.to_string()), b(&e.to_string())]) }
            66..=67 => {
                let k2 = self.key();
                if self.rng.gen_bool(0.5) {
                    (json!({"op": "LMOVE", "k": k, "k2": k2, "fromleft": false, "toleft": true}), vec![b("RPOPLPUSH"), kb, k2.into_bytes()])
                } else {
                    let (fl, tl) = (self.rng.gen_bool(0.5), self.rng.gen_bool(0.5));
                    (json!({"op": "LMOVE", "k": k, "k2": k2, "fromleft": fl, "toleft": tl}),
                     vec![b("LMOVE"), kb, k2.into_bytes(), b(if fl { "LEFT" } else { "right" }), b(if tl { "left" } else { "RIGHT" })])
                }
            }
            68..=70 => { let n = self.rng.gen_range(1..=3); let vs: Vec<Vec<u8>> = (0..n).map(|_| self.small()).collect(); let mut argv = vec![b("SADD"), kb]; argv.extend(vs.clone()); (json!({"op": "SADD", "k": k, "vs": vs}), argv) }
            71 => { let vs = vec![self.small(), self.small()]; let mut argv = vec![b("SREM"), kb]; argv.extend(vs.clone()); (json!({"op": "SREM", "k": k, "vs": vs}), argv) }
            72 => { let v = self.small(); (json!({"op": "SISMEMBER", "k": k, "v": v}), vec![b("SISMEMBER"), kb, v]) }
            73 => (json!({"op": "SCARD", "k": k}), vec![b("SCARD"), kb]),
            74 => (json!({"op": "SMEMBERS", "k": k}), vec![b("SMEMBERS"), kb]),
            75..=78 => { let n = self.rng.gen_range(1..=3); let fs: Vec<Vec<u8>> = (0..n).map(|_| self.field()).collect(); let vs: Vec<Vec<u8>> = (0..n).map(|_| self.val()).collect();
                         let mut argv = vec![b("HSET"), kb]; for i in 0..n { argv.push(fs[i].clone()); argv.push(vs[i].clone()); } (json!({"op": "HSET", "k": k, "fs": fs, "vs": vs}), argv) }
            79 => { let f = self.field(); (json!({"op": "HGET", "k": k, "f": f}), vec![b("HGET"), kb, f]) }
            80 => { let fs = vec![self.field(), self.field()]; let mut argv = vec![b("HDEL"), kb]; argv.extend(fs.clone()); (json!({"op": "HDEL", "k": k, "fs": fs}), argv) }
            81 => { let f = self.field(); (json!({"op": "HEXISTS", "k": k, "f": f}), vec![b("HEXISTS"), kb, f]) }
            82 => (json!({"op": "HLEN", "k": k}), vec![b("HLEN"), kb]),
            83 => (json!({"op": "HGETALL", "k": k}), vec![b("HGETALL"), kb]),
            84 => { let w = self.rng.gen_bool(0.5); (json!({"op": if w { "HKEYS" } else { "HVALS" }, "k": k}), vec![b(if w { "HKEYS" } else { "HVALS" }), kb]) }
            85..=86 => { let f = self.field(); let d = self.delta(); (json!({"op": "HINCRBY", "k": k, "f": f, "d": int_json(d as i128)}), vec![b("HINCRBY"), kb, f, b(&d.to_string())]) }
            87..=90 => {
                let n = self.rng.gen_range(1..=3);
                let ms: Vec<Vec<u8>> = (0..n).map(|_| { let p: [&[u8]; 5] = [b"a", b"b", b"c", b"ab", b""]; p[self.rng.gen_range(0..5)].to_vec() }).collect();
                let qs: Vec<i64> = (0..n).map(|_| self.quarter()).collect();
                let opt = self.rng.gen_range(0..10);
                let (nx, xx, gt, lt) = (opt == 0, opt == 1, opt == 2 || opt == 4, opt == 3);
                let ch = self.rng.gen_bool(0.2);
                let mut argv = vec![b("ZADD"), kb];
                if nx { argv.push(b("NX")); } if xx { argv.push(b("xx")); } if gt { argv.push(b("GT")); } if lt { argv.push(b("LT")); } if ch { argv.push(b("CH")); }
                for i in 0..n { argv.push(b(&Self::score_str(qs[i]))); argv.push(ms[i].clone()); }
                (json!({"op": "ZADD", "k": k, "ms": ms, "qs": qs, "nx": nx, "xx": xx, "gt": gt, "lt": lt, "ch": ch}), argv)
            }
            91 => { let ms = vec![b("a"), b("c")]; (json!({"op": "ZREM", "k": k, "ms": ms}), vec![b("ZREM"), kb, b("a"), b("c")]) }
            92 => { let m = [b("a"), b("b"), b("zz")][self.rng.gen_range(0..3)].clone(); let w = self.rng.gen_bool(0.5); (json!({"op": if w { "ZSCORE" } else { "ZRANK" }, "k": k, "m": m}), vec![b(if w { "ZSCORE" } else { "ZRANK" }), kb, m]) }
            93 => (json!({"op": "ZCARD", "k": k}), vec![b("ZCARD"), kb]),
            94..=95 => { let (s, e) = (self.idx(), self.idx()); let ws = self.rng.gen_bool(0.4); let rev = self.rng.gen_bool(0.4);
                         let mut argv = vec![b(if rev { "ZREVRANGE" } else { "ZRANGE" }), kb, b(&s.to_string()), b(&e.to_string())]; if ws { argv.push(b("withscores")); }
                         (json!({"op": "ZRANGE", "k": k, "start": sat(s), "stop": sat(e), "ws": ws, "rev": rev}), argv) }
            96 => { let (lo, los) = self.bound(); let (hi, his) = self.bound(); (json!({"op": "ZCOUNT", "k": k, "lo": lo, "hi": hi}), vec![b("ZCOUNT"), kb, b(&los), b(&his)]) }
            97 => { let (lo, los) = self.bound(); let (hi, his) = self.bound(); let ws = self.rng.gen_bool(0.3); let limit = self.rng.gen_bool(0.4);
                    let (off, cnt) = ([0i64, 1, 2, -1][self.rng.gen_range(0..4)], [1i64, 2, 0, -1][self.rng.gen_range(0..4)]);
                    let mut argv = vec![b("ZRANGEBYSCORE"), kb, b(&los), b(&his)]; if ws { argv.push(b("WITHSCORES")); } if limit { argv.push(b("LIMIT")); argv.push(b(&off.to_string())); argv.push(b(&cnt.to_string())); }
                    (json!({"op": "ZRANGEBYSCORE", "k": k, "lo": lo, "hi": hi, "ws": ws, "limit": limit, "off": off, "cnt": cnt}), argv) }
            98 => { let has = self.rng.gen_bool(0.5); let v = self.small(); let mut argv = vec![b("PING")]; if has { argv.push(v.clone()); } (json!({"op": "PING", "has": has, "v": v}), argv) }
            _ => { let v = self.val(); (json!({"op": "ECHO", "v": v}), vec![b("ECHO"), v]) }
        }
    }
}


fn bytes_of(v: &Value) -> Vec<u8> {
    v.as_array().map(|a| a.iter().map(|x| x.as_u64().unwrap() as u8).collect()).unwrap_or_default()
}
fn int_of(v: &Value) -> String {
    let digits: String = v["d"].as_array().unwrap().iter().map(|d| char::from(b'0' + d.as_u64().unwrap() as u8)).collect();
    format!("{}{}", if v["neg"].as_bool().unwrap_or(false) { "-" } else { "" }, digits)
}
fn bound_str(bd: &Value) -> String {
    match bd["inf"].as_i64().unwrap() {
        -1 => "-inf".into(),
        1 => "+inf".into(),
        _ => format!("{}{}", if bd["excl"].as_bool().unwrap() { "(" } else { "" }, Gen::score_str(bd["q"].as_i64().unwrap())),
    }
}

/// argv for an abstract command in RedisKeyspace.tla's shape (used for TLC-generated scenarios)
pub fn render(c: &Value) -> Argv {
    let k = || b(c["k"].as_str().unwrap_or(""));
    let flag = |n: &str| c[n].as_bool().unwrap_or(false);
    let num = |n: &str| c[n].as_i64().unwrap_or(0);
    let list = |n: &str| -> Vec<Vec<u8>> { c[n].as_array().map(|a| a.iter().map(bytes_of).collect()).unwrap_or_default() };
    let keys = |n: &str| -> Vec<Vec<u8>> { c[n].as_array().map(|a| a.iter().map(|x| b(x.as_str().unwrap())).collect()).unwrap_or_default() };
    let mut argv: Argv;
    match c["op"].as_str().unwrap() {
        "SET" => {
            argv = vec![b("SET"), k(), bytes_of(&c["v"])];
            if num("ex") != -1 { argv.push(b("EX")); argv.push(b(&num("ex").to_string())); }
            if num("px") != -1 { argv.push(b("PX")); argv.push(b(&num("px").to_string())); }
            if flag("keepttl") { argv.push(b("KEEPTTL")); }
            if flag("nx") { argv.push(b("NX")); }
            if flag("xx") { argv.push(b("XX")); }
            if flag("get") { argv.push(b("GET")); }
        }
        "SETEX" => argv = vec![b("PSETEX"), k(), b(&num("ms").to_string()), bytes_of(&c["v"])],
        "SETBIT" => argv = vec![b("SETBIT"), k(), b(&num("off").to_string()), b(&num("bit").to_string())],
        "GETBIT" => argv = vec![b("GETBIT"), k(), b(&num("off").to_string())],
        "GETEX" => { argv = vec![b("GETEX"), k()]; match c["mode"].as_str().unwrap_or("none") { "persist" => argv.push(b("PERSIST")), "rel" => { argv.push(b("PX")); argv.push(b(&num("ms").to_string())); } _ => {} } }
        "INCRBYFLOAT" => argv = vec![b("INCRBYFLOAT"), k(), b(&quarter_str(num("q")))],
        "SORT" => { argv = vec![b("SORT"), k()]; let d = c["store"].as_str().unwrap_or(""); if !d.is_empty() { argv.push(b("STORE")); argv.push(b(d)); } }
        "SPOP" => { argv = vec![b("SPOP"), k()]; if num("n") >= 0 { argv.push(b(&num("n").to_string())); } }
        "RANDOMKEY" => argv = vec![b("RANDOMKEY")],
        "INCRBY" => argv = vec![b("INCRBY"), k(), b(&int_of(&c["d"]))],
        "MGET" => { argv = vec![b("MGET")]; argv.extend(keys("ks")); }
        "MSET" | "MSETNX" => { argv = vec![b(c["op"].as_str().unwrap())]; let (ks, vs) = (keys("ks"), list("vs")); for i in 0..ks.len() { argv.push(ks[i].clone()); argv.push(vs[i].clone()); } }
        "GETRANGE" => argv = vec![b("GETRANGE"), k(), b(&num("start").to_string()), b(&num("stop").to_string())],
        "SETRANGE" => argv = vec![b("SETRANGE"), k(), b(&(if flag("neg") { -1 } else { num("off") }).to_string()), bytes_of(&c["v"])],
        "DEL" | "EXISTS" => { argv = vec![b(c["op"].as_str().unwrap())]; argv.extend(keys("ks")); }
        "EXPIRE" => { argv = vec![b("PEXPIRE"), k(), b(&num("ms").to_string())]; for f in ["nx", "xx", "gt", "lt"] { if flag(f) { argv.push(b(&f.to_uppercase())); } } }
        "RENAME" => argv = vec![b(if flag("nx") { "RENAMENX" } else { "RENAME" }), k(), b(c["k2"].as_str().unwrap())],
        "PUSH" => { argv = vec![b(if flag("left") { "LPUSH" } else { "RPUSH" }), k()]; argv.extend(list("vs")); }
        "POP" => argv = vec![b(if flag("left") { "LPOP" } else { "RPOP" }), k()],
        "LINDEX" => argv = vec![b("LINDEX"), k(), b(&num("i").to_string())],
        "LRANGE" | "LTRIM" => argv = vec![b(c["op"].as_str().unwrap()), k(), b(&num("start").to_string()), b(&num("stop").to_string())],
        "LSET" => argv = vec![b("LSET"), k(), b(&num("i").to_string()), bytes_of(&c["v"])],
        "LMOVE" => argv = vec![b("LMOVE"), k(), b(c["k2"].as_str().unwrap()), b(if flag("fromleft") { "LEFT" } else { "RIGHT" }), b(if flag("toleft") { "LEFT" } else { "RIGHT" })],
        "SADD" | "SREM" => { argv = vec![b(c["op"].as_str().unwrap()), k()]; argv.extend(list("vs")); }
        "SISMEMBER" => argv = vec![b("SISMEMBER"), k(), bytes_of(&c["v"])],
        "HSET" => { argv = vec![b("HSET"), k()]; let (fs, vs) = (list("fs"), list("vs")); for i in 0..fs.len() { argv.push(fs[i].clone()); argv.push(vs[i].clone()); } }
        "HGET" | "HEXISTS" => argv = vec![b(c["op"].as_str().unwrap()), k(), bytes_of(&c["f"])],
        "HDEL" => { argv = vec![b("HDEL"), k()]; argv.extend(list("fs")); }
        "HINCRBY" => argv = vec![b("HINCRBY"), k(), bytes_of(&c["f"]), b(&int_of(&c["d"]))],
        "ZADD" => {
            argv = vec![b("ZADD"), k()];
            for f in ["nx", "xx", "gt", "lt", "ch"] { if flag(f) { argv.push(b(&f.to_uppercase())); } }
            let ms = list("ms");
            let qs: Vec<i64> = c["qs"].as_array().unwrap().iter().map(|q| q.as_i64().unwrap()).collect();
            for i in 0..ms.len() { argv.push(b(&Gen::score_str(qs[i]))); argv.push(ms[i].clone()); }
        }
        "ZREM" => { argv = vec![b("ZREM"), k()]; argv.extend(list("ms")); }
        "ZSCORE" | "ZRANK" => argv = vec![b(c["op"].as_str().unwrap()), k(), bytes_of(&c["m"])],
        "ZRANGE" => { argv = vec![b(if flag("rev") { "ZREVRANGE" } else { "ZRANGE" }), k(), b(&num("start").to_string()), b(&num("stop").to_string())]; if flag("ws") { argv.push(b("WITHSCORES")); } }
        "ZCOUNT" => argv = vec![b("ZCOUNT"), k(), b(&bound_str(&c["lo"])), b(&bound_str(&c["hi"]))],
        "ZRANGEBYSCORE" => { argv = vec![b("ZRANGEBYSCORE"), k(), b(&bound_str(&c["lo"])), b(&bound_str(&c["hi"]))]; if flag("ws") { argv.push(b("WITHSCORES")); }
                             if flag("limit") { argv.push(b("LIMIT")); argv.push(b(&num("off").to_string())); argv.push(b(&num("cnt").to_string())); } }
        "PING" => { argv = vec![b("PING")]; if flag("has") { argv.push(bytes_of(&c["v"])); } }
        "ECHO" => argv = vec![b("ECHO"), bytes_of(&c["v"])],
        "SETNX" | "GETSET" | "APPEND" => argv = vec![b(c["op"].as_str().unwrap()), k(), bytes_of(&c["v"])],
        "DBSIZE" | "FLUSHALL" => argv = vec![b(c["op"].as_str().unwrap())],
        "KEYS" => argv = vec![b("KEYS"), c["pat"].as_array().unwrap().iter().map(|x| x.as_u64().unwrap() as u8).collect()],
        // single-key commands without further arguments
        op => argv = vec![b(op), k()],
    }
    argv
}

/// Full visible keyspace of an executor at its current time: [[key, type, value, deadline]...]
pub fn project(ex: &mut CommandExecutor, now: u64) -> Value {
    let mut keys: Vec<String> = ex.get_data().keys().cloned().collect();
    keys.sort();
    let mut out = Vec::new();
    for k in keys {
        let t = match ex.execute(&parse_argv(&vec![b("TYPE"), k.clone().into_bytes()]).unwrap()) {
            RespValue::SimpleString(s) => s.to_string(),
            other => format!("{other:?}"),
        };
        if t == "none" {
            continue;
        }
        let pttl = match ex.execute(&parse_argv(&vec![b("PTTL"), k.clone().into_bytes()]).unwrap()) {
            RespValue::Integer(n) => n,
            _ => -3,
        };
        let exp = if pttl >= 0 { now as i64 + pttl } else { -1 };
        let v = match ex.get_data().get(&k) {
            Some(RValue::String(s)) => json!(s.as_bytes()),
            Some(RValue::List(l)) => json!(l.range(0, -1).iter().map(|x| x.as_bytes().to_vec()).collect::<Vec<_>>()),
            Some(RValue::Set(s)) => {
                let mut m: Vec<Vec<u8>> = s.members().iter().map(|x| x.as_bytes().to_vec()).collect();
                m.sort();
                json!(m)
            }
            Some(RValue::Hash(h)) => {
                let mut m: Vec<(Vec<u8>, Vec<u8>)> = h.iter().map(|(f, v)| (f.as_bytes().to_vec(), v.as_bytes().to_vec())).collect();
                m.sort();
                json!(m.iter().map(|(f, v)| json!([f, v])).collect::<Vec<_>>())
            }
            Some(RValue::SortedSet(z)) => {
                let mut m: Vec<(Vec<u8>, i64)> = z.iter().map(|(mm, s)| (mm.as_bytes().to_vec(), (s * 4.0).round() as i64)).collect();
                m.sort();
                json!(m.iter().map(|(mm, q)| json!([mm, q])).collect::<Vec<_>>())
            }
            _ => json!([]),
        };
        let tn = match t.as_str() { "string" => "string", "list" => "list", "set" => "set", "hash" => "hash", "zset" => "zset", o => o }.to_string();
        out.push(json!([k, tn, v, exp]));
    }
    json!(out)
}

/// Execute one command at time `now` and log the event.
pub fn step(ex: &mut CommandExecutor, run: usize, now: u64, c: &Value, argv: &Argv, out: &mut Out) -> Value {
    step_via(ex, run, now, c, argv, "direct", out)
}

/// `via`: "direct", or "call" / "pcall": the command is issued by a one-line Lua script (C16).
pub fn step_via(ex: &mut CommandExecutor, run: usize, now: u64, c: &Value, argv: &Argv, via: &str, out: &mut Out) -> Value {
    ex.set_time(VirtualTime::from_millis(now));
    let res = catch(|| match parse_argv(argv) {
        Ok(cmd) => {
            let ro = cmd.is_read_only();
            if via == "direct" {
                (ex.execute(&cmd), ro)
            } else {
                let mut a: Argv = vec![b("EVAL"), b(&format!("return redis.{via}(table.unpack(ARGV))")), b("0")];
                a.extend(argv.iter().cloned());
                match parse_argv(&a) {
                    Ok(script) => (ex.execute(&script), ro),
                    Err(e) => (RespValue::err(format!("FRAME {e}")), false),
                }
            }
        }
        Err(e) => (RespValue::err(e), false),
    });
    let mut ev = json!({"a": "cmd", "run": run, "now": now, "c": c, "via": via, "argv": argv.iter().map(|a| String::from_utf8_lossy(a).to_string()).collect::<Vec<_>>()});
    match res {
        Ok((r, ro)) => {
            ev["r"] = rv_json(&r);
            ev["ro"] = json!(ro);
        }
        Err(p) => {
            ev["panic"] = json!(p);
            ev["r"] = json!({"t": "error", "b": b("PANIC"), "a": []});
            ev["ro"] = json!(false);
        }
    }
    let s = project(ex, now);
    ev["s"] = s.clone();
    out.emit(&ev);
    s
}

pub fn run_one(run: usize, gen: &mut Gen, len: usize, out: &mut Out) {
    run_one_via(run, gen, len, &["direct"], out)
}

/// Commands that name an absolute Unix time.  The node's start epoch `e_ms` (ms, possibly with a sub-second
/// part) maps it to the virtual clock: deadline = t_ms - e_ms.  They are handed to the model as the
/// relative commands they are equivalent to (EXPIRE with ms = deadline - now, SET .. PX), so the arithmetic
/// is done twice, independently.
fn abs_command(gen: &mut Gen, now: u64, e_ms: i64) -> (Value, Argv) {
    let k = gen.key();
    let kb = k.clone().into_bytes();
    // a deadline on the virtual clock: past, now, or up to ~100 s ahead, not aligned to seconds
    let dl: i64 = now as i64 + [-5000i64, 0, 1, 999, 1000, 1500, 9250, 60_000, 100_001][gen.rng.gen_range(0..9)];
    let abs_ms = dl + e_ms;
    match gen.rng.gen_range(0..6) {
        0 | 1 => {
            // EXPIREAT takes seconds: only whole seconds can be named
            let ts = abs_ms.div_euclid(1000);
            let dl_s = ts * 1000 - e_ms;
            (json!({"op": "EXPIRE", "k": k, "ms": dl_s - now as i64, "nx": false, "xx": false, "gt": false, "lt": false}), vec![b("EXPIREAT"), kb, b(&ts.to_string())])
        }
        2 => (json!({"op": "EXPIRE", "k": k, "ms": dl - now as i64, "nx": false, "xx": false, "gt": false, "lt": false}), vec![b("PEXPIREAT"), kb, b(&abs_ms.to_string())]),
        3 => {
            let v = gen.val();
            let ts = abs_ms.max(now as i64 + e_ms).div_euclid(1000) + 2;
            let px = ts * 1000 - e_ms - now as i64; // > 0
            (json!({"op": "SET", "k": k, "v": v, "ex": -1, "px": px, "nx": false, "xx": false, "get": false, "keepttl": false}), vec![b("SET"), kb, v, b("EXAT"), b(&ts.to_string())])
        }
        4 => {
            let v = gen.val();
            let t = abs_ms.max(now as i64 + e_ms) + 7;
            (json!({"op": "SET", "k": k, "v": v, "ex": -1, "px": t - e_ms - now as i64, "nx": false, "xx": false, "get": false, "keepttl": false}), vec![b("SET"), kb, v, b("PXAT"), b(&t.to_string())])
        }
        _ => {
            let ms = gen.rng.gen_bool(0.5);
            (json!({"op": "EXPIRETIME", "k": k, "ms": ms, "e": e_ms}), vec![b(if ms { "PEXPIRETIME" } else { "EXPIRETIME" }), kb])
        }
    }
}

pub fn run_one_via(run: usize, gen: &mut Gen, len: usize, vias: &[&str], out: &mut Out) {
    let mut ex = CommandExecutor::new();
    // every third run lives on a node whose start epoch is not a whole second
    let e_ms: i64 = [0i64, 1_000_000, 1_000_750][run % 3];
    ex.set_simulation_start_epoch_ms(e_ms);
    let mut now: u64 = 1000;
    out.emit(&json!({"a": "reset", "run": run}));
    let mut deadlines: Vec<u64> = Vec::new();
    for _ in 0..len {
        // clock: stand still, tick, jump exactly to a deadline, or past it
        match gen.rng.gen_range(0..10) {
            0..=3 => {}
            4..=5 => now += 1,
            6 => now += gen.rng.gen_range(1..2500),
            7..=8 => {
                if let Some(d) = deadlines.iter().filter(|d| **d > now).min() {
                    now = if gen.rng.gen_bool(0.5) { *d } else { d - 1 };
                }
            }
            _ => now += 100_000,
        }
        let (c, argv) = if e_ms != 0 && gen.rng.gen_range(0..6) == 0 { abs_command(gen, now, e_ms) } else if gen.rng.gen_range(0..12) == 0 { gen.extra_command() } else if gen.rng.gen_range(0..14) == 0 { gen.script_command() } else { gen.command() };
        // active expiry (the TTL manager's EvictExpired message) between two commands: no step of the model
        if gen.rng.gen_range(0..8) == 0 {
            let _ = ex.evict_expired_direct(VirtualTime::from_millis(now));
        }
        let pick = vias[gen.rng.gen_range(0..vias.len())];
        let via = if ScriptOp::is(&c) { "direct" } else { pick };
        let s = step_via(&mut ex, run, now, &c, &argv, via, out);
        for e in s.as_array().unwrap() {
            if let Some(d) = e[3].as_i64() {
                if d > 0 {
                    deadlines.push(d as u64);
                }
            }
        }
    }
}

/// TLC-generated scenario: [{"c": abstract command} | {"tick": n}]
pub fn replay_one(run: usize, steps: &[Value], out: &mut Out) {
    replay_one_via(run, steps, &["direct"], out)
}

pub fn replay_one_via(run: usize, steps: &[Value], vias: &[&str], out: &mut Out) {
    let mut ex = CommandExecutor::new();
    let mut now: u64 = 0;
    let mut nth = 0usize;
    out.emit(&json!({"a": "reset", "run": run}));
    for st in steps {
        if let Some(t) = st.get("tick") {
            now += t.as_u64().unwrap_or(1);
            continue;
        }
        let c = &st["c"];
        let argv = render(c);
        nth += 1;
        step_via(&mut ex, run, now, c, &argv, vias[(run + nth) % vias.len()], out);
    }
}

/// Many deadlines coming due between two commands (the active-expiry pass behind set_time).
fn mass_case(run: usize, n: usize, ttl: u64, jump: u64, out: &mut Out) {
    let mut ex = CommandExecutor::new();
    ex.set_time(VirtualTime::from_millis(1000));
    let r = catch(|| {
        for i in 0..n {
            let _ = ex.execute(&parse_argv(&vec![b("SET"), b(&format!("m:{i}")), b("v"), b("PX"), b(&ttl.to_string())]).unwrap());
        }
        let _ = ex.execute(&parse_argv(&vec![b("SET"), b("keep"), b("v")]).unwrap());
        ex.set_time(VirtualTime::from_millis(1000 + jump));
        let dbsize = match ex.execute(&parse_argv(&vec![b("DBSIZE")]).unwrap()) { RespValue::Integer(x) => x, _ => -1 };
        let mut alive = 0;
        let mut persistent = 0;
        for i in (0..n).step_by((n / 64).max(1)) {
            if let RespValue::BulkString(Some(_)) = ex.execute(&parse_argv(&vec![b("GET"), b(&format!("m:{i}"))]).unwrap()) {
                alive += 1;
            }
            if let RespValue::Integer(-1) = ex.execute(&parse_argv(&vec![b("TTL"), b(&format!("m:{i}"))]).unwrap()) {
                persistent += 1;
            }
        }
        // an hour later
        ex.set_time(VirtualTime::from_millis(1000 + jump + 3_600_000));
        let later = match ex.execute(&parse_argv(&vec![b("DBSIZE")]).unwrap()) { RespValue::Integer(x) => x, _ => -1 };
        (dbsize, alive, persistent, later, ex.get_data().len())
    });
    out.emit(&json!({"a": "reset", "run": run}));
    match r {
        Ok((dbsize, alive, persistent, later, held)) => out.emit(&json!({"a": "mass", "run": run, "n": n, "ttl": ttl, "jump": jump, "dbsize": dbsize, "alive": alive, "persistent": persistent, "later": later, "held": held})),
        Err(p) => out.emit(&json!({"a": "mass", "run": run, "n": n, "ttl": ttl, "jump": jump, "dbsize": -1, "alive": -1, "persistent": -1, "later": -1, "held": -1, "panic": p})),
    }
}

pub fn main(args: &[String]) -> i32 {
    let a = Args::parse(args);
    quiet_panics();
    let mut out = Out::create(&a.str("out", "ks_trace.ndjson"));
    if a.pos.first().map(|s| s.as_str()) == Some("mass") {
        let mut run = 0;
        let sizes: Vec<usize> = if a.str("tier", "quick") == "thorough" { vec![10, 1000, 1024, 1025, 1500, 5000, 20000, 100000] } else { vec![10, 1024, 1025, 1500, 5000] };
        for n in sizes {
            for (ttl, jump) in [(5000u64, 60_000u64), (5000, 4999), (5000, 5000)] {
                run += 1;
                mass_case(run, n, ttl, jump, &mut out);
            }
        }
        println!("{{\"events\": {}}}", out.finish());
        return 0;
    }
    match a.pos.first().map(|s| s.as_str()) {
        Some("replay") => {
            for (i, scn) in read_ndjson(&a.pos[1]).iter().enumerate() {
                let vias: Vec<&str> = match a.get("via") {
                    Some("lua") => vec!["call", "pcall"],
                    _ => vec!["direct"],
                };
                replay_one_via(i + 1, scn.as_array().unwrap(), &vias, &mut out);
            }
        }
        Some("record") => {
            let mut gen = Gen::new(a.u64("seed", 1), a.get("bias") == Some("fail"));
            for i in 0..a.usize("n", 50) {
                let vias: Vec<&str> = match a.get("via") {
                    Some("lua") => vec!["call", "pcall", "direct"],
                    _ => vec!["direct"],
                };
                run_one_via(i + 1, &mut gen, a.usize("len", 40), &vias, &mut out);
            }
        }
        _ => {
            eprintln!("usage: vh ks record");
            return 2;
        }
    }
    println!("{{\"events\": {}}}", out.finish());
    0
}
