//! `vh` - conformance harness binding the TLA+ specifications in /verif/spec to the
//! real code of nerdsane/redis-rust (path dependency on /repo, feature `verif-hooks`).
mod ae;
mod clock;
mod conn;
mod crdt;
mod image;
mod ks;
mod lin;
mod node;
mod parse;
mod place;
mod recov;
mod repl;
mod repro;
mod resp;
mod shard;
mod shard_plain;
mod txn;
mod stream;
mod util;
mod wal;
mod walfmt;

/// Counting allocator: total bytes ever requested (for the "no allocation proportional to an
/// unvalidated length" part of C15).
pub static ALLOCATED: std::sync::atomic::AtomicUsize = std::sync::atomic::AtomicUsize::new(0);
struct Counting;
unsafe impl std::alloc::GlobalAlloc for Counting {
    unsafe fn alloc(&self, l: std::alloc::Layout) -> *mut u8 {
        ALLOCATED.fetch_add(l.size(), std::sync::atomic::Ordering::Relaxed);
        std::alloc::System.alloc(l)
    }
    unsafe fn dealloc(&self, p: *mut u8, l: std::alloc::Layout) {
        std::alloc::System.dealloc(p, l)
    }
    unsafe fn realloc(&self, p: *mut u8, l: std::alloc::Layout, n: usize) -> *mut u8 {
        ALLOCATED.fetch_add(n.saturating_sub(l.size()), std::sync::atomic::Ordering::Relaxed);
        std::alloc::System.realloc(p, l, n)
    }
}
#[global_allocator]
static GLOBAL: Counting = Counting;

fn main() {
    let args: Vec<String> = std::env::args().collect();
    if args.len() < 2 {
        eprintln!("usage: vh <module> <args...>");
        std::process::exit(2);
    }
    let rest = &args[2..];
    let code = match args[1].as_str() {
        "selftest" => {
            println!("vh ok");
            0
        }
        "crdt" => crdt::main(rest),
        "wal" => wal::main(rest),
        "stream" => stream::main(rest),
        "recov" => recov::main(rest),
        "repl" => repl::main(rest),
        "clock" => clock::main(rest),
        "ae" => ae::main(rest),
        "place" => place::main(rest),
        "resp" => resp::main(rest),
        "ks" => ks::main(rest),
        "shard" => shard::main(rest),
        "conn" => conn::main(rest),
        "parse" => parse::main(rest),
        "image" => image::main(rest),
        "lin" => lin::main(rest),
        "node" => node::main(rest),
        "repro" => repro::main(rest),
        m => {
            eprintln!("unknown module {m}");
            2
        }
    };
    let _ = rest;
    std::process::exit(code);
}
