//! `vh` - conformance harness binding the TLA+ specifications in /verif/spec to the
//! real code of nerdsane/redis-rust (path dependency on /repo, feature `verif-hooks`).
mod ae;
mod clock;
mod crdt;
mod place;
mod recov;
mod repl;
mod stream;
mod util;
mod wal;
mod walfmt;

fn main() {
    let args: Vec<String> = std::env::args().collect();
    if args.len() < 2 {
        eprintln!("usage: vh <module> <args...>");
        std::process::exit(2);
    }
    let rest = &args[2..];
    let code = match args[1].as_str() {
        "selftest" => {
            println!("vh ok");
            0
        }
        "crdt" => crdt::main(rest),
        "wal" => wal::main(rest),
        "stream" => stream::main(rest),
        "recov" => recov::main(rest),
        "repl" => repl::main(rest),
        "clock" => clock::main(rest),
        "ae" => ae::main(rest),
        "place" => place::main(rest),
        m => {
            eprintln!("unknown module {m}");
            2
        }
    };
    let _ = rest;
    std::process::exit(code);
}
