//! Streaming.tla binding (C12, C13; also used by C11).
//!   vh stream replay <scenarios.ndjson> --out trace
//!   vh stream record --seed S --n N --out trace
//! A scenario is {table, ops:[["push",id]|["flush",fault?]|["compact",fault?]...], conc?}.
use crate::crdt::obs;
use crate::util::*;
use rand::Rng;
use redis_sim::io::TimeSource;
use redis_sim::redis::SDS;
use redis_sim::replication::lattice::{LamportClock, ReplicaId};
use redis_sim::replication::state::{CrdtValue, ReplicatedValue, ReplicationDelta};
use redis_sim::streaming::{
    CompactionConfig, Compactor, InMemoryObjectStore, ListResult, Manifest, ManifestManager, ObjectMeta,
    ObjectStore, RecoveryManager, SegmentReader, StreamingPersistence, WriteBufferConfig,
};
use serde_json::{json, Value};
use std::collections::{BTreeMap, HashMap, VecDeque};
use std::future::Future;
use std::io::{Error as IoError, ErrorKind, Result as IoResult};
use std::pin::Pin;
use std::sync::{Arc, Mutex};
use std::time::Duration;

pub const PREFIX: &str = "p";

#[derive(Clone)]
pub struct HarnessTime(pub Arc<Mutex<u64>>);
impl TimeSource for HarnessTime {
    fn now_millis(&self) -> u64 {
        *self.0.lock().unwrap()
    }
}

#[derive(Default)]
pub struct SInner {
    pub objs: BTreeMap<String, Vec<u8>>,
    pub log: Vec<Value>,
    /// (op index, call class, kind) - fires on the first matching call of that op
    pub faults: Vec<(usize, String, String)>,
    pub cur_op: HashMap<String, usize>, // actor -> current op index
    pub schedule: VecDeque<String>,     // gating order of mutating calls for concurrent runs
    pub done: Vec<String>,
    pub crash_check: bool,
    /// one-shot: after the first successful get of this class ("ckpt", "man", "seg") the store holds this image
    /// instead (another writer published in between)
    pub swap_after: Option<(String, BTreeMap<String, Vec<u8>>)>,
    /// the next put is held (after its fault was drawn) until `release`: another task's calls overtake it
    pub hold_next_put: bool,
    pub held: bool,
    pub release: bool,
}

#[derive(Clone)]
pub struct ScriptedObjectStore {
    pub inner: Arc<Mutex<SInner>>,
    pub actor: String,
    pub notify: Arc<tokio::sync::Notify>,
}

fn classify(key: &str) -> (&'static str, i64) {
    if key.ends_with("manifest.json.tmp") || key.ends_with(".tmp") {
        ("tmp", -1)
    } else if key.ends_with("manifest.json") {
        ("man", -1)
    } else if let Some(p) = key.rfind("segment-") {
        let id = key[p + 8..].trim_end_matches(".seg").parse::<i64>().unwrap_or(-1);
        ("seg", id)
    } else if key.contains("checkpoint") {
        ("ckpt", -1)
    } else {
        ("other", -1)
    }
}

/// Real recovery on a copy of the image, folded with the real merge.
pub async fn recover_state(objs: &BTreeMap<String, Vec<u8>>) -> Value {
    let st = InMemoryObjectStore::new();
    for (k, v) in objs {
        st.put(k, v).await.unwrap();
    }
    let rm = RecoveryManager::new(st, PREFIX, 1);
    match rm.recover().await {
        Ok(rs) => json!({"ok": true, "state": fold_state(rs.checkpoint_state, &rs.deltas)}),
        Err(e) => json!({"ok": false, "err": e.to_string(), "state": []}),
    }
}

pub fn fold_state(ckpt: Option<HashMap<String, ReplicatedValue>>, deltas: &[ReplicationDelta]) -> Value {
    let mut m: BTreeMap<String, ReplicatedValue> = BTreeMap::new();
    if let Some(c) = ckpt {
        for (k, v) in c {
            m.insert(k, v);
        }
    }
    for d in deltas {
        match m.get(&d.key) {
            Some(cur) => {
                let merged = cur.merge(&d.value);
                m.insert(d.key.clone(), merged);
            }
            None => {
                m.insert(d.key.clone(), d.value.clone());
            }
        }
    }
    json!(m.iter().map(|(k, v)| json!([k, obs(v)])).collect::<Vec<_>>())
}

impl ScriptedObjectStore {
    pub fn new(crash_check: bool) -> Self {
        ScriptedObjectStore {
            inner: Arc::new(Mutex::new(SInner { crash_check, ..Default::default() })),
            actor: "F".into(),
            notify: Arc::new(tokio::sync::Notify::new()),
        }
    }
    pub fn as_actor(&self, a: &str) -> Self {
        ScriptedObjectStore { inner: self.inner.clone(), actor: a.into(), notify: self.notify.clone() }
    }
    pub fn log(&self, v: Value) {
        self.inner.lock().unwrap().log.push(v);
    }
    pub fn finish_actor(&self) {
        self.inner.lock().unwrap().done.push(self.actor.clone());
        self.notify.notify_waiters();
    }
    /// Wait for this actor's turn (concurrent runs only).
    async fn gate(&self) {
        loop {
            {
                let mut g = self.inner.lock().unwrap();
                loop {
                    match g.schedule.front().cloned() {
                        None => return,
                        Some(a) if a == self.actor => {
                            g.schedule.pop_front();
                            return;
                        }
                        Some(a) if g.done.contains(&a) => {
                            g.schedule.pop_front();
                        }
                        Some(_) => break,
                    }
                }
                if !g.schedule.contains(&self.actor) {
                    // no turn reserved for us any more: run after the schedule is exhausted
                }
            }
            tokio::task::yield_now().await;
        }
    }
    fn fault_for(&self, class: &str) -> Option<String> {
        let mut g = self.inner.lock().unwrap();
        let op = *g.cur_op.get(&self.actor).unwrap_or(&0);
        if let Some(p) = g.faults.iter().position(|(o, c, _)| *o == op && c == class) {
            let (o, c, k) = g.faults.remove(p);
            // "fail*3": the fault stays armed for three consecutive calls of the class (a read that keeps failing: every
            // retry of an implementation that retries meets it again)
            if let Some((base, n)) = k.rsplit_once('*') {
                let n: usize = n.parse().unwrap_or(1);
                if n > 1 {
                    g.faults.insert(p, (o, c, format!("{base}*{}", n - 1)));
                }
                return Some(base.to_string());
            }
            return Some(k);
        }
        None
    }
    async fn after_mutation(&self) {
        let (check, img) = {
            let g = self.inner.lock().unwrap();
            (g.crash_check, g.objs.clone())
        };
        if check {
            let mut v = recover_state(&img).await;
            v["a"] = json!("crashcheck");
            self.inner.lock().unwrap().log.push(v);
        }
        self.notify.notify_waiters();
    }
}

fn io_err(msg: &str) -> IoError {
    IoError::new(ErrorKind::Other, msg.to_string())
}

impl ObjectStore for ScriptedObjectStore {
    fn put<'a>(&'a self, key: &'a str, data: &'a [u8]) -> Pin<Box<dyn Future<Output = IoResult<()>> + Send + 'a>> {
        Box::pin(async move {
            self.gate().await;
            let (kind, id) = classify(key);
            // "put_tmp" is the write of the new manifest, whichever key an implementation writes it to
            let class = if kind == "man" { "put_tmp".to_string() } else { format!("put_{kind}") };
            let fault = self.fault_for(&class);
            let hold = {
                let mut g = self.inner.lock().unwrap();
                let h = g.hold_next_put;
                if h {
                    g.hold_next_put = false;
                    g.held = true;
                }
                h
            };
            if hold {
                for _ in 0..100_000 {
                    if self.inner.lock().unwrap().release {
                        break;
                    }
                    tokio::task::yield_now().await;
                }
            }
            let mut ev = json!({"a": "call", "who": self.actor, "op": "put", "key": key, "kind": kind, "id": id});
            if kind == "man" {
                // a manifest written in place becomes current at once: log what it lists
                let segs: Vec<u64> = serde_json::from_slice::<Manifest>(data).ok().map(|m| m.segments.iter().map(|s| s.id).collect()).unwrap_or_default();
                ev["segs"] = json!(segs);
            }
            let res = match fault.as_deref() {
                None => {
                    self.inner.lock().unwrap().objs.insert(key.to_string(), data.to_vec());
                    ev["res"] = json!("ok");
                    if kind == "seg" {
                        // what the segment holds (for the judge: a compaction's output against its inputs)
                        if let Ok(ds) = SegmentReader::open(data).and_then(|r| r.read_all()) {
                            ev["deltas"] = json!(ds.iter().map(|d| json!([d.key, obs(&d.value)])).collect::<Vec<_>>());
                        }
                    }
                    if kind == "ckpt" {
                        // which keys the checkpoint holds (a checkpoint is outside every compaction, like a segment that was not selected)
                        if let Ok(cd) = redis_sim::streaming::CheckpointReader::open(data).and_then(|r| r.load()) {
                            let mut ks: Vec<&String> = cd.state.keys().collect();
                            ks.sort();
                            ev["ckeys"] = json!(ks);
                        }
                    }
                    Ok(())
                }
                Some("partial") => {
                    self.inner.lock().unwrap().objs.insert(key.to_string(), data[..data.len() / 2].to_vec());
                    ev["res"] = json!("partial");
                    Err(io_err("injected partial put"))
                }
                Some(_) => {
                    ev["res"] = json!("fail");
                    Err(io_err("injected put failure"))
                }
            };
            self.log(ev);
            self.after_mutation().await;
            res
        })
    }
    fn get<'a>(&'a self, key: &'a str) -> Pin<Box<dyn Future<Output = IoResult<Vec<u8>>> + Send + 'a>> {
        Box::pin(async move {
            self.gate().await;
            let (kind, id) = classify(key);
            let fault = self.fault_for(&format!("get_{kind}"));
            let r = if fault.as_deref() == Some("corrupt") {
                self.inner.lock().unwrap().objs.get(key).cloned().map(|mut d| {
                    // the damaged position moves from one injected read to the next (record area of the object)
                    static NTH: std::sync::atomic::AtomicUsize = std::sync::atomic::AtomicUsize::new(0);
                    let nth = NTH.fetch_add(1, std::sync::atomic::Ordering::Relaxed);
                    let at = if d.len() > 72 { 40 + (d.len() - 64) * [4, 6, 2, 7, 5, 3, 1][nth % 7] / 8 } else { d.len().saturating_sub(1) };
                    if !d.is_empty() {
                        d[at] ^= 0x10;
                    }
                    d
                }).ok_or_else(|| IoError::new(ErrorKind::NotFound, format!("Key not found: {key}")))
            } else if fault.is_some() {
                Err(io_err("injected get failure"))
            } else {
                self.inner
                    .lock()
                    .unwrap()
                    .objs
                    .get(key)
                    .cloned()
                    .ok_or_else(|| IoError::new(ErrorKind::NotFound, format!("Key not found: {key}")))
            };
            if r.is_ok() {
                let mut g = self.inner.lock().unwrap();
                if g.swap_after.as_ref().map(|(k, _)| k == kind).unwrap_or(false) {
                    let (_, img) = g.swap_after.take().unwrap();
                    g.objs = img;
                }
            }
            self.log(json!({"a": "call", "who": self.actor, "op": "get", "key": key, "kind": kind, "id": id,
                            "res": if fault.as_deref() == Some("corrupt") { "corrupt" } else if r.is_ok() { "ok" } else if fault.is_some() { "fail" } else { "notfound" }}));
            r
        })
    }
    fn exists<'a>(&'a self, key: &'a str) -> Pin<Box<dyn Future<Output = IoResult<bool>> + Send + 'a>> {
        Box::pin(async move { Ok(self.inner.lock().unwrap().objs.contains_key(key)) })
    }
    fn delete<'a>(&'a self, key: &'a str) -> Pin<Box<dyn Future<Output = IoResult<()>> + Send + 'a>> {
        Box::pin(async move {
            self.gate().await;
            let (kind, id) = classify(key);
            let fault = self.fault_for(&format!("delete_{kind}"));
            let r = if fault.is_some() {
                Err(io_err("injected delete failure"))
            } else {
                self.inner.lock().unwrap().objs.remove(key);
                Ok(())
            };
            self.log(json!({"a": "call", "who": self.actor, "op": "delete", "key": key, "kind": kind, "id": id,
                            "res": if r.is_ok() { "ok" } else { "fail" }}));
            self.after_mutation().await;
            r
        })
    }
    fn list<'a>(&'a self, prefix: &'a str, _c: Option<&'a str>) -> Pin<Box<dyn Future<Output = IoResult<ListResult>> + Send + 'a>> {
        Box::pin(async move {
            let g = self.inner.lock().unwrap();
            let objects = g
                .objs
                .iter()
                .filter(|(k, _)| k.starts_with(prefix))
                .map(|(k, v)| ObjectMeta { key: k.clone(), size_bytes: v.len() as u64, created_at_ms: 0, etag: None })
                .collect();
            Ok(ListResult { objects, continuation_token: None })
        })
    }
    fn rename<'a>(&'a self, from: &'a str, to: &'a str) -> Pin<Box<dyn Future<Output = IoResult<()>> + Send + 'a>> {
        Box::pin(async move {
            self.gate().await;
            let fault = self.fault_for("rename");
            let segs: Vec<u64> = {
                let g = self.inner.lock().unwrap();
                g.objs
                    .get(from)
                    .and_then(|d| serde_json::from_slice::<Manifest>(d).ok())
                    .map(|m| m.segments.iter().map(|s| s.id).collect())
                    .unwrap_or_default()
            };
            let mut ev = json!({"a": "call", "who": self.actor, "op": "rename", "key": to, "kind": "man", "id": -1, "segs": segs});
            let apply = |s: &Self| {
                let mut g = s.inner.lock().unwrap();
                match g.objs.remove(from) {
                    Some(o) => {
                        g.objs.insert(to.to_string(), o);
                        true
                    }
                    None => false,
                }
            };
            let res = match fault.as_deref() {
                None => {
                    if apply(self) {
                        ev["res"] = json!("ok");
                        Ok(())
                    } else {
                        ev["res"] = json!("fail");
                        Err(IoError::new(ErrorKind::NotFound, "Source key not found"))
                    }
                }
                Some("applied") => {
                    apply(self);
                    ev["res"] = json!("applied");
                    Err(io_err("injected rename error after applying"))
                }
                Some(_) => {
                    ev["res"] = json!("fail");
                    Err(io_err("injected rename failure"))
                }
            };
            self.log(ev);
            self.after_mutation().await;
            res
        })
    }
    fn head<'a>(&'a self, key: &'a str) -> Pin<Box<dyn Future<Output = IoResult<ObjectMeta>> + Send + 'a>> {
        Box::pin(async move {
            self.inner
                .lock()
                .unwrap()
                .objs
                .get(key)
                .map(|o| ObjectMeta { key: key.to_string(), size_bytes: o.len() as u64, created_at_ms: 0, etag: None })
                .ok_or_else(|| IoError::new(ErrorKind::NotFound, format!("Key not found: {key}")))
        })
    }
}

// ---------------------------------------------------------------------------------------------
/// Concrete deltas. spec: {"id", "k", "t": "set"|"del"|"hset"|"hdel", "f"?, "v"?, "ts", "r", "pad"?}
pub fn mk_delta(d: &Value) -> ReplicationDelta {
    let k = d["k"].as_str().unwrap().to_string();
    let ts = d["ts"].as_u64().unwrap();
    let r = ReplicaId::new(d["r"].as_u64().unwrap_or(1));
    let v = d["v"].as_str().unwrap_or("v").to_string();
    let pad = d["pad"].as_u64().unwrap_or(0) as usize;
    let val = format!("{}{}", v, "x".repeat(pad));
    let mut clk = LamportClock { time: ts - 1, replica_id: r };
    let mut rv = ReplicatedValue::new(r);
    match d["t"].as_str().unwrap() {
        "set" => rv = ReplicatedValue::with_value(SDS::from_str(&val), LamportClock { time: ts, replica_id: r }),
        "del" => rv.delete(&mut clk),
        "hset" => {
            rv.crdt = CrdtValue::new_hash();
            rv.hash_set(d["f"].as_str().unwrap().to_string(), SDS::from_str(&val), &mut clk)
        }
        "hdel" => {
            rv.crdt = CrdtValue::new_hash();
            rv.hash_set(d["f"].as_str().unwrap().to_string(), SDS::from_str("gone"), &mut LamportClock { time: ts.saturating_sub(2), replica_id: r });
            rv.hash_delete(d["f"].as_str().unwrap(), &mut clk)
        }
        t => panic!("delta type {t}"),
    }
    if let Some(e) = d["exp"].as_u64() {
        rv.expiry_ms = Some(e);
    }
    ReplicationDelta::new(k, rv, r)
}

/// The delta tables the TLC-exported scenarios refer to by id (they implement DeltasA / DeltasT).
pub fn table(name: &str) -> Vec<Value> {
    match name {
        "A" => vec![
            json!({"id": 1, "k": "a", "t": "hset", "f": "f1", "v": "1", "ts": 1, "r": 1}),
            json!({"id": 2, "k": "a", "t": "hset", "f": "f2", "v": "2", "ts": 2, "r": 2}),
            json!({"id": 3, "k": "b", "t": "set", "v": "g", "ts": 1, "r": 1}),
        ],
        "T" => vec![
            json!({"id": 1, "k": "a", "t": "set", "v": "old", "ts": 1, "r": 1}),
            json!({"id": 2, "k": "a", "t": "del", "ts": 2, "r": 1}),
            json!({"id": 3, "k": "b", "t": "set", "v": "g", "ts": 3, "r": 2}),
            json!({"id": 4, "k": "a", "t": "set", "v": "new", "ts": 4, "r": 2}),
        ],
        _ => vec![],
    }
}

fn wb_config_with(max_deltas: usize) -> WriteBufferConfig {
    WriteBufferConfig { max_deltas, ..wb_config() }
}

fn wb_config() -> WriteBufferConfig {
    WriteBufferConfig {
        flush_interval: Duration::from_secs(3600),
        max_size_bytes: 1 << 30,
        max_deltas: 1 << 30,
        backpressure_threshold_bytes: 1 << 30,
        compression_enabled: false,
    }
}

fn parse_fault(v: &Value) -> Option<(String, String)> {
    // "put_seg:partial"
    let s = v.as_str()?;
    if s == "none" {
        return None;
    }
    let (c, k) = s.split_once(':')?;
    Some((c.to_string(), k.to_string()))
}

thread_local! {
    /// the scenario's long-lived compactor (scenarios with "pc": true): the worker keeps ONE Compactor for its whole life, so
    /// whatever a call leaves behind in it is there for the next call
    static PC: std::cell::RefCell<Option<Compactor<ScriptedObjectStore, HarnessTime>>> = std::cell::RefCell::new(None);
}

fn compaction_config(scn: &Value) -> (CompactionConfig, u64, u64) {
    let now = scn["now"].as_u64().unwrap_or(1000);
    let ttl = scn["ttl"].as_u64().unwrap_or(1000);
    (CompactionConfig {
        target_segment_size: scn["target"].as_u64().unwrap_or(1 << 20) as usize,
        max_segments: 2,
        min_segments_to_compact: 2,
        max_segments_per_compaction: scn["maxsel"].as_u64().unwrap_or(10) as usize,
        tombstone_ttl: Duration::from_millis(ttl),
        compression_enabled: false,
    }, now, ttl)
}

/// `needs_compaction()` on the long-lived compactor, some time before the compaction itself (a monitoring probe, a scheduler
/// that checks now and compacts later): it reads, it decides nothing
async fn do_check(store: &ScriptedObjectStore, scn: &Value, opi: usize) {
    let cs = store.as_actor("C");
    store.inner.lock().unwrap().cur_op.insert("C".into(), opi);
    let (cfg, now, _) = compaction_config(scn);
    let c = PC.with(|p| p.borrow_mut().take()).unwrap_or_else(|| {
        let mm = ManifestManager::new(cs.clone(), PREFIX);
        Compactor::with_time_source(Arc::new(cs.clone()), PREFIX.to_string(), mm, cfg, HarnessTime(Arc::new(Mutex::new(now))))
    });
    let _ = c.needs_compaction().await;
    PC.with(|p| *p.borrow_mut() = Some(c));
    cs.finish_actor();
}

async fn do_compact(store: &ScriptedObjectStore, scn: &Value, opi: usize, fault: Option<(String, String)>) {
    if scn["pc"].as_bool().unwrap_or(false) {
        let cs = store.as_actor("C");
        {
            let mut g = store.inner.lock().unwrap();
            g.cur_op.insert("C".into(), opi);
            if let Some((c, k)) = fault {
                g.faults.push((opi, c, k));
            }
        }
        let (cfg, now, ttl) = compaction_config(scn);
        store.log(json!({"a": "compact_begin", "gc_before": now.saturating_sub(ttl)}));
        let mut c = PC.with(|p| p.borrow_mut().take()).unwrap_or_else(|| {
            let mm = ManifestManager::new(cs.clone(), PREFIX);
            Compactor::with_time_source(Arc::new(cs.clone()), PREFIX.to_string(), mm, cfg, HarnessTime(Arc::new(Mutex::new(now))))
        });
        let r = if opi % 2 == 1 { c.compact_if_needed().await.map(|_| ()) } else { c.compact().await.map(|_| ()) };
        store.log(json!({"a": "compact_end", "ok": r.is_ok(), "res": match &r { Ok(_) => "ok".to_string(), Err(e) => e.to_string() }}));
        PC.with(|p| *p.borrow_mut() = Some(c));
        cs.finish_actor();
        return;
    }
    let cs = store.as_actor("C");
    {
        let mut g = store.inner.lock().unwrap();
        g.cur_op.insert("C".into(), opi);
        if let Some((c, k)) = fault {
            g.faults.push((opi, c, k));
        }
    }
    let now = scn["now"].as_u64().unwrap_or(1000);
    let ttl = scn["ttl"].as_u64().unwrap_or(1000);
    let cfg = CompactionConfig {
        target_segment_size: scn["target"].as_u64().unwrap_or(1 << 20) as usize,
        max_segments: 2,
        min_segments_to_compact: 2,
        max_segments_per_compaction: scn["maxsel"].as_u64().unwrap_or(10) as usize,
        tombstone_ttl: Duration::from_millis(ttl),
        compression_enabled: false,
    };
    store.log(json!({"a": "compact_begin", "gc_before": now.saturating_sub(ttl)}));
    let mm = ManifestManager::new(cs.clone(), PREFIX);
    let mut c = Compactor::with_time_source(Arc::new(cs.clone()), PREFIX.to_string(), mm, cfg, HarnessTime(Arc::new(Mutex::new(now))));
    // every other compaction goes through the worker's entry point (needs_compaction, then compact): same rules
    let r = if opi % 2 == 1 { c.compact_if_needed().await.map(|_| ()) } else { c.compact().await.map(|_| ()) };
    store.log(json!({"a": "compact_end", "ok": r.is_ok(), "res": match &r { Ok(_) => "ok".to_string(), Err(e) => e.to_string() }}));
    cs.finish_actor();
}

async fn run_scenario_async(scn: Value, store: ScriptedObjectStore) {
    let tbl: Vec<Value> = match scn["table"].as_str() {
        Some(n) => table(n),
        None => scn["deltas"].as_array().cloned().unwrap_or_default(),
    };
    let by_id: HashMap<u64, Value> = tbl.iter().map(|d| (d["id"].as_u64().unwrap(), d.clone())).collect();
    let fs = store.as_actor("F");
    // "maxd": the buffer's max_deltas (a flush of a longer backlog may be cut into several segments)
    let wbc = match scn["maxd"].as_u64() {
        Some(n) if n > 0 => wb_config_with(n as usize),
        _ => wb_config(),
    };
    let mut sp = StreamingPersistence::new(Arc::new(fs.clone()), PREFIX.to_string(), 1, wbc).await.unwrap();
    let ops = scn["ops"].as_array().cloned().unwrap_or_default();
    PC.with(|p| *p.borrow_mut() = None);
    for (i, op) in ops.iter().enumerate() {
        let opi = i + 1;
        store.inner.lock().unwrap().cur_op.insert("F".into(), opi);
        match op[0].as_str().unwrap() {
            "push" => {
                let d = &by_id[&op[1].as_u64().unwrap()];
                let delta = mk_delta(d);
                let rv = obs(&delta.value);
                let r = sp.push(delta);
                store.log(json!({"a": "push", "id": d["id"], "k": d["k"], "rv": rv, "ok": r.is_ok()}));
            }
            "flush" => {
                if let Some((c, k)) = parse_fault(&op[1]) {
                    store.inner.lock().unwrap().faults.push((opi, c, k));
                }
                store.log(json!({"a": "flush_begin"}));
                let r = sp.flush().await;
                store.log(json!({"a": "flush_end", "ok": r.is_ok(), "pending": sp.pending_count(),
                                 "err": r.err().map(|e| e.to_string()).unwrap_or_default()}));
            }
            "compact" => do_compact(&store, &scn, opi, parse_fault(&op[1])).await,
            "check" => do_check(&store, &scn, opi).await,
            // install a checkpoint of everything recoverable (what a checkpoint job would do): checkpoint object,
            // manifest.compact_segments, manifest saved; no faults (actor "K")
            "ckpt" => {
                let ks = store.as_actor("K");
                let rm = RecoveryManager::new(ks.clone(), PREFIX, 1);
                if let Ok(rs) = rm.recover().await {
                    let mut state: HashMap<String, redis_sim::replication::state::ReplicatedValue> = rs.checkpoint_state.unwrap_or_default();
                    for d in rs.deltas {
                        let v = match state.get(&d.key) {
                            Some(c) => c.merge(&d.value),
                            None => d.value.clone(),
                        };
                        state.insert(d.key.clone(), v);
                    }
                    let mm = ManifestManager::new(ks.clone(), PREFIX);
                    if let Ok(mut manifest) = mm.load().await {
                        let last = manifest.segments.iter().map(|x| x.id).max();
                        if let Some(last) = last {
                            let n = state.len() as u64;
                            if let Ok(data) = redis_sim::streaming::CheckpointWriter::new(redis_sim::streaming::Compression::None).write(state, 4242, last) {
                                let key = format!("{}/checkpoints/chk-{:016}.chk", PREFIX, 4242 + opi);
                                if ks.put(&key, &data).await.is_ok() {
                                    manifest.compact_segments(redis_sim::streaming::CheckpointInfo { key, timestamp_ms: 4242, key_count: n, last_segment_id: last });
                                    let _ = mm.save(&manifest).await;
                                }
                            }
                        }
                    }
                }
                ks.finish_actor();
            }
            // flush and compaction as two tasks; their mutating calls are gated in `sched` order
            "conc" => {
                let sched: VecDeque<String> = op[1].as_array().unwrap().iter().map(|s| s.as_str().unwrap().to_string()).collect();
                {
                    let mut g = store.inner.lock().unwrap();
                    g.schedule = sched;
                    g.done.clear();
                }
                store.log(json!({"a": "flush_begin"}));
                store.log(json!({"a": "compact_begin", "gc_before": scn["now"].as_u64().unwrap_or(1000).saturating_sub(scn["ttl"].as_u64().unwrap_or(1000))}));
                // (compact_begin is logged again inside do_compact; harmless)
                let st2 = store.clone();
                let scn2 = scn.clone();
                let ctask = tokio::task::spawn_local(async move { do_compact(&st2, &scn2, opi, None).await });
                let r = sp.flush().await;
                fs.finish_actor();
                store.log(json!({"a": "flush_end", "ok": r.is_ok(), "pending": sp.pending_count(),
                                 "err": r.err().map(|e| e.to_string()).unwrap_or_default()}));
                let _ = ctask.await;
                store.inner.lock().unwrap().schedule.clear();
                // a last look at the final image
                let img = store.inner.lock().unwrap().objs.clone();
                let mut v = recover_state(&img).await;
                v["a"] = json!("crashcheck");
                store.log(v);
            }
            o => panic!("op {o}"),
        }
    }
}

pub fn run_scenario(run: usize, scn: &Value, out: &mut Out) {
    let store = ScriptedObjectStore::new(true);
    out.emit(&json!({"a": "reset", "run": run, "scn": scn}));
    let rt = tokio::runtime::Builder::new_current_thread().enable_all().build().unwrap();
    let st = store.clone();
    let sc = scn.clone();
    let res = catch(move || {
        let local = tokio::task::LocalSet::new();
        local.block_on(&rt, run_scenario_async(sc, st));
    });
    let mut g = store.inner.lock().unwrap();
    for mut ev in std::mem::take(&mut g.log) {
        ev["run"] = json!(run);
        out.emit(&ev);
    }
    if let Err(p) = res {
        out.emit(&json!({"a": "panic", "run": run, "msg": p}));
    }
}

fn random_scenario(rng: &mut impl Rng, i: usize, cheavy: bool) -> Value {
    // deltas: a hash key written by several replicas, register keys with overwrites and deletes
    let mut deltas = Vec::new();
    let n = rng.gen_range(3..=8);
    let mut ts = 0u64;
    let mut used: std::collections::HashSet<(u64, u64)> = Default::default();
    for id in 1..=n {
        ts += rng.gen_range(0..=2);
        let r = rng.gen_range(1..=3);
        // a replica never issues one stamp twice
        while !used.insert((ts, r)) || !used.insert((ts + 1, r)) || !used.insert((ts + 2, r)) {
            ts += 1;
        }
        let ts1 = ts.max(1);
        let d = match rng.gen_range(0..6) {
            0 | 1 => json!({"id": id, "k": "h", "t": "hset", "f": format!("f{}", rng.gen_range(1..=3)), "v": format!("v{id}"), "ts": ts1 + 1, "r": r}),
            2 => json!({"id": id, "k": "h", "t": "hdel", "f": format!("f{}", rng.gen_range(1..=3)), "ts": ts1 + 2, "r": r}),
            3 => json!({"id": id, "k": format!("s{}", rng.gen_range(1..=2)), "t": "del", "ts": ts1 + 1, "r": r}),
            _ => json!({"id": id, "k": format!("s{}", rng.gen_range(1..=2)), "t": "set", "v": format!("v{id}"), "ts": ts1 + 1, "r": r,
                        "pad": if i % 40 == 7 && id == 2 { 17 << 20 } else if rng.gen_range(0..5) == 0 { 300 } else { 0 }}),
        };
        deltas.push(d);
    }
    let faults = ["none", "none", "get_man:fail", "put_seg:fail", "put_seg:partial", "put_tmp:fail", "put_tmp:partial", "rename:fail", "rename:applied",
                  "get_man:fail*3", "put_seg:fail*3", "put_tmp:fail*2"];
    let cfaults = ["none", "none", "get_man:fail", "get_seg:fail", "get_seg:corrupt", "put_seg:fail", "put_seg:partial", "put_tmp:fail", "rename:fail", "rename:applied", "delete_seg:fail",
                   "get_seg:fail*2", "get_seg:fail*3", "get_seg:fail*5", "get_man:fail*3", "get_seg:corrupt*3", "put_seg:fail*3", "delete_seg:fail*3"];
    let mut ops = Vec::new();
    // one scenario in three keeps one compactor for its whole life and probes `needs_compaction` now and then
    let pc = rng.gen_range(0..3) == 0;
    for id in 1..=n {
        ops.push(json!(["push", id]));
        if pc && rng.gen_range(0..3) == 0 {
            ops.push(json!(["check", "none"]));
        }
        if rng.gen_range(0..3) == 0 {
            ops.push(json!(["flush", faults[rng.gen_range(0..faults.len())]]));
        }
        if rng.gen_range(0..if cheavy { 2 } else { 5 }) == 0 {
            if cheavy {
                ops.push(json!(["flush", "none"]));
            }
            ops.push(json!(["compact", cfaults[rng.gen_range(0..cfaults.len())]]));
        }
        if rng.gen_range(0..12) == 0 {
            ops.push(json!(["flush", "none"]));
            ops.push(json!(["ckpt", "none"]));
        }
    }
    ops.push(json!(["flush", "none"]));
    ops.push(json!(["compact", cfaults[rng.gen_range(0..cfaults.len())]]));
    ops.push(json!(["flush", "none"]));
    // tombstone GC horizon in the code's own reading (Lamport time as ms): now - ttl
    let now = 1000;
    let ttl = if i % 3 == 0 { 1000 - rng.gen_range(0..6) } else { 1000 };
    // every fifth scenario: a buffer limit below the backlog (a flush may be cut into several segments)
    let maxd = if i % 5 == 0 { rng.gen_range(1..=3) } else { 0 };
    json!({"deltas": deltas, "ops": ops, "now": now, "ttl": ttl, "maxd": maxd, "pc": pc,
           "target": if i % 4 == 0 { 250 } else { 1 << 20 }, "maxsel": rng.gen_range(2..=5)})
}

/// The second write buffer of the repository (write_buffer.rs: WriteBuffer::push / flush, used by the
/// delta-sink persistence worker): pushes and flushes with a failing segment upload now and then.
/// C12's last sentence applies to it as it does to StreamingPersistence: a failed flush must keep
/// what it took.  ops: "p" push the next delta (key wk<n>), "f" flush; faults: [op index, kind].
async fn run_wbuf_async(scn: Value, store: ScriptedObjectStore) {
    use redis_sim::streaming::WriteBuffer;
    let ops: Vec<String> = scn["ops"].as_array().unwrap().iter().map(|o| o.as_str().unwrap().to_string()).collect();
    {
        let mut g = store.inner.lock().unwrap();
        for f in scn["faults"].as_array().cloned().unwrap_or_default() {
            g.faults.push((f[0].as_u64().unwrap() as usize, "put_seg".into(), f[1].as_str().unwrap().to_string()));
        }
    }
    let mut cfg = wb_config();
    if let Some(bp) = scn["backpressure"].as_u64() {
        cfg.backpressure_threshold_bytes = bp as usize;
    }
    let wb = Arc::new(WriteBuffer::new(Arc::new(store.clone()), "wb".to_string(), cfg));
    let seg_ids = |store: &ScriptedObjectStore, key: &str| -> Option<Vec<u64>> {
        let data = store.inner.lock().unwrap().objs.get(key).cloned()?;
        let ds = SegmentReader::open(&data).and_then(|r| r.read_all()).ok()?;
        Some(ds.iter().filter_map(|d| d.key.strip_prefix("wk").and_then(|x| x.parse::<u64>().ok())).collect())
    };
    let mut n = 0u64;
    for (i, op) in ops.iter().enumerate() {
        store.inner.lock().unwrap().cur_op.insert("F".into(), i + 1);
        match op.as_str() {
            // two flushes overlap (the flush worker and the delta-sink worker share the buffer): A takes the buffer and
            // is held inside its upload (a scripted fault, if any, is A's); one more delta arrives; B takes it, uploads
            // and returns; then A's upload completes or fails
            "c" => {
                {
                    let mut g = store.inner.lock().unwrap();
                    g.hold_next_put = true;
                    g.held = false;
                    g.release = false;
                }
                let wa = wb.clone();
                let ta = tokio::spawn(async move { wa.flush().await });
                for _ in 0..10_000 {
                    if store.inner.lock().unwrap().held || ta.is_finished() {
                        break;
                    }
                    tokio::task::yield_now().await;
                }
                let a_held = store.inner.lock().unwrap().held;
                store.inner.lock().unwrap().hold_next_put = false;
                n += 1;
                let d = mk_delta(&json!({"k": format!("wk{n}"), "t": "set", "v": format!("v{n}"), "ts": n, "r": 1}));
                let y_ok = wb.push(d).is_ok();
                let rb = wb.flush().await;
                store.inner.lock().unwrap().release = true;
                let ra = ta.await;
                let side = |r: &Result<Option<String>, String>| match r {
                    Ok(Some(k)) => json!({"ok": true, "seg": seg_ids(&store, k).unwrap_or_default(), "unreadable": seg_ids(&store, k).is_none()}),
                    Ok(None) => json!({"ok": true, "seg": [], "unreadable": false}),
                    Err(_) => json!({"ok": false, "seg": [], "unreadable": false}),
                };
                let ra2: Result<Option<String>, String> = match ra { Ok(r) => r.map_err(|e| e.to_string()), Err(e) => Err(format!("task: {e}")) };
                let rb2: Result<Option<String>, String> = rb.map_err(|e| e.to_string());
                store.log(json!({"a": "wconc", "y": n, "y_ok": y_ok, "held": a_held, "fa": side(&ra2), "fb": side(&rb2), "pending": wb.pending_count()}));
            }
            "p" => {
                n += 1;
                let d = mk_delta(&json!({"k": format!("wk{n}"), "t": "set", "v": format!("v{n}"), "ts": n, "r": 1}));
                let r = wb.push(d);
                store.log(json!({"a": "wpush", "id": n, "ok": r.is_ok(), "pending": wb.pending_count()}));
            }
            _ => {
                let r = wb.flush().await;
                let mut ev = json!({"a": "wflush", "ok": r.is_ok(), "pending": wb.pending_count(), "key": Value::Null, "seg": []});
                if let Ok(Some(key)) = &r {
                    ev["key"] = json!(key);
                    let data = store.inner.lock().unwrap().objs.get(key).cloned();
                    match data.map(|d| SegmentReader::open(&d).and_then(|r| r.read_all())) {
                        Some(Ok(ds)) => ev["seg"] = json!(ds.iter().filter_map(|d| d.key.strip_prefix("wk").and_then(|x| x.parse::<u64>().ok())).collect::<Vec<_>>()),
                        _ => ev["unreadable"] = json!(true),
                    }
                }
                store.log(ev);
            }
        }
    }
    // audit: what the segments in the store hold at the end (a segment a flush reported written stays as written)
    let keys: Vec<String> = store.inner.lock().unwrap().objs.keys().filter(|k| k.contains("segment-")).cloned().collect();
    let mut stored: Vec<u64> = Vec::new();
    for k in keys {
        stored.extend(seg_ids(&store, &k).unwrap_or_default());
    }
    stored.sort();
    store.log(json!({"a": "waudit", "stored": stored}));
}

pub fn run_wbuf(run: usize, scn: &Value, out: &mut Out) {
    let store = ScriptedObjectStore::new(false);
    out.emit(&json!({"a": "reset", "run": run, "scn": scn}));
    let rt = tokio::runtime::Builder::new_current_thread().enable_all().start_paused(true).build().unwrap();
    let st2 = store.clone();
    let scn2 = scn.clone();
    let res = catch(move || rt.block_on(run_wbuf_async(scn2, st2)));
    let mut g = store.inner.lock().unwrap_or_else(|p| p.into_inner());
    for mut ev in std::mem::take(&mut g.log) {
        if ev["a"] == "call" {
            continue;
        }
        ev["run"] = json!(run);
        out.emit(&ev);
    }
    if let Err(p) = res {
        out.emit(&json!({"a": "panic", "run": run, "msg": p}));
    }
}

fn random_wbuf(rng: &mut impl Rng) -> Value {
    let n = rng.gen_range(2..=12usize);
    let ops: Vec<&str> = (0..n).map(|_| ["p", "p", "p", "f", "p", "f", "c"][rng.gen_range(0..7)]).collect();
    let mut faults = Vec::new();
    for (i, o) in ops.iter().enumerate() {
        if (*o == "f" || *o == "c") && rng.gen_range(0..3) == 0 {
            let kind = ["fail", "partial"][rng.gen_range(0..2)];
            faults.push(json!([i + 1, kind]));
        }
    }
    let mut scn = json!({"ops": ops, "faults": faults});
    if rng.gen_range(0..5) == 0 {
        scn["backpressure"] = json!(rng.gen_range(100..400));
    }
    scn
}

/// The production pipeline around StreamingPersistence (integration.rs): delta sink -> bridge task -> persistence
/// actor, flushing by itself when the buffer thresholds are reached and once more at graceful shutdown.  No flush
/// boundary is visible from outside, so every crash image is judged by the call-level rules only (recovery
/// succeeds, the manifest is sound, nothing is invented); after a graceful shutdown of a run without faults the
/// trace ends with a confirmation of everything sent and a last crash image.
async fn run_pipeline_async(scn: Value, store: ScriptedObjectStore) {
    use redis_sim::streaming::integration::StreamingIntegration;
    use redis_sim::streaming::StreamingConfig;
    let mut cfg = StreamingConfig::test();
    cfg.prefix = PREFIX.to_string();
    cfg.write_buffer = wb_config_with(scn["max_deltas"].as_u64().unwrap_or(2) as usize);
    cfg.compaction.max_segments = 0; // no compaction worker here (flush / compaction overlap is C13's family)
    {
        let mut g = store.inner.lock().unwrap();
        for f in scn["faults"].as_array().cloned().unwrap_or_default() {
            g.faults.push((0, f[0].as_str().unwrap().to_string(), f[1].as_str().unwrap().to_string()));
        }
    }
    let integ = StreamingIntegration::with_store(Arc::new(store.clone()), cfg, 1);
    let (handles, sender) = match integ.start_workers().await {
        Ok(x) => x,
        Err(e) => {
            store.log(json!({"a": "panic", "msg": format!("start_workers: {e}")}));
            return;
        }
    };
    let ups = scn["ups"].as_array().cloned().unwrap_or_default();
    for (i, d) in ups.iter().enumerate() {
        let delta = mk_delta(d);
        let rv = obs(&delta.value);
        let ok = sender.send(delta).is_ok();
        store.log(json!({"a": "push", "id": d["id"], "k": d["k"], "rv": rv, "ok": ok}));
        if scn["pauses"].as_array().map(|p| p.iter().any(|x| x.as_u64() == Some(i as u64))).unwrap_or(false) {
            tokio::time::sleep(Duration::from_millis(25)).await;
        }
    }
    tokio::time::sleep(Duration::from_millis(25)).await;
    handles.shutdown().await;
    let clean = scn["faults"].as_array().map(|f| f.is_empty()).unwrap_or(true);
    store.log(json!({"a": "shutdown", "clean": clean}));
    let img = store.inner.lock().unwrap().objs.clone();
    let mut v = recover_state(&img).await;
    v["a"] = json!("crashcheck");
    v["final"] = json!(true);
    store.log(v);
}

pub fn run_pipeline(run: usize, scn: &Value, out: &mut Out) {
    let store = ScriptedObjectStore::new(true);
    out.emit(&json!({"a": "reset", "run": run, "scn": scn}));
    let rt = tokio::runtime::Builder::new_current_thread().enable_all().start_paused(true).build().unwrap();
    let st2 = store.clone();
    let scn2 = scn.clone();
    let res = catch(move || rt.block_on(run_pipeline_async(scn2, st2)));
    let mut g = store.inner.lock().unwrap_or_else(|p| p.into_inner());
    for mut ev in std::mem::take(&mut g.log) {
        ev["run"] = json!(run);
        out.emit(&ev);
    }
    if let Err(p) = res {
        out.emit(&json!({"a": "panic", "run": run, "msg": p}));
    }
}

fn random_pipeline(rng: &mut impl Rng) -> Value {
    let n = rng.gen_range(2..=9usize);
    let keys = ["a", "b", "c"];
    let mut ups = Vec::new();
    for i in 0..n {
        let k = keys[rng.gen_range(0..3)];
        let ts = i as u64 + 1;
        ups.push(match rng.gen_range(0..6) {
            0 => json!({"id": i + 1, "k": k, "t": "del", "ts": ts, "r": 1}),
            1 | 2 => json!({"id": i + 1, "k": k, "t": "hset", "f": format!("f{}", rng.gen_range(0..3)), "v": format!("h{i}"), "ts": ts, "r": 1 + rng.gen_range(0..2)}),
            _ => json!({"id": i + 1, "k": k, "t": "set", "v": format!("v{i}"), "ts": ts, "r": 1}),
        });
    }
    // keys keep one CRDT kind per run (a kind change is C06 / C07's subject)
    let mut kind: HashMap<String, String> = HashMap::new();
    for u in ups.iter_mut() {
        let k = u["k"].as_str().unwrap().to_string();
        let t = if u["t"] == "hset" { "hash" } else { "reg" }.to_string();
        let first = kind.entry(k).or_insert(t.clone()).clone();
        if first != t {
            let (id, kk, ts) = (u["id"].clone(), u["k"].clone(), u["ts"].clone());
            *u = if first == "hash" { json!({"id": id, "k": kk, "t": "hset", "f": "f0", "v": "x", "ts": ts, "r": 1}) } else { json!({"id": id, "k": kk, "t": "set", "v": "x", "ts": ts, "r": 1}) };
        }
    }
    let pauses: Vec<usize> = (0..n).filter(|_| rng.gen_bool(0.4)).collect();
    let faults: Vec<Value> = match rng.gen_range(0..10) {
        0 => vec![json!(["put_seg", "fail"])],
        1 => vec![json!(["put_seg", "partial"])],
        2 => vec![json!(["put_tmp", "fail"])],
        3 => vec![json!(["rename", "fail"])],
        4 => vec![json!(["rename", "applied"])],
        _ => vec![],
    };
    let md = [1usize, 2, 3, 100][rng.gen_range(0..4)];
    json!({"ups": ups, "max_deltas": md, "pauses": pauses, "faults": faults})
}

pub fn main(args: &[String]) -> i32 {
    let a = Args::parse(args);
    quiet_panics();
    let mut out = Out::create(&a.str("out", "stream_trace.ndjson"));
    match a.pos.first().map(|s| s.as_str()) {
        Some("replay") => {
            for (i, s) in read_ndjson(&a.pos[1]).iter().enumerate() {
                run_scenario(i + 1, s, &mut out);
            }
        }
        Some("record") => {
            let mut rng = rng(a.u64("seed", 1));
            for i in 0..a.usize("n", 100) {
                let s = random_scenario(&mut rng, i, a.u64("cheavy", 0) == 1);
                run_scenario(i + 1, &s, &mut out);
            }
        }
        Some("pipeline") => {
            let mut rng = rng(a.u64("seed", 1));
            for i in 0..a.usize("n", 100) {
                let s = random_pipeline(&mut rng);
                run_pipeline(i + 1, &s, &mut out);
            }
        }
        Some("wbuf") => {
            // vh stream wbuf [scenarios.ndjson] --seed S --n N : the WriteBuffer of write_buffer.rs
            let mut run = 0;
            if a.pos.len() > 1 {
                for s in read_ndjson(&a.pos[1]).iter() {
                    run += 1;
                    run_wbuf(run, s, &mut out);
                }
            }
            let mut rng = rng(a.u64("seed", 1));
            for _ in 0..a.usize("n", 0) {
                run += 1;
                let s = random_wbuf(&mut rng);
                run_wbuf(run, &s, &mut out);
            }
        }
        _ => {
            eprintln!("usage: vh stream replay|record|wbuf");
            return 2;
        }
    }
    println!("{{\"events\": {}}}", out.finish());
    0
}
