"""C08 - newest write wins: a node's stamps only grow, also across restart.

1. MC    : NodeClock.tla - local writes, remote deltas with arbitrary stamps, checkpoints, crash,
           recovery from checkpoint + segments + WAL, more writes: StampAboveSeen, NeverRepeats,
           NewestWins, ClockDominates; the as-built switch (recovered values do not move the
           clock) must violate StampAboveSeen.
2. Export: one witness step sequence per distinct post-restart state (SimNodeClock).
3. Replay: a real ReplicatedShardedState (16 shard actors): SET, apply_remote_deltas with crafted
           stamps, snapshot_state as checkpoint, a fresh node + apply_recovered_state as restart.
4. TV    : NodeClockTrace: the stamp of every delta issued must exceed every stamp the running
           node has observed for the key and never repeat per key; the stamps the node holds
           must equal the specification's after every step; the payload a key serves must be that
           of the write whose stamp is held (memv); a peer that merges everything the node issued
           or received, newest first, must end with the greatest stamp and its payload per key.
           Logical times beyond 2^32 travel in the trace shifted down (order and successor kept).
"""
import os
from lib import vlib
from lib.vlib import Report

PID = "C08"


def run(tier):
    rep = Report(PID, tier)
    wd = vlib.workdir(PID)
    vlib.build_harness()
    thorough = tier == "thorough"
    rep.add_mc(vlib.must_pass(vlib.tlc("NodeClock", "MCNodeClock", wd, workers=8, timeout=1200), "MCNodeClock"), "MCNodeClock")
    r = vlib.must_violate(vlib.tlc("NodeClock", "MCNodeClockAsBuilt", wd, workers=2), "StampAboveSeen", "recovered_state_no_clock")
    rep.add_mc(r, "MCNodeClockAsBuilt (expected violation: StampAboveSeen)")
    describe = "node clock trace rejected: {what}"
    scn, ex = vlib.export_scenarios("SimNodeClock", "SimNodeClockT" if thorough else "SimNodeClock", wd, workers=8)
    rep.notes["scenarios_exported"] = len(scn)
    for i in range(0, len(scn), 10000):
        p = vlib.write_ndjson(os.path.join(wd, f"scn{i}.ndjson"), scn[i:i + 10000])
        tr = os.path.join(wd, f"trace{i}.ndjson")
        vlib.vh(["clock", "replay", p, "--out", tr])
        runs, bad = vlib.validate_runs(rep, "NodeClockTrace", "NodeClockTrace", tr, wd, f"exported{i}", describe=describe)
        if i == 0:
            k = sorted(runs)[len(runs) // 2]
            rep.sample({"steps": [{x: e[x] for x in e if x != "run"} for e in runs[k][1:]]})
        os.remove(tr)
    tr = os.path.join(wd, "random.ndjson")
    vlib.vh(["clock", "record", "--seed", vlib.seed(), "--n", 20000 if thorough else 2000, "--out", tr])
    runs, bad = vlib.validate_runs(rep, "NodeClockTrace", "NodeClockTrace", tr, wd, "random", describe=describe)
    nt = sum(1 for evs in runs.values() if any(e["a"] == "recover" for e in evs))
    rep.cov["distinct_nontrivial"] = nt + len(scn)
    rep.cov["rule"] = ("a case is one life of a real node (every third under the causal consistency level): writes, remote deltas with chosen "
                       "stamps (1..1000, one in six beyond 2^32), checkpoints, a peer merging everything at the end, "
                       "crash, recovery, more writes; non-trivial = contains at least one crash + recovery followed by a write")
    rep.cov["exhaustive"] = True
    rep.cov["explanation"] = "exhaustive over the SimNodeClock model (2 keys, stamps <= 3, <= 2-3 writes, 1-2 crashes); random lives are samples"
    rep.assumptions += ["every acknowledged local write is persisted (C09/C12) and recovery reads all of checkpoint, segments and WAL",
                        "the code keeps one Lamport clock per shard: stamps are compared per key, as the property states"]
    return rep.finish()
