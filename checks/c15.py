"""C15 - RESP decoding is total, bounded, prefix-stable; replies re-decode to themselves.

1. MC    : Resp.tla - for every byte string over the 11-symbol grammar alphabet up to the bound:
           Total, Stable (an outcome other than "more" never changes when bytes are appended),
           EmptyIsMore; RoundTrip over value trees of depth <= 2.
2. Cases : the harness runs BOTH real decoders (catch_unwind, counting allocator) on the same
           enumeration, on targeted families (negative / huge / non-canonical lengths, i64 limits,
           CR without LF, nesting to depth 100000 - in a process of its own), on random strings,
           feeds valid streams to the incremental codec under every 3-way fragmentation, and
           pushes value trees through the three encoders.
3. TV    : RespTrace judges every record with Resp.tla's Decode / Encode.
"""
import os, subprocess, json
from lib import vlib
from lib.vlib import Report

PID = "C15"


def run(tier):
    rep = Report(PID, tier)
    wd = vlib.workdir(PID)
    vlib.build_harness()
    thorough = tier == "thorough"
    cfg = "MCRespT" if thorough else "MCResp"
    rep.add_mc(vlib.must_pass(vlib.tlc("MCResp", cfg, wd, workers=8, timeout=3000), cfg), cfg)
    rep.add_mc(vlib.must_pass(vlib.tlc("MCResp", "MCRespValues", wd, workers=2), "MCRespValues"), "MCRespValues")
    describe = "RESP case rejected: {what}"
    nt = 0

    def validate(path, label, strip=()):
        nonlocal nt
        runs, bad = vlib.validate_runs(rep, "RespTrace", "RespTrace", path, wd, label, describe=describe, strip=strip)
        nt += sum(1 for evs in runs.values() if evs[0]["t"] != "dec" or evs[0]["c"]["k"] != "more")
        return runs

    # targeted family in a process of its own: a stack overflow or a huge allocation kills the process
    tpath = os.path.join(wd, "targeted.ndjson")
    p = subprocess.run([vlib.VH, "resp", "targeted", "--out", tpath], cwd=vlib.VERIF, stdout=subprocess.PIPE,
                       stderr=subprocess.PIPE, text=True, timeout=600)
    if p.returncode != 0:
        last = [l for l in p.stderr.splitlines() if l.startswith("TARGET")]
        rep.classify(None, "a decoder killed the process on a targeted input (stack overflow / unbounded allocation)",
                     {"last_marker": last[-1] if last else None, "exit": p.returncode, "hint": "vh resp targeted; inputs are listed in harness/src/resp.rs targeted()"})
    else:
        runs = validate(tpath, "targeted")
        rep.sample(runs[sorted(runs)[5]][0])
    ep = os.path.join(wd, "enum.ndjson")
    vlib.vh(["resp", "enum", "--maxlen", 5 if thorough else 4, "--out", ep])
    runs = validate(ep, "enumerated")
    rep.sample(runs[sorted(runs)[len(runs) // 3]][0])
    os.remove(ep)
    fp = os.path.join(wd, "frag.ndjson")
    vlib.vh(["resp", "frag", "--out", fp])
    runs = validate(fp, "fragmentations", strip=("frames",))
    rep.sample({x: runs[sorted(runs)[100]][0][x] for x in ("s", "cuts", "left")})
    xp = os.path.join(wd, "enc.ndjson")
    vlib.vh(["resp", "encode", "--seed", vlib.seed(), "--n", 20000 if thorough else 3000, "--out", xp])
    runs = validate(xp, "encoders")
    rep.sample(runs[sorted(runs)[7]][0])
    # frames far larger than any buffer constant, fed whole and in pieces
    bp = os.path.join(wd, "fragbig.ndjson")
    vlib.vh(["resp", "fragbig", "--out", bp])
    validate(bp, "fragbig")
    # connections that come and go on one shared buffer pool; a client that dies inside a frame leaves nothing behind
    tr = os.path.join(wd, "pool.ndjson")
    vlib.vh(["conn", "pool", "--out", tr])
    vlib.validate_runs(rep, "ConnTrace", "ConnTrace", tr, wd, "shared_pool", describe="connection case rejected: {what}", strip=("s", "cmds", "replies"))
    os.remove(tr)
    rp = os.path.join(wd, "random.ndjson")
    out, _ = vlib.vh(["resp", "random", "--seed", vlib.seed(), "--n", 3000000 if thorough else 300000,
                      "--log", 20000 if thorough else 5000, "--out", rp])
    validate(rp, "random")
    rep.notes["random_strings_run_on_both_decoders"] = 3000000 if thorough else 300000
    rep.cov["distinct_nontrivial"] = nt
    rep.cov["rule"] = ("a case is one byte string through both decoders (outcome, consumed count, value, bytes allocated), one "
                       "fragmentation of a valid stream, or one value through the three encoders; non-trivial = anything but "
                       "a plain 'need more bytes' outcome")
    rep.cov["exhaustive"] = True
    rep.cov["explanation"] = "exhaustive over strings of length <= %d over {+ - : $ * 0 1 2 CR LF a}; other families are targeted or sampled" % (5 if thorough else 4)
    rep.assumptions += ["RespParser reports 'need more bytes' through three fixed error strings; they are mapped to 'more'",
                        "RespParser keeps status/error lines as lossily decoded text: their content is compared for ASCII input only",
                        "allocation bound: bytes requested while decoding <= 64 * input length + 4096"]
    return rep.finish()
