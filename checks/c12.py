"""C12 - streaming persistence is crash-consistent at every step and loses nothing confirmed.

1. MC    : Streaming.tla at object-store-call granularity, every outcome (error, partial put,
           rename applied-but-reported-failed) at every call; ManifestSound, ConfirmedRecoverable,
           RecoveryStable, NothingSilentlyDropped in every state (= crash image of that state).
2. Export: one operation sequence per distinct idle state of the sequential model (push / flush
           / compact with the failing call and its outcome).
3. Replay: real StreamingPersistence + Compactor on a scripted ObjectStore; after EVERY mutating
           store call the image is copied and the real RecoveryManager::recover runs on it.
4. TV    : StreamTrace: recovery succeeds, manifest sound, recovered state absorbs everything
           confirmed and invents nothing, failed flush keeps the buffer. Random workloads too.
5. WBuf  : the repository's second write buffer (write_buffer.rs WriteBuffer::push/flush, the delta-sink
           worker's buffer): every push/flush sequence of <= 6 operations with one failing or partial
           upload, and random longer ones, judged by WbufTrace with Streaming.tla's buffer rule.
"""
import os
from lib import vlib
from lib.vlib import Report
from checks import stream_common as sc

PID = "C12"


def nontrivial(evs):
    faulted = any(e["a"] == "call" and e.get("res") in ("fail", "partial", "applied") for e in evs)
    confirmed = any(e["a"] == "flush_end" and e["ok"] for e in evs)
    return faulted and confirmed


def run(tier):
    rep = Report(PID, tier)
    wd = vlib.workdir(PID)
    vlib.build_harness()
    sc.model_check(rep, wd, {"MCStreamingAsBuiltDrop", "MCStreamingAsBuiltRace"})
    describe = "streaming persistence trace rejected: {what}"
    scns = sc.exported_sequential(wd)
    rep.notes["scenarios_exported"] = len(scns)
    runs, bad = sc.replay_validate(rep, wd, scns, "exported", describe)
    nt = sum(1 for evs in runs.values() if nontrivial(evs))
    k = sorted(runs)[len(runs) // 2]
    rep.sample({"scenario": runs[k][0]["scn"], "events": [{x: e[x] for x in e if x not in ("run", "state", "rv")} for e in runs[k][1:30]]})
    n = 20000 if tier == "thorough" else 1500
    for c in range(5 if tier == "thorough" else 1):
        tr = os.path.join(wd, f"random{c}.ndjson")
        vlib.vh(["stream", "record", "--seed", vlib.seed() * 100 + c, "--n", n // (5 if tier == "thorough" else 1), "--out", tr])
        runs, bad = vlib.validate_runs(rep, "StreamTrace", "StreamTrace", tr, wd, f"random{c}", dev_cfgs=sc.DEV_CFGS,
                                       describe=describe, strip=("state", "rv"))
        nt += sum(1 for evs in runs.values() if nontrivial(evs))
        if c == 0:
            k = sorted(runs)[0]
            rep.sample({"scenario": runs[k][0]["scn"]})
        os.remove(tr)
    # the second write buffer (write_buffer.rs): every op sequence <= 6 with a fault on one flush, plus random ones
    import itertools
    wscn = []
    for n in range(2, 7 if tier == "thorough" else 6):
        for ops in itertools.product("pfc", repeat=n):     # c: two overlapping flushes (the buffer is shared by two workers)
            if ("f" not in ops and "c" not in ops) or ops[0] != "p" or ops.count("c") > 2:
                continue
            wscn.append({"ops": list(ops), "faults": []})
            for i, o in enumerate(ops):
                if o in "fc":
                    for kind in ("fail", "partial"):
                        wscn.append({"ops": list(ops), "faults": [[i + 1, kind]]})
    p = vlib.write_ndjson(os.path.join(wd, "wbuf.scn.ndjson"), wscn)
    tr = os.path.join(wd, "wbuf.ndjson")
    vlib.vh(["stream", "wbuf", p, "--seed", vlib.seed(), "--n", 20000 if tier == "thorough" else 1500, "--out", tr])
    runs, bad = vlib.validate_runs(rep, "WbufTrace", "WbufTrace", tr, wd, "write_buffer",
                                   describe="write buffer (write_buffer.rs) trace rejected: {what}", strip=())
    nt += sum(1 for evs in runs.values() if any(e["a"] == "wflush" and not e["ok"] for e in evs))
    os.remove(tr)
    # the production pipeline around StreamingPersistence (integration.rs: delta sink -> bridge -> persistence actor):
    # crash images judged by the call-level rules; what a graceful shutdown must leave behind is an extension
    tr = os.path.join(wd, "pipeline.ndjson")
    vlib.vh(["stream", "pipeline", "--seed", vlib.seed() * 3 + 1, "--n", 2000 if tier == "thorough" else 200, "--out", tr])
    verdicts, done, _ = vlib.validate("StreamTrace", "StreamTrace", tr, wd)
    pruns = vlib.load_runs(tr)
    rep.cov["traces_validated_against_impl"] += len(pruns)
    rep.cov["evaluations"] += done[0]
    ext = 0
    firstv = {}
    for v in verdicts:
        firstv.setdefault(v["run"], v)
    for r, v in firstv.items():
        if v.get("what", "").startswith("extension:"):
            ext += 1
            continue
        evs = [{k: e[k] for k in e if k not in ("state", "rv")} for e in pruns[r]]
        rep.classify(None, describe.format(what=v.get("what", "rejected")) + " (persistence pipeline)", {"source": "pipeline", "failed_check": v.get("what"), "at_event": v.get("l"), "events": evs[:300]}, f"pipeline run {r}")
    if ext:
        vlib.log(f"EXTENSION-OBSERVATION (not a verdict on C12): after a graceful shutdown of the persistence pipeline an update that was sent is not recoverable ({ext} runs)")
    rep.notes["pipeline_family"] = {"runs": len(pruns), "events": done[0], "extension_observations": ext}
    os.remove(tr)
    rep.cov["distinct_nontrivial"] = nt
    rep.cov["rule"] = ("a case is one workload of push/flush/compact on the real code with a scripted fault; after every "
                       "mutating store call the real recovery runs on the image; non-trivial = a fault took effect and at "
                       "least one flush was confirmed")
    rep.cov["exhaustive"] = True
    rep.cov["explanation"] = "exhaustive over the idle states of the sequential Streaming model with <=1 fault for two delta tables; random workloads are samples"
    rep.assumptions += ["a put that reports success stored all its bytes; a failed put stored nothing or a prefix",
                        "rename is atomic; it may be applied although an error is reported",
                        "flush and compaction do not overlap in these runs (overlap is C13's quantifier)",
                        "WriteBuffer (write_buffer.rs) keeps no manifest: only the buffer rule (nothing accepted is dropped by a failed flush, a successful flush uploads exactly the buffer) is judged for it"]
    return rep.finish()
