"""C14 - stored and gossiped updates round-trip; damaged storage is detected, not decoded.

1. MC    : ImageLayout.tla - the three storage images as byte regions with roles and the
           readers' checks: UpdateBytesProtected, NoCheckOnPadding, VerdictTotal for every
           format; the stronger EverythingReadIsProtected must fail (the WAL entry stamp, C10).
2. Export: the CRDT value universe - one operation sequence per distinct reachable configuration
           of Crdt.tla (all six kinds, tombstones, expiry, vector clocks) - replayed on real
           replicas; each replica's value goes through WAL entry, segment, checkpoint and gossip
           message and back (structural comparison over all fields).  Payload classes (empty, one
           byte, all 256 byte values, invalid UTF-8, 64 KiB+, odd keys, u64 limits, 300 hash
           fields) and random scenarios do the same.
3. Cases : real images of 1-3 updates under every cut length, every single-bit flip, 2-4 byte
           bursts and zero fills, read by the real open / validate / read path.
4. TV    : ImageTrace computes the touched regions from the layout arithmetic and judges the
           reader's answer (error / same / same payload / different / panic).
"""
import json, os
from lib import vlib
from lib.vlib import Report

PID = "C14"


def run(tier):
    rep = Report(PID, tier)
    wd = vlib.workdir(PID)
    vlib.build_harness()
    thorough = tier == "thorough"
    rep.add_mc(vlib.must_pass(vlib.tlc("MCImageLayout", "MCImageLayout", wd, workers=2), "MCImageLayout"), "MCImageLayout")
    r = vlib.must_violate(vlib.tlc("MCImageLayout", "MCImageLayoutAux", wd, workers=2), "InvAux", "WAL entry stamp is read but unprotected")
    rep.add_mc(r, "MCImageLayoutAux (expected violation: EverythingReadIsProtected - the WAL entry stamp, see C10)")
    # value universe from Crdt.tla
    scn = []
    for cfg in ("SimCrdt", "SimCrdtKinds"):
        ex = vlib.tlc("SimCrdt", cfg + ("T" if thorough else ""), wd, workers=8, timeout=3000)
        if ex.error or ex.violated:
            vlib.log(ex.out[-2000:]); raise vlib.ToolError("scenario export failed")
        scn += vlib.printed_json(ex, "SCN")
    rep.notes["scenarios_exported"] = len(scn)
    p = vlib.write_ndjson(os.path.join(wd, "scn.ndjson"), scn)
    rt = os.path.join(wd, "roundtrip.ndjson")
    vlib.vh(["image", "roundtrip", "--scn", p, "--seed", vlib.seed(), "--n", 3000 if thorough else 300, "--out", rt])
    runs, _ = vlib.validate_runs(rep, "ImageTrace", "ImageTrace", rt, wd, "roundtrip", describe="round trip failed: {what}", strip=())
    kinds = {}
    for evs in runs.values():
        kk = evs[0]["origin"] + "/" + evs[0]["kind"]
        kinds[kk] = kinds.get(kk, 0) + 1
    rep.notes["values_by_origin_and_kind"] = kinds
    small = [evs[0] for evs in runs.values() if "value" in evs[0]]
    if small:
        rep.sample({x: small[len(small) // 2][x] for x in ("origin", "kind", "key", "value", "res")})
    nrt = len(runs)
    os.remove(rt)
    dp = os.path.join(wd, "damage.ndjson")
    vlib.vh(["image", "damage", "--tier", tier, "--seed", vlib.seed(), "--out", dp])
    runs, _ = vlib.validate_runs(rep, "ImageTrace", "ImageTrace", dp, wd, "damage", describe="damaged image: {what}", strip=())
    classes = {}
    for evs in runs.values():
        e = evs[0]
        kk = f'{e["fmt"]}/{e["kind"]}/{e["class"]}'
        classes[kk] = classes.get(kk, 0) + 1
    rep.notes["damage_cases_by_format_kind_answer"] = classes
    rep.sample(runs[sorted(runs)[len(runs) // 2]][0])
    ndm = sum(1 for evs in runs.values() if evs[0]["kind"] != "none")
    os.remove(dp)
    # every entry point that reads stored images back (recover, recover_with_progress, recover_with_wal), on intact
    # layouts and over one damaged download of a segment or of the checkpoint: fail, or return everything
    lp = os.path.join(wd, "layouts.ndjson")
    vlib.vh(["recov", "record", "--seed", vlib.seed() * 7 + 3, "--n", 1500 if thorough else 250, "--out", lp])
    runs, _ = vlib.validate_runs(rep, "RecoveryTrace", "RecoveryTrace", lp, wd, "entry_points", describe="stored image read back: {what}", strip=())
    ndm += len(runs)
    os.remove(lp)
    # a WAL payload is arbitrary binary data: one that carries a well-formed entry, and the flipped bit of the (unchecksummed)
    # length prefix that moves the end of the frame onto it - the reader may stop, it must not decode an entry nobody wrote
    gp = os.path.join(wd, "ghost.ndjson")
    vlib.vh(["wal", "format", "--only", "ghost", "--out", gp])
    runs, _ = vlib.validate_runs(rep, "WalFormatTrace", "WalFormatTrace", gp, wd, "wal_payload_that_looks_like_an_entry",
                                 describe="damaged WAL image decoded into an entry that was never written ({what})", strip=())
    ndm += len(runs)
    os.remove(gp)
    rep.cov["distinct_nontrivial"] = nrt + ndm
    rep.cov["rule"] = ("a case is one value through the four codecs and back, or one real image with one damage read by the real "
                       "reader; undamaged images are not counted")
    rep.cov["exhaustive"] = True
    rep.cov["explanation"] = ("exhaustive over the configurations of Crdt.tla reachable in the step bound (as values), and over every cut "
                              "length and every single-bit flip of the listed images; bursts and zero fills are %s" % ("every position" if thorough else "sampled"))
    rep.assumptions += ["CRC32 detects every single-bit flip and every burst <= 32 bits; the magic constants do not occur inside the data",
                        "structural equality is taken on the serde image of the delta with hash-set members sorted (sets have no order)",
                        "keys and hash fields are Rust Strings (valid UTF-8 by type); binary payloads are SDS values",
                        "the WAL entry stamp is outside the update: a flipped stamp that leaves the decoded delta equal is accepted here and is C10's finding",
                        "segment footer sizes (usize, csize) are written and parsed but never used: damage there is accepted as 'same'",
                        "compression feature off (default build)"]
    return rep.finish()
