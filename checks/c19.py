"""C19 - key placement is a function of membership; selective gossip reaches every owner.

1. MC    : Placement.tla - for every assignment of distinct ring positions to 3 nodes x 2 virtual
           nodes, every key position and replication factor: SizeAndDistinct, PrefixInRf,
           MinimalDisruption, RouterCoverage; the as-built peer table of from_config must
           violate RouterCoverage.
2. Export: clusters 1..n, every join order, leave + rejoin, every rf and vnode count (SimPlacement).
3. Cases : real HashRing built by add_node/remove_node in both orders, observed through the hook;
           get_replicas / get_replicas_with_rf / get_primary for 12 keys; the ring plus one node;
           real GossipRouter::new / from_config and GossipState::queue_deltas for every sender.
   Also  : membership changing at run time (dyn): a shared ring constructed from the initial members, joins and leaves
           through add_node/remove_node + update_peer/remove_peer on every router, is_responsible; per epoch the same
           rules, between epochs only keys that gain or lose the node move (PlaceTrace!DynVerdict).
4. TV    : PlaceTrace recomputes Replicas and Targets from the OBSERVED ring and compares.
"""
import os
from lib import vlib
from lib.vlib import Report

PID = "C19"


def run(tier):
    rep = Report(PID, tier)
    wd = vlib.workdir(PID)
    vlib.build_harness()
    thorough = tier == "thorough"
    rep.add_mc(vlib.must_pass(vlib.tlc("Placement", "MCPlacement", wd, workers=8, timeout=600), "MCPlacement"), "MCPlacement")
    r = vlib.must_violate(vlib.tlc("Placement", "MCPlacementAsBuilt", wd, workers=2), "RouterCoverage", "peer_ids_off_by_one")
    rep.add_mc(r, "MCPlacementAsBuilt (expected violation: RouterCoverage)")
    # membership as a transition system (join / learn / leave / forget as separate steps)
    dyn_cfg = "MCPlacementDyn" if thorough else "MCPlacementDynS"
    rep.add_mc(vlib.must_pass(vlib.tlc("PlacementDyn", dyn_cfg, wd, workers=8, timeout=1500), dyn_cfg), dyn_cfg)
    describe = "placement case rejected: {what}"
    scn, ex = vlib.export_scenarios("SimPlacement", "SimPlacementT" if thorough else "SimPlacement", wd)
    rep.notes["scenarios_exported"] = len(scn)
    for i in range(0, len(scn), 1500):
        p = vlib.write_ndjson(os.path.join(wd, f"scn{i}.ndjson"), scn[i:i + 1500])
        tr = os.path.join(wd, f"cases{i}.ndjson")
        vlib.vh(["place", "replay", p, "--out", tr])
        runs, bad = vlib.validate_runs(rep, "PlaceTrace", "PlaceTrace", tr, wd, f"exported{i}", describe=describe,
                                       strip=("ring_a", "ring_b", "ring_big", "keys", "routes"))
        if i == 0:
            k = sorted(runs)[len(runs) // 2]
            e = runs[k][0]
            rep.sample({"scn": e["scn"], "members": e["members"], "ring_a_head": e["ring_a"][:6], "key0": e["keys"][0], "route0": e["routes"][0]})
        os.remove(tr)
    tr = os.path.join(wd, "random.ndjson")
    vlib.vh(["place", "record", "--seed", vlib.seed(), "--n", 3000 if thorough else 400, "--out", tr])
    runs, bad = vlib.validate_runs(rep, "PlaceTrace", "PlaceTrace", tr, wd, "random", describe=describe,
                                   strip=("ring_a", "ring_b", "ring_big", "keys", "routes"))
    os.remove(tr)
    # every node is a process of its own: the same memberships placed by two fresh processes and by the recording one
    tr = os.path.join(wd, "xproc.ndjson")
    vlib.vh(["place", "xproc", "--seed", vlib.seed() + 40, "--n", 24 if thorough else 6, "--out", tr])
    vlib.validate_runs(rep, "PlaceTrace", "PlaceTrace", tr, wd, "across_processes", describe=describe, strip=())
    os.remove(tr)
    # membership changing while the cluster runs: one shared ring, update_peer / remove_peer on every router, is_responsible
    tr = os.path.join(wd, "dyn.ndjson")
    vlib.vh(["place", "dyn", "--seed", vlib.seed() + 7, "--n", 2000 if thorough else 300, "--out", tr])
    vlib.validate_runs(rep, "PlaceTrace", "PlaceTrace", tr, wd, "membership_at_run_time", describe=describe, strip=())
    os.remove(tr)
    rep.cov["distinct_nontrivial"] = rep.cov["traces_validated_against_impl"]
    rep.cov["rule"] = ("a case is one membership (1-6 nodes, ids contiguous or not) built in two join/leave orders with a vnode "
                       "count in {1,2,3,150} and rf 1-5, 12 keys, every member as gossip sender (small batches, and one round of 2500+ "
                       "updates from the first member); a few memberships are also placed by two fresh processes")
    rep.cov["exhaustive"] = True
    rep.cov["explanation"] = "exhaustive over join orders of clusters of <= 4 (thorough 5) nodes; random memberships are samples"
    rep.assumptions += ["ring positions are reported as dense ranks (order-preserving), since TLC integers are 32 bit",
                        "64-bit position collisions are not modelled", "per-key replication-factor overrides are not wired into routing and are out of scope"]
    return rep.finish()
