"""WAL actor beyond the always-fsync group commit (WalPolicy.tla): the three fsync policies, SyncTick,
graceful Shutdown and TruncateUpTo messages among the writes.  Shared by C09 (always-mode obligations),
C10 (truncation rule through the actor) and reported in full as an extension in both evidence files.

  MC     : WalPolicy.tla under each policy (6 invariants, <= 1 fault), four as-built switches must violate.
  Export : SimWalPolicy - every mailbox sequence of <= 3 (thorough 5) operations x policy x capacity x stamps.
  Replay : the REAL spawn_wal_actor on the scripted store (crash image + real recovery after every call).
  TV     : WalPolicyTrace judges every ack / delete / tick / shutdown / crash image.
"""
import os
from lib import vlib

SCOPE = {
    "C09": ("always:", "acknowledged but not written", "recovery of the crash image", "recovery panicked", "actor panicked", "write sent twice", "ack without"),
    "C10": ("truncation removed", "recovery of the crash image", "recovery panicked"),
}

MC = [("MCWalPolicyAlways", None), ("MCWalPolicyEverysec", None), ("MCWalPolicyEverysecCap1", None), ("MCWalPolicyNo", None),
      ("MCWalPolicyAsBuiltRotate", "QuietIsDurable"), ("MCWalPolicyAsBuiltLast", "TruncSafe"),
      ("MCWalPolicyAsBuiltActive", "TruncSafe"), ("MCWalPolicyAsBuiltDown", "DownIsDurable")]


def run_family(rep, wd, tier, pid, mc=True):
    thorough = tier == "thorough"
    if mc:
        for cfg, inv in MC:
            if mc is not True and cfg not in mc:
                continue
            r = vlib.tlc("MCWalPolicy", cfg, wd, workers=4, timeout=1800)
            if inv is None:
                rep.add_mc(vlib.must_pass(r, cfg), cfg)
            else:
                rep.add_mc(vlib.must_violate(r, inv, cfg), cfg + " (expected violation)")
    scn, _ = vlib.export_scenarios("SimWalPolicy", "SimWalPolicyT" if thorough else "SimWalPolicy", wd)
    if pid == "C09":
        scn = [s for s in scn if s["policy"] == "always"] + [s for s in scn if s["policy"] != "always"][::7]
    p = vlib.write_ndjson(os.path.join(wd, "polscn.ndjson"), scn)
    total = {"scenarios_exported": len(scn), "runs": 0, "events": 0, "out_of_scope": {}}
    chunk = 3000
    parts = [("exported", ["wal", "policy", p, "--seed", vlib.seed(), "--n", 0])]
    parts.append(("random", ["wal", "policy", "--seed", vlib.seed() * 7 + 1, "--n", 6000 if thorough else 600]))
    for label, args in parts:
        tr = os.path.join(wd, f"pol_{label}.ndjson")
        vlib.vh(args + ["--out", tr])
        runs = vlib.load_runs(tr)
        ids = sorted(runs)
        for i in range(0, len(ids), chunk):
            sub = os.path.join(wd, f"pol_{label}_{i}.ndjson")
            with open(sub, "w") as f:
                for r in ids[i:i + chunk]:
                    for ev in runs[r]:
                        f.write(vlib.json.dumps(ev) + "\n")
            verdicts, done, _ = vlib.validate("WalPolicyTrace", "WalPolicyTrace", sub, wd)
            total["events"] += done[0]
            rep.cov["evaluations"] += done[0]
            # per run: the first verdict that is this property's business, else the first one (a run may be rejected under the
            # truncation rule of C10 first and under the durability rule of C09 one event later)
            inscope = lambda w: any(w.startswith(s) or s in w for s in SCOPE[pid])
            first = {}
            for v in verdicts:
                cur = first.get(v["run"])
                if cur is None or (not inscope(cur.get("what", "")) and inscope(v.get("what", ""))):
                    first[v["run"]] = v
            for r, v in first.items():
                what = v.get("what", "rejected")
                if inscope(what):
                    case = {"source": f"policy family ({label})", "failed_check": what, "at_event": v.get("l"), "events": runs[r][:300]}
                    rep.classify(None, f"WAL actor (policy family) trace rejected: {what}", case, f"{label} run {r}")
                else:
                    total["out_of_scope"][what] = total["out_of_scope"].get(what, 0) + 1
            os.remove(sub)
        total["runs"] += len(runs)
        rep.cov["traces_validated_against_impl"] += len(runs)
        if label == "exported" and runs:
            k = ids[len(ids) // 2]
            rep.sample({"policy_family_scenario": runs[k][0].get("scn"), "events": [{x: e[x] for x in e if x not in ("run", "scn")} for e in runs[k][1:30]]})
        os.remove(tr)
    for what, n in total["out_of_scope"].items():
        vlib.log(f"EXTENSION-OBSERVATION (not a verdict on {pid}): {what} ({n} runs)")
    rep.notes["wal_policy_family"] = total
    return total
