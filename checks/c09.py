"""C09 - always-fsync WAL: a write reported durable survives a crash at any instant.

1. MC    : Wal.tla controller (rotator + group-commit actor) with every fault outcome at every
           I/O call; AckedIsDurable in every state (= crash at any instant), liveness Answered.
           The two as-built switches must reproduce their counterexamples.
2. Export: SimWal enumerates the scenario space (burst splits x capacity x batch limit x fault
           placement/kind) exhaustively.
3. Replay: each scenario runs the REAL spawn_wal_actor/write_durable on a scripted WalStore
           under paused time; after every I/O call the crash image is recovered with the REAL
           WalRotator::recover_all_entries.
4. TV    : WalTrace validates every event (ack only inside a synced prefix, recovery = Recover).
5. Policy: WalPolicy.tla (checks/wal_policy.py) - the always-mode obligation with SyncTick, TruncateUpTo and
           Shutdown messages among the writes; the EverySecond / No policies ride along as an extension
           (their observations never count as a verdict on C09).
"""
import os
from lib import vlib
from lib.vlib import Report
from checks import wal_policy

PID = "C09"


def run(tier):
    rep = Report(PID, tier)
    wd = vlib.workdir(PID)
    vlib.build_harness()
    thorough = tier == "thorough"
    for cfg in ("MCWal", "MCWalCap1") + (("MCWalBig",) if thorough else ()):
        rep.add_mc(vlib.must_pass(vlib.tlc("Wal", cfg, wd, workers=8, timeout=3000), cfg), cfg)
    r = vlib.must_violate(vlib.tlc("Wal", "MCWalAsBuiltRotate", wd, workers=2), "AckedIsDurable", "rotate_without_sync")
    rep.add_mc(r, "MCWalAsBuiltRotate (expected violation)")
    r = vlib.must_violate(vlib.tlc("Wal", "MCWalAsBuiltDrop", wd, workers=2), "AckedIsDurable", "drop_writer_on_failed_append")
    rep.add_mc(r, "MCWalAsBuiltDrop (expected violation)")
    scn, ex = vlib.export_scenarios("SimWal", "SimWalT" if thorough else "SimWal", wd)
    rep.notes["scenarios_exported"] = len(scn)
    describe = "WAL actor trace rejected: {what}"
    chunk = 4000
    nontrivial = 0
    for i in range(0, len(scn), chunk):
        p = vlib.write_ndjson(os.path.join(wd, f"scn{i}.ndjson"), scn[i:i + chunk])
        tr = os.path.join(wd, f"trace{i}.ndjson")
        vlib.vh(["wal", "replay", p, "--out", tr])
        runs, bad = vlib.validate_runs(rep, "WalTrace", "WalTrace", tr, wd, f"exported{i}", describe=describe)
        for k, evs in runs.items():
            if any(e["a"] == "ack" and e["ok"] for e in evs) and any(
                    e["a"] in ("append", "sync", "create") and (e.get("res", "ok") != "ok" or e.get("ok") is False) for e in evs):
                nontrivial += 1
        if i == 0 and runs:
            k = sorted(runs)[len(runs) // 3]
            rep.sample({"scenario": runs[k][0].get("scn"), "events": [{x: e[x] for x in e if x != "run"} for e in runs[k][1:40]]})
        os.remove(tr)
    n = 20000 if thorough else 1500
    for c in range(4 if thorough else 1):
        tr = os.path.join(wd, f"random{c}.ndjson")
        vlib.vh(["wal", "record", "--seed", vlib.seed() * 100 + c, "--n", n // (4 if thorough else 1), "--out", tr])
        runs, bad = vlib.validate_runs(rep, "WalTrace", "WalTrace", tr, wd, f"random{c}", describe=describe)
        for k, evs in runs.items():
            if any(e["a"] == "ack" and e["ok"] for e in evs) and any(
                    e["a"] in ("append", "sync", "create") and (e.get("res", "ok") != "ok" or e.get("ok") is False) for e in evs):
                nontrivial += 1
        os.remove(tr)
    # entries of many MiB; two lives of the actor on one store with a stray file in the directory
    tr = os.path.join(wd, "special.ndjson")
    vlib.vh(["wal", "special", "--out", tr])
    runs, bad = vlib.validate_runs(rep, "WalTrace", "WalTrace", tr, wd, "special", describe=describe)
    nontrivial += len(runs)
    os.remove(tr)
    fam = wal_policy.run_family(rep, wd, tier, PID, mc=True)
    nontrivial += fam["runs"]
    rep.cov["distinct_nontrivial"] = nontrivial
    rep.cov["rule"] = ("a case is one run of the real always-fsync actor (bursts of concurrent write_durable calls, file "
                       "capacity, batch limit, scripted faults); non-trivial = at least one injected fault took effect and "
                       "at least one write was acknowledged durable; every I/O call is followed by a real recovery of the "
                       "crash image")
    rep.cov["exhaustive"] = True
    rep.cov["explanation"] = "exhaustive over the SimWal scenario space for the listed constants; random runs are samples"
    rep.assumptions += ["a crash discards exactly the bytes not covered by a successful fsync of their file",
                        "an append that reports success stored all its bytes; a torn append stores a prefix and reports an error",
                        "an entry removed by a TruncateUpTo the caller asked for (stamp <= threshold) is outside C09; whether the truncation was allowed is C10's rule"]
    return rep.finish()
