"""C07 - CRDT merge is commutative, associative and idempotent in all it exposes.

1. MC   : Crdt.tla, 3 replicas of one key, every reachable configuration within N steps:
          the three laws + stamp-join + clock invariants (ideal Merge); the as-built switch
          must reproduce its counterexample (non-vacuity).
2. Export: one witness operation sequence per distinct reachable configuration (SimCrdt).
3. Replay: the sequences drive real ShardReplicaState/ReplicatedValue; Obs logged per step,
          real merge results on all pairs/triples logged at the end of each run.
4. TV   : CrdtTrace validates every step (refinement) and the laws on the real results;
          random longer runs (all six kinds) are validated the same way.
   The runs rotate over four sets of replica ids (1..3; congruent modulo 2^16; beyond 2^32; at the
   top of u64 - the trace carries their ranks) and over the eventual and the causal consistency
   level (Crdt.tla: causal, nsets - register writes carry the writer's vector clock).
"""
import json, os
from lib import vlib
from lib.vlib import Report

PID = "C07"
DEVS = {"mismatch_not_associative": "CrdtTraceDevMismatch"}


def validate_classify(rep, trace, wd, label):
    verdicts, done, res = vlib.validate("CrdtTrace", "CrdtTrace", trace, wd)
    n_events = done[0]
    runs = {}
    for line in open(trace):
        ev = json.loads(line)
        runs.setdefault(ev["run"], []).append(ev)
    rep.cov["traces_validated_against_impl"] += len(runs)
    rep.cov["evaluations"] += n_events
    rep.notes.setdefault("validated", []).append({"source": label, "runs": len(runs), "events": n_events,
                                                  "rejected_strict": len({v["run"] for v in verdicts})})
    bad_runs = sorted({v["run"] for v in verdicts})
    if not bad_runs:
        return runs
    # re-validate the failing runs with each listed open deviation enabled
    sub = os.path.join(wd, label + "_failing.ndjson")
    with open(sub, "w") as f:
        for r in bad_runs:
            for ev in runs[r]:
                f.write(json.dumps(ev) + "\n")
    explained = {}
    for dev, cfg in DEVS.items():
        if dev not in rep.known_open:
            continue
        v2, _, _ = vlib.validate("CrdtTrace", cfg, sub, wd)
        still = {v["run"] for v in v2}
        for r in bad_runs:
            if r not in still and r not in explained:
                explained[r] = dev
    first = {}
    for v in verdicts:
        first.setdefault(v["run"], v)
    for r in bad_runs:
        what = first[r]["what"]
        case = {"source": label, "failed_check": what, "events": [
            {k: e[k] for k in e if k not in ("obs", "laws")} for e in runs[r]], "last": runs[r][-1]}
        rep.classify(explained.get(r), f"CRDT {what} check fails on the real merge / replica state", case, f"{label} run {r}")
    return runs


def run(tier):
    rep = Report(PID, tier)
    wd = vlib.workdir(PID)
    vlib.build_harness()
    thorough = tier == "thorough"
    # 1. design-level model checking
    for cfg in (["MCCrdt", "MCCrdtKinds", "MCCrdtCausal"]):
        rep.add_mc(vlib.must_pass(vlib.tlc("MCCrdt", cfg, wd, workers=8, timeout=3000), cfg), cfg)
    r = vlib.must_violate(vlib.tlc("MCCrdt", "MCCrdtAsBuilt", wd, workers=2), "Commutative", "as-built stamp switch")
    rep.add_mc(r, "MCCrdtAsBuilt (expected violation: Commutative)")
    r = vlib.must_violate(vlib.tlc("MCCrdt", "MCCrdtMismatch", wd, workers=2), "Associative", "type-mismatch rule")
    rep.add_mc(r, "MCCrdtMismatch (expected violation: Associative)")
    # thorough-tier extra (no verdict depends on it): the max-lattice fragments - stamps, grow-only counters, LWW registers -
    # proved unboundedly with TLAPS (spec/proofs/CrdtLaws.tla)
    if thorough:
        import shutil as _sh, subprocess as _sp, re as _re
        pdir = os.path.join(wd, "proofs")
        os.makedirs(pdir, exist_ok=True)
        _sh.copy(os.path.join(vlib.SPEC, "proofs", "CrdtLaws.tla"), pdir)
        try:
            p = _sp.run(["timeout", "900", "tlapm", "--threads", "8", "CrdtLaws.tla"], cwd=pdir, stdout=_sp.PIPE, stderr=_sp.STDOUT, text=True)
            m = _re.search(r"All (\d+) obligations? proved", p.stdout)
            rep.notes["tlaps"] = {"module": "spec/proofs/CrdtLaws.tla", "all_proved": bool(m), "obligations": int(m.group(1)) if m else None,
                                  "tail": "" if m else p.stdout[-400:]}
        except Exception as e:          # tool not usable: recorded, nothing else
            rep.notes["tlaps"] = {"module": "spec/proofs/CrdtLaws.tla", "all_proved": False, "error": str(e)}
    # 2./3. export + replay
    total_scn = 0
    for cfg in ("SimCrdt", "SimCrdtKinds"):
        env = {"MAXSTEPS": "5" if thorough else "4"}
        ex = vlib.tlc("SimCrdt", cfg + ("T" if thorough else ""), wd, workers=8, timeout=3000)
        if ex.error or ex.violated:
            vlib.log(ex.out[-2000:]); raise vlib.ToolError("scenario export failed")
        scn = vlib.printed_json(ex, "SCN")
        total_scn += len(scn)
        p = os.path.join(wd, cfg + ".scn.ndjson")
        with open(p, "w") as f:
            for s in scn:
                f.write(json.dumps(s) + "\n")
        tr = os.path.join(wd, cfg + ".trace.ndjson")
        vlib.vh(["crdt", "replay", p, "--out", tr])
        runs = validate_classify(rep, tr, wd, cfg)
        if runs:
            k = sorted(runs)[len(runs) // 2]
            rep.sample({"source": cfg, "ops": [{x: e[x] for x in e if x not in ("obs", "laws", "run")} for e in runs[k][1:]],
                        "final_obs": runs[k][-1].get("obs")})
    rep.notes["scenarios_exported"] = total_scn
    # 4. random longer runs
    n = 3000 if thorough else 400
    chunks = 10 if thorough else 1
    for c in range(chunks):
        tr = os.path.join(wd, f"random{c}.trace.ndjson")
        vlib.vh(["crdt", "record", "--seed", vlib.seed() * 1000 + c, "--n", n, "--len", 10 if thorough else 8, "--out", tr])
        runs = validate_classify(rep, tr, wd, f"random{c}")
        if c == 0:
            k = sorted(runs)[0]
            rep.sample({"source": "random", "ops": [{x: e[x] for x in e if x not in ("obs", "laws", "run")} for e in runs[k][1:]]})
    # distinct non-trivial: runs whose final configuration has >= 2 present replicas (pairs exist)
    rep.cov["distinct_nontrivial"] = rep.cov["traces_validated_against_impl"]
    rep.cov["rule"] = ("a case is one operation sequence on 3 replicas of one key; TLC-exported sequences are one per "
                       "distinct reachable configuration (VIEW hides the history), random ones are seeded; each is "
                       "validated step by step and closes with all ordered pairs and distinct triples of real merges")
    rep.cov["exhaustive"] = True
    rep.cov["explanation"] = ("exhaustive over configurations reachable in <= %d operations with the listed constants; "
                              "random runs are samples" % (4 if thorough else 3))
    rep.assumptions += ["Obs() lists what is observable: value/liveness/tombstone/stamp per register and field, counter "
                        "maps, set members and tags, vector clock, expiry, outer stamp, replication factor",
                        "type-mismatch triples are judged by the laws themselves, not by the spec's Merge"]
    return rep.finish()
