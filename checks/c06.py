"""C06 - replicas converge once updates are delivered; what a replica serves is what its state says.

1. MC    : Replication.tla (nodes = executor + CRDT state + clock; network reorders, delays,
           duplicates; anti-entropy): ServedIsState at every step, Converged at quiescence, for
           register-only and hash-only command sets on 3 nodes; every as-built switch (NX recorded
           unapplied, DEL of a hash, recorded WRONGTYPE, remote hash over a served string, expiry
           by max) must reproduce its counterexample; mixed types reproduce the open finding.
2. Export: one witness step sequence per distinct configuration (2 nodes all commands, 3 nodes).
3. Replay: real ReplicatedShardActors, the harness is the network; after every step each node's
           replication state and served value (TYPE/GET/HGETALL) are logged.
   Also  : the simulator's replicas (multi_node.rs): SimulatedNode under the same step rules (simnode), and the
           whole MultiNodeSimulation with its own network, gossip and anti-entropy (simcluster, SimClusterVerdict).
4. TV    : ReplTrace replays the named action and compares state and served value on every
           node at every step, and agreement whenever nothing is in flight. Random runs too.
"""
import os
from lib import vlib
from lib.vlib import Report

PID = "C06"
DEV = {"type_change_order_dependent": "ReplTraceDevType"}


def run(tier):
    rep = Report(PID, tier)
    wd = vlib.workdir(PID)
    vlib.build_harness()
    thorough = tier == "thorough"
    for cfg in ("MCRepl", "MCReplHash"):
        rep.add_mc(vlib.must_pass(vlib.tlc("Replication", cfg, wd, workers=8, timeout=1200), cfg), cfg)
    for cfg, inv in (("MCReplAsBuiltNx", "ServedIsState"), ("MCReplAsBuiltDelHash", "ServedIsState"),
                     ("MCReplAsBuiltErr", "ServedIsState"), ("MCReplAsBuiltRemoteHash", "ServedIsState"),
                     ("MCReplAsBuiltRmwTtl", "ServedIsState"),
                     ("MCReplAsBuiltExpiry", "Converged"), ("MCReplMixed", "Converged")):
        r = vlib.must_violate(vlib.tlc("Replication", cfg, wd, workers=4, timeout=600), inv, cfg)
        rep.add_mc(r, f"{cfg} (expected violation: {inv})")
    describe = "replication trace rejected: {what}"
    total = 0
    for cfg in (("SimReplT", "SimRepl3") if thorough else ("SimRepl", "SimRepl3")):
        scn, ex = vlib.export_scenarios("SimRepl", cfg, wd, workers=8)
        total += len(scn)
        for i in range(0, len(scn), 5000):
            p = vlib.write_ndjson(os.path.join(wd, f"{cfg}{i}.scn.ndjson"), scn[i:i + 5000])
            tr = os.path.join(wd, f"{cfg}{i}.trace.ndjson")
            vlib.vh(["repl", "replay", p, "--out", tr])
            runs, bad = vlib.validate_runs(rep, "ReplTrace", "ReplTrace", tr, wd, f"{cfg}{i}", dev_cfgs=DEV,
                                           describe=describe, strip=("nodes",))
            if i == 0:
                k = sorted(runs)[len(runs) // 2]
                rep.sample({"source": cfg, "steps": [{x: e[x] for x in e if x not in ("nodes", "run")} for e in runs[k][1:]],
                            "final": runs[k][-1].get("nodes")})
            os.remove(tr)
    rep.notes["scenarios_exported"] = total
    for c in range(6 if thorough else 1):
        tr = os.path.join(wd, f"random{c}.ndjson")
        vlib.vh(["repl", "record", "--seed", vlib.seed() * 100 + c, "--n", 3000 if thorough else 1500, "--out", tr])
        runs, bad = vlib.validate_runs(rep, "ReplTrace", "ReplTrace", tr, wd, f"random{c}", dev_cfgs=DEV,
                                       describe=describe, strip=("nodes",))
        os.remove(tr)
    # hashes far above any per-delta size threshold against a concurrent write of another type; node-level key routing
    for fam in ("bighash", "nodepair"):
        tr = os.path.join(wd, fam + ".ndjson")
        vlib.vh(["repl", fam, "--out", tr])
        vlib.validate_runs(rep, "ReplTrace", "ReplTrace", tr, wd, fam, dev_cfgs=DEV, describe=describe, strip=("nodes",))
        os.remove(tr)
    # node level: commands that name several keys (MSET, DEL, MGET, EXISTS) and DBSIZE, accepted at A, shipped to B
    tr = os.path.join(wd, "multikey.ndjson")
    vlib.vh(["repl", "multikey", "--seed", vlib.seed(), "--n", 1500 if thorough else 150, "--out", tr])
    vlib.validate_runs(rep, "ReplTrace", "ReplTrace", tr, wd, "multikey", dev_cfgs=DEV, describe=describe, strip=("nodes",))
    os.remove(tr)
    # clusters of 2-4 real nodes: updates queued in the real GossipState, serialised to JSON on the wire, delivered in any
    # order / duplicated / lost (then made up for by a full-state resend); after full delivery every node answers alike
    tr = os.path.join(wd, "cluster.ndjson")
    vlib.vh(["repl", "cluster", "--seed", vlib.seed() * 5 + 2, "--n", 3000 if thorough else 300, "--out", tr])
    vlib.validate_runs(rep, "ReplTrace", "ReplTrace", tr, wd, "cluster", dev_cfgs=DEV, describe=describe, strip=("nodes",))
    os.remove(tr)
    # two directed shapes on real nodes with instant delivery: a keep-alive (the same SET .. PX again before it runs out, read
    # between the two deadlines) and a node that lags 70 000 writes behind, receives only the newest state and then writes
    tr = os.path.join(wd, "shapes.ndjson")
    vlib.vh(["repl", "shapes", "--out", tr])
    vlib.validate_runs(rep, "ReplTrace", "ReplTrace", tr, wd, "shapes", dev_cfgs=DEV, describe=describe, strip=("nodes",))
    os.remove(tr)
    # the simulator's replicas (src/simulator/multi_node.rs, anchored): its node glue under the step-by-step rules of
    # Replication.tla, and the whole MultiNodeSimulation (own network with delays, loss, partitions; broadcast or selective
    # gossip through the ring; own anti-entropy) under Converged + WinnerIsGreatestStamp + ServedIsState at the end
    tr = os.path.join(wd, "simnode.ndjson")
    vlib.vh(["repl", "simnode", "--seed", vlib.seed() * 3 + 1, "--n", 2000 if thorough else 200, "--out", tr])
    vlib.validate_runs(rep, "ReplTrace", "ReplTrace", tr, wd, "simnode", dev_cfgs=DEV, describe=describe, strip=("nodes",))
    os.remove(tr)
    tr = os.path.join(wd, "simcluster.ndjson")
    vlib.vh(["repl", "simcluster", "--seed", vlib.seed() * 3 + 2, "--n", 4000 if thorough else 400, "--out", tr])
    vlib.validate_runs(rep, "ReplTrace", "ReplTrace", tr, wd, "simcluster", dev_cfgs=DEV, describe=describe, strip=("nodes",))
    os.remove(tr)
    rep.cov["distinct_nontrivial"] = rep.cov["traces_validated_against_impl"]
    rep.cov["rule"] = ("a case is one run of 2-4 real replicated shard actors on one key: client commands at any node, deltas "
                       "delivered in any order, duplicated, delayed past later commands, anti-entropy; every case has >= 1 write")
    rep.cov["exhaustive"] = True
    rep.cov["explanation"] = "exhaustive over the configurations of the exported models (2 commands quick, 3 thorough); random runs are samples"
    rep.assumptions += ["full replication: every node is responsible for the key",
                        "the clocks of the nodes stand still in the step-by-step families: the TTL a node reports (PTTL) is the TTL the key was given, and it is compared with the expiry in the replication state; real time passes only in the timed half of the cluster family, which compares the final reads",
                        "INCR/APPEND outcomes are taken from the log (command semantics is C01's subject)"]
    return rep.finish()
