"""C02 - concurrent clients on one node see a linearizable per-key history.

1. MC    : ShardActors.tla - clients, FIFO mailboxes, one actor per shard, one-shot reply channels
           and the pooled reply slots (acquire / send / receive / reset / push back / cancel):
           ReplyMatchesRequest, NoSharedSlot, SlotDiscipline, PoolBounded over every interleaving
           (2 clients x 2 calls, 2 keys on 2 shards, pool capacity 1); Live (every call that is not
           cancelled returns) under weak fairness; the switch "release_on_cancel" (a guard that
           returns the slot of a dropped call) must violate ReplyMatchesRequest.
2. Export: random behaviours of the model (TLC simulation) projected to inv / run / recv / cancel.
3. Replay: on a single-threaded runtime the harness creates the real calls' futures
           (execute, fast_*, pooled_fast_*, fast_batch_*_pipeline, EVAL) on a real
           ShardedActorState with a 1-2 slot pool and polls them in the schedule's order.
4. Record: free-running client tasks on a multi-thread runtime (4 workers) over all entry points,
           register keys (unique values; set/get/getset/del, read-modify-write scripts) and a
           counter key (INCRBY, script increment), multi-key batches across shards, occasional
           cancellation; invocation/response tickets from one atomic counter.
   Conn  : the same workload through real connection handlers on duplex streams sharing one state
           (the handler picks its own fast / batched / generic path), pipelines of 1-4 commands.
5. TV    : LinTrace searches, per key, a total order consistent with real time in which every
           reply is the sequential specification's.
"""
import json, os
from lib import vlib
from lib.vlib import Report

PID = "C02"


def run(tier):
    rep = Report(PID, tier)
    wd = vlib.workdir(PID)
    vlib.build_harness()
    thorough = tier == "thorough"
    cfg = "MCShardActors" if thorough else "MCShardActorsQ"
    rep.add_mc(vlib.must_pass(vlib.tlc("MCShardActors", cfg, wd, workers=8, timeout=3000), cfg), cfg)
    rep.add_mc(vlib.must_pass(vlib.tlc("MCShardActors", "MCShardActorsLive", wd, workers=4, timeout=3000), "MCShardActorsLive"), "MCShardActorsLive (liveness)")
    r = vlib.must_violate(vlib.tlc("MCShardActors", "MCShardActorsAsBuiltGuard", wd, workers=4), "ReplyMatchesRequest", "release_on_cancel")
    rep.add_mc(r, "MCShardActorsAsBuiltGuard (expected violation: ReplyMatchesRequest)")
    ex = vlib.tlc("SimShardActors", "SimShardActors", wd, workers=1, simulate="num=%d" % (20000 if thorough else 2500), depth=80, timeout=3000)
    if ex.error or ex.violated:
        vlib.log(ex.out[-2000:]); raise vlib.ToolError("schedule export failed")
    seen, scn = set(), []
    for s in vlib.printed_json(ex, "SCN"):
        k = json.dumps(s)
        if k not in seen:
            seen.add(k); scn.append(s)
    rep.notes["schedules_exported"] = len(scn)
    p = vlib.write_ndjson(os.path.join(wd, "schedules.ndjson"), scn)
    hs = os.path.join(wd, "scripted.ndjson")
    vlib.vh(["lin", "scripted", p, "--out", hs])
    runs, _ = vlib.validate_runs(rep, "LinTrace", "LinTrace", hs, wd, "scripted", describe="not linearizable: {what}", strip=())
    k = sorted(runs)[len(runs) // 2]
    rep.sample({"mode": "scripted", "schedule": runs[k][0]["label"], "keys": runs[k][0]["keys"]})
    stats = {"histories": 0, "key_histories": 0, "ops": 0, "overlapping_pairs": 0, "pairs": 0, "cancelled": 0, "paths": {}}

    def account(runs):
        for evs in runs.values():
            stats["histories"] += 1
            for kk in evs[0]["keys"]:
                ops = kk["ops"]
                stats["key_histories"] += 1
                stats["ops"] += len(ops)
                for i, a in enumerate(ops):
                    stats["paths"][a["path"] + "/" + a["kind"]] = stats["paths"].get(a["path"] + "/" + a["kind"], 0) + 1
                    stats["cancelled"] += 1 if a["opt"] else 0
                    for b in ops[i + 1:]:
                        stats["pairs"] += 1
                        if not (a["ret"] < b["inv"] or b["ret"] < a["inv"]):
                            stats["overlapping_pairs"] += 1
    account(runs)
    os.remove(hs)
    n = 60000 if thorough else 4000
    chunk = 5000 if thorough else 2000
    nontrivial = 0
    for i in range(0, n, chunk):
        hf = os.path.join(wd, f"free{i}.ndjson")
        shape = [(4, 5, 2), (5, 6, 3), (3, 8, 2), (8, 3, 3)][(i // chunk) % 4]
        vlib.vh(["lin", "free", "--seed", vlib.seed() * 1000 + i // chunk, "--n", min(chunk, n - i), "--clients", shape[0], "--ops", shape[1],
                 "--keys", shape[2], "--threads", 4, "--out", hf])
        runs, _ = vlib.validate_runs(rep, "LinTrace", "LinTrace", hf, wd, f"free{i}", describe="not linearizable: {what}", strip=())
        account(runs)
        if i == 0:
            k = sorted(runs)[7]
            rep.sample({"mode": "free", "label": runs[k][0]["label"], "keys": runs[k][0]["keys"][:1]})
        os.remove(hf)
    # batches far deeper than any per-message budget (63-300, thorough to 4097 entries in one call) on 1, 2, 4 shards:
    # written, overwritten with shorter long values, read back through the batched and the generic path
    hb = os.path.join(wd, "bigbatch.ndjson")
    vlib.vh(["lin", "bigbatch", "--tier", tier, "--out", hb])
    runs, _ = vlib.validate_runs(rep, "LinTrace", "LinTrace", hb, wd, "bigbatch", describe="not linearizable: {what}", strip=())
    account(runs)
    os.remove(hb)
    # the TTL manager's sweep (evict_expired_all_shards) in flight together with one client write to a key whose TTL has
    # lapsed, every entry path, every polling order on a single-threaded runtime; an acknowledged write must be read afterwards
    hw = os.path.join(wd, "sweep.ndjson")
    vlib.vh(["lin", "sweep", "--out", hw])
    runs, _ = vlib.validate_runs(rep, "LinTrace", "LinTrace", hw, wd, "sweep", describe="not linearizable: {what}", strip=())
    account(runs)
    os.remove(hw)
    # bursts: 1500-5000 (thorough 20000) calls sitting in the shard mailboxes at the same time (batches, single SETs on every
    # path, GET batches), each key written once and read back: an acknowledged write is there, a refused one is not
    hu = os.path.join(wd, "burst.ndjson")
    vlib.vh(["lin", "burst", "--tier", tier, "--out", hu])
    runs, _ = vlib.validate_runs(rep, "LinTrace", "LinTrace", hu, wd, "burst", describe="not linearizable: {what}", strip=())
    account(runs)
    os.remove(hu)
    # the same through real connection handlers (duplex streams), pipelines of 1-4 commands
    nc = 20000 if thorough else 1500
    for i in range(0, nc, 5000):
        hc = os.path.join(wd, f"conn{i}.ndjson")
        vlib.vh(["lin", "conn", "--seed", vlib.seed() * 1000 + 500 + i // 5000, "--n", min(5000, nc - i), "--clients", 3 + (i // 5000) % 3, "--ops", 8,
                 "--keys", 2, "--threads", 4, "--out", hc])
        runs, _ = vlib.validate_runs(rep, "LinTrace", "LinTrace", hc, wd, f"connection{i}", describe="not linearizable: {what}", strip=())
        account(runs)
        os.remove(hc)
    # connections that come and go on one shared buffer pool; a client that dies inside a frame leaves nothing behind
    tr = os.path.join(wd, "pool.ndjson")
    vlib.vh(["conn", "pool", "--out", tr])
    vlib.validate_runs(rep, "ConnTrace", "ConnTrace", tr, wd, "shared_pool", describe="connection case rejected: {what}", strip=("s", "cmds", "replies"))
    os.remove(tr)
    rep.notes["history_statistics"] = stats
    rep.cov["distinct_nontrivial"] = stats["histories"]
    rep.cov["rule"] = ("a case is one concurrent history (scripted schedule or free-running run) on a fresh ShardedActorState; every history "
                       "has several clients on shared keys; overlapping operation pairs are counted in history_statistics")
    rep.cov["exhaustive"] = False
    rep.cov["explanation"] = ("the design model is explored exhaustively within its constants; the schedules replayed on the real code are a random "
                              "sample of its behaviours and the free-running histories are whatever the tokio scheduler produced")
    rep.assumptions += ["tickets come from one SeqCst atomic counter taken immediately before the call and after the reply: the recorded interval contains the real one, so a rejected history is a real violation",
                        "an abandoned call (dropped future) may take effect at any later time or never",
                        "register keys receive unique values of 2-75 bytes; the counter key receives numbers only",
                        "multi-key batches are judged per key (not as one atomic step)",
                        "the schedules of the multi-thread runtime are not controlled: linearizability is shown for the explored schedules only"]
    return rep.finish()
