"""C17 - a command that fails changes nothing; a read-only command changes nothing.

1. MC    : RedisKeyspace.tla: ErrorChangesNothing and ReadOnlyChangesNothing as invariants of the
           MC command universe (the model's own commands obey the property).
2. TV    : failure-biased generator: wrong-type operands at every key position (both keys of
           two-key commands), i64 overflow, out-of-range indices, invalid option combinations,
           odd argument counts, stubs, bit/float/scan commands, scripts failing on their first call;
           KsTrace checks - independently of what the model thinks the command should do - that a
           step whose RECORDED reply is an error, or whose command the CODE classifies read-only
           (Command::is_read_only), has equal recorded keyspaces (keys, types, values, deadlines at
           that instant) before and after; and that the code's read-only table is contained in the
           model's.
"""
import os
from lib import vlib
from lib.vlib import Report
from checks import ks_common as kc

PID = "C17"


def run(tier):
    rep = Report(PID, tier)
    wd = vlib.workdir(PID)
    vlib.build_harness()
    thorough = tier == "thorough"
    kc.model_check(rep, wd)
    errs = ro = 0
    for c in range(8 if thorough else 1):
        tr = os.path.join(wd, f"fail{c}.ndjson")
        vlib.vh(["ks", "record", "--seed", vlib.seed() * 100 + 50 + c, "--n", 1500 if thorough else 500, "--len", 40, "--bias", "fail", "--out", tr])
        runs = kc.validate(rep, wd, tr, f"failbias{c}", cfg="KsTraceC17")
        for evs in runs.values():
            for e in evs:
                if e.get("a") == "cmd":
                    errs += e["r"]["t"] == "error"
                    ro += bool(e.get("ro"))
        if c == 0:
            k = sorted(runs)[0]
            rep.sample({"steps": [{"argv": e["argv"], "reply_type": e["r"]["t"], "read_only": e["ro"]} for e in runs[k][1:25]]})
        os.remove(tr)
    rep.notes["steps_with_error_reply"] = errs
    rep.notes["steps_classified_read_only"] = ro
    rep.cov["distinct_nontrivial"] = errs + ro
    rep.cov["rule"] = ("a case is one command step with the keyspace recorded before and after; non-trivial = the reply is an "
                       "error or the code classifies the command as read-only (counted steps, 35% of commands come from the "
                       "out-of-model failure pool)")
    rep.assumptions += ["scripts that fail after a successful redis.call are excluded (Redis does not roll scripts back either)",
                        "MULTI/EXEC at executor level are excluded (C05)"]
    # node level: a WAL on a misbehaving disk; an error reply and a changed value never go together
    tr = os.path.join(wd, "node_errs.ndjson")
    # two-key commands against a destination of the wrong type with a live TTL, none, or one about to lapse (every direction,
    # a source of one or two elements): the error must leave source, destination and TTLs alone
    fam = kc.wrongtype_dest_scenarios()
    p = vlib.write_ndjson(os.path.join(wd, "wrongtype_dest.ndjson"), fam)
    tr = os.path.join(wd, "wrongtype_dest.trace.ndjson")
    vlib.vh(["ks", "replay", p, "--out", tr])
    kc.validate(rep, wd, tr, "wrongtype_destination", cfg="KsTraceC17")
    os.remove(tr)
    vlib.vh(["node", "errs", "--seed", vlib.seed(), "--n", 2000 if tier == "thorough" else 300, "--out", tr])
    kc.validate(rep, wd, tr, "node_errors", cfg="KsTraceC17")
    os.remove(tr)
    return rep.finish()
