"""C11 - recovery returns exactly the merge of everything persisted, idempotently.

1. MC    : Recovery.tla: every placement of 4 (thorough 5) updates - interleaved shard clocks, a
           remote stamp far ahead, a tie on time, a delete - into non-empty subsets of {checkpoint,
           segment 1, segment 2, WAL}: RecoveryIsMerge, RecoveryIdempotent; the as-built WAL
           high-water filter must violate RecoveryIsMerge.
2. Export: every placement of 3 (thorough 4) updates (SimRecovery).
3. Replay: each layout is materialised with the real SegmentWriter, CheckpointWriter,
           ManifestManager and WalRotator; the real recover() / recover_with_wal() results are
           folded with the real merge and applied 1x and 3x to a real ReplicatedShardedState.
4. TV    : RecoveryTrace computes the expected merge per key with CrdtOps!Merge.
"""
import os
from lib import vlib
from lib.vlib import Report

PID = "C11"


def run(tier):
    rep = Report(PID, tier)
    wd = vlib.workdir(PID)
    vlib.build_harness()
    thorough = tier == "thorough"
    cfg = "MCRecoveryT" if thorough else "MCRecovery"
    rep.add_mc(vlib.must_pass(vlib.tlc("Recovery", cfg, wd, workers=8, timeout=3000), cfg), cfg)
    r = vlib.must_violate(vlib.tlc("Recovery", "MCRecoveryAsBuilt", wd, workers=2), "RecoveryIsMerge", "wal_highwater_filter")
    rep.add_mc(r, "MCRecoveryAsBuilt (expected violation: RecoveryIsMerge)")
    lays, ex = vlib.export_scenarios("SimRecovery", "SimRecoveryT" if thorough else "SimRecovery", wd)
    rep.notes["layouts_exported"] = len(lays)
    describe = "recovery case rejected: {what}"
    nt = 0
    chunk = 10000
    for i in range(0, len(lays), chunk):
        p = vlib.write_ndjson(os.path.join(wd, f"lay{i}.ndjson"), lays[i:i + chunk])
        tr = os.path.join(wd, f"cases{i}.ndjson")
        vlib.vh(["recov", "replay", p, "--out", tr])
        runs, bad = vlib.validate_runs(rep, "RecoveryTrace", "RecoveryTrace", tr, wd, f"layouts{i}", describe=describe,
                                       strip=("fold", "fold_wal", "node", "node2"))
        nt += sum(1 for evs in runs.values() if sum(1 for p_ in ("ckpt", "seg1", "seg2", "wal") if evs[0][p_]) >= 2)
        if i == 0:
            k = sorted(runs)[len(runs) // 2]
            rep.sample({x: runs[k][0][x] for x in ("ups", "ckpt", "seg1", "seg2", "wal", "L", "fold_wal")})
    tr = os.path.join(wd, "random.ndjson")
    vlib.vh(["recov", "record", "--seed", vlib.seed(), "--n", 30000 if thorough else 3000, "--out", tr])
    runs, bad = vlib.validate_runs(rep, "RecoveryTrace", "RecoveryTrace", tr, wd, "random", describe=describe,
                                   strip=("fold", "fold_wal", "node", "node2"))
    nt += sum(1 for evs in runs.values() if sum(1 for p_ in ("ckpt", "seg1", "seg2", "wal") if evs[0][p_]) >= 2)
    k = sorted(runs)[0]
    rep.sample({x: runs[k][0][x] for x in ("ups", "ckpt", "seg1", "seg2", "wal", "L")})
    # checkpoints written by the repository's own CheckpointManager while the flusher keeps going (0-2 flushes land between the
    # snapshot and create_checkpoint; published with compact_segments), segments by the real StreamingPersistence
    tr = os.path.join(wd, "ckptmgr.ndjson")
    vlib.vh(["recov", "ckptmgr", "--seed", vlib.seed() + 3, "--n", 3000 if thorough else 300, "--out", tr])
    runs, bad = vlib.validate_runs(rep, "RecoveryTrace", "RecoveryTrace", tr, wd, "checkpoint_manager", describe=describe,
                                   strip=("fold", "fold_wal", "node", "node2"))
    nt += len(runs)
    os.remove(tr)
    # a recovered state far larger than any mailbox bound (one key rewritten 3 000 / 12 000 / 40 000 times over eight segments,
    # 200 bystanders), applied to a real node the way the server does at start-up
    tr = os.path.join(wd, "bignode.ndjson")
    vlib.vh(["recov", "bignode", "--out", tr])
    runs, bad = vlib.validate_runs(rep, "RecoveryTrace", "RecoveryTrace", tr, wd, "big_recovered_state", describe=describe, strip=("hot",))
    os.remove(tr)
    rep.cov["distinct_nontrivial"] = nt
    rep.cov["rule"] = ("a case is one persisted layout (checkpoint / two segments / WAL files, duplicates allowed) of a set of "
                       "updates; non-trivial = at least two kinds of places are populated")
    rep.cov["exhaustive"] = True
    rep.cov["explanation"] = "exhaustive over placements of the exported update table; random update sets and layouts are samples"
    rep.assumptions += ["a checkpoint that claims to cover segment 1 contains every update of segment 1",
                        "per key all updates have one CRDT kind (type mismatches are C07's subject)",
                        "one replica never issues the same stamp for two different writes"]
    return rep.finish()
