"""C10 - WAL recovery yields only intact appended entries; truncation keeps newer ones.

1. MC   : WalFormat.tla abstract region-level reader over every cut / changed range of small
          layouts: SoundRead, CompleteRead (ideal); the as-built reader (checksum covers the
          payload only) must violate SoundRead.
2. Cases: the harness writes real images with the real WalWriter, applies every cut length,
          bit flips, bursts, zero fills and zero extensions, and reads them back with the real
          recover_all_entries / recover_entries_after; truncate_before over every stamp layout;
          one file of an intact image unreadable (I/O error on open or on read); entries of 1 MiB
          to beyond 64 MiB intact, with a damaged tail, and around truncation.
3. TV   : WalFormatTrace judges each record with the layout arithmetic of WalFormat.tla.
4. Actor: the truncation rule through the REAL WAL actor (WalPolicy.tla, checks/wal_policy.py): TruncateUpTo
          messages among the writes of every fsync policy; a delete of the active file, or of a file holding
          an entry stamped later than every requested threshold, is rejected by WalPolicyTrace.
"""
import os
from lib import vlib
from lib.vlib import Report
from checks import wal_policy

PID = "C10"


def run(tier):
    rep = Report(PID, tier)
    wd = vlib.workdir(PID)
    vlib.build_harness()
    rep.add_mc(vlib.must_pass(vlib.tlc("WalFormat", "MCWalFormat", wd, workers=4), "MCWalFormat"), "MCWalFormat")
    r = vlib.must_violate(vlib.tlc("WalFormat", "MCWalFormatAsBuilt", wd, workers=2), "SoundRead", "stamp_not_covered")
    rep.add_mc(r, "MCWalFormatAsBuilt (expected violation: SoundRead)")
    tr = os.path.join(wd, "cases.ndjson")
    vlib.vh(["wal", "format", "--tier", tier, "--seed", vlib.seed(), "--out", tr])
    runs, bad = vlib.validate_runs(rep, "WalFormatTrace", "WalFormatTrace", tr, wd, "cases",
                                   describe="WAL recovery/truncation case rejected ({what})", strip=())
    kinds = {}
    for k, evs in runs.items():
        e = evs[0]
        kk = e.get("kind", e["t"])
        kinds[kk] = kinds.get(kk, 0) + 1
    rep.notes["cases_by_kind"] = kinds
    rep.cov["distinct_nontrivial"] = sum(1 for evs in runs.values()
                                         if evs[0]["t"] == "trunc" or evs[0].get("lo", -1) >= 0 or evs[0].get("cut", -1) >= 0 or evs[0].get("ext", 0) > 0)
    for k in sorted(runs)[::max(1, len(runs) // 4)][:4]:
        rep.sample(runs[k][0])
    rep.cov["rule"] = ("a case is one real image (1-3 files, 1-4 entries each) with one damage (every cut length, single-bit "
                       "flips, 2-4 byte bursts, 16-byte zero windows, zero extensions) or one truncate_before call over every "
                       "layout of stamps {1,2,3} and every threshold; non-trivial = the image actually changed / a truncation ran")
    wal_policy.run_family(rep, wd, tier, PID, mc=("MCWalPolicyAlways", "MCWalPolicyAsBuiltLast", "MCWalPolicyAsBuiltActive"))
    rep.cov["exhaustive"] = True
    rep.cov["explanation"] = "exhaustive over cut lengths and byte positions of the listed layouts; quick samples 3 of 8 bit positions per byte at random beyond bits 0 and 7"
    rep.assumptions += ["CRC32 detects every single-bit flip and every burst <= 32 bits inside the region it covers",
                        "an entry counts as returned intact only if data, stamp and checksum equal what was appended"]
    return rep.finish()
