"""C20 - simulation is reproducible: same seed, same trace, same verdict.

1. MC    : Repro.tla - a harness as a seeded transition system run twice in one process and once
           in another; Reproducible / PrefixAgree hold for the pure harness and fail for each
           as-built switch (ambient read; leftover state outside the harness).
2. Record: every built-in harness and preset (39, plus 5 configurations that are not presets: executor, list, set, hash, sorted set,
           transaction, four CRDT harnesses, streaming, WAL, compaction, DSTSimulation,
           RedisDSTSimulation, partition tests, pipeline simulator) is run for each seed
             - twice in process A (A1, then A2 after everything else ran once),
             - once in process B, harnesses in reverse order (fresh hash seeds, other history).
           Each run logs every step (last operation, or the running result) and a final record
           (state dump, result, verdict).  Debug renderings are canonicalised (members of {...}
           groups sorted), because two equal hash maps print in different orders.
3. TV    : ReproTrace compares A1/A2 (same process) and A1/B (other process) record by record.
"""
import hashlib, json, os, subprocess
from lib import vlib
from lib.vlib import Report

PID = "C20"


def load(path):
    runs = {}
    for line in open(path):
        d = json.loads(line)
        runs.setdefault((d["h"], d["seed"], d["tag"]), []).append(d)
    return runs


def dig(s):
    return hashlib.sha1(s.encode("utf-8", "replace")).hexdigest()[:16]


def run(tier):
    rep = Report(PID, tier, level="other")
    wd = vlib.workdir(PID)
    vlib.build_harness()
    thorough = tier == "thorough"
    rep.add_mc(vlib.must_pass(vlib.tlc("Repro", "MCRepro", wd, workers=4), "MCRepro"), "MCRepro")
    for cfg in ("MCReproAsBuiltAmbient", "MCReproAsBuiltLeftover"):
        r = vlib.must_violate(vlib.tlc("Repro", cfg, wd, workers=2), "PrefixAgree", cfg)
        rep.add_mc(r, cfg + " (expected violation: PrefixAgree)")
    seeds = [vlib.seed() * 1000 + i for i in range(30 if thorough else 6)] + [0, 12345]
    ops = 1500 if thorough else 300
    sl = ",".join(str(s) for s in seeds)
    pa, pb = os.path.join(wd, "a.ndjson"), os.path.join(wd, "b.ndjson")
    # fourth process, started now and collected at the end: simulations created several seconds of real time before
    # they run (a wall-clock budget, a timeout or an "age" read from the host's clock would show here)
    import subprocess
    pl = os.path.join(wd, "l.ndjson")
    vlib.build_harness()
    longp = subprocess.Popen([vlib.VH, "repro", "run", "--harness", "dst/calm,redis_dst/uniform", "--seeds", str(seeds[0]), "--ops", str(ops), "--tag", "L",
                              "--slow", "5600", "--out", pl], cwd=vlib.VERIF, stdout=subprocess.DEVNULL, stderr=subprocess.DEVNULL)
    vlib.vh(["repro", "run", "--seeds", sl, "--ops", ops, "--tag", "A", "--reps", 2, "--out", pa])
    vlib.vh(["repro", "run", "--seeds", sl, "--ops", ops, "--tag", "B", "--order", "reverse", "--out", pb])
    # third process: the harnesses that do I/O against simulated stores, with real time passing between blocks
    pc = os.path.join(wd, "c.ndjson")
    slow_h = "streaming/calm,streaming/moderate,streaming/chaos,compaction/calm,compaction/aggressive,compaction/chaos"
    slow_seeds = ",".join(str(s) for s in seeds[:6 if thorough else 2])
    vlib.vh(["repro", "run", "--harness", slow_h, "--seeds", slow_seeds, "--ops", ops, "--tag", "S", "--slow", 130, "--out", pc])
    # fifth process: every tracing callsite enabled (a failing seed re-run with verbose logging); sixth: a neighbour thread of the
    # same process keeps building and running other simulations with other fault configurations meanwhile
    pd, pe = os.path.join(wd, "d.ndjson"), os.path.join(wd, "e.ndjson")
    vlib.vh(["repro", "run", "--seeds", ",".join(str(x) for x in seeds[:4 if thorough else 2]), "--ops", ops, "--tag", "D", "--debuglog", "1", "--out", pd])
    vlib.vh(["repro", "run", "--seeds", ",".join(str(x) for x in seeds[:4 if thorough else 2]), "--ops", ops, "--tag", "E", "--neighbour", "1", "--out", pe])
    try:
        longp.wait(timeout=600)
    except subprocess.TimeoutExpired:
        longp.kill()
        raise vlib.ToolError("the long-pause process did not finish")
    runs = load(pa)
    runs.update(load(pb))
    runs.update(load(pc))
    runs.update(load(pd))
    runs.update(load(pe))
    if os.path.exists(pl):
        runs.update(load(pl))
    keys = sorted({(h, s) for (h, s, _) in runs})
    recs, raw = [], {}
    steps = 0
    for (h, s) in keys:
        for rel, ta, tb in (("same_process", "A1", "A2"), ("other_process", "A1", "B"), ("other_process_slow", "A1", "S"), ("other_process_long_pause", "A1", "L"),
                            ("other_process_verbose_logging", "A1", "D"), ("other_process_busy_neighbour_thread", "A1", "E")):
            if (h, s, tb) not in runs:
                continue
            a, b = runs.get((h, s, ta), []), runs.get((h, s, tb), [])
            n = len(recs) + 1
            recs.append({"run": n, "h": h, "seed": s, "rel": rel, "a": ta, "b": tb,
                         "da": [dig(x["k"] + x["v"]) for x in a], "db": [dig(x["k"] + x["v"]) for x in b],
                         "va": a[-1].get("verdict", "") if a else "", "vb": b[-1].get("verdict", "") if b else ""})
            raw[n] = (a, b)
            steps += len(a)
    tr = vlib.write_ndjson(os.path.join(wd, "pairs.ndjson"), recs)
    verdicts, done, _ = vlib.validate("ReproTrace", "ReproTrace", tr, wd)
    rep.cov["traces_validated_against_impl"] += len(recs)
    rep.cov["evaluations"] += steps
    rep.notes["harness_presets"] = len({h for (h, _) in keys})
    rep.notes["seeds"] = seeds
    rep.notes["operations_per_run"] = ops
    rep.notes["pairs_compared"] = len(recs)
    rep.notes["verdicts_seen"] = sorted({r["va"][:60] for r in recs})[:40]
    for v in verdicts:
        a, b = raw[v["run"]]
        at = v.get("at", 0)
        r = recs[v["run"] - 1]
        case = {"harness": r["h"], "seed": r["seed"], "relation": r["rel"], "failed_check": v["what"], "first_divergence_at_record": at,
                "run_a": {"tag": r["a"], "record": a[at - 1] if 0 < at <= len(a) else None, "verdict": r["va"]},
                "run_b": {"tag": r["b"], "record": b[at - 1] if 0 < at <= len(b) else None, "verdict": r["vb"]},
                "reproduce": f"vh repro run --harness {r['h']} --seeds {r['seed']} --ops {ops} --reps 2"}
        rep.classify(None, f"{r['h']} seed {r['seed']}: {v['what']}", case, f"{r['h']}/{r['seed']}/{r['rel']}")
    k = len(recs) // 2
    rep.sample({x: recs[k][x] for x in ("h", "seed", "rel", "va")} | {"records": len(recs[k]["da"]), "first_step": raw[k + 1][0][0]["v"][:300] if raw[k + 1][0] else None})
    rep.cov["distinct_nontrivial"] = len(recs)
    rep.cov["rule"] = "a case is one pair of runs of the same (harness preset, seed): same process (second run later) or two processes with reversed harness order; every pair executes at least one operation"
    rep.cov["exhaustive"] = False
    rep.cov["explanation"] = "all 39 harness presets and 5 further configurations (other Zipfian key distributions, persistence that never flushes), a handful of seeds each; seeds and operation counts are samples"
    rep.assumptions += ["a run's trace is what the harness exposes: last operation per step where available (executor, list, set, hash, sorted set, transaction), the running result otherwise, and the final state dump / result / verdict",
                        "Debug renderings are compared after sorting the members of every {...} group",
                        "two processes differ in hash seeds, allocator state and the order in which the harnesses ran; wall-clock dependence shows only if it changes a logged value"]
    os.remove(pa); os.remove(pb); os.remove(pc)
    if os.path.exists(pl):
        os.remove(pl)
    return rep.finish()
