"""C16 - a command means the same via every entry path (both parsers, Lua redis.call / redis.pcall).

1. MC    : EntryPaths.tla - facts about the RESP -> Lua -> RESP conversion over bounded reply trees
           (idempotent, identity on nil-free replies, keeps the kind, never lengthens).
2. Cases : the harness puts every frame of a grammar-directed space (every command name in three
           letter cases x arities 0..6 x filler classes; every option keyword word up to length 3/4
           per command family; non-bulk elements; i64 limits in every numeric position; generator
           frames) through five entry paths - both parsers on the decoded value, both decoder + parser
           pipelines on the wire image, and the upper-cased name - under catch_unwind.
           EntryTrace judges agreement and the arity table of EntryPaths.tla.
3. Cases : programs of 1..3 commands run directly, through redis.call and through redis.pcall on
           twin executors after a common prefix; EntryTrace judges keyspace equality and the
           converted reply (Conv), including a script stopped by its first error.
4. TV    : the keyspace traces of C01 with every command issued by a one-line script
           (TLC-exported scenarios and random runs): KsTrace recomputes reply and keyspace with
           RedisKeyspace!Do and compares modulo Conv.
"""
import os
from lib import vlib
from lib.vlib import Report
from checks import ks_common as kc

PID = "C16"


def run(tier):
    rep = Report(PID, tier)
    wd = vlib.workdir(PID)
    vlib.build_harness()
    thorough = tier == "thorough"
    rep.add_mc(vlib.must_pass(vlib.tlc("MCEntryPaths", "MCEntryPaths", wd, workers=2), "MCEntryPaths"), "MCEntryPaths")
    fp = os.path.join(wd, "frames.ndjson")
    vlib.vh(["parse", "frames", "--seed", vlib.seed(), "--tier", tier, "--out", fp])
    runs, _ = vlib.validate_runs(rep, "EntryTrace", "EntryTrace", fp, wd, "frames", describe="entry paths disagree: {what}")
    origins = {}
    accepted = 0
    for evs in runs.values():
        e = evs[0]
        origins[e["origin"]] = origins.get(e["origin"], 0) + 1
        accepted += 1 if e["a"]["ok"] else 0
    rep.notes["frames_by_origin"] = origins
    rep.notes["frames_accepted"] = accepted
    k = sorted(runs)[len(runs) // 2]
    rep.sample({x: runs[k][0][x] for x in ("argv", "a", "b", "pa", "pb", "u")})
    nfr = len(runs)
    os.remove(fp)
    lp = os.path.join(wd, "lua.ndjson")
    vlib.vh(["parse", "lua", "--seed", vlib.seed(), "--n", 30000 if thorough else 3000, "--out", lp])
    runs, _ = vlib.validate_runs(rep, "EntryTrace", "EntryTrace", lp, wd, "lua_twins", describe="script differs from direct commands: {what}", strip=("s",))
    k = sorted(runs)[3]
    rep.sample({"prog": runs[k][0]["prog"], "direct": runs[k][0]["direct"]["rs"], "call": runs[k][0]["call"]["r"], "pcall": runs[k][0]["pcall"]["r"]})
    nlua = len(runs)
    os.remove(lp)
    # the Redis model itself behind the script entry path
    scn = kc.exported(wd, thorough)
    rep.notes["scenarios_exported"] = len(scn)
    for i in range(0, len(scn), 8000):
        p = vlib.write_ndjson(os.path.join(wd, f"scn{i}.ndjson"), scn[i:i + 8000])
        tr = os.path.join(wd, f"replay{i}.ndjson")
        vlib.vh(["ks", "replay", p, "--via", "lua", "--out", tr])
        kc.validate(rep, wd, tr, f"exported_via_lua{i}", cfg="KsTraceVia")
        os.remove(tr)
    tr = os.path.join(wd, "random_via.ndjson")
    vlib.vh(["ks", "record", "--seed", vlib.seed(), "--n", 2000 if thorough else 300, "--len", 40, "--via", "lua", "--out", tr])
    runs = kc.validate(rep, wd, tr, "random_via_lua", cfg="KsTraceVia")
    rep.notes["commands_by_model_op_via_lua"] = kc.op_histogram(runs)
    os.remove(tr)
    rep.cov["distinct_nontrivial"] = nfr + nlua
    rep.cov["rule"] = ("a case is one frame through five entry paths, or one program of 1..3 commands run directly / via redis.call / "
                       "via redis.pcall after a common random prefix; keyspace traces through scripts are counted under traces")
    rep.cov["exhaustive"] = False
    rep.cov["explanation"] = ("exhaustive over command name x letter case x arity 0..6 with fixed fillers and over option words up to the "
                              "stated length (capped per level); the remaining families and the script programs are samples")
    rep.assumptions += ["outcome of a parser = Debug rendering of the Command, or the error text",
                        "RESP<->Lua conversion is the one the repository's tests pin: a null reply is Lua nil, so an array reply is cut at its first null element (Redis itself maps null to false)",
                        "redis.call error: the script's error reply must contain the command's error text (the code prefixes 'ERR runtime error:' and appends a traceback)",
                        "GETSET's reply/keyspace against the Redis model is C01's listed finding getset_keeps_ttl and is tolerated in the via-script keyspace traces (the twin comparison still covers GETSET)",
                        "scripts use table.unpack (Lua 5.4)"]
    return rep.finish()
