"""Extension (no listed property): the ACL subsystem (src/security/acl, cargo feature `acl`) against Acl.tla.

1. MC    : Acl.tla - users as transition systems over rule sequences (ACL SETUSER applies rules left to right):
           LastRuleWins, OffNeverAuth, PassOrNopass, WrongPassword, ResetIsFresh over every sequence of <= 4 rules; the three
           as-built switches (deny_sticky, denycat_sticky, nopass_sticky) must each violate an invariant.
2. Cases : random rule sequences through the real apply_rule / ACL SETUSER handler; after every rule the real AclManager's
           authenticate and check_command decisions over the whole (small) universe.  A second harness crate (harness_acl,
           feature `acl` on) so that the main harness keeps testing the default build.
3. TV    : AclTrace under the design (left-to-right) reading; cases it rejects are re-validated with the as-built switches on.
Never changes an exit code: what it sees is printed as EXTENSION-OBSERVATION lines and goes to the evidence notes.
"""
import os
from lib import vlib

ACLH = os.path.join(vlib.VERIF, "harness_acl")


def build():
    env = {"CARGO_NET_OFFLINE": "true", "RUSTC_WRAPPER": "", "CARGO_TERM_COLOR": "never"}
    rc, out, dt = vlib.run(["cargo", "build", "--profile", "verif", "--offline", "-q"], cwd=ACLH, env=env, timeout=3600)
    if rc != 0:
        vlib.log(out[-3000:])
        raise vlib.ToolError("ACL harness build failed (does /repo still compile with --features verif-hooks,acl?)")
    vlib.log(f"[build] ACL harness up to date ({dt:.1f}s)")
    return os.path.join(ACLH, "target", "verif", "vh_acl")


def run_ext(rep, wd, thorough):
    note = {}
    r = vlib.must_pass(vlib.tlc("MCAcl", "MCAcl", wd, workers=4, timeout=900), "MCAcl")
    note["mc"] = {"config": "MCAcl", "distinct_states": r.distinct, "generated": r.generated}
    for cfg, inv in (("MCAclAsBuiltDenySticky", "LastRuleWins"), ("MCAclAsBuiltDenycatSticky", "LastRuleWins"), ("MCAclAsBuiltNopassSticky", "PassOrNopass")):
        vlib.must_violate(vlib.tlc("MCAcl", cfg, wd, workers=2, timeout=300), inv, cfg)
    exe = build()
    tr = os.path.join(wd, "acl.ndjson")
    n = 6000 if thorough else 600
    rc, out, _ = vlib.run([exe, "record", "--seed", str(vlib.seed() + 11), "--n", str(n), "--out", tr], cwd=wd, timeout=600)
    if rc != 0:
        raise vlib.ToolError("vh_acl failed: " + out[-500:])
    v1, done, _ = vlib.validate("AclTrace", "AclTrace", tr, wd)
    v2, _, _ = vlib.validate("AclTrace", "AclTraceDev", tr, wd)
    bad1, bad2 = {x["run"] for x in v1}, {x["run"] for x in v2}
    note.update({"cases": n, "differ_from_left_to_right_reading": len(bad1), "of_which_explained_by_the_as_built_switches": len(bad1 - bad2),
                 "differ_from_the_as_built_model": len(bad2)})
    if bad1:
        vlib.log(f"EXTENSION-OBSERVATION (ACL, no listed property): {len(bad1)} of {n} rule sequences are decided differently from the "
                 f"left-to-right reading of ACL SETUSER rules (a category or command denied earlier stays denied after a later +@category / "
                 f"allcommands; >password leaves nopass set); {len(bad1 - bad2)} of them exactly as the as-built switches of Acl.tla say")
    if bad2:
        vlib.log(f"EXTENSION-OBSERVATION (ACL, no listed property): {len(bad2)} of {n} rule sequences are decided differently from the as-built model of Acl.tla too")
    os.remove(tr)
    rep.notes["acl_extension"] = note
    return note
