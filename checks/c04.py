"""C04 - pipelining: exactly one reply per command, in order, however bytes arrive.

1. MC    : Connection.tla (read loop, GET/SET collectors, sequential loop at frame granularity):
           OneReplyEachInOrder for thresholds 2/3 and MinBuf 1/2; the latent as-built collector
           (consumes frames and drops them below the threshold) must violate it.
2. Export: every wire of <= 3 frames over {GET a, GET b, SET a x, INCR a, PING, malformed} with every
           way of delivering it in reads, fragments included (SimConnection).
3. Replay: the REAL OptimizedConnectionHandler (verif hook) on a scripted stream that hands out
           exactly one segment per read, on 1 and 4 shards; fragment cut positions rotate over
           "after the first byte", "inside the header", "middle", "between CR and LF".
4. TV    : ConnTrace: decoded output = one reply per command, in order, equal to the sequential run
           on RedisKeyspace; a malformed frame is answered by an error; final keyspace equal.
           Random pipelines of the C01 generator (no clock-dependent commands) around the
           batching thresholds of the shipped configs, random segmentations down to single bytes.
"""
import os
from lib import vlib
from lib.vlib import Report

PID = "C04"


def run(tier):
    rep = Report(PID, tier)
    wd = vlib.workdir(PID)
    vlib.build_harness()
    thorough = tier == "thorough"
    for cfg in ("MCConnection", "MCConnectionT3"):
        rep.add_mc(vlib.must_pass(vlib.tlc("MCConnection", cfg, wd, workers=8, timeout=600), cfg), cfg)
    r = vlib.must_violate(vlib.tlc("MCConnection", "MCConnectionAsBuilt", wd, workers=2), "OneReplyEachInOrder", "collector_drops_below_threshold")
    rep.add_mc(r, "MCConnectionAsBuilt (expected violation: OneReplyEachInOrder)")
    describe = "connection case rejected: {what}"
    scn, ex = vlib.export_scenarios("SimConnection", "SimConnection", wd, workers=8)
    rep.notes["scenarios_exported"] = len(scn)
    p = vlib.write_ndjson(os.path.join(wd, "scn.ndjson"), scn)
    tr = os.path.join(wd, "replay.ndjson")
    vlib.vh(["conn", "replay", p, "--out", tr])
    runs, bad = vlib.validate_runs(rep, "ConnTrace", "ConnTrace", tr, wd, "exported", describe=describe, strip=("s",))
    k = sorted(runs)[len(runs) // 2]
    rep.sample({x: runs[k][0][x] for x in ("argv", "cfg", "nsegs", "nbytes", "malformed", "replies", "shards")})
    nt = sum(1 for evs in runs.values() if evs[0].get("nsegs", 1) > 1)
    for c in range(5 if thorough else 1):
        tr = os.path.join(wd, f"random{c}.ndjson")
        vlib.vh(["conn", "pipe", "--seed", vlib.seed() * 100 + c, "--n", 4000 if thorough else 1500, "--out", tr])
        runs, bad = vlib.validate_runs(rep, "ConnTrace", "ConnTrace", tr, wd, f"random{c}", describe=describe, strip=("s",))
        nt += sum(1 for evs in runs.values() if evs[0].get("nsegs", 1) > 1)
        if c == 0:
            k = sorted(runs)[3]
            rep.sample({x: runs[k][0][x] for x in ("argv", "cfg", "nsegs", "nbytes", "malformed", "shards")})
    # connections that come and go on one shared buffer pool; a client that dies inside a frame leaves nothing behind
    tr = os.path.join(wd, "pool.ndjson")
    vlib.vh(["conn", "pool", "--out", tr])
    vlib.validate_runs(rep, "ConnTrace", "ConnTrace", tr, wd, "shared_pool", describe="connection case rejected: {what}", strip=("s", "cmds", "replies"))
    os.remove(tr)
    # size- and depth-dependent paths: frames far larger than the read buffer, more commands in one read than any budget
    tr = os.path.join(wd, "scale.ndjson")
    vlib.vh(["conn", "scale", "--tier", tier, "--out", tr])
    runs, bad = vlib.validate_runs(rep, "ConnTrace", "ConnTrace", tr, wd, "scale", describe=describe, strip=("s", "cmds", "replies"))
    nt += len(runs)
    os.remove(tr)
    # after a protocol error: a malformed frame cut into several reads, then well-formed commands in later reads
    tr = os.path.join(wd, "recover.ndjson")
    vlib.vh(["conn", "recover", "--seed", vlib.seed() * 13 + 5, "--n", 3000 if thorough else 400, "--out", tr])
    runs, bad = vlib.validate_runs(rep, "ConnTrace", "ConnTrace", tr, wd, "after_protocol_error", describe=describe, strip=("s",))
    nt += len(runs)
    os.remove(tr)
    rep.cov["distinct_nontrivial"] = nt
    rep.cov["rule"] = ("a case is one byte stream of 1-9 commands through the real connection handler with a segmentation and a "
                       "batching configuration; non-trivial = delivered in more than one read")
    rep.cov["exhaustive"] = True
    rep.cov["explanation"] = "exhaustive over wires of <= 3 frames of the 6-frame universe and their deliveries; random pipelines are samples"
    rep.assumptions += ["clock-dependent commands are excluded (the handler runs on the wall clock)",
                        "after a malformed frame the error reply and the untouched earlier replies are required; commands that arrive in later reads are owed their replies unless the handler has closed the connection (a handler that keeps reading but stays silent hangs the client)",
                        "the transport may take fewer bytes than offered in one write call (short writes): every reply byte must still arrive"]
    # extension, no verdict: the ACL subsystem (its handlers live in the connection handler's file) against Acl.tla
    from checks import acl_ext
    acl_ext.run_ext(rep, wd, thorough)
    return rep.finish()
