"""C18 - anti-entropy: equal digests iff equal states; a sync leaves both sides merged.

1. MC    : AntiEntropy.tla - digests as injective functions of bucket content (DigestIffState),
           sync rounds under a per-round limit with a rotating sender: liveness EventuallyInSync
           under weak fairness for Limit 1 and 2; the as-built fixed-prefix sender must violate it.
2. Export: every pair of replica states reachable by <= 3-4 writes (SimAntiEntropy); rebuilt as
           real states on keys that collide in the real KeyDigest buckets.
3. Cases : real StateDigest::from_state / differs_from / divergent_buckets on independently built
           maps (fresh HashMaps, shuffled merge orders, hashes with equal outer stamp, tombstones);
           real MultiNodeSimulation::run_anti_entropy_sync rounds with max_keys_per_sync 1..3.
4. TV    : AeTrace judges each case (truth computed from the observable projection; merge per
           key with CrdtOps!Merge).
"""
import os
from lib import vlib
from lib.vlib import Report

PID = "C18"


def run(tier):
    rep = Report(PID, tier)
    wd = vlib.workdir(PID)
    vlib.build_harness()
    thorough = tier == "thorough"
    for cfg in ("MCAntiEntropy", "MCAntiEntropyL2"):
        rep.add_mc(vlib.must_pass(vlib.tlc("AntiEntropy", cfg, wd, workers=4, timeout=600), cfg), cfg)
    r = vlib.must_violate(vlib.tlc("AntiEntropy", "MCAntiEntropyAsBuilt", wd, workers=4, timeout=600), "EventuallyInSync", "fixed_prefix")
    rep.add_mc(r, "MCAntiEntropyAsBuilt (expected violation: EventuallyInSync)")
    describe = "anti-entropy case rejected: {what}"
    scn, ex = vlib.export_scenarios("SimAntiEntropy", "SimAntiEntropyT" if thorough else "SimAntiEntropy", wd)
    rep.notes["state_pairs_exported"] = len(scn)
    p = vlib.write_ndjson(os.path.join(wd, "pairs.ndjson"), scn)
    tr = os.path.join(wd, "exported.ndjson")
    vlib.vh(["ae", "replay", p, "--out", tr])
    runs, bad = vlib.validate_runs(rep, "AeTrace", "AeTrace", tr, wd, "exported", describe=describe, strip=("a", "b", "rounds"))
    k = sorted(runs)[len(runs) // 2]
    rep.sample({x: runs[k][0][x] for x in runs[k][0] if x != "rounds"})
    nt = sum(1 for evs in runs.values() if evs[0]["t"] == "sync" or evs[0].get("differs"))
    tr = os.path.join(wd, "random.ndjson")
    vlib.vh(["ae", "record", "--seed", vlib.seed(), "--n", 12000 if thorough else 1500, "--out", tr])
    runs, bad = vlib.validate_runs(rep, "AeTrace", "AeTrace", tr, wd, "random", describe=describe, strip=("a", "b", "rounds"))
    nt += sum(1 for evs in runs.values() if evs[0]["t"] == "sync" or evs[0].get("differs"))
    k = sorted(runs)[1]
    rep.sample({"t": runs[k][0]["t"], "limit": runs[k][0].get("limit"), "first_round": runs[k][0].get("rounds", [None])[0]})
    rep.cov["distinct_nontrivial"] = nt
    rep.cov["rule"] = ("a case is a pair of replica states (built from update histories in independent maps, 2-5 keys per real "
                       "digest bucket, registers/hashes/tombstones) with the real digest comparison, or a sequence of real sync "
                       "rounds under a key limit; non-trivial = the states differ or sync rounds ran")
    rep.cov["exhaustive"] = True
    rep.cov["explanation"] = "exhaustive over state pairs of the AntiEntropy model (4 keys, <=3-4 writes); random histories are samples"
    rep.assumptions += ["64-bit hash collisions are not modelled (digest specified as injective in the bucket content)",
                        "kinds are fixed per key in generated histories (type mismatches are C07's subject)"]
    return rep.finish()
