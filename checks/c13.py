"""C13 - compaction never changes what recovery returns.

1. MC    : Streaming.tla with flush and compaction interleaved at store-call granularity and
           tombstone GC: RecoveryStable + ManifestSound in every state for the ideal protocol
           (mutual exclusion on the manifest, merge per key, GC only if no older value outside);
           the as-built switches (no CAS, latest-wins, GC ignoring outside segments) must each
           reproduce their counterexample.
2. Export: (a) sequential workloads (shared with C12); (b) every interleaving of the 4 store
           calls of a flush with the 8 of a compaction of two segments (495 schedules);
           (c) tombstone-GC layouts with a segment above the size target; (d) random workloads
           dense in compactions, each under a scripted store fault (failed / partial write,
           failed or damaged download of an input segment, rename applied-but-reported-failed).
3. Replay: real Compactor (harness clock) and real StreamingPersistence as two tasks whose store
           calls are gated in the exported order; real recovery after every mutating call.
4. TV    : StreamTrace (recovered state absorbs every confirmed delta, invents nothing).
"""
import os
from lib import vlib
from lib.vlib import Report
from checks import stream_common as sc

PID = "C13"


def gc_layouts():
    """tombstone layouts: an old value in a big (skipped) segment, the delete in small ones."""
    out = []
    for pad in (0, 300):
        for ttl in (1000, 995, 990):
            for order in (0, 1):
                deltas = [
                    {"id": 1, "k": "s", "t": "set", "v": "old", "ts": 2, "r": 1, "pad": pad},
                    {"id": 2, "k": "s", "t": "del", "ts": 4, "r": 2},
                    {"id": 3, "k": "u", "t": "set", "v": "x", "ts": 5, "r": 1},
                    {"id": 4, "k": "u", "t": "set", "v": "y", "ts": 6, "r": 2},
                ]
                ops = [["push", 1], ["flush", "none"], ["push", 2], ["flush", "none"], ["push", 3], ["flush", "none"],
                       ["push", 4], ["flush", "none"], ["compact", "none"], ["compact", "none"]]
                if order:
                    ops = [["push", 2], ["flush", "none"], ["push", 3], ["flush", "none"], ["push", 1], ["flush", "none"],
                           ["push", 4], ["flush", "none"], ["compact", "none"]]
                out.append({"deltas": deltas, "ops": ops, "now": 1000, "ttl": ttl, "target": 250, "maxsel": 5})
    return out


def conc_scenarios(wd):
    scheds, ex = vlib.export_scenarios("SimStreamConc", "SimStreamConc", wd)
    out = []
    for s in scheds:
        out.append({"table": "A", "ops": [["push", 1], ["flush", "none"], ["push", 3], ["flush", "none"],
                                          ["push", 2], ["conc", s]], "maxsel": 2})
    return out


def run(tier):
    rep = Report(PID, tier)
    wd = vlib.workdir(PID)
    vlib.build_harness()
    sc.model_check(rep, wd, {"MCStreamingAsBuiltRace", "MCStreamingAsBuiltLatest", "MCStreamingAsBuiltGc", "MCStreamingAsBuiltCkpt"})
    describe = "recovery changed by compaction / flush interleaving: {what}"
    seq = [s for s in sc.exported_sequential(wd) if any(o[0] == "compact" for o in s["ops"])]
    runs, bad = sc.replay_validate(rep, wd, seq, "sequential", describe)
    nt = len(runs)
    gcs = gc_layouts()
    runs, bad = sc.replay_validate(rep, wd, gcs, "gc_layouts", describe)
    nt += len(runs)
    conc = conc_scenarios(wd)
    if tier != "thorough":
        conc = conc[::3]
    runs, bad = sc.replay_validate(rep, wd, conc, "interleavings", describe)
    nt += len(runs)
    # random workloads dense in compactions, each with a scripted store fault (failed, partial, damaged read ...)
    for c in range(4 if tier == "thorough" else 1):
        tr = os.path.join(wd, f"faulted{c}.ndjson")
        vlib.vh(["stream", "record", "--cheavy", 1, "--seed", vlib.seed() * 100 + 50 + c, "--n", 2500 if tier == "thorough" else 500, "--out", tr])
        fr, bad = vlib.validate_runs(rep, "StreamTrace", "StreamTrace", tr, wd, f"faulted{c}", dev_cfgs=sc.DEV_CFGS,
                                     describe=describe, strip=("state", "rv"))
        nt += len(fr)
        os.remove(tr)
    k = sorted(runs)[len(runs) // 2]
    rep.sample({"scenario": runs[k][0]["scn"], "events": [{x: e[x] for x in e if x not in ("run", "state", "rv", "key")} for e in runs[k][1:60]]})
    rep.notes["scenarios"] = {"sequential_with_compaction": len(seq), "gc_layouts": len(gcs), "interleavings": len(conc)}
    rep.cov["distinct_nontrivial"] = nt
    rep.cov["rule"] = ("a case is one workload in which the real Compactor runs (alone, with a scripted fault, against a "
                       "segment above the size target with tombstones of several ages, or interleaved call by call with a "
                       "real flush); every case contains at least one compaction")
    rep.cov["exhaustive"] = tier == "thorough"
    rep.cov["explanation"] = "thorough: all 495 interleavings of 4 flush calls with 8 compaction calls; quick: every third"
    rep.assumptions += ["tombstone age is taken in the code's own reading (Lamport time compared with now - ttl under the harness clock)",
                        "segment selection is the code's (oldest segments below the size target)"]
    return rep.finish()
