"""C05 - MULTI/EXEC is all-or-nothing and equals the sequential run; WATCH aborts on change.

1. MC    : the transaction rules are part of ConnTrace.tla (StepA: queueing, dirty flag, EXECABORT,
           value-based WATCH, EXEC = sequential fold of RedisKeyspace!Do); RedisKeyspace is
           model-checked on its own (C01).
2. Cases : TWO real connection handlers on duplex streams share one ShardedActorState (1 and 4
           shards); client A runs WATCH / MULTI / body (<= 3 of: SET, INCR on int and non-int,
           RPUSH, GET, unknown command, wrong arity, nested MULTI, WATCH inside MULTI) / EXEC or
           DISCARD; client B writes in EVERY gap (same value again, other value, DEL, type-specific
           change, change-then-revert, unrelated key); watched key of type none/string/list/hash.
   Edge family: the watched key changes only because its deadline passes in real time between WATCH
           and EXEC, or it holds a value of up to 5 MiB (ConnTrace!WatchCaseVerdict).
3. TV    : ConnTrace replays the script on the model: every reply of both clients, and the
           keyspace at the end, must be the model's.
"""
import os
from lib import vlib
from lib.vlib import Report

PID = "C05"
DEV = {"watch_sees_strings_only": "ConnTraceDevWatch"}


def run(tier):
    rep = Report(PID, tier)
    wd = vlib.workdir(PID)
    vlib.build_harness()
    thorough = tier == "thorough"
    from checks import ks_common as kc
    kc.model_check(rep, wd)
    describe = "transaction case rejected: {what}"
    nt = 0
    for c in range(6 if thorough else 1):
        tr = os.path.join(wd, f"txn{c}.ndjson")
        vlib.vh(["conn", "txn", "--seed", vlib.seed() * 100 + c, "--n", 5000 if thorough else 2500, "--out", tr])
        runs, bad = vlib.validate_runs(rep, "ConnTrace", "ConnTrace", tr, wd, f"txn{c}", dev_cfgs=DEV, describe=describe, strip=("s",))
        for evs in runs.values():
            st = evs[0].get("steps", [])
            if any(s["who"] == "B" for s in st[1:]) and any(s["c"]["op"] in ("EXEC", "DISCARD") for s in st):
                nt += 1
        if c == 0:
            k = sorted(runs)[5]
            rep.sample({"wtype": runs[k][0].get("wtype"), "steps": [{"who": s["who"], "argv": s["argv"], "reply": s["r"]} for s in runs[k][0]["steps"]]})
    # the executor's own MULTI / EXEC / WATCH (the path the simulator and the Lua-free DST use)
    tr = os.path.join(wd, "txn_executor.ndjson")
    vlib.vh(["conn", "txn", "--level", "executor", "--seed", vlib.seed() * 100 + 77, "--n", 12000 if thorough else 2500, "--out", tr])
    runs, bad = vlib.validate_runs(rep, "ConnTrace", "ConnTrace", tr, wd, "txn_executor", dev_cfgs=DEV, describe=describe, strip=("s",))
    for evs in runs.values():
        st = evs[0].get("steps", [])
        if any(s["who"] == "B" for s in st[1:]) and any(s["c"]["op"] in ("EXEC", "DISCARD") for s in st):
            nt += 1
    # WATCH at its edges: the watched key expires in real time between WATCH and EXEC (nothing touches it),
    # or holds a value of 64 KiB .. 5 MiB that is, or is not, modified
    tr = os.path.join(wd, "wcase.ndjson")
    vlib.vh(["conn", "txn", "--level", "wcase", "--seed", vlib.seed() * 100 + 88, "--n", 240 if thorough else 60, "--out", tr])
    runs, bad = vlib.validate_runs(rep, "ConnTrace", "ConnTrace", tr, wd, "watch_edges", dev_cfgs=DEV, describe=describe)
    nt += len(runs)
    rep.cov["distinct_nontrivial"] = nt
    rep.cov["rule"] = ("a case is one transaction script of client A with client B's writes in the gaps, through two real "
                       "connection handlers; non-trivial = B wrote at least once and A reached EXEC or DISCARD")
    rep.assumptions += ["EXEC is judged against writes that lie BETWEEN client A's commands (the property's quantifier); a client "
                        "running concurrently with EXEC's own round trips is outside it",
                        "value-based WATCH as the property states: change-and-revert need not abort"]
    return rep.finish()
