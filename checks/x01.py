"""X01 (extension, not one of the listed properties; not registered in MANIFEST.json) -
a write acknowledged to a client by a node with the always-fsync WAL survives a crash and is
visible after the server's restart sequence.

The listed property C09 speaks about `write_durable`; this check binds the same specification
(Wal.tla / WalTrace.tla) one level up: the real ReplicatedShardedState::execute with the real WAL
actor on the scripted store, acknowledgements taken where the client has its OK, crash image and
real recovery after every I/O call, and at the end the restart sequence of the server binary
(recover_all_entries -> apply_recovered_state) followed by GET of every acknowledged key.
No faults are injected: the node answers OK when the WAL reports a failure, by documented design.
"""
import os
from lib import vlib
from lib.vlib import Report

PID = "X01"


def run(tier):
    rep = Report(PID, tier)
    wd = vlib.workdir(PID)
    vlib.build_harness()
    rep.add_mc(vlib.must_pass(vlib.tlc("Wal", "MCWal", wd, workers=4), "MCWal"), "MCWal")
    n = 3000 if tier == "thorough" else 300
    tr = os.path.join(wd, "node.ndjson")
    vlib.vh(["node", "record", "--seed", vlib.seed(), "--n", n, "--out", tr])
    runs, _ = vlib.validate_runs(rep, "WalTrace", "WalTrace", tr, wd, "node_level", describe="node-level durability: {what}", strip=())
    k = sorted(runs)[len(runs) // 2]
    rep.sample([e for e in runs[k] if e["a"] in ("reset", "send", "ack", "restart")][:20])
    rep.cov["distinct_nontrivial"] = sum(1 for evs in runs.values() if any(e["a"] == "ack" and e.get("ok") for e in evs))
    rep.cov["rule"] = "a case is one run of 1-8 concurrent client SETs in bursts on a fresh node with a fresh scripted WAL store; non-trivial = at least one acknowledged write"
    rep.cov["exhaustive"] = False
    rep.cov["explanation"] = "random bursts, batch limits and rotation thresholds; crash point = after every I/O call of the run"
    rep.assumptions += ["no disk faults (the node acknowledges in spite of a reported WAL failure by documented design)",
                        "restart sequence mirrors src/bin/server_persistent.rs: recover_all_entries, to_delta, apply_recovered_state(None, deltas)"]
    os.remove(tr)
    return rep.finish()
