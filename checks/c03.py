"""C03 - shard count is unobservable: N shards answer exactly like one shard.

1. MC    : Sharding.tla router model - OneHome, ReadsAgree, Refines for the ideal router; the
           as-built switches (different hash on the fast path; two-key commands executed on the
           first key's shard) must reproduce their counterexamples.  RedisKeyspace.tla is the
           single-keyspace semantics an N-shard server has to implement.
2. Export: the SimRedisKeyspace command/tick sequences (same as C01).
3. Replay/TV: the sequences and seeded random sequences run on real ShardedActorStates with
           N in {1, 2, 4} (thorough: + 3, 16) under a harness clock, GET/SET spread over the
           generic, fast, pooled and batched entry points; the keyspace is observed through
           commands only (KEYS/TYPE/PTTL/dumps); every trace is validated by KsTrace against the
           ONE-keyspace specification.  Families of their own: two-key commands (RENAME,
           RPOPLPUSH/LMOVE, MSETNX, MSET), a full SCAN iteration, script-cache commands (SCRIPT
           LOAD / EXISTS / FLUSH, EVAL, EVALSHA: one cache per server, RedisKeyspace!DoScript)
           mixed into the random sequences, and "wide" servers (65..256 shards, 40 keys,
           MSET/MGET/DEL/EXISTS over two or three keys).
"""
import os
from lib import vlib
from lib.vlib import Report
from checks import ks_common as kc

PID = "C03"
DEV = {"two_key_commands_single_shard": "KsTraceDevTwoKey"}


def run(tier):
    rep = Report(PID, tier)
    wd = vlib.workdir(PID)
    vlib.build_harness()
    thorough = tier == "thorough"
    rep.add_mc(vlib.must_pass(vlib.tlc("Sharding", "MCSharding", wd, workers=4), "MCSharding"), "MCSharding")
    for cfg, inv in (("MCShardingAsBuiltHash", "ReadsAgree"), ("MCShardingAsBuiltTwoKey", "OneHome")):
        r = vlib.must_violate(vlib.tlc("Sharding", cfg, wd, workers=2), inv, cfg)
        rep.add_mc(r, f"{cfg} (expected violation: {inv})")
    kc.model_check(rep, wd)
    scn = kc.exported(wd, False)
    sp = vlib.write_ndjson(os.path.join(wd, "scn.ndjson"), scn)
    counts = (1, 2, 3, 4, 5, 7, 8, 16) if thorough else (1, 3, 4, 8)
    paths = {}
    for n in counts:
        tr = os.path.join(wd, f"replay{n}.ndjson")
        vlib.vh(["shard", "replay", sp, "--shards", n, "--seed", vlib.seed(), "--out", tr])
        runs, bad = vlib.validate_runs(rep, "KsTrace", "KsTrace", tr, wd, f"exported_{n}shards", dev_cfgs=DEV, describe=kc.DESCRIBE, strip=("s",))
        os.remove(tr)
        tr = os.path.join(wd, f"random{n}.ndjson")
        vlib.vh(["shard", "record", "--seed", vlib.seed() * 10 + n, "--n", 1500 if thorough else 200, "--len", 30, "--shards", n, "--out", tr])
        runs, bad = vlib.validate_runs(rep, "KsTrace", "KsTrace", tr, wd, f"random_{n}shards", dev_cfgs=DEV, describe=kc.DESCRIBE, strip=("s",))
        for evs in runs.values():
            for e in evs:
                if e.get("a") == "cmd":
                    paths[e.get("path", "?")] = paths.get(e.get("path", "?"), 0) + 1
        if n == counts[-1]:
            k = sorted(runs)[0]
            rep.sample({"shards": n, "steps": [{"argv": e["argv"], "path": e["path"], "now": e["now"]} for e in runs[k][1:15]]})
        os.remove(tr)
        if n > 1:
            tr = os.path.join(wd, f"twokey{n}.ndjson")
            vlib.vh(["shard", "record", "--seed", vlib.seed() * 10 + n, "--n", 600 if thorough else 150, "--len", 6, "--shards", n, "--twokey", "--out", tr])
            vlib.validate_runs(rep, "KsTrace", "KsTrace", tr, wd, f"twokey_{n}shards", dev_cfgs=DEV, describe=kc.DESCRIBE, strip=("s",))
            os.remove(tr)
        # runs dense in script-cache commands (load / run by text / run by digest / probe / flush)
        tr = os.path.join(wd, f"scripts{n}.ndjson")
        vlib.vh(["shard", "record", "--seed", vlib.seed() * 10 + n + 5, "--n", 400 if thorough else 80, "--len", 25, "--shards", n, "--scripts", "1", "--out", tr])
        vlib.validate_runs(rep, "KsTrace", "KsTrace", tr, wd, f"scripts_{n}shards", dev_cfgs=DEV, describe=kc.DESCRIBE, strip=("s",))
        os.remove(tr)
        tr = os.path.join(wd, f"scan{n}.ndjson")
        # MULTI / EXEC replay on N shards (bodies with multi-key and whole-keyspace commands, no WATCH)
        tx = os.path.join(wd, f"txn{n}.ndjson")
        vlib.vh(["conn", "txn", "--shards", n, "--nowatch", "1", "--seed", vlib.seed() * 10 + n, "--n", 1500 if thorough else 400, "--out", tx])
        vlib.validate_runs(rep, "ConnTrace", "ConnTrace", tx, wd, f"txn_{n}shards", describe="transaction on N shards: {what}", strip=("s",))
        os.remove(tx)
        vlib.vh(["shard", "scan", "--shards", n, "--out", tr])
        vlib.validate_runs(rep, "KsTrace", "KsTrace", tr, wd, f"scan_{n}shards", dev_cfgs=DEV, describe=kc.DESCRIBE, strip=("s", "keys", "returned"))
    # the property read literally: the same sequence (modelled commands and commands outside the model: server settings, stubs,
    # scripts, malformed argument lists) on a 1-shard server and on an N-shard twin, every reply and the final keyspaces compared
    for n in ((2, 3, 4, 7, 16) if thorough else (4, 7)):
        tr = os.path.join(wd, f"twin{n}.ndjson")
        vlib.vh(["shard", "twin", "--shards", n, "--seed", vlib.seed() * 10 + n + 3, "--n", 1500 if thorough else 150, "--len", 30, "--out", tr])
        vlib.validate_runs(rep, "KsTrace", "KsTrace", tr, wd, f"twin_{n}shards", dev_cfgs=DEV, describe=kc.DESCRIBE, strip=("s1", "sn"))
        os.remove(tr)
    # far more shards than bits in a machine word, few keys, commands naming two or three keys at once
    for n in ((65, 128, 200, 256) if thorough else (128, 200)):
        tr = os.path.join(wd, f"wide{n}.ndjson")
        vlib.vh(["shard", "wide", "--shards", n, "--seed", vlib.seed() * 10 + n % 7, "--n", 150 if thorough else 60, "--len", 40, "--out", tr])
        vlib.validate_runs(rep, "KsTrace", "KsTrace", tr, wd, f"wide_{n}shards", dev_cfgs=DEV, describe=kc.DESCRIBE, strip=("s",))
        os.remove(tr)
    rep.notes["steps_by_entry_path"] = paths
    rep.cov["distinct_nontrivial"] = rep.cov["traces_validated_against_impl"]
    rep.cov["rule"] = ("a case is one command sequence on a real N-shard server (N in %s), observed through commands only and "
                       "validated against the one-keyspace model; every case writes at least one key" % (counts,))
    rep.assumptions += ["keys are valid UTF-8 (the generic path stores keys as text)",
                        "the clock is the harness clock shared by all shards"]
    return rep.finish()
