"""Shared pieces of the keyspace checks (C01, C17, C03): RedisKeyspace.tla binding."""
import os, json
from lib import vlib

DESCRIBE = "keyspace trace rejected: {what}"


def model_check(rep, wd):
    rep.add_mc(vlib.must_pass(vlib.tlc("MCRedisKeyspace", "MCRedisKeyspace", wd, workers=8, timeout=1200), "MCRedisKeyspace"), "MCRedisKeyspace")


def exported(wd, thorough):
    scn, ex = vlib.export_scenarios("SimRedisKeyspace", "SimRedisKeyspaceT" if thorough else "SimRedisKeyspace", wd, workers=8)
    return scn


def validate(rep, wd, trace, label, cfg="KsTrace"):
    runs, bad = vlib.validate_runs(rep, "KsTrace", cfg, trace, wd, label, describe=DESCRIBE, strip=("s",))
    return runs


def op_histogram(runs):
    h = {}
    for evs in runs.values():
        for e in evs:
            if e.get("a") == "cmd":
                op = e["c"]["op"]
                h[op] = h.get(op, 0) + 1
    return h


# ---------------------------------------------------------------------------------------------------
# Systematic families (inputs only - the oracle stays RedisKeyspace.tla through KsTrace)
# ---------------------------------------------------------------------------------------------------
def _b(s):
    return list(s.encode())


def _c(op, **kw):
    d = {"op": op}
    d.update(kw)
    return {"c": d}


def _create(t, k):
    if t == "string":
        return [_c("SET", k=k, v=_b("v0"), ex=-1, px=-1, nx=False, xx=False, get=False, keepttl=False)]
    if t == "list":
        return [_c("PUSH", k=k, left=False, vs=[_b("a"), _b("b")])]
    if t == "set":
        return [_c("SADD", k=k, vs=[_b("a"), _b("b")])]
    if t == "hash":
        return [_c("HSET", k=k, fs=[_b("f1"), _b("f2")], vs=[_b("1"), _b("2")])]
    return [_c("ZADD", k=k, ms=[_b("a"), _b("b")], qs=[4, 8], ch=False, gt=False, lt=False, nx=False, xx=False)]


def _removals(t, k):
    """ways in which key k of type t (2 elements) stops existing without a DEL-like command resetting everything"""
    out = {"del": [_c("DEL", ks=[k])], "rename_away": [_c("RENAME", k=k, k2="other", nx=False)],
           "expire_now": [_c("EXPIRE", k=k, ms=0, gt=False, lt=False, nx=False, xx=False)]}
    if t == "string":
        out["getdel"] = [_c("GETDEL", k=k)]
    if t == "list":
        out["lpop2"] = [_c("POP", k=k, left=True)] * 2
        out["rpop2"] = [_c("POP", k=k, left=False)] * 2
        out["ltrim_empty"] = [_c("LTRIM", k=k, start=5, stop=6)]
        out["lmove2"] = [_c("LMOVE", k=k, k2="other", fromleft=True, toleft=False)] * 2
    if t == "set":
        out["srem_all"] = [_c("SREM", k=k, vs=[_b("a"), _b("b")])]
        out["spop_more"] = [_c("SPOP", k=k, n=5)]
        out["spop_exact"] = [_c("SPOP", k=k, n=2)]
        out["spop_one_by_one"] = [_c("SPOP", k=k, n=-1), _c("SPOP", k=k, n=1)]
    if t == "hash":
        out["hdel_all"] = [_c("HDEL", k=k, fs=[_b("f1"), _b("f2")])]
        out["hdel_1_1"] = [_c("HDEL", k=k, fs=[_b("f1")]), _c("HDEL", k=k, fs=[_b("f2"), _b("zz")])]
    if t == "zset":
        out["zrem_all"] = [_c("ZREM", k=k, ms=[_b("a"), _b("b")])]
        out["zrem_1_1"] = [_c("ZREM", k=k, ms=[_b("b")]), _c("ZREM", k=k, ms=[_b("a")])]
    return out


def _recreators(k):
    """commands that create k afresh and, by Redis' rules, leave it without a TTL"""
    one = {"d": [1], "neg": False}
    return {
        "rpush": [_c("PUSH", k=k, left=False, vs=[_b("n")])],
        "sadd": [_c("SADD", k=k, vs=[_b("n")])],
        "hset": [_c("HSET", k=k, fs=[_b("n")], vs=[_b("1")])],
        "zadd": [_c("ZADD", k=k, ms=[_b("n")], qs=[4], ch=False, gt=False, lt=False, nx=False, xx=False)],
        "append": [_c("APPEND", k=k, v=_b("n"))],
        "incr": [_c("INCRBY", k=k, d=one, dmin=False)],
        "setbit": [_c("SETBIT", k=k, off=7, bit=1)],
        "setrange": [_c("SETRANGE", k=k, off=2, neg=False, v=_b("n"))],
        "hincrby": [_c("HINCRBY", k=k, f=_b("n"), d=one)],
        "setnx": [_c("SETNX", k=k, v=_b("n"))],
        "mset": [_c("MSET", ks=[k], vs=[_b("n")])],
        "lmove_in": [_c("PUSH", k="src", left=False, vs=[_b("n")]), _c("LMOVE", k="src", k2=k, fromleft=True, toleft=True)],
        "rename_in": [_c("SADD", k="src", vs=[_b("n")]), _c("RENAME", k="src", k2=k, nx=False)],
    }


def lifecycle_scenarios():
    """A key with a TTL stops existing (every way its type offers) and its name is used again by a command that
    must not give it a TTL: the old deadline must be gone (TTL -1, and the key outlives the old deadline)."""
    out = []
    k = "lc"
    for t in ("string", "list", "set", "hash", "zset"):
        for rname, rem in _removals(t, k).items():
            for cname, rec in _recreators(k).items():
                steps = _create(t, k) + [_c("EXPIRE", k=k, ms=100000, gt=False, lt=False, nx=False, xx=False)]
                steps += rem + [_c("EXISTS", ks=[k]), _c("TTL", k=k)]
                if rname == "rename_away":
                    steps += [_c("TTL", k="other")]
                steps += rec + [_c("TTL", k=k), _c("PTTL", k=k), _c("TYPE", k=k), {"tick": 99999}, _c("EXISTS", ks=[k]),
                                {"tick": 2}, _c("EXISTS", ks=[k]), _c("TTL", k=k), _c("DBSIZE")]
                out.append(steps)
    return out


def deadline_scenarios():
    """The only deadline of the keyspace, armed by each command that can arm one, comes due (the clock moves to exactly the
    deadline, or past it) and the first command afterwards is one that does not look the key up for reading: the key must be
    gone for it too (DEL answers 0, SET .. KEEPTTL starts a key without TTL, DBSIZE / KEYS do not count it, ...)."""
    out = []
    k = "dl"
    flags = dict(gt=False, lt=False, nx=False, xx=False)
    setk = dict(ex=-1, px=-1, nx=False, xx=False, get=False, keepttl=False)
    armers = {
        "set_px": [_c("SET", k=k, v=_b("v1"), **dict(setk, px=100))],
        "set_ex": [_c("SET", k=k, v=_b("v1"), **dict(setk, ex=1))],
        "psetex": [_c("SETEX", k=k, v=_b("v1"), ms=100)],
        "expire": [_c("SET", k=k, v=_b("v1"), **setk), _c("EXPIRE", k=k, ms=100, **flags)],
        "getex_px": [_c("SET", k=k, v=_b("v1"), **setk), _c("GETEX", k=k, mode="rel", ms=100)],
        "getex_ex": [_c("SET", k=k, v=_b("v1"), **setk), _c("GETEX", k=k, mode="rel", ms=1000)],
        "expire_list": [_c("PUSH", k=k, left=False, vs=[_b("a")]), _c("EXPIRE", k=k, ms=100, **flags)],
        "rearmed": [_c("SET", k=k, v=_b("v1"), **dict(setk, px=5000)), _c("GETEX", k=k, mode="rel", ms=100)],
        "later_other": [_c("SET", k="far", v=_b("x"), **dict(setk, px=900000)), _c("SET", k=k, v=_b("v1"), **setk), _c("GETEX", k=k, mode="rel", ms=100)],
    }
    one = {"d": [1], "neg": False}
    observers = {
        "del": [_c("DEL", ks=[k])],
        "set_keepttl": [_c("SET", k=k, v=_b("n"), **dict(setk, keepttl=True)), _c("TTL", k=k), {"tick": 50}, _c("EXISTS", ks=[k])],
        "dbsize": [_c("DBSIZE")],
        "exists": [_c("EXISTS", ks=[k])],
        "type": [_c("TYPE", k=k)],
        "rename": [_c("RENAME", k=k, k2="other", nx=False)],
        "append": [_c("APPEND", k=k, v=_b("n")), _c("TTL", k=k)],
        "incr": [_c("INCRBY", k=k, d=one, dmin=False), _c("TTL", k=k)],
        "setnx": [_c("SETNX", k=k, v=_b("n")), _c("TTL", k=k)],
        "rpush": [_c("PUSH", k=k, left=False, vs=[_b("n")]), _c("TYPE", k=k), _c("TTL", k=k)],
        "persist": [_c("EXPIRE", k=k, ms=777000, **flags), _c("TTL", k=k)],
    }
    for aname, arm in armers.items():
        due = 1000 if aname in ("set_ex", "getex_ex") else 100
        for oname, obs in observers.items():
            for tick in (due, due + 37):
                out.append(arm + [{"tick": tick}] + obs + [_c("DBSIZE"), _c("EXISTS", ks=[k])])
    return out


def wrongtype_dest_scenarios():
    """Two-key commands whose destination has the wrong type and carries a live TTL (or none, or a lapsed one): the command
    must fail and leave the source, the destination and every TTL as they were."""
    out = []
    setk = dict(ex=-1, px=-1, nx=False, xx=False, get=False, keepttl=False)
    flags = dict(gt=False, lt=False, nx=False, xx=False)
    dests = {
        "string": [_c("SET", k="dst", v=_b("v"), **setk)],
        "set": [_c("SADD", k="dst", vs=[_b("m")])],
        "hash": [_c("HSET", k="dst", fs=[_b("f")], vs=[_b("1")])],
        "zset": [_c("ZADD", k="dst", ms=[_b("m")], qs=[4], ch=False, gt=False, lt=False, nx=False, xx=False)],
    }
    for dname, dst in dests.items():
        for ttl in (None, 100000, 50):
            for n_src in (1, 2):
                for fl in (True, False):
                    for tl in (True, False):
                        steps = [_c("PUSH", k="src", left=False, vs=[_b("a"), _b("b")][:n_src])] + dst
                        if ttl is not None:
                            steps.append(_c("EXPIRE", k="dst", ms=ttl, **flags))
                        steps += [{"tick": 10}, _c("LMOVE", k="src", k2="dst", fromleft=fl, toleft=tl), _c("TYPE", k="src"), _c("TTL", k="dst"),
                                  _c("EXISTS", ks=["src", "dst"])]
                        out.append(steps)
    return out


def zset_tie_scenarios(seed, n=40):
    """Sorted sets in which several members share a score, queried with every inclusive / exclusive bound at,
    between and beyond the shared scores (ZCOUNT, ZRANGEBYSCORE with and without LIMIT, ZRANGE, ZRANK)."""
    import random
    rnd = random.Random(seed)
    out = []
    for _ in range(n):
        k = "zt"
        scores = sorted(rnd.sample([0, 2, 4, 6, 8, 10, 17, -4, -8], rnd.randint(1, 3)))
        ms, qs = [], []
        for i, q in enumerate(scores):
            for j in range(rnd.choice([1, 2, 3, 4])):
                ms.append(_b(chr(97 + i) + chr(97 + j)))
                qs.append(q)
        order = list(range(len(ms)))
        rnd.shuffle(order)
        steps = [_c("ZADD", k=k, ms=[ms[i] for i in order], qs=[qs[i] for i in order], ch=False, gt=False, lt=False, nx=False, xx=False)]
        cand = sorted(set(scores + [scores[0] - 1, scores[-1] + 1] + [s + 1 for s in scores]))
        bounds = [{"excl": e, "inf": 0, "q": q} for q in cand for e in (False, True)] + [{"excl": False, "inf": -1, "q": 0}, {"excl": False, "inf": 1, "q": 0}]
        for _q in range(24):
            lo, hi = rnd.choice(bounds), rnd.choice(bounds)
            kind = rnd.randint(0, 3)
            if kind == 0:
                steps.append(_c("ZCOUNT", k=k, lo=lo, hi=hi))
            else:
                limit = kind == 3
                steps.append(_c("ZRANGEBYSCORE", k=k, lo=lo, hi=hi, ws=rnd.random() < 0.5, limit=limit,
                                off=rnd.choice([0, 0, 1, 2]) if limit else 0, cnt=rnd.choice([-1, 1, 2, 10]) if limit else 0))
        steps += [_c("ZRANGE", k=k, rev=False, start=0, stop=-1, ws=True), _c("ZRANGE", k=k, rev=True, start=0, stop=-1, ws=False)]
        for m in ms[:3]:
            steps.append(_c("ZRANK", k=k, m=m))
        out.append(steps)
    return out
