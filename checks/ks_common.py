"""Shared pieces of the keyspace checks (C01, C17, C03): RedisKeyspace.tla binding."""
import os, json
from lib import vlib

DESCRIBE = "keyspace trace rejected: {what}"


def model_check(rep, wd):
    rep.add_mc(vlib.must_pass(vlib.tlc("MCRedisKeyspace", "MCRedisKeyspace", wd, workers=8, timeout=1200), "MCRedisKeyspace"), "MCRedisKeyspace")


def exported(wd, thorough):
    scn, ex = vlib.export_scenarios("SimRedisKeyspace", "SimRedisKeyspaceT" if thorough else "SimRedisKeyspace", wd, workers=8)
    return scn


def validate(rep, wd, trace, label, cfg="KsTrace"):
    runs, bad = vlib.validate_runs(rep, "KsTrace", cfg, trace, wd, label, describe=DESCRIBE, strip=("s",))
    return runs


def op_histogram(runs):
    h = {}
    for evs in runs.values():
        for e in evs:
            if e.get("a") == "cmd":
                op = e["c"]["op"]
                h[op] = h.get(op, 0) + 1
    return h
