"""Shared pieces of the C12 / C13 checks (Streaming.tla binding)."""
import os
from lib import vlib

DEV_CFGS = {"gc_ignores_outside": "StreamTraceDevGc", "flush_compaction_race": "StreamTraceDevRace"}

MC_IDEAL = ["MCStreaming", "MCStreamingConc", "MCStreamingGc", "MCStreamingCkpt"]
MC_ASBUILT = [("MCStreamingAsBuiltDrop", "NothingSilentlyDropped"), ("MCStreamingAsBuiltRace", "RecoveryStable"),
              ("MCStreamingAsBuiltLatest", "RecoveryStable"), ("MCStreamingAsBuiltGc", "RecoveryStable"),
              ("MCStreamingAsBuiltCkpt", "RecoveryStable")]


def model_check(rep, wd, which_asbuilt):
    for cfg in MC_IDEAL:
        rep.add_mc(vlib.must_pass(vlib.tlc("MCStreaming", cfg, wd, workers=8, timeout=3000), cfg), cfg)
    for cfg, inv in MC_ASBUILT:
        if cfg in which_asbuilt:
            r = vlib.must_violate(vlib.tlc("MCStreaming", cfg, wd, workers=2), inv, cfg)
            rep.add_mc(r, f"{cfg} (expected violation: {inv})")


def exported_sequential(wd):
    out = []
    for cfg, table, extra in (("SimStreaming", "A", {}), ("SimStreamingT", "T", {"now": 1000, "ttl": 997})):
        scn, ex = vlib.export_scenarios("SimStreaming", cfg, wd)
        for ops in scn:
            s = {"table": table, "ops": ops, "maxsel": 2}
            s.update(extra)
            out.append(s)
    return out


def replay_validate(rep, wd, scns, label, describe):
    p = vlib.write_ndjson(os.path.join(wd, label + ".scn.ndjson"), scns)
    tr = os.path.join(wd, label + ".trace.ndjson")
    vlib.vh(["stream", "replay", p, "--out", tr])
    runs, bad = vlib.validate_runs(rep, "StreamTrace", "StreamTrace", tr, wd, label, dev_cfgs=DEV_CFGS,
                                   describe=describe, strip=("state", "rv"))
    return runs, bad
