"""C01 - commands behave as Redis: every reply and the keyspace match the Redis model.

1. MC    : RedisKeyspace.tla over a small command universe (2 keys, boundary-class arguments,
           clock ticks): ErrorChangesNothing, ReadOnlyChangesNothing, NoEmpty, DeadlineRespected.
2. Export: one witness sequence of commands / ticks per distinct reachable keyspace (SimRedisKeyspace).
3. Replay: the sequences are rendered to RESP argument lists, parsed by the real Command parser and
           run on the real CommandExecutor under the scenario's clock.
4. TV    : a wide random generator (i64 / index limits, empty and binary strings, option
           permutations, duplicate members, clock jumps to exactly a deadline and one ms before)
           records command, reply and the full visible keyspace; KsTrace recomputes every reply
           and keyspace with Do(), including i64 arithmetic on decimal digit sequences.
"""
import os
from lib import vlib
from lib.vlib import Report
from checks import ks_common as kc

PID = "C01"


def run(tier):
    rep = Report(PID, tier)
    wd = vlib.workdir(PID)
    vlib.build_harness()
    thorough = tier == "thorough"
    kc.model_check(rep, wd)
    scn = kc.exported(wd, thorough)
    rep.notes["scenarios_exported"] = len(scn)
    for i in range(0, len(scn), 8000):
        p = vlib.write_ndjson(os.path.join(wd, f"scn{i}.ndjson"), scn[i:i + 8000])
        tr = os.path.join(wd, f"replay{i}.ndjson")
        vlib.vh(["ks", "replay", p, "--out", tr])
        runs = kc.validate(rep, wd, tr, f"exported{i}")
        if i == 0:
            k = sorted(runs)[len(runs) // 2]
            rep.sample({"source": "TLC", "steps": [{"argv": e["argv"], "now": e["now"], "reply": e["r"], "keyspace": e["s"]} for e in runs[k][1:]]})
        os.remove(tr)
    hist = {}
    nruns = 6000 if thorough else 400
    for c in range(6 if thorough else 1):
        tr = os.path.join(wd, f"random{c}.ndjson")
        vlib.vh(["ks", "record", "--seed", vlib.seed() * 100 + c, "--n", nruns // (6 if thorough else 1), "--len", 40, "--out", tr])
        runs = kc.validate(rep, wd, tr, f"random{c}")
        for op, n in kc.op_histogram(runs).items():
            hist[op] = hist.get(op, 0) + n
        if c == 0:
            k = sorted(runs)[0]
            rep.sample({"source": "random", "steps": [{"argv": e["argv"], "now": e["now"]} for e in runs[k][1:12]]})
        os.remove(tr)
    # systematic families: a key with a TTL stops existing in every way its type offers and its name is reused by a
    # command that must not give it a TTL; sorted sets with tied scores under every inclusive / exclusive bound
    fam = kc.lifecycle_scenarios() + kc.deadline_scenarios() + kc.zset_tie_scenarios(vlib.seed(), 200 if thorough else 40)
    p = vlib.write_ndjson(os.path.join(wd, "families.ndjson"), fam)
    tr = os.path.join(wd, "families.trace.ndjson")
    vlib.vh(["ks", "replay", p, "--out", tr])
    kc.validate(rep, wd, tr, "lifecycle_and_ties")
    os.remove(tr)
    # many deadlines coming due between two commands (active expiry at scale)
    tr = os.path.join(wd, "mass.ndjson")
    vlib.vh(["ks", "mass", "--tier", tier, "--out", tr])
    kc.validate(rep, wd, tr, "mass_expiry")
    os.remove(tr)
    rep.notes["commands_by_model_op"] = hist
    rep.cov["distinct_nontrivial"] = rep.cov["traces_validated_against_impl"]
    rep.cov["rule"] = ("a case is one command sequence on a fresh executor under a scripted clock (TLC-exported: <= 3-4 steps "
                       "over 2 keys; random: 40 steps over 8 keys with wide arguments); every case contains at least one write")
    rep.cov["exhaustive"] = True
    rep.cov["explanation"] = "exhaustive over the keyspaces reachable in the MC command universe; random sequences are samples"
    rep.assumptions += ["Redis semantics are those of Redis 7 as written down in RedisKeyspace.tla (rules tagged [doc]/[src]); two rules are loose (EXPIRE flag vs past deadline, GETRANGE with both indices negative)",
                        "error replies are compared by class (first word)", "keys, hash fields and sorted-set members are valid UTF-8; scores are multiples of 1/4",
                        "times stay below 2^31 ms (TLC integers)"]
    return rep.finish()
