------------------------------- MODULE MCResp -------------------------------
(* Exhaustive checks of Resp.tla: every byte string over the grammar alphabet  *)
(* up to MaxLen (Stable, Total), and every value tree of depth <= 2 over a     *)
(* small leaf set (RoundTrip).                                                 *)
EXTENDS Resp
CONSTANTS Alphabet, MaxLen
VARIABLES s, v
vars == <<s, v>>
Strings == UNION {[1..n -> Alphabet] : n \in 0..MaxLen}
Leaves == {VSimple(<<79, 75>>), VError(<<69>>), VInt(<<48>>), VInt(<<Minus, 55>>), VBulk(<<>>), VBulk(<<97, CR, LF>>), VNullBulk, VNullArray}
L1 == Leaves \cup {VArray(<<>>)} \cup {VArray(<<a>>) : a \in Leaves} \cup {VArray(<<a, b>>) : a \in {VBulk(<<97, CR, LF>>), VInt(<<48>>)}, b \in Leaves}
Values == L1 \cup {VArray(<<a, b>>) : a \in {VArray(<<>>), VArray(<<VNullBulk>>), VInt(<<48>>)}, b \in L1}
Init == s \in Strings /\ v \in {VNullBulk}
InitV == s = <<>> /\ v \in Values
Next == UNCHANGED vars
Spec == Init /\ [][Next]_vars
SpecV == InitV /\ [][Next]_vars
Total == Decode(s).k \in {"val", "more", "err"} /\ (Decode(s).k = "val" => Decode(s).n \in 1..Len(s))
Stable == \A b \in Alphabet : LET r == Decode(s) IN r.k # "more" => Decode(Append(s, b)) = r
EmptyIsMore == s = <<>> => Decode(s) = More
RoundTrip == LET e == Encode(v) IN Decode(e) = Val(v, Len(e))
=============================================================================
