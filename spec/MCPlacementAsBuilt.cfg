SPECIFICATION Spec
CONSTANTS
  Nodes = {1, 2, 3}
  VNodes = 1
  Positions = {1, 2, 3, 4}
  AsBuilt = {"peer_ids_off_by_one"}
INVARIANTS RouterCoverage
CHECK_DEADLOCK FALSE
