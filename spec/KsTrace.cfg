SPECIFICATION TraceSpec
CONSTANT ModelChecks = TRUE
CHECK_DEADLOCK FALSE
