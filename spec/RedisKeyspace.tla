--------------------------- MODULE RedisKeyspace ---------------------------
(***************************************************************************)
(* Single-node sequential semantics of the Redis data commands that        *)
(* nerdsane/redis-rust supports, with expiry (C01, C17; used by C02, C03,  *)
(* C04, C05, C16).                                                         *)
(*                                                                         *)
(* State: st maps a key (string) to an entry [t, v, exp]:                  *)
(*   t = "string" v = bytes            t = "list" v = sequence of bytes    *)
(*   t = "set"    v = set of bytes     t = "hash" v = function field->bytes *)
(*   t = "zset"   v = function member -> score (in quarters, see Score)    *)
(*   exp = deadline in ms, -1 = none.                                      *)
(* Expiry is DEFINED by Visible: a key with a deadline is visible at every *)
(* instant strictly before the deadline and at no instant at or after it.  *)
(* Do(c, st, now) = [r |-> reply, s |-> state after].  Replies have the    *)
(* shape of RESP values [t, b, a]; error replies carry only their class    *)
(* (first word), since only that much is compared.                         *)
(*                                                                         *)
(* Rules are tagged [doc] (command reference) or [src] (known from the     *)
(* Redis source).  A collection that becomes empty stops existing; SET and *)
(* its relatives discard the TTL unless KEEPTTL; read-only commands never  *)
(* change the state; a command that replies with an error changes nothing  *)
(* (both checked as theorems by MCRedisKeyspace and on every trace).       *)
(***************************************************************************)
EXTENDS Bytes, FiniteSets, TLC

---------------------------------------------------------------------------
(* replies *)
RSimple(b) == [t |-> "simple", b |-> b, a |-> <<>>]
RErr(class) == [t |-> "error", b |-> class, a |-> <<>>]
RIntN(n) == [t |-> "int", b |-> ToBytes(n), a |-> <<>>]          \* n : Bytes!Int
RInt(k) == RIntN(FromSmall(k))                                    \* k : small TLC integer
RBulk(b) == [t |-> "bulk", b |-> b, a |-> <<>>]
RNil == [t |-> "nullbulk", b |-> <<>>, a |-> <<>>]
RArr(a) == [t |-> "array", b |-> <<>>, a |-> a]
RNilArr == [t |-> "nullarray", b |-> <<>>, a |-> <<>>]
OK == RSimple(<<79, 75>>)
RUnordered(S) == [t |-> "unordered", b |-> <<>>, a |-> S]
ERR == RErr(<<69, 82, 82>>)
WRONGTYPE == RErr(<<87, 82, 79, 78, 71, 84, 89, 80, 69>>)
IsErr(r) == r.t = "error"

---------------------------------------------------------------------------
(* state *)
Entry(t, v, exp) == [t |-> t, v |-> v, exp |-> exp]
Visible(st, k, now) == k \in DOMAIN st /\ (st[k].exp = -1 \/ now < st[k].exp)
Live(st, now) == [k \in {j \in DOMAIN st : Visible(st, j, now)} |-> st[k]]
Has(st, k) == k \in DOMAIN st
Put(st, k, e) == [j \in DOMAIN st \cup {k} |-> IF j = k THEN e ELSE st[j]]
Drop(st, K) == [j \in DOMAIN st \ K |-> st[j]]
TypeIs(st, k, t) == Has(st, k) /\ st[k].t = t
Res(r, s) == [r |-> r, s |-> s]

(* a collection that becomes empty stops existing [doc] *)
IsEmptyColl(t, v) == CASE t = "list" -> v = <<>> [] t = "set" -> v = {} [] t \in {"hash", "zset"} -> DOMAIN v = {} [] OTHER -> FALSE
PutColl(st, k, t, v, exp) == IF IsEmptyColl(t, v) THEN Drop(st, {k}) ELSE Put(st, k, Entry(t, v, exp))
ExpOf(st, k) == IF Has(st, k) THEN st[k].exp ELSE -1

---------------------------------------------------------------------------
(* strings *)
Min(a, b) == IF a < b THEN a ELSE b
Max(a, b) == IF a < b THEN b ELSE a
MaxMs == 1000000000          \* bound on relative expiry arguments handled by the model (ms)

DoGet(c, st) ==
  IF ~Has(st, c.k) THEN Res(RNil, st)
  ELSE IF st[c.k].t # "string" THEN Res(WRONGTYPE, st)
  ELSE Res(RBulk(st[c.k].v), st)

(* SET key value [NX|XX] [GET] [EX s|PX ms|KEEPTTL]; c.ex / c.px = -1 when absent *)
DoSet(c, st, now) ==
  IF (c.ex # -1 /\ c.ex <= 0) \/ (c.px # -1 /\ c.px <= 0) THEN Res(ERR, st)          \* [doc] invalid expire time
  ELSE IF c.get /\ Has(st, c.k) /\ st[c.k].t # "string" THEN Res(WRONGTYPE, st)     \* [doc] SET ... GET on a non-string
  ELSE LET old == IF c.get /\ Has(st, c.k) THEN RBulk(st[c.k].v) ELSE RNil
           skip == (c.nx /\ Has(st, c.k)) \/ (c.xx /\ ~Has(st, c.k))
           exp == IF c.ex # -1 THEN now + c.ex * 1000
                  ELSE IF c.px # -1 THEN now + c.px
                  ELSE IF c.keepttl THEN ExpOf(st, c.k) ELSE -1                        \* [doc] SET discards the TTL
       IN IF skip THEN Res(IF c.get THEN old ELSE RNil, st)
          ELSE Res(IF c.get THEN old ELSE OK, Put(st, c.k, Entry("string", c.v, exp)))

DoSetNx(c, st) == IF Has(st, c.k) THEN Res(RInt(0), st) ELSE Res(RInt(1), Put(st, c.k, Entry("string", c.v, -1)))
DoSetEx(c, st, now) ==   \* SETEX / PSETEX: c.ms = relative expiry in ms
  IF c.ms <= 0 THEN Res(ERR, st) ELSE Res(OK, Put(st, c.k, Entry("string", c.v, now + c.ms)))
DoGetSet(c, st) ==
  IF Has(st, c.k) /\ st[c.k].t # "string" THEN Res(WRONGTYPE, st)
  ELSE Res(IF Has(st, c.k) THEN RBulk(st[c.k].v) ELSE RNil, Put(st, c.k, Entry("string", c.v, -1)))   \* [src] GETSET = SET ... GET: TTL discarded
DoGetDel(c, st) ==
  IF ~Has(st, c.k) THEN Res(RNil, st)
  ELSE IF st[c.k].t # "string" THEN Res(WRONGTYPE, st)
  ELSE Res(RBulk(st[c.k].v), Drop(st, {c.k}))
DoAppend(c, st) ==
  IF Has(st, c.k) /\ st[c.k].t # "string" THEN Res(WRONGTYPE, st)
  ELSE LET nv == (IF Has(st, c.k) THEN st[c.k].v ELSE <<>>) \o c.v
       IN Res(RInt(Len(nv)), Put(st, c.k, Entry("string", nv, ExpOf(st, c.k))))       \* [doc] keeps the TTL
DoStrLen(c, st) ==
  IF ~Has(st, c.k) THEN Res(RInt(0), st)
  ELSE IF st[c.k].t # "string" THEN Res(WRONGTYPE, st) ELSE Res(RInt(Len(st[c.k].v)), st)

(* INCR family: c.d = signed delta as Bytes!Int (DECR/DECRBY pass the negated delta, c.dmin = delta was i64 min) *)
DoIncrBy(c, st) ==
  IF c.dmin THEN Res(ERR, st)                                                            \* [src] DECRBY LLONG_MIN is refused before the key is looked at
  ELSE IF Has(st, c.k) /\ st[c.k].t # "string" THEN Res(WRONGTYPE, st)
  ELSE LET cur == IF Has(st, c.k) THEN ParseStrict(st[c.k].v) ELSE [ok |-> TRUE, n |-> Zero]   \* [src] string2ll: no '+', no leading zeros
       IN IF ~cur.ok \/ c.dmin THEN Res(ERR, st)
          ELSE LET n == Add(cur.n, c.d) IN
               IF ~FitsI64(n) THEN Res(ERR, st)
               ELSE Res(RIntN(n), Put(st, c.k, Entry("string", ToBytes(n), ExpOf(st, c.k))))

DoMGet(c, st) == Res(RArr([i \in DOMAIN c.ks |-> IF TypeIs(st, c.ks[i], "string") THEN RBulk(st[c.ks[i]].v) ELSE RNil]), st)
RECURSIVE MSetFold(_, _, _)
MSetFold(ks, vs, st) == IF ks = <<>> THEN st ELSE MSetFold(Tail(ks), Tail(vs), Put(st, Head(ks), Entry("string", Head(vs), -1)))
DoMSet(c, st) == Res(OK, MSetFold(c.ks, c.vs, st))                                       \* [doc] like SET: TTL discarded
DoMSetNx(c, st) == IF \E i \in DOMAIN c.ks : Has(st, c.ks[i]) THEN Res(RInt(0), st) ELSE Res(RInt(1), MSetFold(c.ks, c.vs, st))

(* GETRANGE key start end (saturated small integers) [src t_string.c] *)
DoGetRange(c, st) ==
  IF Has(st, c.k) /\ st[c.k].t # "string" THEN Res(WRONGTYPE, st)
  ELSE LET v == IF Has(st, c.k) THEN st[c.k].v ELSE <<>>
           n == Len(v)
           s0 == IF c.start < 0 THEN n + c.start ELSE c.start
           e0 == IF c.stop < 0 THEN n + c.stop ELSE c.stop
           s1 == Max(s0, 0)
           e1 == Min(Max(e0, 0), n - 1)
       IN IF (c.start < 0 /\ c.stop < 0 /\ c.start > c.stop) \/ n = 0 \/ s1 > e1 THEN Res(RBulk(<<>>), st)
          ELSE Res(RBulk(SubSeq(v, s1 + 1, e1 + 1)), st)
(* SETRANGE key offset value; c.off saturated, c.neg = offset was negative *)
DoSetRange(c, st) ==
  IF c.neg THEN Res(ERR, st)
  ELSE IF Has(st, c.k) /\ st[c.k].t # "string" THEN Res(WRONGTYPE, st)
  ELSE LET v == IF Has(st, c.k) THEN st[c.k].v ELSE <<>>
           need == c.off + Len(c.v)
       IN IF c.v = <<>> THEN Res(RInt(Len(v)), st)                                        \* [doc] nothing to write: length, no creation
          ELSE LET padded == IF Len(v) >= need THEN v ELSE v \o [i \in 1..(need - Len(v)) |-> 0]
                   nv == [i \in DOMAIN padded |-> IF i > c.off /\ i <= need THEN c.v[i - c.off] ELSE padded[i]]
               IN Res(RInt(Len(nv)), Put(st, c.k, Entry("string", nv, ExpOf(st, c.k))))

---------------------------------------------------------------------------
(* keys and expiry *)
Count(ks, P(_)) == Cardinality({i \in DOMAIN ks : P(ks[i])})
RangeOf(q) == {q[i] : i \in DOMAIN q}
DoDel(c, st) == Res(RInt(Cardinality(RangeOf(c.ks) \cap DOMAIN st)), Drop(st, RangeOf(c.ks)))
DoExists(c, st) == Res(RInt(Count(c.ks, LAMBDA k : Has(st, k))), st)                     \* [doc] repeated keys count repeatedly
TypeName(t) == CASE t = "string" -> <<115, 116, 114, 105, 110, 103>> [] t = "list" -> <<108, 105, 115, 116>>
                 [] t = "set" -> <<115, 101, 116>> [] t = "hash" -> <<104, 97, 115, 104>> [] t = "zset" -> <<122, 115, 101, 116>>
                 [] OTHER -> <<63>>      \* (an adopted observed state may hold a key of no known type: judged at the step that produced it)
DoType(c, st) == Res(RSimple(IF Has(st, c.k) THEN TypeName(st[c.k].t) ELSE <<110, 111, 110, 101>>), st)

(* EXPIRE / PEXPIRE key t [NX|XX|GT|LT]; c.ms = relative time in ms (may be <= 0) *)
DoExpire(c, st, now) ==
  IF ~Has(st, c.k) THEN Res(RInt(0), st)
  ELSE LET cur == st[c.k].exp
           new == now + c.ms
           ok == /\ (c.nx => cur = -1)
                 /\ (c.xx => cur # -1)
                 /\ (c.gt => cur # -1 /\ new > cur)                                       \* [doc] a key without TTL counts as infinite
                 /\ (c.lt => cur = -1 \/ new < cur)
       IN IF ~ok THEN Res(RInt(0), st)
          ELSE IF new <= now THEN Res(RInt(1), Drop(st, {c.k}))                           \* [doc] a deadline in the past deletes the key
          ELSE Res(RInt(1), Put(st, c.k, [st[c.k] EXCEPT !.exp = new]))
DoPttl(c, st, now) ==
  IF ~Has(st, c.k) THEN Res(RInt(-2), st)
  ELSE IF st[c.k].exp = -1 THEN Res(RInt(-1), st) ELSE Res(RInt(st[c.k].exp - now), st)
DoTtl(c, st, now) ==
  IF ~Has(st, c.k) THEN Res(RInt(-2), st)
  ELSE IF st[c.k].exp = -1 THEN Res(RInt(-1), st) ELSE Res(RInt((st[c.k].exp - now + 500) \div 1000), st)   \* [src] rounds to nearest second
DoPersist(c, st) ==
  IF ~Has(st, c.k) \/ st[c.k].exp = -1 THEN Res(RInt(0), st)
  ELSE Res(RInt(1), Put(st, c.k, [st[c.k] EXCEPT !.exp = -1]))
DoRename(c, st) ==
  IF ~Has(st, c.k) THEN Res(ERR, st)                                                     \* [doc] no such key
  ELSE IF c.k = c.k2 THEN Res(IF c.nx THEN RInt(0) ELSE OK, st)
  ELSE IF c.nx /\ Has(st, c.k2) THEN Res(RInt(0), st)
  ELSE Res(IF c.nx THEN RInt(1) ELSE OK, Put(Drop(st, {c.k}), c.k2, st[c.k]))            \* [doc] value and TTL move; the target is overwritten
DoDbSize(c, st) == Res(RInt(Cardinality(DOMAIN st)), st)
(* EXPIRETIME / PEXPIRETIME: the deadline as absolute Unix time = start epoch of the node (c.e, ms) + deadline *)
(* on the virtual clock; seconds are rounded to the nearest; -1 without a deadline, -2 without the key       *)
DoExpireTime(c, st) ==
  IF ~Has(st, c.k) THEN Res(RInt(-2), st)
  ELSE IF st[c.k].exp = -1 THEN Res(RInt(-1), st)
  ELSE LET abs == c.e + st[c.k].exp IN Res(RInt(IF c.ms THEN abs ELSE (abs + 500) \div 1000), st)

(* KEYS pattern: Redis glob over the key bytes.  * any run, ? one byte, [..] class with ^ negation, a-z   *)
(* ranges and \x escapes, \x the byte x itself.  c.pat = pattern bytes, c.kb = <<key, bytes>> pairs for   *)
(* every key name the driver uses (keys are strings in the state; their bytes come with the command).    *)
RECURSIVE ClassScan(_, _, _)
ClassScan(p, k, ch) ==      \* from position k inside a class: [hit, next] (next = position after the closing bracket)
  IF k > Len(p) THEN [hit |-> FALSE, next |-> k, closed |-> FALSE]
  ELSE IF p[k] = 93 THEN [hit |-> FALSE, next |-> k + 1, closed |-> TRUE]
  ELSE IF p[k] = 92 /\ k < Len(p) THEN
         LET r == ClassScan(p, k + 2, ch) IN [r EXCEPT !.hit = r.hit \/ p[k + 1] = ch]
  ELSE IF k + 2 <= Len(p) /\ p[k + 1] = 45 /\ p[k + 2] # 93 THEN
         LET lo == IF p[k] <= p[k + 2] THEN p[k] ELSE p[k + 2]
             hi == IF p[k] <= p[k + 2] THEN p[k + 2] ELSE p[k]
             r == ClassScan(p, k + 3, ch) IN [r EXCEPT !.hit = r.hit \/ (lo <= ch /\ ch <= hi)]
  ELSE LET r == ClassScan(p, k + 1, ch) IN [r EXCEPT !.hit = r.hit \/ p[k] = ch]
RECURSIVE GlobAt(_, _, _, _)
GlobAt(p, i, s, j) ==
  IF i > Len(p) THEN j > Len(s)
  ELSE IF p[i] = 42 THEN \E m \in j..(Len(s) + 1) : GlobAt(p, i + 1, s, m)
  ELSE IF j > Len(s) THEN FALSE
  ELSE IF p[i] = 63 THEN GlobAt(p, i + 1, s, j + 1)
  ELSE IF p[i] = 92 /\ i < Len(p) THEN p[i + 1] = s[j] /\ GlobAt(p, i + 2, s, j + 1)
  ELSE IF p[i] = 91 THEN
         LET neg == i < Len(p) /\ p[i + 1] = 94
             r == ClassScan(p, IF neg THEN i + 2 ELSE i + 1, s[j]) IN
         r.closed /\ (r.hit # neg) /\ GlobAt(p, r.next, s, j + 1)
  ELSE p[i] = s[j] /\ GlobAt(p, i + 1, s, j + 1)
GlobMatch(p, s) == GlobAt(p, 1, s, 1)
KeyBytes(c, k) == LET P == {i \in DOMAIN c.kb : c.kb[i][1] = k} IN IF P = {} THEN <<>> ELSE c.kb[CHOOSE i \in P : TRUE][2]
DoKeys(c, st) == Res(RUnordered({RBulk(KeyBytes(c, k)) : k \in {j \in DOMAIN st : GlobMatch(c.pat, KeyBytes(c, j))}}), st)
DoFlush(c, st) == Res(OK, Drop(st, DOMAIN st))

---------------------------------------------------------------------------
(* lists *)
Rev(q) == [i \in DOMAIN q |-> q[Len(q) + 1 - i]]
ListOf(st, k) == IF Has(st, k) THEN st[k].v ELSE <<>>
DoPush(c, st) ==   \* c.left: LPUSH prepends the elements one by one
  IF Has(st, c.k) /\ st[c.k].t # "list" THEN Res(WRONGTYPE, st)
  ELSE LET nv == IF c.left THEN Rev(c.vs) \o ListOf(st, c.k) ELSE ListOf(st, c.k) \o c.vs
       IN Res(RInt(Len(nv)), Put(st, c.k, Entry("list", nv, ExpOf(st, c.k))))
DoPop(c, st) ==
  IF ~Has(st, c.k) THEN Res(RNil, st)
  ELSE IF st[c.k].t # "list" THEN Res(WRONGTYPE, st)
  ELSE LET l == st[c.k].v IN
       Res(RBulk(IF c.left THEN Head(l) ELSE l[Len(l)]),
           PutColl(st, c.k, "list", IF c.left THEN Tail(l) ELSE SubSeq(l, 1, Len(l) - 1), st[c.k].exp))
DoLLen(c, st) == IF Has(st, c.k) /\ st[c.k].t # "list" THEN Res(WRONGTYPE, st) ELSE Res(RInt(Len(ListOf(st, c.k))), st)
NormIdx(i, n) == IF i < 0 THEN n + i ELSE i            \* 0-based, may stay out of range
DoLIndex(c, st) ==
  IF Has(st, c.k) /\ st[c.k].t # "list" THEN Res(WRONGTYPE, st)
  ELSE LET l == ListOf(st, c.k)
           i == NormIdx(c.i, Len(l))
       IN IF i < 0 \/ i >= Len(l) THEN Res(RNil, st) ELSE Res(RBulk(l[i + 1]), st)
(* inclusive range with Redis index normalisation [doc] *)
RangeSub(l, start, stop) ==
  LET n == Len(l)
      s == Max(NormIdx(start, n), 0)
      e == Min(NormIdx(stop, n), n - 1)
  IN IF n = 0 \/ s > e \/ s >= n THEN <<>> ELSE SubSeq(l, s + 1, e + 1)
DoLRange(c, st) ==
  IF Has(st, c.k) /\ st[c.k].t # "list" THEN Res(WRONGTYPE, st)
  ELSE Res(RArr([i \in DOMAIN RangeSub(ListOf(st, c.k), c.start, c.stop) |-> RBulk(RangeSub(ListOf(st, c.k), c.start, c.stop)[i])]), st)
DoLSet(c, st) ==
  IF ~Has(st, c.k) THEN Res(ERR, st)                                                     \* [doc] no such key
  ELSE IF st[c.k].t # "list" THEN Res(WRONGTYPE, st)
  ELSE LET l == st[c.k].v
           i == NormIdx(c.i, Len(l))
       IN IF i < 0 \/ i >= Len(l) THEN Res(ERR, st)                                      \* [doc] index out of range
          ELSE Res(OK, Put(st, c.k, [st[c.k] EXCEPT !.v = [l EXCEPT ![i + 1] = c.v]]))
DoLTrim(c, st) ==
  IF ~Has(st, c.k) THEN Res(OK, st)
  ELSE IF st[c.k].t # "list" THEN Res(WRONGTYPE, st)
  ELSE Res(OK, PutColl(st, c.k, "list", RangeSub(st[c.k].v, c.start, c.stop), st[c.k].exp))
(* LMOVE src dst LEFT|RIGHT LEFT|RIGHT (RPOPLPUSH = RIGHT LEFT) [doc]: atomic; type errors change nothing *)
DoLMove(c, st) ==
  IF ~Has(st, c.k) THEN Res(RNil, st)
  ELSE IF st[c.k].t # "list" \/ (Has(st, c.k2) /\ st[c.k2].t # "list") THEN Res(WRONGTYPE, st)
  ELSE LET l == st[c.k].v
           x == IF c.fromleft THEN Head(l) ELSE l[Len(l)]
           rest == IF c.fromleft THEN Tail(l) ELSE SubSeq(l, 1, Len(l) - 1)
           st1 == PutColl(st, c.k, "list", rest, st[c.k].exp)
           d == ListOf(st1, c.k2)
           nd == IF c.toleft THEN <<x>> \o d ELSE d \o <<x>>
       IN Res(RBulk(x), Put(st1, c.k2, Entry("list", nd, ExpOf(st1, c.k2))))

---------------------------------------------------------------------------
(* sets *)
SetOf(st, k) == IF Has(st, k) THEN st[k].v ELSE {}
DoSAdd(c, st) ==
  IF Has(st, c.k) /\ st[c.k].t # "set" THEN Res(WRONGTYPE, st)
  ELSE LET s == SetOf(st, c.k) IN
       Res(RInt(Cardinality(RangeOf(c.vs) \ s)), Put(st, c.k, Entry("set", s \cup RangeOf(c.vs), ExpOf(st, c.k))))
DoSRem(c, st) ==
  IF ~Has(st, c.k) THEN Res(RInt(0), st)
  ELSE IF st[c.k].t # "set" THEN Res(WRONGTYPE, st)
  ELSE Res(RInt(Cardinality(RangeOf(c.vs) \cap st[c.k].v)), PutColl(st, c.k, "set", st[c.k].v \ RangeOf(c.vs), st[c.k].exp))
DoSIsMember(c, st) == IF Has(st, c.k) /\ st[c.k].t # "set" THEN Res(WRONGTYPE, st) ELSE Res(RInt(IF c.v \in SetOf(st, c.k) THEN 1 ELSE 0), st)
DoSCard(c, st) == IF Has(st, c.k) /\ st[c.k].t # "set" THEN Res(WRONGTYPE, st) ELSE Res(RInt(Cardinality(SetOf(st, c.k))), st)
(* unordered replies are returned as [t |-> "set", a |-> set of elements]; the judge compares as sets *)
DoSMembers(c, st) == IF Has(st, c.k) /\ st[c.k].t # "set" THEN Res(WRONGTYPE, st) ELSE Res(RUnordered({RBulk(x) : x \in SetOf(st, c.k)}), st)

---------------------------------------------------------------------------
(* hashes *)
HashOf(st, k) == IF Has(st, k) THEN st[k].v ELSE [f \in {} |-> <<>>]
DoHSet(c, st) ==   \* c.fs, c.vs parallel sequences; later pairs override earlier ones
  IF Has(st, c.k) /\ st[c.k].t # "hash" THEN Res(WRONGTYPE, st)
  ELSE LET h == HashOf(st, c.k)
           last(f) == c.vs[CHOOSE i \in DOMAIN c.fs : c.fs[i] = f /\ \A j \in DOMAIN c.fs : c.fs[j] = f => j <= i]
           nh == [f \in DOMAIN h \cup RangeOf(c.fs) |-> IF f \in RangeOf(c.fs) THEN last(f) ELSE h[f]]
       IN Res(RInt(Cardinality(RangeOf(c.fs) \ DOMAIN h)), Put(st, c.k, Entry("hash", nh, ExpOf(st, c.k))))
DoHGet(c, st) ==
  IF Has(st, c.k) /\ st[c.k].t # "hash" THEN Res(WRONGTYPE, st)
  ELSE IF c.f \in DOMAIN HashOf(st, c.k) THEN Res(RBulk(HashOf(st, c.k)[c.f]), st) ELSE Res(RNil, st)
DoHDel(c, st) ==
  IF ~Has(st, c.k) THEN Res(RInt(0), st)
  ELSE IF st[c.k].t # "hash" THEN Res(WRONGTYPE, st)
  ELSE LET h == st[c.k].v IN
       Res(RInt(Cardinality(RangeOf(c.fs) \cap DOMAIN h)), PutColl(st, c.k, "hash", [f \in DOMAIN h \ RangeOf(c.fs) |-> h[f]], st[c.k].exp))
DoHExists(c, st) == IF Has(st, c.k) /\ st[c.k].t # "hash" THEN Res(WRONGTYPE, st) ELSE Res(RInt(IF c.f \in DOMAIN HashOf(st, c.k) THEN 1 ELSE 0), st)
DoHLen(c, st) == IF Has(st, c.k) /\ st[c.k].t # "hash" THEN Res(WRONGTYPE, st) ELSE Res(RInt(Cardinality(DOMAIN HashOf(st, c.k))), st)
DoHGetAll(c, st) == IF Has(st, c.k) /\ st[c.k].t # "hash" THEN Res(WRONGTYPE, st)
                    ELSE Res([t |-> "pairs", b |-> <<>>, a |-> {<<f, HashOf(st, c.k)[f]>> : f \in DOMAIN HashOf(st, c.k)}], st)
DoHKeys(c, st) == IF Has(st, c.k) /\ st[c.k].t # "hash" THEN Res(WRONGTYPE, st) ELSE Res(RUnordered({RBulk(f) : f \in DOMAIN HashOf(st, c.k)}), st)
DoHVals(c, st) == IF Has(st, c.k) /\ st[c.k].t # "hash" THEN Res(WRONGTYPE, st)
                  ELSE Res([t |-> "bag", b |-> <<>>, a |-> {<<f, HashOf(st, c.k)[f]>> : f \in DOMAIN HashOf(st, c.k)}], st)
DoHIncrBy(c, st) ==
  IF Has(st, c.k) /\ st[c.k].t # "hash" THEN Res(WRONGTYPE, st)
  ELSE LET h == HashOf(st, c.k)
           cur == IF c.f \in DOMAIN h THEN ParseStrict(h[c.f]) ELSE [ok |-> TRUE, n |-> Zero]
       IN IF ~cur.ok THEN Res(ERR, st)                                                   \* [doc] hash value is not an integer
          ELSE LET n == Add(cur.n, c.d) IN
               IF ~FitsI64(n) THEN Res(ERR, st)
               ELSE Res(RIntN(n), Put(st, c.k, Entry("hash", [f \in DOMAIN h \cup {c.f} |-> IF f = c.f THEN ToBytes(n) ELSE h[f]], ExpOf(st, c.k))))

---------------------------------------------------------------------------
(* sorted sets: scores are exact multiples of 1/4, stored as 4*score (integers) *)
ZOf(st, k) == IF Has(st, k) THEN st[k].v ELSE [m \in {} |-> 0]
(* score rendering: integers print without fraction, quarters as .25 / .5 / .75 [src %.17g] *)
ScoreBytes(q) ==
  LET neg == q < 0
      a == IF neg THEN -q ELSE q
      whole == a \div 4
      frac == a % 4
      fb == CASE frac = 0 -> <<>> [] frac = 1 -> <<46, 50, 53>> [] frac = 2 -> <<46, 53>> [] frac = 3 -> <<46, 55, 53>>
  IN (IF neg THEN <<45>> ELSE <<>>) \o [i \in DOMAIN NatDigits(whole) |-> 48 + NatDigits(whole)[i]] \o fb
(* byte-wise lexicographic order on members *)
RECURSIVE BytesLess(_, _)
BytesLess(x, y) == IF y = <<>> THEN FALSE ELSE IF x = <<>> THEN TRUE
                   ELSE IF Head(x) < Head(y) THEN TRUE ELSE IF Head(x) > Head(y) THEN FALSE ELSE BytesLess(Tail(x), Tail(y))
ZLess(z, m1, m2) == z[m1] < z[m2] \/ (z[m1] = z[m2] /\ BytesLess(m1, m2))
RECURSIVE ZSorted(_, _)
ZSorted(z, M) == IF M = {} THEN <<>> ELSE LET m == CHOOSE x \in M : \A y \in M \ {x} : ZLess(z, x, y) IN <<m>> \o ZSorted(z, M \ {m})
ZSeq(z) == ZSorted(z, DOMAIN z)
(* ZADD key [NX|XX] [GT|LT] [CH] score member ...; c.ms members, c.qs scores *)
RECURSIVE ZAddFold(_, _, _, _)
ZAddFold(c, i, z, cnt) ==   \* cnt = [added, changed]
  IF i > Len(c.ms) THEN [z |-> z, added |-> cnt[1], changed |-> cnt[2]]
  ELSE LET m == c.ms[i]
           q == c.qs[i]
           ex == m \in DOMAIN z
           apply == IF ex THEN ~c.nx /\ (c.gt => q > z[m]) /\ (c.lt => q < z[m]) ELSE ~c.xx
           nz == IF apply THEN [x \in DOMAIN z \cup {m} |-> IF x = m THEN q ELSE z[x]] ELSE z
       IN ZAddFold(c, i + 1, nz, <<cnt[1] + (IF apply /\ ~ex THEN 1 ELSE 0), cnt[2] + (IF apply /\ ex /\ z[m] # q THEN 1 ELSE 0)>>)
DoZAdd(c, st) ==
  IF Has(st, c.k) /\ st[c.k].t # "zset" THEN Res(WRONGTYPE, st)
  ELSE IF (c.nx /\ c.xx) \/ (c.gt /\ c.lt) \/ (c.nx /\ (c.gt \/ c.lt)) THEN Res(ERR, st)   \* [doc] incompatible options
  ELSE LET r == ZAddFold(c, 1, ZOf(st, c.k), <<0, 0>>) IN
       Res(RInt(IF c.ch THEN r.added + r.changed ELSE r.added), PutColl(st, c.k, "zset", r.z, ExpOf(st, c.k)))
DoZRem(c, st) ==
  IF ~Has(st, c.k) THEN Res(RInt(0), st)
  ELSE IF st[c.k].t # "zset" THEN Res(WRONGTYPE, st)
  ELSE LET z == st[c.k].v IN
       Res(RInt(Cardinality(RangeOf(c.ms) \cap DOMAIN z)), PutColl(st, c.k, "zset", [m \in DOMAIN z \ RangeOf(c.ms) |-> z[m]], st[c.k].exp))
DoZScore(c, st) ==
  IF Has(st, c.k) /\ st[c.k].t # "zset" THEN Res(WRONGTYPE, st)
  ELSE IF c.m \in DOMAIN ZOf(st, c.k) THEN Res(RBulk(ScoreBytes(ZOf(st, c.k)[c.m])), st) ELSE Res(RNil, st)
DoZCard(c, st) == IF Has(st, c.k) /\ st[c.k].t # "zset" THEN Res(WRONGTYPE, st) ELSE Res(RInt(Cardinality(DOMAIN ZOf(st, c.k))), st)
DoZRank(c, st) ==
  IF Has(st, c.k) /\ st[c.k].t # "zset" THEN Res(WRONGTYPE, st)
  ELSE LET z == ZOf(st, c.k) IN
       IF c.m \notin DOMAIN z THEN Res(RNil, st) ELSE Res(RInt(Cardinality({x \in DOMAIN z : ZLess(z, x, c.m)})), st)
WithScores(z, q, ws) == IF ~ws THEN [i \in DOMAIN q |-> RBulk(q[i])]
                        ELSE [i \in 1..(2 * Len(q)) |-> IF i % 2 = 1 THEN RBulk(q[(i + 1) \div 2]) ELSE RBulk(ScoreBytes(z[q[i \div 2]]))]
DoZRange(c, st) ==   \* c.rev: ZREVRANGE
  IF Has(st, c.k) /\ st[c.k].t # "zset" THEN Res(WRONGTYPE, st)
  ELSE LET z == ZOf(st, c.k)
           q == IF c.rev THEN Rev(ZSeq(z)) ELSE ZSeq(z)
       IN Res(RArr(WithScores(z, RangeSub(q, c.start, c.stop), c.ws)), st)
(* ZCOUNT / ZRANGEBYSCORE with bounds [q, excl, inf (-1, 0, 1)] *)
InLo(b, q) == b.inf = -1 \/ (b.inf = 0 /\ (IF b.excl THEN q > b.q ELSE q >= b.q))
InHi(b, q) == b.inf = 1 \/ (b.inf = 0 /\ (IF b.excl THEN q < b.q ELSE q <= b.q))
DoZCount(c, st) ==
  IF Has(st, c.k) /\ st[c.k].t # "zset" THEN Res(WRONGTYPE, st)
  ELSE LET z == ZOf(st, c.k) IN Res(RInt(Cardinality({m \in DOMAIN z : InLo(c.lo, z[m]) /\ InHi(c.hi, z[m])})), st)
DoZRangeByScore(c, st) ==
  IF Has(st, c.k) /\ st[c.k].t # "zset" THEN Res(WRONGTYPE, st)
  ELSE LET z == ZOf(st, c.k)
           q == SelectSeq(ZSeq(z), LAMBDA m : InLo(c.lo, z[m]) /\ InHi(c.hi, z[m]))
           lim == IF c.limit THEN (IF c.off < 0 \/ c.off >= Len(q) THEN <<>>
                                    ELSE SubSeq(q, c.off + 1, IF c.cnt < 0 THEN Len(q) ELSE Min(Len(q), c.off + c.cnt))) ELSE q
       IN Res(RArr(WithScores(z, lim, c.ws)), st)

---------------------------------------------------------------------------
DoPing(c, st) == Res(IF c.has THEN RBulk(c.v) ELSE RSimple(<<80, 79, 78, 71>>), st)
DoEcho(c, st) == Res(RBulk(c.v), st)

---------------------------------------------------------------------------
(* bit operations on strings: bit 0 is the most significant bit of the first byte [doc] *)
BitMask(o) == <<128, 64, 32, 16, 8, 4, 2, 1>>[(o % 8) + 1]
BitOf(v, o) == LET i == (o \div 8) + 1 IN IF i > Len(v) THEN 0 ELSE (v[i] \div BitMask(o)) % 2
(* SETBIT key offset bit: the string grows with zero bytes up to the byte holding the bit; the reply is the *)
(* previous bit; like every in-place modification it keeps the TTL [doc]                                    *)
DoSetBit(c, st) ==
  IF Has(st, c.k) /\ st[c.k].t # "string" THEN Res(WRONGTYPE, st)
  ELSE LET old == IF Has(st, c.k) THEN st[c.k].v ELSE <<>>
           i == (c.off \div 8) + 1
           v0 == IF Len(old) < i THEN old \o [j \in 1..(i - Len(old)) |-> 0] ELSE old
           ob == BitOf(v0, c.off)
       IN Res(RInt(ob), Put(st, c.k, Entry("string", [v0 EXCEPT ![i] = v0[i] + (c.bit - ob) * BitMask(c.off)], ExpOf(st, c.k))))
DoGetBit(c, st) ==
  IF Has(st, c.k) /\ st[c.k].t # "string" THEN Res(WRONGTYPE, st)
  ELSE Res(RInt(IF Has(st, c.k) THEN BitOf(st[c.k].v, c.off) ELSE 0), st)

(* GETEX key [PERSIST | EX s | PX ms]: GET that also sets or clears the deadline of an existing string;     *)
(* c.mode in none/persist/rel, c.ms the relative deadline in ms.  A missing key answers nil before the      *)
(* expiry argument is looked at [src: getexCommand looks the key up first]                                  *)
DoGetEx(c, st, now) ==
  IF ~Has(st, c.k) THEN Res(RNil, st)
  ELSE IF st[c.k].t # "string" THEN Res(WRONGTYPE, st)
  ELSE IF c.mode = "rel" /\ c.ms <= 0 THEN Res(ERR, st)
  ELSE LET exp == IF c.mode = "persist" THEN -1 ELSE IF c.mode = "rel" THEN now + c.ms ELSE st[c.k].exp
       IN Res(RBulk(st[c.k].v), Put(st, c.k, [st[c.k] EXCEPT !.exp = exp]))

(* SPOP key [count]: removes and returns random members - every choice of members is an outcome; c.n = -1  *)
(* without count.  A set that becomes empty stops existing; the others keep their TTL [doc]                 *)
SpopAlts(c, st) ==
  IF Has(st, c.k) /\ st[c.k].t # "set" THEN {Res(WRONGTYPE, st)}
  ELSE LET S == IF Has(st, c.k) THEN st[c.k].v ELSE {} IN
       IF c.n = -1 THEN (IF S = {} THEN {Res(RNil, st)}
                         ELSE {Res(RBulk(x), PutColl(st, c.k, "set", S \ {x}, ExpOf(st, c.k))) : x \in S})
       ELSE LET m == Min(c.n, Cardinality(S)) IN
            {Res(RUnordered({RBulk(x) : x \in T}), IF T = {} THEN st ELSE PutColl(st, c.k, "set", S \ T, ExpOf(st, c.k))) :
               T \in {U \in SUBSET S : Cardinality(U) = m}}
DoSpop(c, st) == CHOOSE r \in SpopAlts(c, st) : TRUE
(* RANDOMKEY: some visible key, nil exactly when there is none [doc] *)
RandomKeyAlts(c, st) == IF DOMAIN st = {} THEN {Res(RNil, st)} ELSE {Res(RBulk(KeyBytes(c, k)), st) : k \in DOMAIN st}
DoRandomKey(c, st) == CHOOSE r \in RandomKeyAlts(c, st) : TRUE

(* INCRBYFLOAT key increment [doc]: the value is a float, the result is stored and returned in %.17g form, the TTL *)
(* is kept.  The model speaks about exact multiples of 1/4 only (c.q = 4 * increment; the same arithmetic as the   *)
(* sorted-set scores): a current value that is the canonical rendering of a quarter (ScoreBytes) is judged; a       *)
(* value that cannot be a float in any syntax (empty, or with a byte outside digits, sign, point, exponent, and the  *)
(* letters of inf / nan / hexadecimal floats) is an error; everything else (" 5" is an error in Redis, "+5" and     *)
(* "007" are not) is left loose: IncrFloatLoose, not judged.                                                         *)
IsDigitB(x) == x >= 48 /\ x <= 57
RECURSIVE DigitsVal(_)
DigitsVal(ds) == IF ds = <<>> THEN 0 ELSE 10 * DigitsVal(SubSeq(ds, 1, Len(ds) - 1)) + (ds[Len(ds)] - 48)
QuarterOf(v) ==
  LET neg == Len(v) > 0 /\ v[1] = 45
      body == IF neg THEN Tail(v) ELSE v
      dots == {i \in DOMAIN body : body[i] = 46}
      d == IF dots = {} THEN 0 ELSE CHOOSE i \in dots : TRUE
      ip == IF d = 0 THEN body ELSE SubSeq(body, 1, d - 1)
      fp == IF d = 0 THEN <<>> ELSE SubSeq(body, d + 1, Len(body))
      fq == IF d = 0 THEN 0 ELSE IF fp = <<50, 53>> THEN 1 ELSE IF fp = <<53>> THEN 2 ELSE IF fp = <<55, 53>> THEN 3 ELSE -1
      okip == Len(ip) >= 1 /\ Len(ip) <= 6 /\ (\A i \in DOMAIN ip : IsDigitB(ip[i])) /\ (Len(ip) = 1 \/ ip[1] # 48)
      mag == IF okip THEN 4 * DigitsVal(ip) + fq ELSE 0
  IN IF Cardinality(dots) <= 1 /\ okip /\ fq >= 0 /\ ~(neg /\ mag = 0)
     THEN [ok |-> TRUE, q |-> IF neg THEN -mag ELSE mag] ELSE [ok |-> FALSE, q |-> 0]
FloatLetters == {65, 66, 67, 68, 69, 70, 73, 78, 80, 84, 88, 89, 97, 98, 99, 100, 101, 102, 105, 110, 112, 116, 120, 121}   \* A-F I N P T X Y, both cases
FloatJunk(v) == v = <<>> \/ \E i \in DOMAIN v : ~(IsDigitB(v[i]) \/ v[i] \in {43, 45, 46} \/ v[i] \in FloatLetters)
IncrFloatLoose(c, st) == Has(st, c.k) /\ st[c.k].t = "string" /\ ~FloatJunk(st[c.k].v) /\ ~QuarterOf(st[c.k].v).ok
DoIncrByFloat(c, st) ==
  IF Has(st, c.k) /\ st[c.k].t # "string" THEN Res(WRONGTYPE, st)
  ELSE IF Has(st, c.k) /\ FloatJunk(st[c.k].v) THEN Res(ERR, st)
  ELSE LET cur == IF Has(st, c.k) THEN QuarterOf(st[c.k].v) ELSE [ok |-> TRUE, q |-> 0] IN
       IF ~cur.ok THEN Res(ERR, st)              \* loose (IncrFloatLoose): never judged
       ELSE LET b == ScoreBytes(cur.q + c.q) IN Res(RBulk(b), Put(st, c.k, Entry("string", b, ExpOf(st, c.k))))

(* SORT key [STORE dst] (no BY / GET / LIMIT / ALPHA / DESC: the parsers know none) [doc]: the elements of a list or   *)
(* set as numbers, ascending, ties by bytes; an element that is not a number is an error; STORE writes the result as *)
(* a list to dst (any old value and TTL of dst go; an empty result deletes dst) and answers its length.  Judged when *)
(* every element is a canonical integer (or some element cannot be a float in any syntax: error); sorted sets and     *)
(* other float syntaxes are left loose (SortLoose).                                                                    *)
RECURSIVE SeqOfSet(_)
SeqOfSet(S) == IF S = {} THEN <<>> ELSE LET x == CHOOSE y \in S : TRUE IN <<x>> \o SeqOfSet(S \ {x})
SortElems(st, k) == IF ~Has(st, k) THEN <<>> ELSE IF st[k].t = "list" THEN st[k].v
                    ELSE IF st[k].t = "set" THEN SeqOfSet(st[k].v) ELSE IF st[k].t = "zset" THEN SeqOfSet(DOMAIN st[k].v) ELSE <<>>
SortLoose(c, st) == Has(st, c.k) /\ (st[c.k].t = "zset" \/ (st[c.k].t \in {"list", "set"} /\
                       LET es == SortElems(st, c.k) IN (\E i \in DOMAIN es : ~ParseStrict(es[i]).ok) /\ ~(\E i \in DOMAIN es : FloatJunk(es[i]))))
NumLess(a, b) == LET x == ParseStrict(a).n  y == ParseStrict(b).n IN Less(x, y) \/ (x = y /\ BytesLess(a, b))
ElemLess(a, b, num) == IF num THEN NumLess(a, b) ELSE BytesLess(a, b)
RECURSIVE SortBy(_, _, _)
SortBy(es, I, num) == IF I = {} THEN <<>>
                      ELSE LET m == CHOOSE i \in I : \A j \in I \ {i} : ElemLess(es[i], es[j], num) \/ (es[i] = es[j] /\ i < j)
                           IN <<es[m]>> \o SortBy(es, I \ {m}, num)
SortResult(c, st, sorted) ==
  IF c.store = "" THEN Res(RArr([i \in DOMAIN sorted |-> RBulk(sorted[i])]), st)
  ELSE Res(RInt(Len(sorted)), IF sorted = <<>> THEN Drop(st, {c.store}) ELSE Put(st, c.store, Entry("list", sorted, -1)))
DoSort(c, st) ==
  IF Has(st, c.k) /\ st[c.k].t \notin {"list", "set", "zset"} THEN Res(WRONGTYPE, st)
  ELSE LET es == SortElems(st, c.k) IN
       IF \E i \in DOMAIN es : ~ParseStrict(es[i]).ok THEN Res(ERR, st)       \* (loose cases are never judged)
       ELSE SortResult(c, st, SortBy(es, DOMAIN es, TRUE))
(* as built (listed finding sort_is_lexicographic): byte order, never an error *)
SortAsBuilt(c, st) == SortResult(c, st, SortBy(SortElems(st, c.k), DOMAIN SortElems(st, c.k), FALSE))

(* the command table *)
DoLive(c, st, now) ==
  CASE c.op = "GET" -> DoGet(c, st)            [] c.op = "SET" -> DoSet(c, st, now)
    [] c.op = "SETNX" -> DoSetNx(c, st)        [] c.op = "SETEX" -> DoSetEx(c, st, now)
    [] c.op = "GETSET" -> DoGetSet(c, st)      [] c.op = "GETDEL" -> DoGetDel(c, st)
    [] c.op = "APPEND" -> DoAppend(c, st)      [] c.op = "STRLEN" -> DoStrLen(c, st)
    [] c.op = "INCRBY" -> DoIncrBy(c, st)      [] c.op = "MGET" -> DoMGet(c, st)
    [] c.op = "MSET" -> DoMSet(c, st)          [] c.op = "MSETNX" -> DoMSetNx(c, st)
    [] c.op = "GETRANGE" -> DoGetRange(c, st)  [] c.op = "SETRANGE" -> DoSetRange(c, st)
    [] c.op = "DEL" -> DoDel(c, st)            [] c.op = "EXISTS" -> DoExists(c, st)
    [] c.op = "TYPE" -> DoType(c, st)          [] c.op = "EXPIRE" -> DoExpire(c, st, now)
    [] c.op = "PTTL" -> DoPttl(c, st, now)     [] c.op = "TTL" -> DoTtl(c, st, now)
    [] c.op = "PERSIST" -> DoPersist(c, st)    [] c.op = "RENAME" -> DoRename(c, st)
    [] c.op = "DBSIZE" -> DoDbSize(c, st)      [] c.op = "FLUSHALL" -> DoFlush(c, st)
    [] c.op = "KEYS" -> DoKeys(c, st)          [] c.op = "EXPIRETIME" -> DoExpireTime(c, st)
    [] c.op = "PUSH" -> DoPush(c, st)          [] c.op = "POP" -> DoPop(c, st)
    [] c.op = "LLEN" -> DoLLen(c, st)          [] c.op = "LINDEX" -> DoLIndex(c, st)
    [] c.op = "LRANGE" -> DoLRange(c, st)      [] c.op = "LSET" -> DoLSet(c, st)
    [] c.op = "LTRIM" -> DoLTrim(c, st)        [] c.op = "LMOVE" -> DoLMove(c, st)
    [] c.op = "SADD" -> DoSAdd(c, st)          [] c.op = "SREM" -> DoSRem(c, st)
    [] c.op = "SISMEMBER" -> DoSIsMember(c, st) [] c.op = "SCARD" -> DoSCard(c, st)
    [] c.op = "SMEMBERS" -> DoSMembers(c, st)
    [] c.op = "HSET" -> DoHSet(c, st)          [] c.op = "HGET" -> DoHGet(c, st)
    [] c.op = "HDEL" -> DoHDel(c, st)          [] c.op = "HEXISTS" -> DoHExists(c, st)
    [] c.op = "HLEN" -> DoHLen(c, st)          [] c.op = "HGETALL" -> DoHGetAll(c, st)
    [] c.op = "HKEYS" -> DoHKeys(c, st)        [] c.op = "HVALS" -> DoHVals(c, st)
    [] c.op = "HINCRBY" -> DoHIncrBy(c, st)
    [] c.op = "ZADD" -> DoZAdd(c, st)          [] c.op = "ZREM" -> DoZRem(c, st)
    [] c.op = "ZSCORE" -> DoZScore(c, st)      [] c.op = "ZCARD" -> DoZCard(c, st)
    [] c.op = "ZRANK" -> DoZRank(c, st)        [] c.op = "ZRANGE" -> DoZRange(c, st)
    [] c.op = "ZCOUNT" -> DoZCount(c, st)      [] c.op = "ZRANGEBYSCORE" -> DoZRangeByScore(c, st)
    [] c.op = "PING" -> DoPing(c, st)          [] c.op = "ECHO" -> DoEcho(c, st)
    [] c.op = "SETBIT" -> DoSetBit(c, st)      [] c.op = "GETBIT" -> DoGetBit(c, st)
    [] c.op = "GETEX" -> DoGetEx(c, st, now)   [] c.op = "SPOP" -> DoSpop(c, st)
    [] c.op = "RANDOMKEY" -> DoRandomKey(c, st)
    [] c.op = "INCRBYFLOAT" -> DoIncrByFloat(c, st)
    [] c.op = "SORT" -> DoSort(c, st)

(* expired keys are invisible before the command runs *)
Do(c, st, now) == DoLive(c, Live(st, now), now)

(* Loose rules: every outcome a reasonable reading of Redis allows.                          *)
(*  - EXPIRE/PEXPIRE with NX|XX|GT|LT and a deadline that is already in the past: Redis 7    *)
(*    evaluates the flag first; deleting the key regardless (older behaviour) is accepted.   *)
DoAlts(c, st, now) ==
  LET live == Live(st, now) IN
  {Do(c, st, now)} \cup
  (*  - commands whose result is a random choice: every choice                                *)
  (IF c.op = "SPOP" THEN SpopAlts(c, live) ELSE IF c.op = "RANDOMKEY" THEN RandomKeyAlts(c, live) ELSE {}) \cup
  (IF c.op = "EXPIRE" /\ (c.nx \/ c.xx \/ c.gt \/ c.lt) /\ c.ms <= 0 /\ Has(live, c.k)
   THEN {Res(RInt(1), Drop(live, {c.k}))} ELSE {})
  \cup
  (*  - GETRANGE with two negative indices and start after end: "" in current Redis; the     *)
  (*    result of normalising both indices first (older behaviour) is accepted.              *)
  (IF c.op = "GETRANGE" /\ c.start < 0 /\ c.stop < 0 /\ c.start > c.stop /\ TypeIs(live, c.k, "string")
   THEN LET v == live[c.k].v
            n == Len(v)
            s1 == Max(n + c.start, 0)
            e1 == Min(Max(n + c.stop, 0), n - 1)
        IN {Res(RBulk(IF n = 0 \/ s1 > e1 THEN <<>> ELSE SubSeq(v, s1 + 1, e1 + 1)), live)} ELSE {})

(* As-built deviations that are genuine findings (never accepted silently): id -> outcome *)
DevAlts(c, st, now) ==
  LET live == Live(st, now) IN
  IF c.op = "GETSET" /\ TypeIs(live, c.k, "string")
  THEN {[id |-> "getset_keeps_ttl", res |-> Res(RBulk(live[c.k].v), Put(live, c.k, Entry("string", c.v, live[c.k].exp)))]}
  ELSE IF c.op = "SORT" /\ Has(live, c.k) /\ live[c.k].t \in {"list", "set"}
  THEN {[id |-> "sort_is_lexicographic", res |-> SortAsBuilt(c, live)]}
  ELSE {}

ReadOnlyOps == {"KEYS", "EXPIRETIME", "GET", "STRLEN", "MGET", "GETRANGE", "EXISTS", "TYPE", "PTTL", "TTL", "DBSIZE", "LLEN", "LINDEX", "LRANGE",
                "SISMEMBER", "SCARD", "SMEMBERS", "HGET", "HEXISTS", "HLEN", "HGETALL", "HKEYS", "HVALS",
                "ZSCORE", "ZCARD", "ZRANK", "ZRANGE", "ZCOUNT", "ZRANGEBYSCORE", "PING", "ECHO", "GETBIT", "RANDOMKEY"}

---------------------------------------------------------------------------
(* The script cache (one per server, whatever the number of shards): a set of script ids.  SCRIPT LOAD and   *)
(* EVAL add the script, SCRIPT FLUSH empties the cache, SCRIPT EXISTS reports membership, EVALSHA of a script *)
(* that is not cached answers NOSCRIPT and runs nothing; a cached script runs exactly as EVAL runs it [doc].  *)
(* The scripts of the drivers issue one command c.body through redis.call (or none: body.op = "NONE", the     *)
(* script returns 1).  DoScript = [r, s, kn]; r.t = "sha" stands for a 40-digit hexadecimal digest.           *)
NOSCRIPT == RErr(<<78, 79, 83, 67, 82, 73, 80, 84>>)
ScriptOps == {"SCRIPT_LOAD", "SCRIPT_FLUSH", "SCRIPT_EXISTS", "EVAL", "EVALSHA"}
RunBody(c, st, now) == IF c.body.op = "NONE" THEN Res(RInt(1), Live(st, now)) ELSE Do(c.body, st, now)
DoScript(c, st, kn, now) ==
  LET live == Live(st, now) IN
  CASE c.op = "SCRIPT_LOAD" -> [r |-> [t |-> "sha", b |-> <<>>, a |-> <<>>], s |-> live, kn |-> kn \cup {c.sid}]
    [] c.op = "SCRIPT_FLUSH" -> [r |-> OK, s |-> live, kn |-> {}]
    [] c.op = "SCRIPT_EXISTS" -> [r |-> RArr([i \in DOMAIN c.sids |-> RInt(IF c.sids[i] \in kn THEN 1 ELSE 0)]), s |-> live, kn |-> kn]
    [] c.op = "EVAL" -> LET x == RunBody(c, st, now) IN [r |-> x.r, s |-> x.s, kn |-> kn \cup {c.sid}]
    [] c.op = "EVALSHA" -> IF c.sid \in kn THEN LET x == RunBody(c, st, now) IN [r |-> x.r, s |-> x.s, kn |-> kn]
                           ELSE [r |-> NOSCRIPT, s |-> live, kn |-> kn]

(* state equality that never compares payloads of different types *)
EntryEq(a, b) == a.t = b.t /\ a.exp = b.exp /\ a.v = b.v
StateEq(s1, s2) == DOMAIN s1 = DOMAIN s2 /\ \A k \in DOMAIN s1 : EntryEq(s1[k], s2[k])
NoEmptyCollection(st) == \A k \in DOMAIN st : ~IsEmptyColl(st[k].t, st[k].v)
=============================================================================
