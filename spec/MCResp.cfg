SPECIFICATION Spec
CONSTANTS
  MaxDepth = 3
  Alphabet = {43, 45, 58, 36, 42, 48, 49, 50, 13, 10, 97}
  MaxLen = 4
INVARIANTS Total Stable EmptyIsMore
CHECK_DEADLOCK FALSE
