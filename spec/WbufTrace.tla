----------------------------- MODULE WbufTrace -----------------------------
(* Trace validation of the repository's second write buffer                 *)
(* (write_buffer.rs: WriteBuffer::push / flush, driven by the delta-sink     *)
(* persistence worker) against the buffer rule of Streaming.tla:             *)
(*   NothingSilentlyDropped  accepted \ confirmed \subseteq buffer           *)
(* with Streaming!Push for an accepted push and Streaming!FlushFail for a    *)
(* flush that reports an error (the taken deltas return to the buffer).      *)
(* Observables: pending_count() after every call, the result of flush, and   *)
(* the deltas of the segment a successful flush uploaded, read back with the *)
(* real SegmentReader.  WriteBuffer has no manifest: only the buffer rule    *)
(* (C12's last sentence) is judged here.                                     *)
EXTENDS Streaming, Json, IOUtils

Rec == ndJsonDeserialize(IOEnv.TRACE)
VARIABLES l, run
tvars == <<vars, l, run>>

Verdict(ev, what) == PrintT(<<"VERDICT", ToJson([run |-> run, l |-> l, v |-> "bad", what |-> what])>>)
SetOf(s) == {s[i] : i \in DOMAIN s}
Rest == UNCHANGED <<objs, fpc, fl, cpc, cl, lock, faults>>

TraceInit == Init /\ l = 1 /\ run = 0

Step(ev) ==
  \/ /\ ev.a = "reset"
     /\ buffer' = {} /\ accepted' = {} /\ confirmed' = {} /\ run' = ev.run /\ Rest
  \/ /\ ev.a = "wpush"
     /\ IF ev.ok THEN buffer' = buffer \cup {ev.id} /\ accepted' = accepted \cup {ev.id}     \* Streaming!Push
                 ELSE UNCHANGED <<buffer, accepted>>                                           \* backpressure: not accepted
     /\ UNCHANGED <<confirmed, run>> /\ Rest
     /\ (ev.pending # Cardinality(buffer') => Verdict(ev, "pending_count after push differs from the accepted, unconfirmed deltas"))
  \/ /\ ev.a = "wflush" /\ ev.ok
     /\ confirmed' = confirmed \cup (IF ev.key = "null" \/ ev.seg = <<>> THEN {} ELSE buffer)
     /\ buffer' = {} /\ UNCHANGED <<accepted, run>> /\ Rest
     /\ IF "unreadable" \in DOMAIN ev THEN Verdict(ev, "a flush reported success but its segment cannot be read back")
        ELSE IF SetOf(ev.seg) # buffer THEN Verdict(ev, "a successful flush wrote a segment that is not the buffered deltas (an accepted update was dropped, or a foreign one added)")
        ELSE IF ev.pending # 0 THEN Verdict(ev, "deltas left pending by a successful flush")
        ELSE TRUE
  \/ /\ ev.a = "wflush" /\ ~ev.ok
     \* Streaming!FlushFail: buffer' = buffer \cup fl.ds, i.e. nothing leaves the buffer.  The observed count is
     \* adopted when it is smaller, so that one dropped buffer is reported once.
     /\ buffer' = IF ev.pending = Cardinality(buffer) THEN buffer ELSE IF ev.pending = 0 THEN {} ELSE buffer
     /\ accepted' = IF ev.pending = 0 THEN confirmed ELSE accepted
     /\ UNCHANGED <<confirmed, run>> /\ Rest
     /\ (ev.pending # Cardinality(buffer) => Verdict(ev, "a failed flush discarded accepted updates (pending_count dropped although nothing was confirmed)"))
  \/ /\ ev.a = "wconc"      \* two overlapping flushes: A took the buffer, one more delta y arrived, B took that and finished first
     /\ LET Aset == buffer
            Bset == IF ev.y_ok THEN {ev.y} ELSE {}
            left == (IF ev.fa.ok THEN {} ELSE Aset) \cup (IF ev.fb.ok THEN {} ELSE Bset)
        IN /\ accepted' = accepted \cup Bset
           /\ confirmed' = confirmed \cup (IF ev.fa.ok THEN Aset ELSE {}) \cup (IF ev.fb.ok THEN Bset ELSE {})
           /\ buffer' = left
           /\ IF ev.fa.unreadable \/ ev.fb.unreadable THEN Verdict(ev, "a flush reported success but its segment cannot be read back")
              ELSE IF ev.fa.ok /\ SetOf(ev.fa.seg) # Aset THEN Verdict(ev, "overlapping flushes: the first flush's segment is not the deltas it took")
              ELSE IF ev.fb.ok /\ SetOf(ev.fb.seg) # Bset THEN Verdict(ev, "overlapping flushes: the second flush's segment is not the deltas it took")
              ELSE IF ev.pending # Cardinality(left) THEN Verdict(ev, "overlapping flushes: accepted updates were dropped (or duplicated) in the buffer")
              ELSE TRUE
     /\ UNCHANGED run /\ Rest
  \/ /\ ev.a = "waudit"
     /\ UNCHANGED <<buffer, accepted, confirmed, run>> /\ Rest
     /\ (~(confirmed \subseteq SetOf(ev.stored)) => Verdict(ev, "updates of a flush that reported success are no longer in the store (its segment was overwritten or lost)"))
  \/ /\ ev.a = "panic"
     /\ UNCHANGED <<buffer, accepted, confirmed, run>> /\ Rest /\ Verdict(ev, "write buffer panicked")

TraceNext ==
  \/ l <= Len(Rec) /\ Step(Rec[l]) /\ l' = l + 1
  \/ l = Len(Rec) + 1 /\ PrintT(<<"VALIDATED", Len(Rec)>>) /\ l' = l + 1 /\ UNCHANGED <<vars, run>>

TraceSpec == TraceInit /\ [][TraceNext]_tvars
Dropped == NothingSilentlyDropped
=============================================================================
