---------------------------- MODULE MCShardActors ----------------------------
EXTENDS ShardActors
(* two keys on two shards *)
MCHome(k) == IF k = "a" THEN 1 ELSE 2
Next == NextWith(MCHome)
Spec == Init /\ [][Next]_vars
FairSpec == Spec /\ \A s \in Shard : WF_vars(ShardStep(s))
                 /\ \A c \in Client : WF_vars(Receive(c)) /\ WF_vars(Release(c))
Live == \A c \in Client : (pc[c] = "wait") ~> (pc[c] = "idle")
=============================================================================
