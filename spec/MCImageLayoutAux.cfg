SPECIFICATION Spec
INVARIANT InvAux
CHECK_DEADLOCK FALSE
