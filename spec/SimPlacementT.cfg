SPECIFICATION Spec
CONSTANTS
  MaxN = 5
  Rfs = {1, 2, 3, 4, 5}
  VNs = {1, 2, 3, 150}
INVARIANT Export
CHECK_DEADLOCK FALSE
