SPECIFICATION PSpec
CONSTANTS
  Writers = {1, 2, 3}
  Cap = 2
  MaxBatch = 2
  MaxFaults = 1
  AsBuilt = {}
  Policy = "everysec"
  TsOf <- TsDef
  Thresholds <- ThDef
INVARIANTS PAckedIsDurable QuietIsDurable DownIsDurable AckedIsWritten TruncSafe OldFilesSynced
CHECK_DEADLOCK FALSE
