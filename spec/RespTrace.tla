------------------------------ MODULE RespTrace ------------------------------
(* Case validation for C15.  Each record is one input with what the REAL        *)
(* decoders / the incremental codec / the three encoders produced; Resp.tla      *)
(* decides what they had to produce.                                             *)
(*   dec   one byte string through RespCodec::parse (c) and RespParser::parse (p) *)
(*   deep  array nesting of depth d (long input, logged by its parameters)        *)
(*   frag  a stream fed to the incremental codec in three fragments               *)
(*   enc   a value through RespParser::encode, RespCodec::encode, the connection's *)
(*         encoder                                                                 *)
EXTENDS Resp, Json, IOUtils
Rec == ndJsonDeserialize(IOEnv.TRACE)
VARIABLE l
Range(q) == {q[i] : i \in DOMAIN q}

(* RespParser keeps status/error lines as (lossily decoded) text: compare those only when ASCII *)
Ascii(b) == \A i \in DOMAIN b : b[i] < 128
RECURSIVE AllAscii(_)
AllAscii(v) == Ascii(v.b) /\ \A i \in DOMAIN v.a : AllAscii(v.a[i])

OutcomeOk(exp, got, lossy) ==
  /\ got.k = exp.k
  /\ (exp.k = "val" => /\ got.n = exp.n
                       /\ (got.v = exp.v \/ (lossy /\ ~AllAscii(exp.v))))
AllocOk(c) == "alloc" \notin DOMAIN c \/ (c.alloc[1] <= 64 * Len(c.s) + 4096 /\ c.alloc[2] <= 64 * Len(c.s) + 4096)
DecVerdict(c) ==
  LET exp == Decode(c.s) IN
  IF c.c.k = "panic" \/ c.p.k = "panic" THEN "decoder panicked"
  ELSE IF ~OutcomeOk(exp, c.c, FALSE) THEN "RespCodec::parse differs from Decode"
  ELSE IF ~OutcomeOk(exp, c.p, TRUE) THEN "RespParser::parse differs from Decode"
  ELSE IF ~AllocOk(c) THEN "allocation not bounded by the input length"
  ELSE "ok"

DeepVerdict(c) ==
  LET exp == IF c.d > MaxDepth THEN "err" ELSE IF c.payload THEN "val" ELSE "more" IN
  IF c.c # exp \/ c.p # exp THEN "nested arrays: wrong outcome (expected " \o exp \o ")"
  ELSE IF c.alloc[1] > 64 * c.len + 4096 \/ c.alloc[2] > 64 * c.len + 4096 THEN "allocation not bounded by the input length"
  ELSE "ok"

RECURSIVE DecodeAllFrom(_, _)
DecodeAllFrom(s, i) == LET r == DecodeAt(s, i, 0) IN
                       IF r.k = "val" THEN [f |-> <<r.v>> \o DecodeAllFrom(s, r.n).f, e |-> DecodeAllFrom(s, r.n).e, at |-> DecodeAllFrom(s, r.n).at]
                       ELSE [f |-> <<>>, e |-> r.k, at |-> i]
FragVerdict(c) ==
  LET all == DecodeAllFrom(c.s, 1) IN
  IF c.bad # "" /\ all.e # "err" THEN "fragmented feed failed: " \o c.bad
  ELSE IF c.frames # all.f THEN "frames under fragmentation differ from the frames of the whole stream"
  ELSE IF all.e = "more" /\ c.left # Len(c.s) - all.at + 1 THEN "bytes left in the buffer differ"
  ELSE "ok"

Sanitize(b) == [i \in DOMAIN b |-> IF b[i] \in {CR, LF} THEN 32 ELSE b[i]]
RECURSIVE San(_)
San(v) == IF v.t \in {"simple", "error"} THEN [v EXCEPT !.b = Sanitize(v.b)]
          ELSE IF v.t = "array" THEN [v EXCEPT !.a = [i \in DOMAIN v.a |-> San(v.a[i])]]
          ELSE v
EncVerdict(c) ==
  LET want == Encode(San(c.v)) IN
  IF \E i \in 1..3 : c.e[i] # want THEN "an encoder's bytes differ from Encode(value)"
  ELSE IF Decode(want) # Val(San(c.v), Len(want)) THEN "encoded value does not decode back to itself"
  ELSE "ok"

(* a valid stream with a frame of n bytes (n up to several MiB), fed whole and in pieces: Stable demands the *)
(* same frames, nothing left, no error - whatever n is (the frames are compared by digest in the driver)    *)
FragBigVerdict(c) ==
  IF c.whole_bad # "" \/ c.whole_nframes # 3 THEN "a valid stream with a large frame does not decode when fed whole"
  ELSE IF c.bad # "" THEN "a valid stream with a large frame fails when fed in pieces: " \o c.bad
  ELSE IF ~c.same \/ c.nframes # c.whole_nframes \/ c.left # 0 THEN "frames of a large stream under fragmentation differ from the frames of the whole stream"
  ELSE "ok"

Verdict(c) == CASE c.t = "dec" -> DecVerdict(c) [] c.t = "deep" -> DeepVerdict(c)
                [] c.t = "frag" -> FragVerdict(c) [] c.t = "enc" -> EncVerdict(c) [] c.t = "fragbig" -> FragBigVerdict(c)
TraceInit == l = 1
TraceNext ==
  \/ /\ l <= Len(Rec)
     /\ LET v == Verdict(Rec[l]) IN
          v # "ok" => PrintT(<<"VERDICT", ToJson([run |-> Rec[l].run, l |-> l, v |-> "bad", what |-> v])>>)
     /\ l' = l + 1
  \/ l = Len(Rec) + 1 /\ PrintT(<<"VALIDATED", Len(Rec)>>) /\ l' = l + 1
TraceSpec == TraceInit /\ [][TraceNext]_l
=============================================================================
