SPECIFICATION TraceSpec
CONSTANTS
  Replica = {1, 2, 3}
  Val = {}
  Field = {}
  Elem = {}
  AsBuilt = {"stamp_keeps_self_replica", "mismatch_not_associative"}
  Kinds = {"lww", "hash", "gcounter", "pncounter", "gset", "orset"}
  CausalModes = {FALSE}
INVARIANT TraceInv
CHECK_DEADLOCK FALSE
