--------------------------- MODULE WalFormatTrace ---------------------------
(* Case validation for C10: each record is one damaged image (or one        *)
(* truncation) together with what the REAL recovery returned; WalFormat's    *)
(* layout arithmetic decides what had to be returned.                        *)
EXTENDS WalFormat, Json, IOUtils

Rec == ndJsonDeserialize(IOEnv.TRACE)
VARIABLE l

RECURSIVE CountBefore(_, _)
CountBefore(files, k) == IF k <= 1 THEN 0 ELSE Len(files[k - 1]) + CountBefore(files, k - 1)
Gid(files, k, i) == CountBefore(files, k) + i

Dmg(c) == [cut |-> c.cut, lo |-> c.lo, hi |-> c.hi]
MustAll(c) ==
  UNION {{Gid(c.files, k, i) : i \in (IF k = c.file THEN MustOf(c.files[k], Dmg(c)) ELSE 1..Len(c.files[k]))}
         : k \in 1..Len(c.files)}
Increasing(s) == \A i, j \in DOMAIN s : i < j => s[i] < s[j]
ValidRec(c, rec) == /\ \A i \in DOMAIN rec : rec[i] # 0          \* only appended entries, bit-identical
                    /\ Increasing(rec)                             \* append order, none twice
                    /\ MustAll(c) \subseteq RangeS(rec)            \* nothing intact is hidden
(* as built: a changed stamp field is not detected - the entry comes back altered *)
StampDev(c) ==
  LET e == StampOnly(c.files[c.file], Dmg(c))
      g == Gid(c.files, c.file, e)
      rec2 == [j \in DOMAIN c.rec |-> IF c.rec[j] = 0 THEN g ELSE c.rec[j]]
  IN e # 0 /\ Cardinality({j \in DOMAIN c.rec : c.rec[j] = 0}) = 1 /\ ValidRec(c, rec2)

DmgVerdict(c) ==
  IF "panic" \in DOMAIN c THEN "bad"
  ELSE IF ValidRec(c, c.rec) THEN "ok"
  ELSE IF StampDev(c) THEN "stamp_not_covered_by_crc"
  ELSE "bad"

AllStamps(c) == UNION {RangeS(c.stamps[k]) : k \in 1..Len(c.stamps)}
TruncVerdict(c) ==
  IF "panic" \in DOMAIN c THEN "bad"
  ELSE IF /\ (c.active # 0 => c.active \in RangeS(c.remaining))
          /\ \A k \in 1..Len(c.stamps) : (\E s \in RangeS(c.stamps[k]) : s > c.T) => k \in RangeS(c.remaining)
          /\ \A s \in AllStamps(c) : s > c.T => s \in RangeS(c.after)
          /\ RangeS(c.after) \subseteq AllStamps(c)
       THEN "ok" ELSE "bad"

(* recover_entries_after(x): the entries stamped >= x, in append order (file by file, entry by entry) *)
RECURSIVE Flat(_, _, _)
Flat(files, k, base) ==    \* sequence of [g |-> global index, st |-> stamp]
  IF k > Len(files) THEN <<>>
  ELSE [i \in 1..Len(files[k]) |-> [g |-> base + i, st |-> files[k][i]]] \o Flat(files, k + 1, base + Len(files[k]))
OrderVerdict(c) ==
  IF "panic" \in DOMAIN c \/ c.err # "" THEN "bad"
  ELSE LET want == SelectSeq(Flat(c.stamps, 1, 0), LAMBDA e : e.st >= c.x) IN
       IF c.got = [i \in 1..Len(want) |-> want[i].g] THEN "ok" ELSE "bad"
(* rotation that cannot create the next file, truncation, more appends: whatever was acknowledged and is stamped later than T *)
(* comes back; nothing comes back that was never handed to append                                                          *)
RotFailVerdict(c) ==
  IF "panic" \in DOMAIN c THEN "bad"
  ELSE IF /\ \A s \in RangeS(c.acked) : s > c.T => s \in RangeS(c.after)
          /\ RangeS(c.after) \subseteq RangeS(c.acked) \cup RangeS(c.maybe)
       THEN "ok" ELSE "bad"
Verdict(c) == IF c.t = "dmg" THEN DmgVerdict(c) ELSE IF c.t = "order" THEN OrderVerdict(c)
              ELSE IF c.t = "rotfail" THEN RotFailVerdict(c) ELSE TruncVerdict(c)

TraceInit == l = 1 /\ sizes = <<>> /\ dmg = NoDamage
TraceNext ==
  \/ /\ l <= Len(Rec)
     /\ LET v == Verdict(Rec[l]) IN
          v # "ok" => PrintT(<<"VERDICT", ToJson([run |-> Rec[l].run, l |-> l, v |-> v, what |-> Rec[l].t])>>)
     /\ l' = l + 1 /\ UNCHANGED <<sizes, dmg>>
  \/ l = Len(Rec) + 1 /\ PrintT(<<"VALIDATED", Len(Rec)>>) /\ l' = l + 1 /\ UNCHANGED <<sizes, dmg>>
TraceSpec == TraceInit /\ [][TraceNext]_<<l, sizes, dmg>>
=============================================================================
