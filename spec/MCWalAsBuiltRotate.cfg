\* ideal controller: 4 writers, 2 entries per file, batches <= 3, <= 2 faults anywhere
SPECIFICATION Spec
CONSTANTS
  Writers = {1, 2, 3, 4}
  Cap = 1
  MaxBatch = 2
  MaxFaults = 2
  AsBuilt = {"rotate_without_sync"}
INVARIANTS AckedIsDurable
CHECK_DEADLOCK FALSE
