SPECIFICATION Spec
CONSTANTS
  NKeys = 4
  Limit = 1
  MaxWrites = 3
  AsBuilt = {"fixed_prefix"}
INVARIANTS DigestIffState
PROPERTY EventuallyInSync
CHECK_DEADLOCK FALSE
