------------------------------- MODULE Crdt -------------------------------
(***************************************************************************)
(* The one-key replica state machine that generates the replicated values  *)
(* replicas can produce (LocalOp / MergeFrom) and the C07 laws as          *)
(* invariants.  Values, Merge and Obs are defined in CrdtOps.              *)
(***************************************************************************)
EXTENDS CrdtOps

CONSTANTS Replica,      \* set of replica ids (naturals)
          Val,          \* payload values (strings)
          Field,        \* hash field names (strings)
          Elem,         \* set elements (strings)
          Kinds,        \* which CRDT kinds the generator uses
          CausalModes   \* consistency levels explored: {FALSE} eventual, {TRUE} causal, BOOLEAN both

---------------------------------------------------------------------------
(* One key, one value per replica: the generator of reachable values.      *)
VARIABLES x,       \* x[r] : RV or None (key absent at r)
          clk,     \* clk[r] : Lamport time of replica r
          steps,   \* number of steps taken (bound)
          causal,  \* ConsistencyLevel::Causal: register writes carry the writer's vector clock
          nsets    \* nsets[r] : register writes of replica r so far (its own entry of its vector clock)

vars == <<x, clk, steps, causal, nsets>>

Init == /\ x = [r \in Replica |-> None]
        /\ clk = [r \in Replica |-> 0]
        /\ steps = 0
        /\ causal \in CausalModes
        /\ nsets = [r \in Replica |-> 0]

Cur(r) == IF IsNone(x[r]) THEN Fresh(r) ELSE x[r]

LocalC(r, nv) == /\ x' = [x EXCEPT ![r] = nv]
                 /\ clk' = [clk EXCEPT ![r] = @ + 1]
                 /\ steps' = steps + 1
                 /\ UNCHANGED causal
Local(r, nv) == LocalC(r, nv) /\ UNCHANGED nsets

(* record_write under the causal level: the shard's vector clock (only the writer's own entry ever moves) *)
(* is incremented and REPLACES the value's clock; no other operation touches a value's clock               *)
WithVc(v, r, n) == [v EXCEPT !.vc = [k \in {r} |-> n], !.hasvc = TRUE]
DoSet(r, v, e)  == /\ "lww" \in Kinds
                   /\ LocalC(r, IF causal THEN WithVc(OpSet(Cur(r), r, clk[r] + 1, v, e), r, nsets[r] + 1)
                                 ELSE OpSet(Cur(r), r, clk[r] + 1, v, e))
                   /\ nsets' = [nsets EXCEPT ![r] = IF causal THEN @ + 1 ELSE @]
DoDel(r)        == "lww" \in Kinds /\ ~IsNone(x[r]) /\ x[r].c.k = "lww"
                   /\ Local(r, OpDel(x[r], r, clk[r] + 1))
DoHSet(r, f, v) == "hash" \in Kinds /\ Local(r, OpHSet(Cur(r), r, clk[r] + 1, f, v))
DoHDel(r, f)    == "hash" \in Kinds /\ ~IsNone(x[r]) /\ x[r].c.k = "hash" /\ f \in DOMAIN x[r].c.h
                   /\ Local(r, OpHDel(x[r], r, clk[r] + 1, f))
(* HDEL of a field the hash does not hold: the code stamps the value with the shard's current clock and does not tick it *)
DoHDelAbsent(r, f) == "hash" \in Kinds /\ ~IsNone(x[r]) /\ x[r].c.k = "hash" /\ f \notin DOMAIN x[r].c.h
                      /\ x' = [x EXCEPT ![r] = [@ EXCEPT !.ts = Stamp(clk[r], r)]]
                      /\ steps' = steps + 1 /\ UNCHANGED <<clk, causal, nsets>>
(* the shard's clocks are shared by all its keys: a register write to another key moves the Lamport clock and, under the *)
(* causal level, the shard's vector clock                                                                              *)
Tick(r) == /\ clk' = [clk EXCEPT ![r] = @ + 1] /\ steps' = steps + 1
           /\ nsets' = [nsets EXCEPT ![r] = IF causal THEN @ + 1 ELSE @]
           /\ UNCHANGED <<x, causal>>
DoGcInc(r, n)   == "gcounter" \in Kinds /\ Local(r, OpGcInc(Cur(r), r, clk[r] + 1, n))
DoPnInc(r, n)   == "pncounter" \in Kinds /\ Local(r, OpPnInc(Cur(r), r, clk[r] + 1, n))
DoPnDec(r, n)   == "pncounter" \in Kinds /\ Local(r, OpPnDec(Cur(r), r, clk[r] + 1, n))
DoGsAdd(r, e)   == "gset" \in Kinds /\ Local(r, OpGsAdd(Cur(r), r, clk[r] + 1, e))
DoOrAdd(r, e)   == "orset" \in Kinds /\ Local(r, OpOrAdd(Cur(r), r, clk[r] + 1, e))
DoOrRem(r, e)   == "orset" \in Kinds /\ ~IsNone(x[r]) /\ x[r].c.k = "orset" /\ e \in DOMAIN x[r].c.e
                   /\ Local(r, OpOrRem(x[r], r, clk[r] + 1, e))

(* apply_remote_delta: clock.update(delta.ts); merge or adopt. *)
MergeFrom(r, s) ==
  /\ r # s /\ ~IsNone(x[s])
  /\ x' = [x EXCEPT ![r] = IF IsNone(x[r]) THEN x[s] ELSE Merge(x[r], x[s])]
  /\ clk' = [clk EXCEPT ![r] = MaxN(@, x[s].ts[1]) + 1]
  /\ steps' = steps + 1
  /\ UNCHANGED <<causal, nsets>>

Next ==
  \/ \E r \in Replica, v \in Val, e \in {-1, 5, 9} : DoSet(r, v, e)
  \/ \E r \in Replica : DoDel(r)
  \/ \E r \in Replica, f \in Field, v \in Val : DoHSet(r, f, v)
  \/ \E r \in Replica, f \in Field : DoHDel(r, f) \/ DoHDelAbsent(r, f)
  \/ \E r \in Replica : "hash" \in Kinds /\ Tick(r)
  \/ \E r \in Replica, n \in {1, 2} : DoGcInc(r, n) \/ DoPnInc(r, n) \/ DoPnDec(r, n)
  \/ \E r \in Replica, e \in Elem : DoGsAdd(r, e) \/ DoOrAdd(r, e) \/ DoOrRem(r, e)
  \/ \E r, s \in Replica : MergeFrom(r, s)

Spec == Init /\ [][Next]_vars

---------------------------------------------------------------------------
(* C07: the three laws, in everything observable, for all values that      *)
(* coexist in a reachable configuration.                                   *)
Present == {r \in Replica : ~IsNone(x[r])}

Commutative == \A a, b \in Present : Obs(Merge(x[a], x[b])) = Obs(Merge(x[b], x[a]))
Idempotent  == \A a \in Present : Obs(Merge(x[a], x[a])) = Obs(x[a])
Associative == \A a, b, c \in Present :
                 Obs(Merge(Merge(x[a], x[b]), x[c])) = Obs(Merge(x[a], Merge(x[b], x[c])))
SameKinds   == \A a, b \in Present : x[a].c.k = x[b].c.k
AssociativeSameKind == SameKinds => Associative

(* Merge is inflationary in the stamp: the result's stamp is >= both.      *)
StampIsJoin == \A a, b \in Present :
                 LET m == Merge(x[a], x[b]).ts
                 IN ~SLess(m, x[a].ts) /\ ~SLess(m, x[b].ts) /\ m \in {x[a].ts, x[b].ts}

(* A replica's clock dominates every stamp it holds. *)
ClockDominates == \A r \in Present : x[r].ts[1] <= clk[r]
=============================================================================
