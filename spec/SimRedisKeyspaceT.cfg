SPECIFICATION HSpec
CONSTANT MaxSteps = 4
VIEW View
INVARIANT Export
CHECK_DEADLOCK FALSE
