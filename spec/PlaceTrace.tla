------------------------------ MODULE PlaceTrace ------------------------------
(* Case validation for C19: the REAL HashRing (observed through the hook as a    *)
(* sequence of (rank of position, node)) built by two different join/leave       *)
(* orders of the same membership, the real replica lists for every replication   *)
(* factor, the ring with one more node, and the routing tables of the real       *)
(* GossipRouter (explicit peer table, from_config, through GossipState).         *)
(* Expected values are computed from the OBSERVED ring with Placement's          *)
(* definitions (here on the ring sequence, which must be strictly ordered).      *)
EXTENDS Naturals, Sequences, FiniteSets, TLC, Json, IOUtils
Rec == ndJsonDeserialize(IOEnv.TRACE)
VARIABLE l
Range(s) == {s[i] : i \in DOMAIN s}
Min(a, b) == IF a < b THEN a ELSE b

Sorted(ring) == \A i \in 1..(Len(ring) - 1) : ring[i][1] < ring[i + 1][1]
NodesOf(ring) == {ring[i][2] : i \in DOMAIN ring}
(* first min(rf, #nodes) distinct nodes clockwise from the first position >= kpos *)
RECURSIVE WalkFrom(_, _, _, _, _)
WalkFrom(ring, idx, steps, seen, want) ==
  IF steps = Len(ring) \/ Cardinality(seen) = want THEN <<>>
  ELSE LET n == ring[((idx - 1) % Len(ring)) + 1][2] IN
       IF n \in seen THEN WalkFrom(ring, idx + 1, steps + 1, seen, want)
       ELSE <<n>> \o WalkFrom(ring, idx + 1, steps + 1, seen \cup {n}, want)
Start(ring, kpos) == Cardinality({i \in DOMAIN ring : ring[i][1] < kpos}) + 1
Replicas(ring, kpos, rf) ==
  IF Len(ring) = 0 THEN <<>>
  ELSE WalkFrom(ring, Start(ring, kpos), 0, {}, Min(rf, Cardinality(NodesOf(ring))))
Without(s, x) == SelectSeq(s, LAMBDA y : y # x)

N(c) == Len(c.members)
KeyOk(c, k) ==
  /\ k.def = Replicas(c.ring_a, k.pos, c.rf)                                   \* placement = function of the ring
  /\ \A r \in 1..Len(k.by_rf) : k.by_rf[r] = Replicas(c.ring_a, k.pos, r)      \* every replication factor
  /\ Len(k.def) = Min(c.rf, N(c)) /\ Cardinality(Range(k.def)) = Len(k.def)    \* size, distinct
  /\ k.b_def = k.def                                                            \* independent of join order
  /\ k.big_all = Replicas(c.ring_big, k.pos, N(c) + 1)
  /\ Without(k.big_all, c.extra) = k.by_rf[Len(k.by_rf)]                        \* minimal disruption
  /\ k.primary = (IF Len(k.def) = 0 THEN 0 ELSE k.def[1])

Table(t) == {<<e[1], x>> : e \in Range(t), x \in {y \in Range(t) \cup {<<>>} : FALSE}} \* unused
RouteSet(t) == UNION {{<<e[1], key>> : key \in Range(e[2])} : e \in Range(t)}
ExpectedRoutes(c, sender) == UNION {{<<t, k.k>> : t \in Range(Replicas(c.ring_a, k.pos, c.rf)) \ {sender}} : k \in Range(c.keys)}
RouteOk(c, r) ==
  /\ RouteSet(r.new) = ExpectedRoutes(c, r.sender)
  /\ ("from_config" \in DOMAIN r => RouteSet(r.from_config) = ExpectedRoutes(c, r.sender))
  /\ ("queued" \in DOMAIN r => (~r.broadcast /\ RouteSet(r.queued) = ExpectedRoutes(c, r.sender)))
  (* a round of thousands of updates (keys repeat): every owner other than the sender gets every one of them *)
  /\ ("big" \in DOMAIN r =>
        LET Mult(key) == (CHOOSE m \in Range(r.big.mult) : m[1] = key)[2]
            Got(t, key) == LET H == {g \in Range(r.big.got) : g[1] = t /\ g[2] = key} IN IF H = {} THEN 0 ELSE (CHOOSE g \in H : TRUE)[3]
        IN /\ \A p \in ExpectedRoutes(c, r.sender) : Got(p[1], p[2]) = Mult(p[2])
           /\ \A g \in Range(r.big.got) : <<g[1], g[2]>> \in ExpectedRoutes(c, r.sender))

(* membership changing at run time (one shared ring, update_peer / remove_peer on every router): every epoch by itself  *)
(* obeys the rules above for the ring observed in it, and between two epochs placement changes only for keys that gain *)
(* or lose the node that joined or left                                                                                *)
EpochOk(e) ==
  /\ Sorted(e.ring_a)
  /\ NodesOf(e.ring_a) = Range(e.members)
  /\ \A k \in Range(e.keys) :
        /\ k.def = Replicas(e.ring_a, k.pos, e.rf)
        /\ Range(k.resp) = Range(k.def)                      \* is_responsible agrees with the replica list
        /\ k.primary = (IF Len(k.def) = 0 THEN 0 ELSE k.def[1])
EpochRoutesOk(e) == \A r \in Range(e.routes) : RouteSet(r.new) = ExpectedRoutes(e, r.sender)
(* routed while the peer tables lagged behind the ring (PlacementDyn!NobodyElse, and a stale table starves the newcomer only) *)
PreOk(e) == \A r \in Range(e.pre) :
               /\ RouteSet(r.new) \subseteq ExpectedRoutes(e, r.sender)
               /\ (e.op[1] = "join" => {p \in ExpectedRoutes(e, r.sender) : p[1] # e.op[2]} \subseteq RouteSet(r.new))
KeyAt(e, name) == CHOOSE k \in Range(e.keys) : k.k = name
StepOk(old, new) ==
  LET x == new.op[2] IN
  \A k \in Range(new.keys) :
     LET o == KeyAt(old, k.k).def IN
     IF new.op[1] = "join" THEN (x \notin Range(k.def) => k.def = o) /\ (x \in Range(k.def) /\ Len(k.def) = Len(o) + 1 => Without(k.def, x) = o)
     ELSE (x \notin Range(o) => k.def = o) /\ (Without(o, x) = SubSeq(k.def, 1, Len(Without(o, x))))
DynVerdict(c) ==
  IF "panic" \in DOMAIN c THEN "panic"
  ELSE IF \E i \in DOMAIN c.epochs : ~EpochOk(c.epochs[i]) THEN "after a membership change at run time the replica list differs from Replicas(observed ring), or the ring does not hold exactly the members"
  ELSE IF \E i \in DOMAIN c.epochs : ~EpochRoutesOk(c.epochs[i]) THEN "after a membership change at run time a routing table differs from Replicas minus sender"
  ELSE IF \E i \in DOMAIN c.epochs : ~PreOk(c.epochs[i]) THEN "while the peer tables lagged behind a membership change an update went to somebody who does not own its key, or an owner other than the newcomer was starved"
  ELSE IF \E i \in 2..Len(c.epochs) : ~StepOk(c.epochs[i - 1], c.epochs[i]) THEN "a join or leave changed the placement of a key that neither gained nor lost that node"
  ELSE "ok"

Verdict(c) ==
  IF c.t = "dyn" THEN DynVerdict(c)
  ELSE IF c.t = "xproc" THEN (IF c.p1 = c.here /\ c.p2 = c.here THEN "ok" ELSE "two processes compute different replica lists for the same membership and configuration")
  ELSE IF "panic" \in DOMAIN c THEN "panic"
  ELSE IF ~Sorted(c.ring_a) \/ ~Sorted(c.ring_b) \/ ~Sorted(c.ring_big) THEN "ring positions are not strictly ordered"
  ELSE IF Range(c.ring_a) # Range(c.ring_b) THEN "the ring depends on the join / leave order"
  ELSE IF \E k \in Range(c.keys) : ~KeyOk(c, k) THEN "replica list differs from Replicas(observed ring)"
  ELSE IF \E r \in Range(c.routes) : ~RouteOk(c, r) THEN "routing table differs from Replicas minus sender"
  ELSE "ok"
TraceInit == l = 1
TraceNext ==
  \/ /\ l <= Len(Rec)
     /\ LET v == Verdict(Rec[l]) IN
          v # "ok" => PrintT(<<"VERDICT", ToJson([run |-> Rec[l].run, l |-> l, v |-> "bad", what |-> v])>>)
     /\ l' = l + 1
  \/ l = Len(Rec) + 1 /\ PrintT(<<"VALIDATED", Len(Rec)>>) /\ l' = l + 1
TraceSpec == TraceInit /\ [][TraceNext]_l
=============================================================================
