---------------------------- MODULE SimWalPolicy ----------------------------
(* Scenario space for WalPolicy.tla: every sequence of at most MaxOps        *)
(* mailbox operations - "w" a durable write, "k" SyncTick followed by a       *)
(* barrier, "y" a barrier, "t1"/"t2" TruncateUpTo th[1]/th[2] - under every   *)
(* fsync policy, file capacity and stamp pattern.  One JSON line each; the    *)
(* real actor runs every one and WalPolicyTrace judges the trace.             *)
EXTENDS Naturals, Sequences, FiniteSets, TLC, Json
CONSTANTS MaxOps, Policies, Caps, Patterns, Th, Alphabet

Seqs(n) == UNION {[1..k -> Alphabet] : k \in 1..n}
HasWrite(s) == \E i \in DOMAIN s : s[i] = "w"

PatQ == {<<2, 1, 3>>, <<3, 3, 1>>}
PatT == {<<2, 1, 3, 1, 2>>, <<3, 3, 1, 2, 2>>, <<1, 2, 3, 4, 5>>}
ThDef == <<1, 2>>

VARIABLE scn
Init == \E ops \in Seqs(MaxOps), p \in Policies, c \in Caps, ts \in Patterns :
          /\ HasWrite(ops)
          /\ scn = [policy |-> p, cap |-> c, batch |-> 2, ops |-> ops, ts |-> ts, th |-> Th, faults |-> <<>>]
Next == UNCHANGED scn
Spec == Init /\ [][Next]_scn
Export == PrintT(<<"SCN", ToJson(scn)>>)
=============================================================================
