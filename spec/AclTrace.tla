------------------------------ MODULE AclTrace ------------------------------
(* Case validation for the ACL extension: each record is one rule sequence applied to a real AclUser (apply_rule, or the    *)
(* real ACL SETUSER handler) and, after every rule, what the real AclManager decided: authenticate for every password of    *)
(* the universe and the empty one, check_command for every command of the universe without keys and with each probe key.   *)
(* Expected: Acl!Auth / Acl!Check on Acl!ApplyAll(Fresh, rules so far).                                                     *)
EXTENDS Acl, Json, IOUtils
Rec == ndJsonDeserialize(IOEnv.TRACE)
VARIABLE l
PwSeq == <<"p1", "p2", "">>
CmdSeq == <<"GET", "SET", "SADD", "FLUSHALL">>
KeySeq == <<"user:1", "k", "other">>

TCatOf == [k \in Cats |-> CASE k = "read" -> {"GET"} [] k = "write" -> {"SET", "SADD"} [] k = "set" -> {"SADD"} [] k = "dangerous" -> {"FLUSHALL"}]
TMatches(p, key) == (p = "user:*" /\ key = "user:1") \/ p = key
Prefix(c, i) == [j \in 1..i |-> c.rules[j]]
StepOk(c, i) ==
  LET u == ApplyAll(Fresh, Prefix(c, i))
      s == c.steps[i] IN
  /\ \A p \in 1..3 : s.auth[p] = Auth(u, PwSeq[p])
  /\ \A x \in 1..4 : s.nokeys[x] = Check(u, CmdSeq[x], <<>>)
  /\ \A x \in 1..4 : \A y \in 1..3 : s.withkey[x][y] = Check(u, CmdSeq[x], <<KeySeq[y]>>)
Verdict(c) ==
  IF "panic" \in DOMAIN c THEN "panic"
  ELSE IF \E i \in DOMAIN c.steps : ~StepOk(c, i)
       THEN "after rule " \o ToString(CHOOSE i \in DOMAIN c.steps : ~StepOk(c, i) /\ \A j \in 1..(i - 1) : StepOk(c, j)) \o
            " the decisions of the ACL manager differ from the left-to-right reading of the rules"
  ELSE "ok"
TraceInit == Init /\ l = 1
TraceNext ==
  \/ /\ l <= Len(Rec)
     /\ LET v == Verdict(Rec[l]) IN
          v # "ok" => PrintT(<<"VERDICT", ToJson([run |-> Rec[l].run, l |-> l, v |-> "bad", what |-> v])>>)
     /\ l' = l + 1 /\ UNCHANGED vars
  \/ l = Len(Rec) + 1 /\ PrintT(<<"VALIDATED", Len(Rec)>>) /\ l' = l + 1 /\ UNCHANGED vars
TraceSpec == TraceInit /\ [][TraceNext]_<<vars, l>>
=============================================================================
