SPECIFICATION Spec
CONSTANTS
  Node = {1, 2, 3}
  Val = {"1"}
  Field = {"f", "g"}
  MaxCmds = 2
  MaxDup = 1
  MaxAE = 1
  CmdKinds = {"set", "setnx", "del", "incr"}
  AsBuilt = {}
INVARIANTS ServedIsState Converged
CHECK_DEADLOCK FALSE
