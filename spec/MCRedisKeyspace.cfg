SPECIFICATION Spec
CONSTANT MaxSteps = 3
INVARIANTS ErrorChangesNothing ReadOnlyChangesNothing NoEmpty DeadlineRespected
CHECK_DEADLOCK FALSE
