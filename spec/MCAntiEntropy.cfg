SPECIFICATION Spec
CONSTANTS
  NKeys = 4
  Limit = 1
  MaxWrites = 3
  AsBuilt = {}
INVARIANTS DigestIffState
PROPERTY EventuallyInSync
CHECK_DEADLOCK FALSE
