SPECIFICATION Spec
CONSTANTS
  AsBuilt = {}
  WalFilter = FALSE
  NU = 4
INVARIANT Export
CHECK_DEADLOCK FALSE
