SPECIFICATION Spec
CONSTANT Leaves <- MCLeaves
INVARIANT Inv
CHECK_DEADLOCK FALSE
