SPECIFICATION Spec
CONSTANTS
  AsBuilt = {}
  WalFilter = TRUE
  NU = 5
INVARIANTS RecoveryIsMerge
CHECK_DEADLOCK FALSE
