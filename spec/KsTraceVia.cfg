SPECIFICATION TraceSpec
CONSTANTS
  ModelChecks = TRUE
  TolerateOps = {"GETSET", "SORT"}
CHECK_DEADLOCK FALSE
