SPECIFICATION TraceSpec
CONSTANTS
  ModelChecks = TRUE
  TolerateOps = {"GETSET"}
CHECK_DEADLOCK FALSE
