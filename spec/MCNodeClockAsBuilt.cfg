SPECIFICATION Spec
CONSTANTS
  Key = {"a"}
  MaxT = 4
  MaxWrites = 3
  MaxCrash = 2
  MaxRemote = 2
  AsBuilt = {"recovered_state_no_clock"}
INVARIANTS StampAboveSeen
CHECK_DEADLOCK FALSE
