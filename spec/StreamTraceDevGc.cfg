SPECIFICATION TraceSpec
CONSTANT AsBuilt = {"gc_ignores_outside"}
CHECK_DEADLOCK FALSE
