---------------------------- MODULE PlacementDyn ----------------------------
(***************************************************************************)
(* Membership that changes while the cluster runs (C19, second sentence    *)
(* of the property: "adding or removing a node changes placement only for  *)
(* keys that gain or lose that node"; "selective gossip hands each update  *)
(* to every responsible replica other than the sender and to nobody else").*)
(*                                                                         *)
(* The code has ONE shared ring (Arc<RwLock<HashRing>>) and one router per *)
(* node with its own peer table.  A join is several steps:                 *)
(*   JoinRing(x)     ring.add_node(x); the newcomer's router is built with *)
(*                   every current member as a peer                        *)
(*   LearnPeer(n,x)  router[n].update_peer(x, addr)                        *)
(* and so is a leave:                                                      *)
(*   LeaveRing(x)    ring.remove_node(x)                                   *)
(*   ForgetPeer(n,x) router[n].remove_peer(x)                              *)
(* Between JoinRing and the last LearnPeer a router skips the targets it   *)
(* has no address for (route_selective), so coverage is promised only once *)
(* the tables are settled - which is what the harness family `dyn' drives  *)
(* (vh place dyn) and PlaceTrace!DynVerdict judges on the real code.       *)
(* A vnode position is a function of (node, index) alone: f is chosen once.*)
(***************************************************************************)
EXTENDS Placement

VARIABLES members, peers, f,
          last        \* the last membership change and the key's replica list before it (history, for OnlyGainOrLose)
dvars == <<ring, kpos, rf, members, peers, f, last>>

RingOf(M) == {<<f[s], s[1]>> : s \in {t \in Slots : t[1] \in M}}
Lists == Replicas(ring, kpos, rf)

(* only the ORDER of positions matters to Replicas: f ranges over the bijections Slots -> 1..|Slots| (the even ranks  *)
(* 2, 4, ..), the key position over every gap (the odd ranks)                                                        *)
DInit == /\ f \in {g \in [Slots -> {2 * i : i \in 1..Cardinality(Slots)}] : \A a, b \in Slots : a # b => g[a] # g[b]}
         /\ members \in (SUBSET Nodes) \ {{}}
         /\ ring = RingOf(members)
         /\ peers = [n \in Nodes |-> IF n \in members THEN members \ {n} ELSE {}]
         /\ kpos \in {2 * i - 1 : i \in 1..(Cardinality(Slots) + 1)} /\ rf \in 1..(Cardinality(Nodes) + 1)
         /\ last = [op |-> "none", x |-> 0, lists |-> <<>>]

JoinRing(x) == /\ x \notin members
               /\ members' = members \cup {x}
               /\ ring' = RingOf(members')
               /\ peers' = [peers EXCEPT ![x] = members]
               /\ last' = [op |-> "join", x |-> x, lists |-> Lists]
               /\ UNCHANGED <<kpos, rf, f>>
LearnPeer(n, x) == /\ n \in members /\ x \in members /\ x # n /\ x \notin peers[n]
                   /\ peers' = [peers EXCEPT ![n] = @ \cup {x}]
                   /\ UNCHANGED <<ring, kpos, rf, members, f, last>>
LeaveRing(x) == /\ x \in members /\ Cardinality(members) > 1
                /\ members' = members \ {x}
                /\ ring' = RingOf(members')
                /\ peers' = [peers EXCEPT ![x] = {}]
                /\ last' = [op |-> "leave", x |-> x, lists |-> Lists]
                /\ UNCHANGED <<kpos, rf, f>>
ForgetPeer(n, x) == /\ n \in members /\ x \notin members /\ x \in peers[n]
                    /\ peers' = [peers EXCEPT ![n] = @ \ {x}]
                    /\ UNCHANGED <<ring, kpos, rf, members, f, last>>
DNext == \/ \E x \in Nodes : JoinRing(x) \/ LeaveRing(x)
         \/ \E n, x \in Nodes : LearnPeer(n, x) \/ ForgetPeer(n, x)
DSpec == DInit /\ [][DNext]_dvars

(* what route_selective hands out: the ring's targets it has an address for *)
RoutedDyn(n) == {t \in Targets(ring, kpos, rf, n) : t \in peers[n]}
Settled == \A n \in members : peers[n] \cap members = members \ {n}

RingIsMembers     == NodesOf(ring) = members
SizeDyn           == Len(Lists) = Min(rf, Cardinality(members)) /\ Cardinality(RangeS(Lists)) = Len(Lists)
CoverageSettled   == Settled => \A n \in members : RoutedDyn(n) = Targets(ring, kpos, rf, n)
NobodyElse        == \A n \in members : RoutedDyn(n) \subseteq (RangeS(Lists) \ {n})       \* also with stale peer tables
(* a stale table can only starve, never misdirect; starvation ends when the tables settle (CoverageSettled) *)

(* placement moves only for keys that gain or lose the node: checked on the state after every join and leave *)
(* (`last' holds the list before the change; LearnPeer / ForgetPeer do not touch the ring)                   *)
OnlyGainOrLose ==
  /\ last.op = "join" =>
        /\ (last.x \notin RangeS(Lists) => Lists = last.lists)
        /\ Without(Lists, last.x) = SubSeq(last.lists, 1, Len(Without(Lists, last.x)))
  /\ last.op = "leave" =>
        /\ (last.x \notin RangeS(last.lists) => Lists = last.lists)
        /\ Without(last.lists, last.x) = SubSeq(Lists, 1, Len(Without(last.lists, last.x)))
=============================================================================
