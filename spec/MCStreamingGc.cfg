\* sequential flush / compaction, one fault anywhere, crash anywhere (invariants in every state)
SPECIFICATION Spec
CONSTANTS
  Deltas <- DeltasT
  MaxFaults = 0
  MaxSelect = 2
  GcBefore = 3
  Concurrent = TRUE
  WithCheckpoint = FALSE
  OrderedPush = TRUE
  AsBuilt = {}
INVARIANTS ManifestSound ConfirmedRecoverable RecoveryStable NothingSilentlyDropped
CHECK_DEADLOCK FALSE
