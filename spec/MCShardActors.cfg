SPECIFICATION Spec
CONSTANTS
  Client = {1, 2}
  Key = {"a", "b"}
  Shard = {1, 2}
  Val = {"x", "y"}
  Slot = {1, 2, 3}
  PoolCap = 1
  MaxOps = 2
  Paths = {"generic", "pooled"}
  AsBuilt = {}
  CanCancel = TRUE
INVARIANTS ReplyMatchesRequest SlotDiscipline PoolBounded NoSharedSlot
VIEW View
CHECK_DEADLOCK FALSE
