------------------------------ MODULE Sharding ------------------------------
(***************************************************************************)
(* The router of the sharded server (C03): every key has exactly one home  *)
(* shard, whichever entry point carries a command, and an N-shard server   *)
(* refines one keyspace.                                                   *)
(* Shards hold string values; `ideal' is the single keyspace the clients   *)
(* must observe.  Entry points: generic dispatch (Home), fast / batched    *)
(* GET-SET (HomeFast), multi-key fan-out (per key), two-key commands       *)
(* (RENAME as representative).                                             *)
(* As-built deviations:                                                    *)
(*   "two_hashes"        the fast and batched paths hash the key bytes     *)
(*                       differently from the generic path                 *)
(*   "two_key_on_first"  a two-key command runs entirely on the shard of   *)
(*                       its first key                                     *)
(***************************************************************************)
EXTENDS Naturals, FiniteSets, TLC
CONSTANTS Key, Shard, Val, MaxOps, AsBuilt
Dev(d) == d \in AsBuilt
Nil == "nil"

VARIABLES home, homeFast,   \* key -> shard (constant functions chosen at Init)
          store,            \* shard -> (key -> value)
          ideal,            \* key -> value
          lastRead, nops

vars == <<home, homeFast, store, ideal, lastRead, nops>>

Init == /\ home \in [Key -> Shard]
        /\ homeFast \in [Key -> Shard]
        /\ (~Dev("two_hashes") => homeFast = home)
        /\ store = [s \in Shard |-> [k \in Key |-> Nil]]
        /\ ideal = [k \in Key |-> Nil]
        /\ lastRead = [got |-> Nil, want |-> Nil] /\ nops = 0

Route(k, path) == IF path = "fast" THEN homeFast[k] ELSE home[k]
Set(k, v, path) == /\ store' = [store EXCEPT ![Route(k, path)][k] = v]
                   /\ ideal' = [ideal EXCEPT ![k] = v]
                   /\ UNCHANGED <<lastRead>>
Get(k, path) == /\ lastRead' = [got |-> store[Route(k, path)][k], want |-> ideal[k]]
                /\ UNCHANGED <<store, ideal>>
Del(K) == /\ store' = [s \in Shard |-> [k \in Key |-> IF k \in K /\ home[k] = s THEN Nil ELSE store[s][k]]]
          /\ ideal' = [k \in Key |-> IF k \in K THEN Nil ELSE ideal[k]]
          /\ UNCHANGED lastRead
Rename(a, b) ==
  /\ a # b /\ ideal[a] # Nil
  /\ LET v == store[home[a]][a]
         dst == IF Dev("two_key_on_first") THEN home[a] ELSE home[b]
     IN store' = [s \in Shard |-> [k \in Key |->
                    IF k = a /\ s = home[a] THEN Nil
                    ELSE IF k = b /\ s = dst THEN v ELSE store[s][k]]]
  /\ ideal' = [ideal EXCEPT ![b] = ideal[a], ![a] = Nil]
  /\ UNCHANGED lastRead

Next == /\ nops < MaxOps /\ nops' = nops + 1 /\ UNCHANGED <<home, homeFast>>
        /\ \/ \E k \in Key, v \in Val, p \in {"generic", "fast"} : Set(k, v, p)
           \/ \E k \in Key, p \in {"generic", "fast"} : Get(k, p)
           \/ \E K \in SUBSET Key : Del(K)
           \/ \E a, b \in Key : Rename(a, b)
Spec == Init /\ [][Next]_vars

OneHome == \A k \in Key, s \in Shard : store[s][k] # Nil => s = home[k]
ReadsAgree == lastRead.got = lastRead.want
Refines == \A k \in Key : store[home[k]][k] = ideal[k]
=============================================================================
