SPECIFICATION Spec
CONSTANT AsBuilt = {}
INVARIANTS SoundRead CompleteRead
CHECK_DEADLOCK FALSE
