SPECIFICATION HSpec
CONSTANTS
  Frames <- FrameSet
  MaxLen = 3
  Threshold = 2
  MinBuf = 1
  AsBuilt = {}
INVARIANT Export
CHECK_DEADLOCK FALSE
