---------------------------- MODULE ImageLayout ----------------------------
(***************************************************************************)
(* C14: the encoded images of replicated updates as byte regions, the      *)
(* integrity checks of their readers, and what a reader must answer for a  *)
(* damaged image.                                                          *)
(*                                                                         *)
(*  segment     magic 4 | version 1 | flags 1 | count 4 | min 8 | max 8 |  *)
(*              hcrc 4 | pad 10 | records n | dcrc 4 | usize 8 | csize 8 | *)
(*              fmagic 4                                                   *)
(*  checkpoint  magic 4 | version 1 | flags 1 | pad 2 | count 8 | ts 8 |   *)
(*              last 8 | reserved 12 | hcrc 4 | dlen 4 | data n | dcrc 4 | *)
(*              dsize 8 | fcrc 4                                           *)
(*  WAL entry   len 4 | stamp 8 | crc 4 | data n                           *)
(*                                                                         *)
(* Roles:  value  bytes of the encoded update(s)                           *)
(*         meta   fields the reader hands to its caller (counts, ranges)   *)
(*         struct fields that locate other regions (lengths)               *)
(*         check  stored checksums and constants                           *)
(*         aux    read, but not part of the update (the WAL entry stamp:   *)
(*                it steers truncation - C10 - and never reaches the data) *)
(*         pad    written as zero, never read                              *)
(*         unused written, parsed, never used for decoding or checked      *)
(*                                                                         *)
(* A check is a CRC over regions with its stored value, a constant, or a   *)
(* position rule (a length field moves the place where a later check       *)
(* looks: damage to it makes that check read other bytes).                 *)
(*                                                                         *)
(* Assumption (stated in the evidence): checksums are ideal for the damage *)
(* classes explored - single bit flips and bursts of at most 32 bits -     *)
(* and the magic constants do not occur inside the data.                   *)
(***************************************************************************)
EXTENDS Naturals, Integers, Sequences, FiniteSets, TLC

R(name, len, role) == [name |-> name, len |-> len, role |-> role]

Regions(fmt, n) ==
  CASE fmt = "segment" ->
         <<R("magic", 4, "check"), R("version", 1, "check"), R("flags", 1, "struct"), R("count", 4, "meta"), R("min", 8, "meta"),
           R("max", 8, "meta"), R("hcrc", 4, "check"), R("pad", 10, "pad"), R("records", n, "value"), R("dcrc", 4, "check"),
           R("usize", 8, "unused"), R("csize", 8, "unused"), R("fmagic", 4, "check")>>
    [] fmt = "checkpoint" ->
         <<R("magic", 4, "check"), R("version", 1, "check"), R("flags", 1, "struct"), R("pad", 2, "pad"), R("count", 8, "meta"),
           R("ts", 8, "meta"), R("last", 8, "meta"), R("reserved", 12, "pad"), R("hcrc", 4, "check"), R("dlen", 4, "struct"),
           R("data", n, "value"), R("dcrc", 4, "check"), R("dsize", 8, "check"), R("fcrc", 4, "check")>>
    [] fmt = "wal" ->
         <<R("len", 4, "struct"), R("stamp", 8, "aux"), R("crc", 4, "check"), R("data", n, "value")>>

(* the readers' checks: what each one protects *)
Checks(fmt) ==
  CASE fmt = "segment" ->
         {[name |-> "magic", covers |-> {"magic"}], [name |-> "version", covers |-> {"version"}],
          [name |-> "hcrc", covers |-> {"magic", "version", "flags", "count", "min", "max", "hcrc"}],
          [name |-> "dcrc", covers |-> {"records", "dcrc"}], [name |-> "fmagic", covers |-> {"fmagic"}]}
    [] fmt = "checkpoint" ->
         {[name |-> "magic", covers |-> {"magic"}], [name |-> "version", covers |-> {"version"}],
          [name |-> "hcrc", covers |-> {"magic", "version", "flags", "count", "ts", "last", "hcrc"}],
          [name |-> "fcrc", covers |-> {"dcrc", "dsize", "fcrc"}],
          [name |-> "dcrc", covers |-> {"data"}],
          [name |-> "position", covers |-> {"dlen"}]}       \* dlen locates the footer: fcrc is then computed over other bytes
    [] fmt = "wal" ->
         {[name |-> "crc", covers |-> {"data", "crc"}],
          [name |-> "position", covers |-> {"len"}]}        \* len locates the end of data: crc is then computed over other bytes

RECURSIVE SumLen(_, _)
SumLen(rs, k) == IF k = 0 THEN 0 ELSE rs[k].len + SumLen(rs, k - 1)
Total(fmt, n) == SumLen(Regions(fmt, n), Len(Regions(fmt, n)))
Start(rs, i) == SumLen(rs, i - 1)
(* regions touched by a change of bytes [lo, hi] (0-based, inclusive) *)
Touched(fmt, n, lo, hi) ==
  LET rs == Regions(fmt, n) IN
  {rs[i].name : i \in {j \in DOMAIN rs : rs[j].len > 0 /\ lo < Start(rs, j) + rs[j].len /\ hi >= Start(rs, j)}}
RoleOf(fmt, n, name) == LET rs == Regions(fmt, n) IN (CHOOSE i \in DOMAIN rs : rs[i].name = name) 
Role(fmt, n, name) == Regions(fmt, n)[RoleOf(fmt, n, name)].role

Protected(fmt) == UNION {c.covers : c \in Checks(fmt)}

(* classes a reader may answer for a change of bytes [lo, hi] *)
AllowedChange(fmt, n, lo, hi) ==
  LET T == Touched(fmt, n, lo, hi) IN
  IF T \cap Protected(fmt) # {} THEN {"error"}
  ELSE IF \E r \in T : Role(fmt, n, r) = "aux" THEN {"same_payload", "error"}
  ELSE {"same", "error"}
(* a cut to a proper prefix is always an error *)
AllowedCut(fmt, n, keep) == IF keep < Total(fmt, n) THEN {"error"} ELSE {"same"}

---------------------------------------------------------------------------
(* design obligations, model-checked for every format and data length (MCImageLayout) *)
Formats == {"segment", "checkpoint", "wal"}
(* every byte of the update, of the metadata handed out and of the structure is protected *)
UpdateBytesProtected(f, n) ==
  \A i \in DOMAIN Regions(f, n) :
      Regions(f, n)[i].role \in {"value", "meta", "struct", "check"} => Regions(f, n)[i].name \in Protected(f)
(* nothing that is protected is padding: a check never rejects an image for bytes that mean nothing *)
NoCheckOnPadding(f, n) ==
  \A i \in DOMAIN Regions(f, n) : Regions(f, n)[i].role = "pad" => Regions(f, n)[i].name \notin Protected(f)
(* stronger obligation that the WAL entry does not meet (the stamp; see C10) *)
EverythingReadIsProtected(f, n) ==
  \A i \in DOMAIN Regions(f, n) :
      Regions(f, n)[i].role \in {"value", "meta", "struct", "check", "aux"} => Regions(f, n)[i].name \in Protected(f)
(* every single-byte change and every cut has a non-empty verdict; a two-byte change can always be answered by an error; *)
(* a cut to a proper prefix must be an error                                                                       *)
VerdictTotal(f, n) ==
  /\ \A p \in 0..(Total(f, n) - 1) : AllowedChange(f, n, p, p) # {}
  /\ \A p \in 0..(Total(f, n) - 2) : "error" \in AllowedChange(f, n, p, p + 1)
  /\ \A c \in 0..(Total(f, n) - 1) : AllowedCut(f, n, c) = {"error"}
(* a change confined to the value region is always an error: the update itself is never silently altered *)
ValueNeverSilentlyChanged(f, n) ==
  \A i \in DOMAIN Regions(f, n) : Regions(f, n)[i].role = "value" =>
     \A p \in Start(Regions(f, n), i)..(Start(Regions(f, n), i) + Regions(f, n)[i].len - 1) : AllowedChange(f, n, p, p) = {"error"}
=============================================================================
