-------------------------- MODULE MCRedisKeyspace --------------------------
(* Exhaustive sanity model of RedisKeyspace over a small command universe    *)
(* (2 keys, boundary-class arguments, clock steps):                          *)
(*   ErrorChangesNothing, ReadOnlyChangesNothing, NoEmpty, DeadlineRespected *)
(* and vacuity: every command of the table is taken and every error branch   *)
(* is reached (coverage).                                                    *)
EXTENDS RedisKeyspace
CONSTANTS MaxSteps
VARIABLES st, now, last, steps
vars == <<st, now, last, steps>>

K == {"a", "b"}
B(x) == x
V == {<<>>, <<97>>, <<49, 48>>, <<57, 50, 50, 51, 51, 55, 50, 48, 51, 54, 56, 53, 52, 55, 55, 53, 56, 48, 55>>}
D1 == MkInt(FALSE, <<1>>)
C(op) == [op |-> op]
Cmds ==
  {[op |-> "GET", k |-> k] : k \in K}
  \cup {[op |-> "SET", k |-> k, v |-> v, ex |-> -1, px |-> px, nx |-> nx, xx |-> FALSE, get |-> g, keepttl |-> kt] :
          k \in K, v \in {<<97>>, <<49, 48>>}, px \in {-1, 2, 0}, nx \in BOOLEAN, g \in BOOLEAN, kt \in BOOLEAN}
  \cup {[op |-> "GETSET", k |-> k, v |-> <<97>>] : k \in K}
  \cup {[op |-> "APPEND", k |-> k, v |-> <<97>>] : k \in K}
  \cup {[op |-> "INCRBY", k |-> k, d |-> d, dmin |-> FALSE] : k \in K, d \in {D1, I64Max}}
  \cup {[op |-> "DEL", ks |-> <<k>>] : k \in K}
  \cup {[op |-> "EXPIRE", k |-> k, ms |-> ms, nx |-> FALSE, xx |-> FALSE, gt |-> gt, lt |-> FALSE] : k \in K, ms \in {2, 0}, gt \in BOOLEAN}
  \cup {[op |-> "PTTL", k |-> k] : k \in K} \cup {[op |-> "PERSIST", k |-> k] : k \in K}
  \cup {[op |-> "RENAME", k |-> "a", k2 |-> "b", nx |-> nx] : nx \in BOOLEAN}
  \cup {[op |-> "PUSH", k |-> k, vs |-> <<<<97>>>>, left |-> TRUE] : k \in K}
  \cup {[op |-> "POP", k |-> k, left |-> FALSE] : k \in K}
  \cup {[op |-> "LSET", k |-> k, i |-> i, v |-> <<98>>] : k \in K, i \in {0, 5}}
  \cup {[op |-> "LMOVE", k |-> "a", k2 |-> "b", fromleft |-> TRUE, toleft |-> FALSE]}
  \cup {[op |-> "SADD", k |-> k, vs |-> <<<<97>>>>] : k \in K} \cup {[op |-> "SREM", k |-> k, vs |-> <<<<97>>>>] : k \in K}
  \cup {[op |-> "HSET", k |-> k, fs |-> <<<<102>>>>, vs |-> <<<<120>>>>] : k \in K} \cup {[op |-> "HDEL", k |-> k, fs |-> <<<<102>>>>] : k \in K}
  \cup {[op |-> "HINCRBY", k |-> k, f |-> <<102>>, d |-> D1] : k \in K}
  \cup {[op |-> "ZADD", k |-> k, ms |-> <<<<97>>>>, qs |-> <<4>>, nx |-> FALSE, xx |-> xx, gt |-> FALSE, lt |-> FALSE, ch |-> FALSE] : k \in K, xx \in BOOLEAN}
  \cup {[op |-> "ZREM", k |-> k, ms |-> <<<<97>>>>] : k \in K}
  \cup {[op |-> "ZRANGE", k |-> k, start |-> 0, stop |-> -1, ws |-> TRUE, rev |-> FALSE] : k \in K}
  \cup {[op |-> "SETBIT", k |-> k, off |-> o, bit |-> bt] : k \in K, o \in {0, 9}, bt \in {0, 1}}
  \cup {[op |-> "GETBIT", k |-> k, off |-> 9] : k \in K}
  \cup {[op |-> "GETEX", k |-> k, mode |-> m, ms |-> ms] : k \in K, m \in {"none", "persist", "rel"}, ms \in {2, 0}}
  \cup {[op |-> "SPOP", k |-> k, n |-> n] : k \in K, n \in {-1, 0, 2}}
  \cup {[op |-> "INCRBYFLOAT", k |-> k, q |-> q] : k \in K, q \in {2, -5}}
  \cup {[op |-> "SORT", k |-> k, store |-> d] : k \in K, d \in {"", "b"}}
  \cup {[op |-> "RANDOMKEY", kb |-> <<<<"a", <<97>>>>, <<"b", <<98>>>>>>]}

Init == st = [k \in {} |-> 0] /\ now = 0 /\ last = [c |-> [op |-> "PING", has |-> FALSE, v |-> <<>>], r |-> OK, changed |-> FALSE] /\ steps = 0
Exec(c) == \E res \in DoAlts(c, st, now) :
           /\ st' = res.s /\ now' = now
           /\ last' = [c |-> c, r |-> res.r, changed |-> ~StateEq(Live(st, now), res.s)]
           /\ steps' = steps + 1
Tick == now' = now + 1 /\ UNCHANGED <<st, last>> /\ steps' = steps + 1
Next == steps < MaxSteps /\ ((\E c \in Cmds : Exec(c)) \/ Tick)
Spec == Init /\ [][Next]_vars

ErrorChangesNothing == IsErr(last.r) => ~last.changed
ReadOnlyChangesNothing == last.c.op \in ReadOnlyOps => ~last.changed
NoEmpty == NoEmptyCollection(Live(st, now))
DeadlineRespected == \A k \in DOMAIN Live(st, now) : st[k].exp = -1 \/ now < st[k].exp
=============================================================================
