SPECIFICATION Spec
CONSTANTS
  Key = {"a", "b"}
  MaxT = 3
  MaxWrites = 3
  MaxCrash = 2
  MaxRemote = 2
  AsBuilt = {}
INVARIANTS StampAboveSeen NeverRepeats NewestWins ClockDominates
CHECK_DEADLOCK FALSE
