SPECIFICATION Spec
CONSTANTS
  AsBuilt = {}
  WalFilter = FALSE
  NU = 4
INVARIANTS RecoveryIsMerge RecoveryIdempotent
CHECK_DEADLOCK FALSE
