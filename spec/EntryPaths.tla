----------------------------- MODULE EntryPaths -----------------------------
(***************************************************************************)
(* C16: a command means the same through every entry path.                 *)
(*                                                                         *)
(* Entry paths of one frame (array of elements):                           *)
(*    a   Command::from_resp            on the decoded value               *)
(*    b   Command::from_resp_zero_copy  on the decoded value               *)
(*    pa  RespParser::parse  |> from_resp            on the wire image     *)
(*    pb  RespCodec::parse   |> from_resp_zero_copy  on the wire image     *)
(*    u   from_resp on the same frame with the command name upper-cased    *)
(* and of one command inside a script:  redis.call / redis.pcall.          *)
(*                                                                         *)
(* The grammar part of the spec is the arity table (what must be rejected  *)
(* whatever the arguments are); agreement of the paths is judged on the    *)
(* recorded outcome (Debug rendering of the Command, or the error text).   *)
(*                                                                         *)
(* The script part is the conversion the code documents by its tests:      *)
(* RESP -> Lua maps a null reply to nil, a status to {ok=..}, an error to  *)
(* {err=..}; Lua -> RESP reads a table up to its first nil.  Conv is the   *)
(* composition.  A script is a sequence of commands; with redis.pcall all  *)
(* of them run and the script returns Conv of the last reply; redis.call   *)
(* raises at the first error reply: the script ends there, its effects so  *)
(* far stay, and the reply is an error carrying that error's text.         *)
(***************************************************************************)
EXTENDS Naturals, Integers, Sequences, FiniteSets, TLC

Unbounded == 1000000
(* name -> <<min args, max args>>; names that are absent take any arity as far as the parsers go *)
Arity ==
  [n \in {"GET", "STRLEN", "INCR", "DECR", "GETDEL", "TYPE", "TTL", "PTTL", "EXPIRETIME", "PEXPIRETIME", "PERSIST", "LLEN",
          "SMEMBERS", "SCARD", "HGETALL", "HKEYS", "HVALS", "HLEN", "ZCARD", "KEYS", "ECHO", "SELECT", "RPOP"} |-> <<1, 1>>] @@
  [n \in {"APPEND", "GETSET", "SETNX", "INCRBY", "DECRBY", "INCRBYFLOAT", "GETBIT", "EXPIREAT", "PEXPIREAT", "RENAME", "RENAMENX",
          "LINDEX", "RPOPLPUSH", "SISMEMBER", "HGET", "HEXISTS", "ZSCORE", "ZRANK", "WAIT"} |-> <<2, 2>>] @@
  [n \in {"SETEX", "PSETEX", "GETRANGE", "SUBSTR", "SETRANGE", "SETBIT", "LRANGE", "LSET", "LTRIM", "HINCRBY", "ZCOUNT"} |-> <<3, 3>>] @@
  [n \in {"LMOVE"} |-> <<4, 4>>] @@
  [n \in {"DEL", "UNLINK", "EXISTS", "MGET", "WATCH", "SORT", "SCAN"} |-> <<1, Unbounded>>] @@
  [n \in {"LPUSH", "RPUSH", "SADD", "SREM", "HDEL", "ZREM", "SET", "MSET", "MSETNX", "EVAL", "EVALSHA", "HSCAN", "ZSCAN"} |-> <<2, Unbounded>>] @@
  [n \in {"HSET", "ZADD", "ZRANGE", "ZREVRANGE", "ZRANGEBYSCORE"} |-> <<3, Unbounded>>] @@
  [n \in {"LPOP", "SPOP", "AUTH"} |-> <<1, 2>>] @@
  [n \in {"EXPIRE", "PEXPIRE"} |-> <<2, Unbounded>>] @@
  [n \in {"GETEX"} |-> <<1, Unbounded>>]
(* pairs after the key: HSET k f v [f v ...];  MSET k v [k v ...] *)
OddArgs == {"HSET"}
EvenArgs == {"MSET", "MSETNX"}

MustReject(name, nargs) ==
  \/ name \in DOMAIN Arity /\ (nargs < Arity[name][1] \/ nargs > Arity[name][2])
  \/ name \in OddArgs /\ nargs % 2 = 0
  \/ name \in EvenArgs /\ nargs % 2 = 1

---------------------------------------------------------------------------
(* replies: [t, b, a] as in Resp.tla / RedisKeyspace.tla *)
IsNil(r) == r.t \in {"nullbulk", "nullarray"}
Nil == [t |-> "nullbulk", b |-> <<>>, a |-> <<>>]
RECURSIVE Conv(_), ConvSeq(_)
Conv(r) == IF r.t = "array" THEN [t |-> "array", b |-> <<>>, a |-> ConvSeq(r.a)]
           ELSE IF r.t = "nullarray" THEN Nil
           ELSE r
ConvSeq(q) == IF q = <<>> \/ IsNil(Head(q)) THEN <<>> ELSE <<Conv(Head(q))>> \o ConvSeq(Tail(q))

(* is `needle' a contiguous part of `hay' (byte sequences) *)
Contains(hay, needle) ==
  \E i \in 0..(Len(hay) - Len(needle)) : SubSeq(hay, i + 1, i + Len(needle)) = needle

IsErr(r) == r.t \in {"error", "panic"}
FirstErr(rs) == LET E == {i \in DOMAIN rs : IsErr(rs[i])} IN IF E = {} THEN 0 ELSE CHOOSE i \in E : \A j \in E : i <= j

(* expected outcome of a script issuing the commands whose direct replies are rs *)
(* an unknown command name is refused by both paths, with different words ("unknown command" / "Unknown   *)
(* Redis command ... called from Lua"): any error of the class ERR is accepted for it                      *)
UnknownPrefix == <<69, 82, 82, 32, 117, 110, 107, 110, 111, 119, 110, 32, 99, 111, 109, 109, 97, 110, 100>>   \* "ERR unknown command"
IsUnknownCmd(r) == r.t = "error" /\ Len(r.b) >= Len(UnknownPrefix) /\ SubSeq(r.b, 1, Len(UnknownPrefix)) = UnknownPrefix
ErrClassERR(r) == r.t = "error" /\ Len(r.b) >= 3 /\ SubSeq(r.b, 1, 3) = <<69, 82, 82>>
(* element order of SMEMBERS / HKEYS / HVALS / HGETALL is that of a hash table: same elements, any order *)
CountIn(q, x) == Cardinality({i \in DOMAIN q : q[i] = x})
SameBag(a, b) == a.t = "array" /\ b.t = "array" /\ Len(a.a) = Len(b.a) /\ \A i \in DOMAIN a.a : CountIn(a.a, a.a[i]) = CountIn(b.a, a.a[i])
PcallReplyOk(rs, got) == IF IsUnknownCmd(rs[Len(rs)]) THEN ErrClassERR(got) ELSE got = Conv(rs[Len(rs)])
CallReplyOk(rs, got) ==
  LET e == FirstErr(rs) IN
  IF e = 0 THEN got = Conv(rs[Len(rs)])
  ELSE got.t = "error" /\ (Contains(got.b, rs[e].b) \/ IsUnknownCmd(rs[e]))

---------------------------------------------------------------------------
(* model-checked facts about Conv over bounded reply trees (MCEntryPaths) *)
CONSTANT Leaves
Depth1 == Leaves \cup {[t |-> "array", b |-> <<>>, a |-> q] : q \in UNION {[1..n -> Leaves] : n \in 0..3}}
Depth2 == Depth1 \cup {[t |-> "array", b |-> <<>>, a |-> q] : q \in UNION {[1..n -> Depth1] : n \in 0..2}}
RECURSIVE NilFree(_)
NilFree(r) == IF r.t = "array" THEN \A i \in DOMAIN r.a : ~IsNil(r.a[i]) /\ NilFree(r.a[i]) ELSE r.t # "nullarray"
ConvIdempotent == \A r \in Depth2 : Conv(Conv(r)) = Conv(r)
ConvIdentityOnNilFree == \A r \in Depth2 : NilFree(r) => Conv(r) = r
ConvKeepsKind == \A r \in Depth2 : (r.t = "array") = (Conv(r).t = "array")
ConvShortens == \A r \in Depth2 : r.t = "array" => Len(Conv(r).a) <= Len(r.a)
=============================================================================
