----------------------------- MODULE ShardActors -----------------------------
(***************************************************************************)
(* C02: concurrent clients on one node.                                    *)
(*                                                                         *)
(* Each shard is an actor: one task owns the data of the shard and takes   *)
(* messages from a FIFO mailbox, one at a time.  A client call is          *)
(*    Invoke   (generic / fast path: create a one-shot reply channel;      *)
(*              pooled path: acquire a reply slot from the pool)           *)
(*             and enqueue the message at the key's home shard             *)
(*    ShardStep the actor dequeues the head, applies it atomically to its  *)
(*             store and puts the reply where the message says             *)
(*    Receive  the caller finds its reply and returns (pooled: then the    *)
(*             slot is reset and pushed back - Release is part of it as in *)
(*             the code, where nothing can interleave between recv and     *)
(*             release on the caller's side except other threads' steps,   *)
(*             which is why Release is a separate action here)             *)
(*    Cancel   the caller abandons the call while it is waiting (a dropped *)
(*             future).  As built the slot is simply not returned.         *)
(*                                                                         *)
(* The linearization point of an operation is its ShardStep, which lies    *)
(* between Invoke and Receive by construction; what carries weight is      *)
(*    ReplyMatchesRequest  the reply a caller returns was computed by the  *)
(*                         ShardStep of its own message                    *)
(*    SeqSpec              replies are those of a register per key applied *)
(*                         in ShardStep order (checked on the history)     *)
(*    Live                 every call that is not cancelled returns        *)
(* Switch "release_on_cancel": a guard returns the slot to the pool when   *)
(* the future is dropped - the next acquirer can then read the reply of    *)
(* the abandoned call.                                                     *)
(***************************************************************************)
EXTENDS Naturals, Sequences, FiniteSets, TLC
CONSTANTS Client, Key, Shard, Val, Slot, PoolCap, MaxOps, Paths, AsBuilt, CanCancel
Dev(d) == d \in AsBuilt
Nil == "nil"
None == [id |-> <<0, 0>>, v |-> "none"]
Home(k) == CHOOSE s \in Shard : TRUE      \* overridden in the model configurations

VARIABLES pc,        \* client -> "idle" | "wait" | "release"
          cur,       \* client -> the call in flight [id, kind, k, v, path, slot]
          mailbox,   \* shard -> sequence of messages [id, kind, k, v, to]   to = [t |-> "oneshot", c] / [t |-> "slot", s]
          store,     \* shard -> [Key -> value]
          chan,      \* client -> reply in its one-shot channel, or None
          slotv,     \* slot -> reply held, or None
          pool,      \* sequence of free slots
          held,      \* set of slots out of the pool (acquired, or leaked)
          nops,
          bad,       \* a caller returned a reply that was not computed for its own message
          lastret    \* the last completed call [c, kind, k, r] (observation only; hidden by the VIEW of the model configurations)
vars == <<pc, cur, mailbox, store, chan, slotv, pool, held, nops, bad, lastret>>
Id(c) == <<c, nops[c] + 1>>

Idle == [id |-> <<0, 0>>, kind |-> "none", k |-> CHOOSE k \in Key : TRUE, v |-> Nil, path |-> "generic", slot |-> 0]
RangeQ(q) == {q[i] : i \in DOMAIN q}

Init == /\ pc = [c \in Client |-> "idle"] /\ cur = [c \in Client |-> Idle]
        /\ mailbox = [s \in Shard |-> <<>>]
        /\ store = [s \in Shard |-> [k \in Key |-> Nil]]
        /\ chan = [c \in Client |-> None]
        /\ slotv = [s \in Slot |-> None]
        /\ pool = <<>> /\ held = {}
        /\ nops = [c \in Client |-> 0]
        /\ bad = FALSE /\ lastret = [c |-> 0, kind |-> "none", k |-> "", r |-> ""]

(* acquire: pop the pool, or allocate a slot that is neither pooled nor held *)
Invoke(c, kind, k, v, path, HomeOf(_)) ==
  /\ pc[c] = "idle" /\ nops[c] < MaxOps
  /\ nops' = [nops EXCEPT ![c] = @ + 1]
  /\ IF path = "pooled"
     THEN \E s \in Slot :
            /\ IF pool # <<>> THEN s = Head(pool) ELSE s \notin held
            /\ pool' = IF pool # <<>> THEN Tail(pool) ELSE pool
            /\ held' = held \cup {s}
            /\ cur' = [cur EXCEPT ![c] = [id |-> Id(c), kind |-> kind, k |-> k, v |-> v, path |-> path, slot |-> s]]
            /\ mailbox' = [mailbox EXCEPT ![HomeOf(k)] = Append(@, [id |-> Id(c), kind |-> kind, k |-> k, v |-> v, to |-> [t |-> "slot", s |-> s, c |-> c]])]
     ELSE /\ cur' = [cur EXCEPT ![c] = [id |-> Id(c), kind |-> kind, k |-> k, v |-> v, path |-> path, slot |-> 0]]
          /\ mailbox' = [mailbox EXCEPT ![HomeOf(k)] = Append(@, [id |-> Id(c), kind |-> kind, k |-> k, v |-> v, to |-> [t |-> "oneshot", s |-> 0, c |-> c]])]
          /\ UNCHANGED <<pool, held>>
  /\ pc' = [pc EXCEPT ![c] = "wait"]
  /\ chan' = [chan EXCEPT ![c] = None]          \* a fresh one-shot channel per call
  /\ UNCHANGED <<store, slotv, bad, lastret>>

ShardStep(s) ==
  /\ mailbox[s] # <<>>
  /\ LET m == Head(mailbox[s])
         old == store[s][m.k]
         r == [id |-> m.id, v |-> IF m.kind = "set" THEN "OK" ELSE old]
     IN /\ store' = IF m.kind = "set" THEN [store EXCEPT ![s][m.k] = m.v] ELSE store
        /\ IF m.to.t = "slot"
           THEN slotv' = [slotv EXCEPT ![m.to.s] = r] /\ UNCHANGED chan
           ELSE (* a one-shot whose receiver is gone drops the reply *)
                /\ chan' = IF pc[m.to.c] = "wait" /\ cur[m.to.c].id = m.id THEN [chan EXCEPT ![m.to.c] = r] ELSE chan
                /\ UNCHANGED slotv
  /\ mailbox' = [mailbox EXCEPT ![s] = Tail(@)]
  /\ UNCHANGED <<pc, cur, pool, held, nops, bad, lastret>>

Receive(c) ==
  /\ pc[c] = "wait"
  /\ LET r == IF cur[c].path = "pooled" THEN slotv[cur[c].slot] ELSE chan[c] IN
       /\ r # None
       /\ bad' = (bad \/ r.id # cur[c].id)
       /\ lastret' = [c |-> c, kind |-> cur[c].kind, k |-> cur[c].k, r |-> r.v]
       /\ IF cur[c].path = "pooled"
          THEN /\ slotv' = [slotv EXCEPT ![cur[c].slot] = None]     \* the future takes the value
               /\ pc' = [pc EXCEPT ![c] = "release"] /\ UNCHANGED chan
          ELSE /\ chan' = [chan EXCEPT ![c] = None] /\ pc' = [pc EXCEPT ![c] = "idle"] /\ UNCHANGED slotv
  /\ UNCHANGED <<cur, mailbox, store, pool, held, nops>>

PutBack(s) == /\ slotv' = [slotv EXCEPT ![s] = None]                 \* reset
              /\ IF Len(pool) < PoolCap THEN pool' = Append(pool, s) ELSE pool' = pool
              /\ held' = held \ {s}
Release(c) ==
  /\ pc[c] = "release"
  /\ PutBack(cur[c].slot)
  /\ pc' = [pc EXCEPT ![c] = "idle"]
  /\ UNCHANGED <<cur, mailbox, store, chan, nops, bad, lastret>>

Cancel(c) ==
  /\ CanCancel /\ pc[c] = "wait"
  /\ pc' = [pc EXCEPT ![c] = "idle"]
  /\ IF cur[c].path = "pooled" /\ Dev("release_on_cancel")
     THEN PutBack(cur[c].slot)
     ELSE UNCHANGED <<slotv, pool, held>>       \* as built: the slot is not returned (it stays held: leaked)
  /\ chan' = [chan EXCEPT ![c] = None]
  /\ UNCHANGED <<cur, mailbox, store, nops, bad, lastret>>

NextWith(HomeOf(_)) ==
  \/ \E c \in Client, kind \in {"set", "get"}, k \in Key, v \in Val, p \in Paths :
        (kind = "get" => v = CHOOSE x \in Val : TRUE) /\ Invoke(c, kind, k, v, p, HomeOf)
  \/ \E s \in Shard : ShardStep(s)
  \/ \E c \in Client : Receive(c) \/ Release(c) \/ Cancel(c)

---------------------------------------------------------------------------
ReplyMatchesRequest == ~bad
(* the value a get returns is the store content at its ShardStep: by construction of ShardStep; what the   *)
(* history-level judge (LinTrace) checks on recorded histories is the converse - that such a step exists. *)
SlotDiscipline == \A i, j \in DOMAIN pool : i # j => pool[i] # pool[j]
PoolBounded == Len(pool) <= PoolCap
(* a slot in the pool holds no value (nobody can find a stale reply in a fresh acquisition) *)
PooledSlotsEmpty == \A i \in DOMAIN pool : slotv[pool[i]] = None \/ \E s \in Shard : \E j \in DOMAIN mailbox[s] : mailbox[s][j].to.t = "slot" /\ mailbox[s][j].to.s = pool[i]
NoSharedSlot == \A c, d \in Client : c # d /\ pc[c] \in {"wait", "release"} /\ pc[d] \in {"wait", "release"}
                   /\ cur[c].path = "pooled" /\ cur[d].path = "pooled" => cur[c].slot # cur[d].slot
View == <<pc, cur, mailbox, store, chan, slotv, pool, held, nops, bad>>
=============================================================================
