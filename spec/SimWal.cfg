SPECIFICATION Spec
CONSTANTS
  MaxWriters = 4
  Caps = {1, 2}
  Batches = {1, 2, 3}
  K = 14
  MaxFaults = 1
  Kinds = {"fail", "torn", "diskfull"}
INVARIANT Export
CHECK_DEADLOCK FALSE
