SPECIFICATION Spec
CONSTANTS
  MaxWriters = 4
  Caps = {1, 2}
  Batches = {1, 2, 3}
  K = 12
  MaxFaults = 2
  Kinds = {"fail", "torn"}
INVARIANT Export
CHECK_DEADLOCK FALSE
