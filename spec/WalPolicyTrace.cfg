SPECIFICATION TraceSpec
CONSTANTS
  Writers = {1, 2, 3, 4, 5, 6, 7, 8, 9, 10, 11, 12, 13, 14, 15, 16, 17, 18, 19, 20, 21, 22, 23, 24}
  Cap = 2
  MaxBatch = 3
  MaxFaults = 0
  AsBuilt = {}
  Policy = "always"
  TsOf = 0
  Thresholds = {}
CHECK_DEADLOCK FALSE
