--------------------------- MODULE SimStreamConc ---------------------------
(* All interleavings of the store calls of one flush (NF calls) with those  *)
(* of one compaction (NC calls): the schedules along which the harness      *)
(* gates the real StreamingPersistence::flush and Compactor::compact.       *)
EXTENDS Naturals, Sequences, FiniteSets, TLC, Json
CONSTANTS NF, NC
VARIABLE s
Init == s \in {f \in [1..(NF + NC) -> {"F", "C"}] : Cardinality({i \in 1..(NF + NC) : f[i] = "F"}) = NF}
Next == UNCHANGED s
Spec == Init /\ [][Next]_s
Export == PrintT(<<"SCN", ToJson(s)>>)
=============================================================================
