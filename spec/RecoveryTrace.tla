---------------------------- MODULE RecoveryTrace ----------------------------
(* Case validation for C11: each record is one persisted layout built with the *)
(* real SegmentWriter / CheckpointWriter / ManifestManager / WalRotator and    *)
(* what the REAL recovery returned (folded with the real merge, and as the     *)
(* state of a real node after apply_recovered_state, once and twice).          *)
(* Expected: per key, the merge (CrdtOps!Merge) of every update placed.        *)
EXTENDS CrdtJson, Json, IOUtils, TLC, Sequences, FiniteSets, SequencesExt
Rec == ndJsonDeserialize(IOEnv.TRACE)
VARIABLE l

UpRv(c, i) == JRv((CHOOSE u \in Range(c.ups) : u[1] = i)[3])
UpKey(c, i) == (CHOOSE u \in Range(c.ups) : u[1] = i)[2]
RECURSIVE Fold(_, _, _, _)
Fold(c, k, ids, acc) ==
  IF ids = {} THEN acc
  ELSE LET i == CHOOSE j \in ids : TRUE
       IN Fold(c, k, ids \ {i}, IF UpKey(c, i) # k THEN acc ELSE IF IsNone(acc) THEN UpRv(c, i) ELSE Merge(acc, UpRv(c, i)))
KeysOf(c, ids) == {UpKey(c, i) : i \in ids}
Matches(c, ids, got) ==
  /\ {p[1] : p \in Range(got)} = KeysOf(c, ids)
  /\ \A p \in Range(got) : JObs(p[2]) = Obs(Fold(c, p[1], ids, None))
ObjIds(c) == Range(c.ckpt) \cup Range(c.seg1) \cup Range(c.seg2)
AllIds(c) == ObjIds(c) \cup Range(c.wal)
(* a recovered state far larger than any mailbox bound, applied to a real node: one LWW key rewritten n times (c.hot =  *)
(* <<time, replica, value>> per write, all plain sets, so their merge is the write with the greatest stamp) plus 200      *)
(* bystanders                                                                                                             *)
Newer(a, b) == IF a[1] > b[1] \/ (a[1] = b[1] /\ a[2] > b[2]) THEN a ELSE b
BigVerdict(c) ==
  IF c.err # "" THEN "recovery failed: " \o c.err
  ELSE IF c.node_hot # FoldLeft(Newer, <<0, 0, "">>, c.hot) THEN "after start-up the node does not hold the newest persisted write of a key (part of a large recovered state was dropped on the way to the shards)"
  ELSE IF c.node_keys # c.bystanders + 1 THEN "after start-up the node lacks keys that recovery returned"
  ELSE "ok"
Verdict(c) ==
  IF c.t = "bignode" THEN BigVerdict(c)
  ELSE IF c.err # "" THEN "recovery failed: " \o c.err
  ELSE IF ~Matches(c, ObjIds(c), c.fold) THEN "recover() is not the merge of checkpoint and segments"
  ELSE IF ~Matches(c, AllIds(c), c.fold_wal) THEN "recover_with_wal() is not the merge of everything persisted"
  ELSE IF "corrupt_read" \in DOMAIN c /\ c.corrupt_read.ok /\ ~Matches(c, ObjIds(c), c.corrupt_read.fold)
       THEN "recovery over a corrupted segment download returned a part of the persisted state instead of failing"
  ELSE IF "fold_progress" \in DOMAIN c /\ ~Matches(c, ObjIds(c), c.fold_progress) THEN "recover_with_progress() is not the merge of checkpoint and segments"
  ELSE IF "corrupt_reads" \in DOMAIN c /\ \E r \in Range(c.corrupt_reads) : r.ok /\ ~Matches(c, IF r.wal THEN AllIds(c) ELSE ObjIds(c), r.fold)
       THEN "a recovery entry point decoded a damaged checkpoint or segment download into a different state instead of failing"
  ELSE IF ~Matches(c, AllIds(c), c.node) THEN "node state after apply_recovered_state differs from the merge"
  ELSE IF ~Matches(c, AllIds(c), c.node2) THEN "repeating recovery changes the node state"
  ELSE IF "node_staged" \in DOMAIN c /\ ~Matches(c, AllIds(c), c.node_staged)
       THEN "the start-up sequence (object store, then WAL replayed on top) does not leave the merge of everything persisted"
  ELSE IF "ckpt_race" \in DOMAIN c /\ \E r \in Range(c.ckpt_race) : r.ok /\ ~Matches(c, ObjIds(c), r.fold)
       THEN "recovery that overlapped the publication of the next checkpoint returned neither image (updates of the segments in between are missing)"
  ELSE "ok"
TraceInit == l = 1
TraceNext ==
  \/ /\ l <= Len(Rec)
     /\ LET v == Verdict(Rec[l]) IN
          v # "ok" => PrintT(<<"VERDICT", ToJson([run |-> Rec[l].run, l |-> l, v |-> "bad", what |-> v])>>)
     /\ l' = l + 1
  \/ l = Len(Rec) + 1 /\ PrintT(<<"VALIDATED", Len(Rec)>>) /\ l' = l + 1
TraceSpec == TraceInit /\ [][TraceNext]_l
=============================================================================
