--------------------------- MODULE SimAntiEntropy ---------------------------
(* Scenario export for C18: every pair of replica states reachable by writes  *)
(* in the AntiEntropy model (versions per key), to be rebuilt as real         *)
(* replicated states with keys that collide in the real digest buckets.       *)
EXTENDS AntiEntropy, Json
WNext == \E r \in Rep, k \in Key : Write(r, k)
WSpec == Init /\ [][WNext]_vars
Export == PrintT(<<"SCN", ToJson([A |-> st["A"], B |-> st["B"], limit |-> Limit])>>)
View == st
=============================================================================
