------------------------------ MODULE Placement ------------------------------
(***************************************************************************)
(* Key placement on the consistent-hash ring and selective gossip routing  *)
(* (C19).  A ring is a SET of (position, node) pairs - so it cannot depend *)
(* on the order in which nodes joined.  Replicas(ring, kpos, rf) is the    *)
(* list of the first min(rf, #nodes) DISTINCT nodes met clockwise from the *)
(* key's position; Targets = Replicas minus the sender.                    *)
(* Theorems checked by TLC for every assignment of distinct positions:     *)
(*   SizeAndDistinct, PrefixInRf, MinimalDisruption (adding a node changes *)
(*   a key's list only by inserting that node), RouterCoverage (with the   *)
(*   peer table of from_config: ideal vs as built "peer_ids_off_by_one").  *)
(***************************************************************************)
EXTENDS Naturals, Sequences, FiniteSets, TLC

CONSTANTS Nodes, VNodes, Positions, AsBuilt
Dev(d) == d \in AsBuilt

NodesOf(ring) == {p[2] : p \in ring}
PosOf(ring) == {p[1] : p \in ring}
NodeAt(ring, pos) == (CHOOSE p \in ring : p[1] = pos)[2]
(* clockwise successor positions from kpos: first those >= kpos ascending, then the rest ascending *)
RECURSIVE Asc(_)
Asc(S) == IF S = {} THEN <<>> ELSE LET m == CHOOSE x \in S : \A y \in S : x <= y IN <<m>> \o Asc(S \ {m})
Walk(ring, kpos) == Asc({q \in PosOf(ring) : q >= kpos}) \o Asc({q \in PosOf(ring) : q < kpos})
RECURSIVE Distinct(_, _)
Distinct(nodes, seen) == IF nodes = <<>> THEN <<>>
                         ELSE IF Head(nodes) \in seen THEN Distinct(Tail(nodes), seen)
                         ELSE <<Head(nodes)>> \o Distinct(Tail(nodes), seen \cup {Head(nodes)})
Owners(ring, kpos) == LET w == Walk(ring, kpos) IN Distinct([i \in DOMAIN w |-> NodeAt(ring, w[i])], {})
Min(a, b) == IF a < b THEN a ELSE b
Replicas(ring, kpos, rf) == SubSeq(Owners(ring, kpos), 1, Min(rf, Cardinality(NodesOf(ring))))
RangeS(s) == {s[i] : i \in DOMAIN s}
Targets(ring, kpos, rf, sender) == RangeS(Replicas(ring, kpos, rf)) \ {sender}

(* peer table built by GossipRouter::from_config for node `me' in a cluster 1..n (peers = all others in id order) *)
PeerIds(me, n) == IF Dev("peer_ids_off_by_one")
                  THEN {IF i >= me THEN i + 2 ELSE i + 1 : i \in 0..(n - 2)}
                  ELSE {IF i + 1 >= me THEN i + 2 ELSE i + 1 : i \in 0..(n - 2)}
Routed(ring, kpos, rf, me, n) == {t \in Targets(ring, kpos, rf, me) : t \in PeerIds(me, n)}

VARIABLES ring, kpos, rf
vars == <<ring, kpos, rf>>
Slots == Nodes \X (1..VNodes)
Init == /\ \E f \in [Slots -> Positions] :
             /\ \A a, b \in Slots : a # b => f[a] # f[b]
             /\ ring = {<<f[s], s[1]>> : s \in Slots}
        /\ kpos \in Positions /\ rf \in 1..(Cardinality(Nodes) + 1)
Next == UNCHANGED vars
Spec == Init /\ [][Next]_vars

SizeAndDistinct == LET r == Replicas(ring, kpos, rf) IN
                     /\ Len(r) = Min(rf, Cardinality(Nodes))
                     /\ Cardinality(RangeS(r)) = Len(r)
PrefixInRf == \A r2 \in 1..rf : Replicas(ring, kpos, r2) = SubSeq(Replicas(ring, kpos, rf), 1, Min(r2, Cardinality(Nodes)))
Without(s, x) == SelectSeq(s, LAMBDA y : y # x)
MinimalDisruption == \A x \in Nodes : Cardinality(Nodes) > 1 =>
                        LET small == {p \in ring : p[2] # x} IN
                        Without(Owners(ring, kpos), x) = Owners(small, kpos)
RouterCoverage == \A me \in Nodes : Routed(ring, kpos, rf, me, Cardinality(Nodes)) = Targets(ring, kpos, rf, me)
=============================================================================
