SPECIFICATION Spec
CONSTANTS
  Key = {"a", "b"}
  Shard = {1, 2}
  Val = {"x", "y"}
  MaxOps = 4
  AsBuilt = {"two_key_on_first"}
INVARIANTS OneHome
CHECK_DEADLOCK FALSE
