SPECIFICATION HSpec
CONSTANTS
  Deltas <- DeltasA
  MaxFaults = 1
  MaxSelect = 2
  GcBefore = 0
  Concurrent = FALSE
  WithCheckpoint = TRUE
  OrderedPush = FALSE
  AsBuilt = {}
VIEW View
INVARIANT Export
CHECK_DEADLOCK FALSE
