---------------------------- MODULE Replication ----------------------------
(***************************************************************************)
(* Replicated nodes of nerdsane/redis-rust for one key (C06):              *)
(* ReplicatedShardActor = executor (what clients are served) + replication *)
(* state (CrdtOps value) + Lamport clock; the network delivers the deltas  *)
(* in any order and after any delay (loss followed by redelivery),         *)
(* duplicates them, or runs anti-entropy (= state transfer).               *)
(*                                                                         *)
(* Client(n, cmd): execute on what is served, THEN derive the delta from   *)
(* what actually happened (a failed or unapplied command replicates        *)
(* nothing).  Deliver: merge, then make the served value follow the merged *)
(* state.  Properties:                                                     *)
(*   ServedIsState   served[n] = Served(rs[n]) on every node at every step *)
(*   Converged       Quiescent => all nodes hold equal observable state    *)
(*                   and serve equal values                                *)
(*   WinnerIsGreatestStamp  the agreed register value is that of the write *)
(*                   with the greatest stamp                               *)
(* As-built deviations (constant AsBuilt), each reproduced by a cfg:       *)
(*   "nx_records_unapplied"   SET NX on an existing key recorded the value *)
(*   "del_hash_noop"          DEL of a hash left the hash in the state     *)
(*   "error_recorded"         a WRONGTYPE HSET was recorded                *)
(*   "remote_hash_over_string" a remote hash did not replace a served      *)
(*                            string (executor HSET fails with WRONGTYPE)  *)
(*   "rmw_drops_ttl"          INCR / APPEND / GETSET on a key with a TTL   *)
(*                            were recorded without it: the accepting node *)
(*                            let the key expire, its peers kept it        *)
(***************************************************************************)
EXTENDS CrdtOps, Naturals, Sequences, FiniteSets, TLC

CONSTANTS Node, Val, Field, MaxCmds, MaxDup, MaxAE, CmdKinds

VARIABLES rs,      \* node -> RV | None
          served,  \* node -> [t, v, h]
          clk,     \* node -> Lamport time
          net,     \* set of messages [to, from, seq, rv] in flight
          ncmds, ndup, nsent, nae

vars == <<rs, served, clk, net, ncmds, ndup, nsent, nae>>
Dev(d) == d \in AsBuilt

NoH == [f \in {} |-> ""]
(* e: the TTL the served string carries (relative milliseconds as given by the command, -1 = none); the clocks of the  *)
(* nodes under test stand still, so the TTL a node reports for a key is the TTL it was given                           *)
SNone == [t |-> "none", v |-> "", h |-> NoH, e |-> -1]
SStrE(v, e) == [t |-> "str", v |-> v, h |-> NoH, e |-> e]
SStr(v) == SStrE(v, -1)
SHash(h) == IF DOMAIN h = {} THEN SNone ELSE [t |-> "hash", v |-> "", h |-> h, e |-> -1]

(* what the replication state says clients should be served *)
Served(x) ==
  IF IsNone(x) THEN SNone
  ELSE IF x.c.k = "lww" THEN (IF LwwLive(x.c.l) THEN SStrE(x.c.l.v, x.exp) ELSE SNone)
  ELSE IF x.c.k = "hash" THEN SHash([f \in {g \in DOMAIN x.c.h : LwwLive(x.c.h[g])} |-> x.c.h[f].v])
  ELSE SNone

Init == /\ rs = [n \in Node |-> None] /\ served = [n \in Node |-> SNone]
        /\ clk = [n \in Node |-> 0] /\ net = {} /\ ncmds = 0 /\ ndup = 0 /\ nsent = 0 /\ nae = 0

CurRs(n) == IF IsNone(rs[n]) THEN Fresh(n) ELSE rs[n]
Incr(v) == CASE v = "1" -> "2" [] v = "2" -> "3" [] v = "3" -> "4" [] OTHER -> "err"

(* the local effect of a command on what is served: [ok, s'] *)
Exec(s, cmd) ==
  CASE cmd.op = "set"    -> [ok |-> TRUE, s |-> SStrE(cmd.v, cmd.e)]
    [] cmd.op = "setnx"  -> IF s.t = "none" THEN [ok |-> TRUE, s |-> SStr(cmd.v)] ELSE [ok |-> FALSE, s |-> s]
    [] cmd.op = "setxx"  -> IF s.t # "none" THEN [ok |-> TRUE, s |-> SStr(cmd.v)] ELSE [ok |-> FALSE, s |-> s]
    [] cmd.op = "getset" -> IF s.t = "hash" THEN [ok |-> FALSE, s |-> s] ELSE [ok |-> TRUE, s |-> SStrE(cmd.v, s.e)]   \* as built: keeps the TTL
    [] cmd.op = "del"    -> [ok |-> s.t # "none", s |-> SNone]
    [] cmd.op = "incr"   -> IF s.t = "none" THEN [ok |-> TRUE, s |-> SStr("1")]
                            ELSE IF s.t = "str" /\ Incr(s.v) # "err" THEN [ok |-> TRUE, s |-> SStrE(Incr(s.v), s.e)]
                            ELSE [ok |-> FALSE, s |-> s]
    [] cmd.op = "append" -> IF s.t = "hash" THEN [ok |-> FALSE, s |-> s]
                            ELSE [ok |-> TRUE, s |-> SStrE((IF s.t = "str" THEN s.v ELSE "") \o cmd.v, s.e)]
    [] cmd.op = "hset"   -> IF s.t = "str" THEN [ok |-> FALSE, s |-> s]
                            ELSE [ok |-> TRUE, s |-> SHash([f \in DOMAIN s.h \cup {cmd.f} |-> IF f = cmd.f THEN cmd.v ELSE s.h[f]])]
    [] cmd.op = "hdel"   -> IF s.t = "hash" /\ cmd.f \in DOMAIN s.h
                            THEN [ok |-> TRUE, s |-> SHash([f \in DOMAIN s.h \ {cmd.f} |-> s.h[f]])]
                            ELSE [ok |-> FALSE, s |-> s]

(* the replication record derived from the command and its outcome; "none" = nothing recorded *)
Record(n, cmd, ex, t) ==
  LET x == CurRs(n)
      has == ~IsNone(rs[n])
  IN CASE cmd.op \in {"set", "setxx"} ->
            IF ex.ok THEN OpSet(x, n, t, cmd.v, cmd.e) ELSE None
       [] cmd.op = "setnx" ->
            IF ex.ok \/ (Dev("nx_records_unapplied") /\ served[n].t = "str") THEN OpSet(x, n, t, cmd.v, cmd.e) ELSE None
       [] cmd.op \in {"getset", "incr", "append"} ->
            \* these commands keep the TTL of a live key on the node that runs them (GETSET as built, see C01's finding
            \* getset_keeps_ttl), so the record carries what remains of it; a key they create has none
            IF ex.ok THEN OpSet(x, n, t, ex.s.v, IF has /\ x.c.k = "lww" /\ LwwLive(x.c.l) /\ ~Dev("rmw_drops_ttl") THEN x.exp ELSE -1) ELSE None
       [] cmd.op = "del" ->
            IF ~has THEN None
            ELSE IF x.c.k = "lww" \/ ~Dev("del_hash_noop")
                 THEN [x EXCEPT !.c = CLww(LwwDel(Stamp(t, n))), !.ts = Stamp(t, n)]
                 ELSE x
       [] cmd.op = "hset" ->
            IF ex.ok \/ Dev("error_recorded") THEN OpHSet(x, n, t, cmd.f, cmd.v) ELSE None
       [] cmd.op = "hdel" ->
            IF has /\ x.c.k = "hash" /\ cmd.f \in DOMAIN x.c.h THEN OpHDel(x, n, t, cmd.f)
            ELSE IF has /\ x.c.k = "hash" THEN [x EXCEPT !.ts = Stamp(t - 1, n)]   \* as built: re-stamped, clock not ticked, still sent
            ELSE None

(* whether recording ticked the clock (the as-built no-op delete of a hash does not) *)
Ticks(n, cmd, rec) == /\ ~IsNone(rec) /\ ~(cmd.op = "del" /\ rec = CurRs(n))
                      /\ ~(cmd.op = "hdel" /\ cmd.f \notin DOMAIN CurRs(n).c.h)

ClientWith(n, cmd, ex) ==
  /\ ncmds < MaxCmds
  /\ cmd.op \in CmdKinds
  /\ LET rec == Record(n, cmd, ex, clk[n] + 1)
     IN /\ served' = [served EXCEPT ![n] = ex.s]
        /\ IF IsNone(rec) THEN UNCHANGED <<rs, clk, net, nsent>>
           ELSE /\ rs' = [rs EXCEPT ![n] = rec]
                /\ clk' = [clk EXCEPT ![n] = IF Ticks(n, cmd, rec) THEN @ + 1 ELSE @]
                /\ net' = net \cup {[to |-> m, from |-> n, seq |-> nsent + 1, rv |-> rec] : m \in Node \ {n}}
                /\ nsent' = nsent + 1
  /\ ncmds' = ncmds + 1
  /\ UNCHANGED <<ndup, nae>>

Client(n, cmd) == ClientWith(n, cmd, Exec(served[n], cmd))

(* what the executor serves after a remote merge, as the code recomputes it from the merged value *)
AfterMerge(s, merged) ==
  IF merged.c.k = "hash" /\ s.t = "str" /\ Dev("remote_hash_over_string") THEN s
  ELSE IF merged.c.k = "hash" THEN Served(merged)
  ELSE IF LwwLive(merged.c.l) THEN SStrE(merged.c.l.v, merged.exp)
  ELSE IF merged.c.l.tomb THEN SNone
  ELSE s

Apply(n, rv) ==
  LET merged == IF IsNone(rs[n]) THEN rv ELSE Merge(rs[n], rv) IN
  /\ rs' = [rs EXCEPT ![n] = merged]
  /\ clk' = [clk EXCEPT ![n] = MaxN(@, rv.ts[1]) + 1]
  /\ served' = [served EXCEPT ![n] = AfterMerge(served[n], merged)]

(* loss followed by redelivery is a (long) delay: messages stay in `net' until delivered *)
Deliver(m) == /\ m \in net /\ Apply(m.to, m.rv) /\ net' = net \ {m}
              /\ UNCHANGED <<ncmds, ndup, nsent, nae>>
Dup(m)     == /\ m \in net /\ ndup < MaxDup /\ Apply(m.to, m.rv) /\ ndup' = ndup + 1
              /\ UNCHANGED <<net, ncmds, nsent, nae>>
(* anti-entropy: b receives a's current value of the key *)
AntiEntropy(a, b) == /\ a # b /\ ~IsNone(rs[a]) /\ nae < MaxAE /\ Apply(b, rs[a]) /\ nae' = nae + 1
                     /\ UNCHANGED <<net, ncmds, ndup, nsent>>

C(o, v, f, e) == [op |-> o, v |-> v, f |-> f, e |-> e]
Cmds == {c \in
          {C("set", v, "", e) : v \in Val, e \in {-1, 5000}}
          \cup {C(o, v, "", -1) : o \in {"setnx", "setxx", "getset", "append"}, v \in Val}
          \cup {C(o, "", "", -1) : o \in {"del", "incr"}}
          \cup {C("hset", v, f, -1) : v \in Val, f \in Field}
          \cup {C("hdel", "", f, -1) : f \in Field}
        : c.op \in CmdKinds}
Next ==
  \/ \E n \in Node, c \in Cmds : Client(n, c)
  \/ \E m \in net : Deliver(m) \/ Dup(m)
  \/ \E a, b \in Node : AntiEntropy(a, b)
Spec == Init /\ [][Next]_vars

---------------------------------------------------------------------------
ObsN(x) == IF IsNone(x) THEN None ELSE Obs(x)
ServedIsState == \A n \in Node : served[n] = Served(rs[n])
Quiescent == net = {}
Converged == Quiescent => \A a, b \in Node : ObsN(rs[a]) = ObsN(rs[b]) /\ served[a] = served[b]
=============================================================================
