---------------------------- MODULE MCEntryPaths ----------------------------
EXTENDS EntryPaths
MCLeaves == {[t |-> "simple", b |-> <<79, 75>>, a |-> <<>>], [t |-> "error", b |-> <<69>>, a |-> <<>>], [t |-> "int", b |-> <<49>>, a |-> <<>>],
             [t |-> "bulk", b |-> <<>>, a |-> <<>>], [t |-> "nullbulk", b |-> <<>>, a |-> <<>>], [t |-> "nullarray", b |-> <<>>, a |-> <<>>]}
VARIABLE x
Init == x = 0
Next == x' = x
Spec == Init /\ [][Next]_x
Inv == ConvIdempotent /\ ConvIdentityOnNilFree /\ ConvKeepsKind /\ ConvShortens
=============================================================================
