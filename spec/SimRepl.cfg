SPECIFICATION HSpec
CONSTANTS
  Node = {1, 2}
  Val = {"1", "x"}
  Field = {"f", "g"}
  MaxCmds = 2
  MaxDup = 1
  MaxAE = 0
  CmdKinds = {"set", "setnx", "setxx", "getset", "del", "incr", "append", "hset", "hdel"}
  AsBuilt = {}
VIEW View
INVARIANT Export
CHECK_DEADLOCK FALSE
