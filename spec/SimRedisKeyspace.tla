------------------------- MODULE SimRedisKeyspace -------------------------
(* Scenario export for RedisKeyspace: one witness sequence of commands and clock *)
(* ticks per distinct reachable (keyspace, time) of the MC model.                *)
EXTENDS MCRedisKeyspace, Json
VARIABLE hist
HInit == Init /\ hist = <<>>
HNext == /\ steps < MaxSteps
         /\ \/ \E c \in Cmds : Exec(c) /\ hist' = Append(hist, [c |-> c])
            \/ Tick /\ hist' = Append(hist, [tick |-> 1])
HSpec == HInit /\ [][HNext]_<<vars, hist>>
View == <<st, now, steps>>
Export == (steps = MaxSteps) => PrintT(<<"SCN", ToJson(hist)>>)
=============================================================================
