SPECIFICATION TraceSpec
CONSTANTS
  Key = {"a", "b", "key:with:colons"}
  MaxT = 100000
  MaxWrites = 100000
  MaxCrash = 100000
  MaxRemote = 100000
  AsBuilt = {}
CHECK_DEADLOCK FALSE
