\* ideal controller: 4 writers, 2 entries per file, batches <= 3, <= 2 faults anywhere
SPECIFICATION Spec
CONSTANTS
  Writers = {1, 2, 3, 4}
  Cap = 2
  MaxBatch = 3
  MaxFaults = 2
  AsBuilt = {}
INVARIANTS TypeOK AckedIsDurable PendingAreAppended
PROPERTY Answered
CHECK_DEADLOCK FALSE
