SPECIFICATION TraceSpec
CONSTANTS
  ModelChecks = TRUE
  TolerateOps = {"RENAME", "LMOVE", "MSETNX"}
CHECK_DEADLOCK FALSE
