SPECIFICATION TraceSpec
CONSTANTS
  Writers = {1, 2, 3, 4, 5, 6, 7, 8}
  Cap = 2
  MaxBatch = 3
  MaxFaults = 0
  AsBuilt = {}
CHECK_DEADLOCK FALSE
