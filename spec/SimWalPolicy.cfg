SPECIFICATION Spec
CONSTANTS
  MaxOps = 3
  Policies = {"always", "everysec", "no"}
  Caps = {1, 2}
  Patterns <- PatQ
  Th <- ThDef
  Alphabet = {"w", "k", "y", "t1", "t2"}
INVARIANT Export
CHECK_DEADLOCK FALSE
