SPECIFICATION TraceSpec
CONSTANTS
  Cmd = {"GET", "SET", "SADD", "FLUSHALL"}
  Cats = {"read", "write", "set", "dangerous"}
  Pw = {"p1", "p2"}
  Pat = {"user:*", "k"}
  MaxRules = 0
  AsBuilt = {"deny_sticky", "denycat_sticky", "nopass_sticky"}
  CatOf <- TCatOf
  PatMatches <- TMatches
CHECK_DEADLOCK FALSE
