SPECIFICATION Spec
CONSTANTS
  Seeds = {1, 2, 3}
  MaxSteps = 3
  Ambients = {0, 1}
  AsBuilt = {"leftover"}
INVARIANTS Reproducible PrefixAgree
CHECK_DEADLOCK FALSE
