----------------------------- MODULE ImageTrace -----------------------------
(* Case validation for C14: round trips through the four codecs and damaged    *)
(* images read by the real readers, judged with ImageLayout.tla.               *)
EXTENDS ImageLayout, Json, IOUtils
Rec == ndJsonDeserialize(IOEnv.TRACE)
VARIABLES l
Verdict(ev, what) == PrintT(<<"VERDICT", ToJson([run |-> ev.run, l |-> l, v |-> "bad", what |-> what])>>)
Codecs == {"wal", "segment", "checkpoint", "gossip"}
JudgeRt(ev) ==
  LET bad == {i \in DOMAIN ev.res : ~ev.res[i].ok \/ ~ev.res[i].equal} IN
  IF {ev.res[i].codec : i \in DOMAIN ev.res} # Codecs THEN Verdict(ev, "a codec was not exercised")
  ELSE IF bad = {} THEN TRUE
  ELSE LET i == CHOOSE j \in bad : TRUE IN
       IF ~ev.res[i].ok THEN Verdict(ev, "a value did not survive the " \o ev.res[i].codec \o " encoding: " \o ev.res[i].err)
       ELSE Verdict(ev, "a value came back different from the " \o ev.res[i].codec \o " encoding")
JudgeDmg(ev) ==
  LET n == ev.lens[1]
      allowed == IF ev.kind = "none" THEN {"same"}
                 ELSE IF ev.kind = "cut" THEN AllowedCut(ev.fmt, n, ev.pos)
                 ELSE AllowedChange(ev.fmt, n, ev.pos, ev.pos + ev.width - 1) IN
  IF Total(ev.fmt, n) # ev.total THEN Verdict(ev, "the image does not have the layout of the specification")
  ELSE IF ev.class = "panic" THEN Verdict(ev, "a reader panicked on a damaged image")
  ELSE IF ev.class = "different" THEN Verdict(ev, "a damaged image was decoded into different data")
  ELSE IF ev.class \notin allowed THEN
       (IF ev.class = "error" THEN Verdict(ev, "an intact image was rejected")
        ELSE Verdict(ev, "damage inside a protected region was not reported"))
  ELSE TRUE
TraceInit == l = 1
TraceNext ==
  \/ /\ l <= Len(Rec)
     /\ LET ev == Rec[l] IN IF ev.t = "rt" THEN JudgeRt(ev) ELSE IF ev.t = "dmg" THEN JudgeDmg(ev) ELSE TRUE
     /\ l' = l + 1
  \/ l = Len(Rec) + 1 /\ PrintT(<<"VALIDATED", Len(Rec)>>) /\ l' = l + 1
TraceSpec == TraceInit /\ [][TraceNext]_l
=============================================================================
