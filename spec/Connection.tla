----------------------------- MODULE Connection -----------------------------
(***************************************************************************)
(* The read loop of OptimizedConnectionHandler::run at frame granularity   *)
(* (C04).  `wire' is the stream still to arrive, a sequence of frames; a   *)
(* read delivers some complete frames plus possibly a fragment of the next *)
(* (the fragment stays in `buf' as "partial").  After each read the        *)
(* handler runs, in program order: the GET collector, the SET collector    *)
(* (both only when the buffer is at least MinBuf frames long), then the    *)
(* sequential loop (fast-path recogniser or generic parser) until the      *)
(* buffer holds no complete frame, then flushes.                           *)
(* Which path executes a command is a free choice of the implementation;   *)
(* the property is about `out':                                            *)
(*   OneReplyEachInOrder  at every flush, out = <<reply of command i run   *)
(*                        alone after commands 1..i-1>> for all complete   *)
(*                        commands consumed so far                         *)
(*   MalformedAnswered    a malformed frame yields an error reply and      *)
(*                        leaves earlier replies untouched                 *)
(* As built (latent: the collectors never match today because their header *)
(* length constant is off by one): "collector_drops_below_threshold" - the *)
(* frames a collector consumed are dropped when fewer than Threshold.      *)
(***************************************************************************)
EXTENDS Naturals, Sequences, FiniteSets, TLC
CONSTANTS Frames,     \* the command universe: records [op, k, v]; op = "BAD" is a malformed frame
          MaxLen, Threshold, MinBuf, AsBuilt
Dev(d) == d \in AsBuilt

VARIABLES wire, buf, partial, out, kv, consumed, closed
vars == <<wire, buf, partial, out, kv, consumed, closed>>

Nil == "nil"
Keys == {"a", "b"}
(* tiny register/counter semantics: enough to tell replies apart *)
Reply(f, s) == CASE f.op = "GET" -> s[f.k] [] f.op = "SET" -> "OK" [] f.op = "INCR" -> (IF s[f.k] = Nil THEN "1" ELSE IF s[f.k] = "1" THEN "2" ELSE "err")
                 [] f.op = "PING" -> "PONG" [] OTHER -> "protocol error"
Apply(f, s) == CASE f.op = "SET" -> [s EXCEPT ![f.k] = f.v]
                 [] f.op = "INCR" -> (IF s[f.k] = Nil THEN [s EXCEPT ![f.k] = "1"] ELSE IF s[f.k] = "1" THEN [s EXCEPT ![f.k] = "2"] ELSE s)
                 [] OTHER -> s
RECURSIVE Expected(_, _)
Expected(fs, s) == IF fs = <<>> THEN <<>> ELSE <<Reply(Head(fs), s)>> \o Expected(Tail(fs), Apply(Head(fs), s))

Init == /\ wire \in UNION {[1..n -> Frames] : n \in 1..MaxLen}
        /\ buf = <<>> /\ partial = FALSE /\ out = <<>> /\ kv = [k \in Keys |-> Nil] /\ consumed = <<>> /\ closed = FALSE

(* longest prefix of buf made of frames with operation op *)
RECURSIVE PrefixLen(_, _)
PrefixLen(b, op) == IF b = <<>> \/ Head(b).op # op THEN 0 ELSE 1 + PrefixLen(Tail(b), op)
RECURSIVE RunAll(_, _)
RunAll(fs, s) == IF fs = <<>> THEN s ELSE RunAll(Tail(fs), Apply(Head(fs), s))

(* one read: n complete frames arrive, possibly followed by a fragment; then the whole processing of run() *)
Process(b0) ==
  LET collect(b, op, s, o, c) ==   \* [b, s, o, c] after one collector
        LET n == PrefixLen(b, op)
            taken == SubSeq(b, 1, n)
            rest == SubSeq(b, n + 1, Len(b))
        IN IF Len(b) < MinBuf \/ n = 0 THEN [b |-> b, s |-> s, o |-> o, c |-> c]
           ELSE IF n >= Threshold THEN [b |-> rest, s |-> RunAll(taken, s), o |-> o \o Expected(taken, s), c |-> c \o taken]
           ELSE IF Dev("collector_drops_below_threshold") THEN [b |-> rest, s |-> s, o |-> o, c |-> c \o taken]   \* consumed, never answered
           ELSE [b |-> b, s |-> s, o |-> o, c |-> c]
      g == collect(b0, "GET", kv, out, consumed)
      t == collect(g.b, "SET", g.s, g.o, g.c)
      (* sequential loop: frames up to and including the first malformed one *)
      badAt == IF \E i \in DOMAIN t.b : t.b[i].op = "BAD" THEN CHOOSE i \in DOMAIN t.b : t.b[i].op = "BAD" /\ \A j \in 1..(i - 1) : t.b[j].op # "BAD" ELSE 0
      seqFs == IF badAt = 0 THEN t.b ELSE SubSeq(t.b, 1, badAt)
  IN [s |-> RunAll(seqFs, t.s), o |-> t.o \o Expected(seqFs, t.s), c |-> t.c \o seqFs, bad |-> badAt # 0]

Read(n, frag) ==
  /\ ~closed /\ wire # <<>> /\ n \in 0..Len(wire) /\ (n > 0 \/ frag)
  /\ (frag => n < Len(wire))
  /\ (partial => n > 0)                 \* a pending fragment is completed by the next read
  /\ LET arrived == SubSeq(wire, 1, n)
         p == Process(arrived)     \* `partial' only delays: a fragment is completed by a later read
     IN /\ wire' = SubSeq(wire, n + 1, Len(wire))
        /\ partial' = frag
        /\ kv' = p.s /\ out' = p.o /\ consumed' = p.c
        /\ buf' = <<>>
        /\ closed' = closed
Next == \E n \in 0..MaxLen, frag \in BOOLEAN : Read(n, frag)
Spec == Init /\ [][Next]_vars

(* after every flush *)
RECURSIVE UpToBad(_)
UpToBad(fs) == IF fs = <<>> THEN <<>> ELSE IF Head(fs).op = "BAD" THEN <<Head(fs)>> ELSE <<Head(fs)>> \o UpToBad(Tail(fs))
OneReplyEachInOrder == out = Expected(consumed, [k \in Keys |-> Nil]) /\ Len(out) = Len(consumed)
NothingSwallowed == wire = <<>> /\ ~partial => Len(consumed) >= Len(UpToBad(consumed))
=============================================================================
