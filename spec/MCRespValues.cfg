SPECIFICATION SpecV
CONSTANTS
  MaxDepth = 3
  Alphabet = {}
  MaxLen = 0
INVARIANTS RoundTrip
CHECK_DEADLOCK FALSE
