------------------------------- MODULE MCAcl -------------------------------
EXTENDS Acl
(* the repository's own category table (src/security/acl/user.rs), restricted to the command universe *)
MCCatOf == [k \in Cats |-> CASE k = "read" -> {"GET"} \cap Cmd
                             [] k = "write" -> {"SET", "SADD"} \cap Cmd
                             [] k = "set" -> {"SADD"} \cap Cmd
                             [] k = "dangerous" -> {"FLUSHALL"} \cap Cmd]
MCMatches(p, key) == (p = "user:*" /\ key = "user:1") \/ p = key
=============================================================================
