SPECIFICATION TraceSpec
CONSTANTS
  Node = {1, 2, 3, 4}
  Val = {}
  Field = {}
  MaxCmds = 100000
  MaxDup = 100000
  MaxAE = 100000
  CmdKinds = {"set", "setnx", "setxx", "getset", "del", "incr", "append", "hset", "hdel"}
  AsBuilt = {}
CHECK_DEADLOCK FALSE
