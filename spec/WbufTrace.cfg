SPECIFICATION TraceSpec
CONSTANTS
  Deltas = {}
  MaxFaults = 0
  MaxSelect = 2
  GcBefore = 0
  Concurrent = FALSE
  WithCheckpoint = FALSE
  OrderedPush = FALSE
  AsBuilt = {}
INVARIANT Dropped
CHECK_DEADLOCK FALSE
