------------------------------ MODULE SimCrdt ------------------------------
(* Scenario export for Crdt: one witness operation sequence per distinct    *)
(* reachable configuration (hist is hidden from the state identity by VIEW),*)
(* printed as JSON for replay against the real ReplicatedValue / clocks.    *)
EXTENDS Crdt, Json
CONSTANT MaxSteps, MinSteps
VARIABLE hist

HInit == Init /\ hist = <<>>
H(ev) == hist' = Append(hist, ev)

HNext ==
  \/ \E r \in Replica, v \in Val, e \in {-1, 5, 9} :
       DoSet(r, v, e) /\ H([a |-> "set", r |-> r, v |-> v, e |-> e])
  \/ \E r \in Replica : DoDel(r) /\ H([a |-> "del", r |-> r])
  \/ \E r \in Replica, f \in Field, v \in Val :
       DoHSet(r, f, v) /\ H([a |-> "hset", r |-> r, f |-> f, v |-> v])
  \/ \E r \in Replica, f \in Field : DoHDel(r, f) /\ H([a |-> "hdel", r |-> r, f |-> f])
  \/ \E r \in Replica, n \in {1, 2} :
       \/ DoGcInc(r, n) /\ H([a |-> "gcinc", r |-> r, n |-> n])
       \/ DoPnInc(r, n) /\ H([a |-> "pninc", r |-> r, n |-> n])
       \/ DoPnDec(r, n) /\ H([a |-> "pndec", r |-> r, n |-> n])
  \/ \E r \in Replica, e \in Elem :
       \/ DoGsAdd(r, e) /\ H([a |-> "gsadd", r |-> r, x |-> e])
       \/ DoOrAdd(r, e) /\ H([a |-> "oradd", r |-> r, x |-> e])
       \/ DoOrRem(r, e) /\ H([a |-> "orrem", r |-> r, x |-> e])
  \/ \E r, s \in Replica : MergeFrom(r, s) /\ H([a |-> "merge", r |-> r, s |-> s])

HSpec == HInit /\ [][HNext]_<<vars, hist>>
View == vars
StepBound == steps < MaxSteps
Export == (steps >= MinSteps /\ steps < MaxSteps) => PrintT(<<"SCN", ToJson(hist)>>)
=============================================================================
