------------------------------- MODULE KsTrace -------------------------------
(* Trace validation for C01 / C17 (and, with several shards behind the same    *)
(* interface, C03): every recorded command with its reply and the full visible *)
(* keyspace after it (key, type, value, deadline) at the recorded instant.      *)
(* The previous recorded keyspace is the pre-state, so every step is judged on  *)
(* its own:  Do(cmd, pre, now) must give the recorded reply and keyspace;       *)
(* independently of Do, a step whose recorded reply is an error, or whose       *)
(* command the code classifies as read-only, must leave the keyspace unchanged. *)
EXTENDS RedisKeyspace, Json, IOUtils
CONSTANTS ModelChecks,     \* FALSE: only the model-independent rules of C17 are judged
          TolerateOps      \* ops whose model conformance is a listed finding (deviation configs only)
Rec == ndJsonDeserialize(IOEnv.TRACE)
VARIABLES l, run, pre,
          known   \* ids of the scripts in the script cache (RedisKeyspace!DoScript)
RangeQ(q) == {q[i] : i \in DOMAIN q}

JVal(t, v) == CASE t = "string" -> v
                [] t = "list" -> v
                [] t = "set" -> RangeQ(v)
                [] t = "hash" -> [f \in {p[1] : p \in RangeQ(v)} |-> (CHOOSE p \in RangeQ(v) : p[1] = f)[2]]
                [] t = "zset" -> [m \in {p[1] : p \in RangeQ(v)} |-> (CHOOSE p \in RangeQ(v) : p[1] = m)[2]]
                [] OTHER -> v
JState(s) == [k \in {e[1] : e \in RangeQ(s)} |->
                LET e == CHOOSE x \in RangeQ(s) : x[1] = k IN Entry(e[2], JVal(e[2], e[3]), e[4])]

ErrClass(b) == LET sp == {i \in DOMAIN b : b[i] = 32} IN
               IF sp = {} THEN b ELSE SubSeq(b, 1, (CHOOSE i \in sp : \A j \in sp : i <= j) - 1)
CountEq(q, x) == Cardinality({i \in DOMAIN q : q[i] = x})
RECURSIVE ReplyOk(_, _)
ReplyOk(exp, got) ==
  CASE exp.t = "error" -> got.t = "error" /\ ErrClass(got.b) = exp.b
    [] exp.t = "unordered" -> got.t = "array" /\ Len(got.a) = Cardinality(exp.a) /\ RangeQ(got.a) = exp.a
    [] exp.t = "pairs" -> /\ got.t = "array" /\ Len(got.a) = 2 * Cardinality(exp.a)
                          /\ {<<got.a[2 * i - 1].b, got.a[2 * i].b>> : i \in 1..(Len(got.a) \div 2)} = exp.a
                          /\ \A i \in DOMAIN got.a : got.a[i].t = "bulk"
    [] exp.t = "bag" -> /\ got.t = "array" /\ Len(got.a) = Cardinality(exp.a)
                        /\ \A i \in DOMAIN got.a : got.a[i].t = "bulk" /\ CountEq([j \in DOMAIN got.a |-> got.a[j].b], got.a[i].b) = Cardinality({p \in exp.a : p[2] = got.a[i].b})
    [] exp.t = "array" -> got.t = "array" /\ Len(got.a) = Len(exp.a) /\ \A i \in DOMAIN exp.a : ReplyOk(exp.a[i], got.a[i])
    [] OTHER -> got = exp

(* C16: the command was issued by a one-line script through redis.call / redis.pcall.  The reply *)
(* goes RESP -> Lua -> RESP (EntryPaths!Conv): a null array becomes a null bulk and an array is  *)
(* read up to its first null element; redis.call turns an error reply into a script error that   *)
(* carries the original text.                                                                    *)
IsNilR(r) == r.t \in {"nullbulk", "nullarray"}
RECURSIVE ConvExp(_), ConvExpSeq(_)
ConvExp(exp) == IF exp.t = "array" THEN [exp EXCEPT !.a = ConvExpSeq(exp.a)]
                ELSE IF exp.t = "nullarray" THEN RNil ELSE exp
ConvExpSeq(q) == IF q = <<>> \/ IsNilR(Head(q)) THEN <<>> ELSE <<ConvExp(Head(q))>> \o ConvExpSeq(Tail(q))
ContainsB(hay, needle) == \E i \in 0..(Len(hay) - Len(needle)) : SubSeq(hay, i + 1, i + Len(needle)) = needle
ViaOf(ev) == IF "via" \in DOMAIN ev THEN ev.via ELSE "direct"
ReplyOkVia(via, exp, got) ==
  IF via = "direct" THEN ReplyOk(exp, got)
  ELSE IF via = "call" /\ exp.t = "error" THEN got.t = "error" /\ ContainsB(got.b, exp.b)
  ELSE ReplyOk(ConvExp(exp), got)

Verdict(ev, what) == PrintT(<<"VERDICT", ToJson([run |-> run, l |-> l, v |-> "bad", what |-> what, op |-> ev.c.op])>>)

VerdictDev(ev, id) == PrintT(<<"VERDICT", ToJson([run |-> run, l |-> l, v |-> id, what |-> "known deviation " \o id, op |-> ev.c.op])>>)

Judge(ev) ==
  LET now == ev.now
      before == Live(pre, now)
      after == JState(ev.s)
  IN IF "panic" \in DOMAIN ev THEN Verdict(ev, "panic in the executor")
     ELSE IF ev.r.t = "error" /\ ~StateEq(before, after) THEN Verdict(ev, "a command that replied with an error changed the keyspace")
     ELSE IF ev.ro /\ ~StateEq(before, after) THEN Verdict(ev, "a command classified read-only changed the keyspace")
     ELSE IF \E k \in DOMAIN after : IsEmptyColl(after[k].t, after[k].v) /\ ~(k \in DOMAIN before /\ IsEmptyColl(before[k].t, before[k].v))
          THEN Verdict(ev, "an empty collection came into existence")
     ELSE IF ev.c.op = "OTHER" THEN TRUE
     ELSE IF ev.ro /\ ev.c.op \notin ReadOnlyOps THEN Verdict(ev, "the code classifies as read-only a command that the model says may write")
     ELSE IF ~ModelChecks \/ ev.c.op \in TolerateOps THEN TRUE
     ELSE IF ev.c.op = "SORT" /\ SortLoose(ev.c, Live(pre, ev.now)) THEN TRUE
     ELSE IF ev.c.op = "INCRBYFLOAT" /\ IncrFloatLoose(ev.c, Live(pre, ev.now)) THEN TRUE     \* the current value is a float in some syntax the model does not read
     ELSE LET alts == DoAlts(ev.c, pre, now)
              Match(res) == ReplyOkVia(ViaOf(ev), res.r, ev.r) /\ StateEq(Live(res.s, now), after)
              (* the fast / pooled / batched GET does not advance the shard's clock: it still sees a key whose *)
              (* deadline passed since the last generic command on that shard                              *)
              stale == IF /\ "path" \in DOMAIN ev /\ ev.path # "generic" /\ ev.c.op = "GET"
                          /\ ev.c.k \in DOMAIN pre /\ pre[ev.c.k].exp # -1 /\ pre[ev.c.k].exp <= now
                          (* ... but not right after the TTL manager's tick at this very instant: the tick visits every shard *)
                          /\ ~("ticked" \in DOMAIN ev /\ ev.ticked)
                       THEN {[id |-> "fast_path_stale_clock", res |-> Res(DoGet(ev.c, pre).r, Live(pre, now))]} ELSE {}
              devs == {d \in DevAlts(ev.c, pre, now) \cup stale : Match(d.res)}
          IN
          IF \E res \in alts : Match(res) THEN TRUE
          ELSE IF devs # {} THEN VerdictDev(ev, (CHOOSE d \in devs : TRUE).id)
          ELSE IF \A res \in alts : ~ReplyOkVia(ViaOf(ev), res.r, ev.r) THEN Verdict(ev, "reply differs from the Redis model")
          ELSE Verdict(ev, "keyspace after the command differs from the Redis model")

(* script cache commands: the reply and the keyspace are the model's; an EVAL / EVALSHA reply went through Lua *)
IsHex40(b) == Len(b) = 40 /\ \A i \in DOMAIN b : (b[i] >= 48 /\ b[i] <= 57) \/ (b[i] >= 97 /\ b[i] <= 102)
JudgeScript(ev) ==
  LET now == ev.now
      before == Live(pre, now)
      after == JState(ev.s)
      x == DoScript(ev.c, pre, known, now)
      viaLua == ev.c.op \in {"EVAL", "EVALSHA"} /\ x.r # NOSCRIPT
  IN IF "panic" \in DOMAIN ev THEN Verdict(ev, "panic in the executor")
     ELSE IF ev.r.t = "error" /\ ~StateEq(before, after) THEN Verdict(ev, "a command that replied with an error changed the keyspace")
     ELSE IF ~ModelChecks THEN TRUE
     ELSE IF x.r.t = "sha" /\ ~(ev.r.t = "bulk" /\ IsHex40(ev.r.b)) THEN Verdict(ev, "SCRIPT LOAD did not answer with a digest")
     ELSE IF x.r.t # "sha" /\ ~ReplyOkVia(IF viaLua THEN "call" ELSE "direct", x.r, ev.r)
          THEN Verdict(ev, "reply of a script-cache command differs from the model (a script is cached by SCRIPT LOAD and EVAL until SCRIPT FLUSH, on every shard)")
     ELSE IF ~StateEq(Live(x.s, now), after) THEN Verdict(ev, "keyspace after a script differs from the Redis model")
     ELSE TRUE

TraceInit == l = 1 /\ run = 0 /\ pre = [k \in {} |-> 0] /\ known = {}
TraceNext ==
  \/ /\ l <= Len(Rec)
     /\ LET ev == Rec[l] IN
          IF ev.a = "reset" THEN run' = ev.run /\ pre' = [k \in {} |-> 0] /\ known' = {}
          ELSE IF ev.a = "nodecmd" THEN  \* node level (WAL on a misbehaving disk): an error reply and a changed value do not go together
               /\ run' = run /\ pre' = pre /\ known' = known
               /\ (ev.err /\ ev.before # ev.after =>
                     PrintT(<<"VERDICT", ToJson([run |-> run, l |-> l, v |-> "bad", op |-> "NODE",
                                                 what |-> "a command that the node answered with an error changed what the node serves"])>>))
          ELSE IF ev.a = "mass" THEN     \* n keys with the same deadline, the clock jumps, one persistent key stays
               /\ run' = run /\ pre' = pre /\ known' = known
               /\ LET due == ev.jump >= ev.ttl
                      want == IF due THEN 1 ELSE ev.n + 1 IN
                  (("panic" \in DOMAIN ev \/ ev.dbsize # want \/ (due /\ ev.alive # 0) \/ ev.persistent # 0 \/ ev.later # 1 \/ ev.held > want) =>
                     PrintT(<<"VERDICT", ToJson([run |-> run, l |-> l, v |-> "bad", op |-> "SET PX",
                                                 what |-> "after many deadlines passed at once, keys are still visible, have lost their deadline, or are still held"])>>))
          ELSE IF ev.a = "scanall" THEN
               /\ run' = run /\ pre' = pre /\ known' = known
               /\ (RangeQ(ev.returned) # RangeQ(ev.keys) =>
                     PrintT(<<"VERDICT", ToJson([run |-> run, l |-> l, v |-> "bad", op |-> "SCAN",
                                                 what |-> "a full SCAN iteration did not return exactly the keys of the keyspace"])>>))
          ELSE IF ev.a = "scanpair" THEN    \* C03 read literally for the one command whose single reply the model leaves free
               /\ run' = run /\ pre' = pre /\ known' = known
               /\ (ev.one # ev.many =>
                     PrintT(<<"VERDICT", ToJson([run |-> run, l |-> l, v |-> "bad", op |-> "SCAN",
                                                 what |-> "one SCAN call is answered differently by a 1-shard and an N-shard server holding the same keys"])>>))
          ELSE IF ev.a = "twin" THEN        \* C03 read literally, for any command (also those outside the model): same reply from 1 and N shards
               /\ run' = run /\ pre' = pre /\ known' = known
               /\ (ev.r1 # ev.rn =>
                     PrintT(<<"VERDICT", ToJson([run |-> run, l |-> l, v |-> "bad", op |-> "TWIN",
                                                 what |-> "a command is answered differently by a 1-shard and an N-shard server after the same history"])>>))
          ELSE IF ev.a = "twinend" THEN
               /\ run' = run /\ pre' = pre /\ known' = known
               /\ (ev.s1 # ev.sn =>
                     PrintT(<<"VERDICT", ToJson([run |-> run, l |-> l, v |-> "bad", op |-> "TWIN",
                                                 what |-> "a 1-shard and an N-shard server end with different keyspaces after the same command sequence"])>>))
          ELSE IF ev.c.op \in ScriptOps THEN
               /\ JudgeScript(ev) /\ run' = run /\ pre' = JState(ev.s)
               /\ known' = DoScript(ev.c, pre, known, ev.now).kn
          ELSE Judge(ev) /\ run' = run /\ pre' = JState(ev.s) /\ known' = known
     /\ l' = l + 1
  \/ l = Len(Rec) + 1 /\ PrintT(<<"VALIDATED", Len(Rec)>>) /\ l' = l + 1 /\ UNCHANGED <<run, pre, known>>
TraceSpec == TraceInit /\ [][TraceNext]_<<l, run, pre, known>>
=============================================================================
