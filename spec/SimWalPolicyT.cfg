SPECIFICATION Spec
CONSTANTS
  MaxOps = 5
  Policies = {"always", "everysec", "no"}
  Caps = {1, 2}
  Patterns <- PatT
  Th <- ThDef
  Alphabet = {"w", "k", "y", "t1", "t2"}
INVARIANT Export
CHECK_DEADLOCK FALSE
