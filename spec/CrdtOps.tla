----------------------------- MODULE CrdtOps -----------------------------
(***************************************************************************)
(* Replicated values of nerdsane/redis-rust (src/replication/lattice.rs,   *)
(* state/crdt_value.rs, state/replicated_value.rs) and their merge.        *)
(*                                                                         *)
(* A value is RV = [c : crdt, vc, exp, ts, rf].  `Merge' is written the    *)
(* way property C07 demands it: a join.  The two places where the code as  *)
(* built deviates are named switches (constant AsBuilt):                   *)
(*   "stamp_keeps_self_replica"  outer stamp = [max time, SELF replica]    *)
(*   (the type-mismatch rule "winner by outer stamp" is what the code does *)
(*    and is part of the spec: MC shows it is commutative and idempotent   *)
(*    but NOT associative - see MCCrdt.cfg / MCCrdtMismatch.cfg).          *)
(*                                                                         *)
(* The module also contains the one-key replica state machine that         *)
(* generates the values replicas can produce (LocalOp / MergeFrom), used   *)
(* by MCCrdt (laws as invariants over every reachable configuration),      *)
(* by the scenario export and by CrdtTrace (trace validation).             *)
(***************************************************************************)
EXTENDS Naturals, Integers, Sequences, FiniteSets, TLC

CONSTANT AsBuilt       \* set of enabled as-built deviations

None == [absent |-> TRUE]
IsNone(v) == "absent" \in DOMAIN v

---------------------------------------------------------------------------
(* Stamps: (logical time, replica id), totally ordered lexicographically.  *)
Stamp(t, r) == <<t, r>>
SLess(a, b) == a[1] < b[1] \/ (a[1] = b[1] /\ a[2] < b[2])
SMax(a, b)  == IF SLess(a, b) THEN b ELSE a
MaxN(a, b)  == IF a < b THEN b ELSE a

(* Join of the outer stamps. *)
StampJoin(a, b) ==
  IF "stamp_keeps_self_replica" \in AsBuilt
  THEN <<MaxN(a[1], b[1]), a[2]>>          \* LamportClock::merge as built
  ELSE SMax(a, b)

---------------------------------------------------------------------------
(* LWW register: [v, has, tomb, ts].  `has' is Option::is_some. *)
LwwNew(r)            == [v |-> "", has |-> FALSE, tomb |-> FALSE, ts |-> Stamp(0, r)]
LwwSet(val, ts)      == [v |-> val, has |-> TRUE, tomb |-> FALSE, ts |-> ts]
LwwDel(ts)           == [v |-> "", has |-> FALSE, tomb |-> TRUE, ts |-> ts]
LwwMerge(a, b)       == IF SLess(a.ts, b.ts) THEN b ELSE a
LwwLive(l)           == l.has /\ ~l.tomb

(* Functions with finite domain, pointwise helpers. *)
DomU(f, g)           == DOMAIN f \cup DOMAIN g
Get0(f, k)           == IF k \in DOMAIN f THEN f[k] ELSE 0
MapMax(f, g)         == [k \in DomU(f, g) |-> MaxN(Get0(f, k), Get0(g, k))]
Empty                == [k \in {} |-> 0]

(* CRDT payloads, tagged by k. *)
CLww(l)              == [k |-> "lww", l |-> l]
CHash(h)             == [k |-> "hash", h |-> h]              \* h : field -> Lww
CGc(c)               == [k |-> "gcounter", c |-> c]          \* c : replica -> Nat
CPn(p, n)            == [k |-> "pncounter", p |-> p, n |-> n]
CGset(s)             == [k |-> "gset", s |-> s]
COrset(e, nx)        == [k |-> "orset", e |-> e, nx |-> nx]  \* e : elem -> set of <<r, seq>>

HashMerge(a, b) ==
  [f \in DomU(a, b) |->
     IF f \in DOMAIN a /\ f \in DOMAIN b THEN LwwMerge(a[f], b[f])
     ELSE IF f \in DOMAIN a THEN a[f] ELSE b[f]]

OrTags(e, x) == IF x \in DOMAIN e THEN e[x] ELSE {}
OrMergeE(a, b) ==
  LET dom == {x \in DomU(a, b) : OrTags(a, x) \cup OrTags(b, x) # {}}
  IN  [x \in dom |-> OrTags(a, x) \cup OrTags(b, x)]

SameKindMerge(a, b) ==
  CASE a.k = "lww"       -> CLww(LwwMerge(a.l, b.l))
    [] a.k = "hash"      -> CHash(HashMerge(a.h, b.h))
    [] a.k = "gcounter"  -> CGc(MapMax(a.c, b.c))
    [] a.k = "pncounter" -> CPn(MapMax(a.p, b.p), MapMax(a.n, b.n))
    [] a.k = "gset"      -> CGset(a.s \cup b.s)
    [] a.k = "orset"     -> COrset(OrMergeE(a.e, b.e), MapMax(a.nx, b.nx))

(* Type mismatch: the value with the later outer stamp wins (ties: self). *)
CrdtMerge(a, ats, b, bts) ==
  IF a.k = b.k THEN SameKindMerge(a, b)
  ELSE IF SLess(ats, bts) THEN b ELSE a

OptMax(a, b) == IF a = -1 THEN b ELSE IF b = -1 THEN a ELSE MaxN(a, b)

(* vc is a function replica -> count; hasvc is Option::is_some *)
RV(c, vc, hasvc, exp, ts, rf) == [c |-> c, vc |-> vc, hasvc |-> hasvc, exp |-> exp, ts |-> ts, rf |-> rf]

(* the expiry belongs to the write with the greater outer stamp; as built  *)
(* ("expiry_max") the greater expiry survived whichever write won          *)
ExpJoin(x, y) == IF "expiry_max" \in AsBuilt THEN OptMax(x.exp, y.exp)
                 ELSE IF SLess(x.ts, y.ts) THEN y.exp
                 ELSE IF SLess(y.ts, x.ts) THEN x.exp
                 ELSE OptMax(x.exp, y.exp)

Merge(x, y) ==
  RV(CrdtMerge(x.c, x.ts, y.c, y.ts),
     MapMax(x.vc, y.vc), x.hasvc \/ y.hasvc,
     ExpJoin(x, y),
     StampJoin(x.ts, y.ts),
     MaxN(x.rf, y.rf))

---------------------------------------------------------------------------
(* Obs: everything a client or a peer can observe of a value, normalised   *)
(* (zero counter entries and empty tag sets are not observable).           *)
NZ(f) == {<<k, f[k]>> : k \in {d \in DOMAIN f : f[d] # 0}}
ObsLww(l) == <<IF LwwLive(l) THEN l.v ELSE "", LwwLive(l), l.tomb, l.ts>>
ObsCrdt(c) ==
  CASE c.k = "lww"       -> [k |-> "lww", l |-> ObsLww(c.l)]
    [] c.k = "hash"      -> [k |-> "hash", h |-> {<<f, ObsLww(c.h[f])>> : f \in DOMAIN c.h}]
    [] c.k = "gcounter"  -> [k |-> "gcounter", c |-> NZ(c.c)]
    [] c.k = "pncounter" -> [k |-> "pncounter", p |-> NZ(c.p), n |-> NZ(c.n)]
    [] c.k = "gset"      -> [k |-> "gset", s |-> c.s]
    [] c.k = "orset"     -> [k |-> "orset",
                             e |-> {<<x, c.e[x]>> : x \in {d \in DOMAIN c.e : c.e[d] # {}}}]
Obs(x) == [c |-> ObsCrdt(x.c),
           vc |-> NZ(x.vc),
           hasvc |-> x.hasvc,
           exp |-> x.exp, ts |-> x.ts, rf |-> x.rf]

---------------------------------------------------------------------------
(* Local operations of replica r with clock value t already ticked.        *)
(* Mirrors ReplicatedValue::{set,delete,hash_set,hash_delete} and the      *)
(* ShardReplicaState::record_* wrappers.                                   *)
Fresh(r) == RV(CLww(LwwNew(r)), Empty, FALSE, -1, Stamp(0, r), 0)

OpSet(x, r, t, val, exp) ==          \* record_write
  [x EXCEPT !.c = CLww(LwwSet(val, Stamp(t, r))), !.ts = Stamp(t, r), !.exp = exp]

OpDel(x, r, t) ==                    \* record_delete on an existing value
  IF x.c.k = "lww"
  THEN [x EXCEPT !.c = CLww(LwwDel(Stamp(t, r))), !.ts = Stamp(t, r)]
  ELSE x                             \* delete() is a no-op on non-LWW values

OpHSet(x, r, t, f, val) ==           \* record_hash_write, one field
  LET h == IF x.c.k = "hash" THEN x.c.h ELSE [g \in {} |-> LwwNew(r)]
      h2 == [g \in DOMAIN h \cup {f} |-> IF g = f THEN LwwSet(val, Stamp(t, r)) ELSE h[g]]
  IN  [x EXCEPT !.c = CHash(h2), !.ts = Stamp(t, r)]

OpHDel(x, r, t, f) ==                \* record_hash_delete, one field (value is a hash)
  LET h == x.c.h
      h2 == [g \in DOMAIN h |-> IF g = f THEN LwwDel(Stamp(t, r)) ELSE h[g]]
  IN  [x EXCEPT !.c = CHash(h2), !.ts = Stamp(t, r)]

(* Counter / set kinds are mutated through crdt_mut(); the application     *)
(* stamps the value with its ticked clock.                                 *)
Bump(f, r, n) == [k \in DOMAIN f \cup {r} |-> Get0(f, k) + (IF k = r THEN n ELSE 0)]
OpGcInc(x, r, t, n) ==
  LET c == IF x.c.k = "gcounter" THEN x.c.c ELSE Empty
  IN [x EXCEPT !.c = CGc(Bump(c, r, n)), !.ts = Stamp(t, r)]
OpPnInc(x, r, t, n) ==
  LET p == IF x.c.k = "pncounter" THEN x.c.p ELSE Empty
      m == IF x.c.k = "pncounter" THEN x.c.n ELSE Empty
  IN [x EXCEPT !.c = CPn(Bump(p, r, n), m), !.ts = Stamp(t, r)]
OpPnDec(x, r, t, n) ==
  LET p == IF x.c.k = "pncounter" THEN x.c.p ELSE Empty
      m == IF x.c.k = "pncounter" THEN x.c.n ELSE Empty
  IN [x EXCEPT !.c = CPn(p, Bump(m, r, n)), !.ts = Stamp(t, r)]
OpGsAdd(x, r, t, e) ==
  LET s == IF x.c.k = "gset" THEN x.c.s ELSE {}
  IN [x EXCEPT !.c = CGset(s \cup {e}), !.ts = Stamp(t, r)]
OpOrAdd(x, r, t, e) ==
  LET el == IF x.c.k = "orset" THEN x.c.e ELSE [d \in {} |-> {}]
      nx == IF x.c.k = "orset" THEN x.c.nx ELSE Empty
      tag == <<r, Get0(nx, r)>>
  IN [x EXCEPT !.c = COrset([d \in DOMAIN el \cup {e} |-> OrTags(el, d) \cup (IF d = e THEN {tag} ELSE {})],
                             Bump(nx, r, 1)), !.ts = Stamp(t, r)]
OpOrRem(x, r, t, e) ==
  LET el == x.c.e
  IN [x EXCEPT !.c = COrset([d \in DOMAIN el \ {e} |-> el[d]], x.c.nx), !.ts = Stamp(t, r)]

=============================================================================
