SPECIFICATION Spec
CONSTANTS
  Key = {"a", "b"}
  Shard = {1, 2}
  Val = {"x", "y"}
  MaxOps = 4
  AsBuilt = {"two_hashes"}
INVARIANTS ReadsAgree
CHECK_DEADLOCK FALSE
