SPECIFICATION PSpec
CONSTANTS
  Writers = {1, 2, 3}
  Cap = 2
  MaxBatch = 2
  MaxFaults = 1
  AsBuilt = {"trunc_by_last_entry"}
  Policy = "always"
  TsOf <- TsDef
  Thresholds <- ThDef
INVARIANTS TruncSafe
CHECK_DEADLOCK FALSE
