----------------------------- MODULE SimRecovery -----------------------------
(* Layout export for C11: every placement of NU updates into non-empty subsets *)
(* of {checkpoint, segment 1, segment 2, WAL}.                                 *)
EXTENDS Recovery, Json
SetSeq(S) == CHOOSE s \in [1..Cardinality(S) -> S] : \A i, j \in DOMAIN s : i # j => s[i] # s[j]
Export == PrintT(<<"SCN", ToJson([ckpt |-> SetSeq(At("ckpt")), seg1 |-> SetSeq(At("seg1")),
                                   seg2 |-> SetSeq(At("seg2")), wal |-> SetSeq(At("wal"))])>>)
=============================================================================
