------------------------------- MODULE SimWal -------------------------------
(* Scenario space for the WAL actor (C09): every split of n writers into    *)
(* bursts, every file capacity / batch limit, every placement of up to      *)
(* MaxFaults faults (fail / torn / diskfull) among the first K I/O calls.   *)
(* One JSON line per scenario; the real actor is run on each and its trace  *)
(* validated by WalTrace.                                                   *)
EXTENDS Naturals, Sequences, FiniteSets, TLC, Json
CONSTANTS MaxWriters, Caps, Batches, K, MaxFaults, Kinds

(* compositions of 1..n into consecutive bursts, encoded by cut sets *)
Bursts(n, cuts) ==
  LET idx == {0} \cup cuts \cup {n}
      Sorted == CHOOSE s \in [1..Cardinality(idx) -> idx] : \A i, j \in DOMAIN s : i < j => s[i] < s[j]
  IN [b \in 1..(Len(Sorted) - 1) |-> [i \in 1..(Sorted[b + 1] - Sorted[b]) |-> Sorted[b] + i]]

F1 == (1..K) \X Kinds
FaultSeqs == {<<>>} \cup {<<f>> : f \in F1}
             \cup (IF MaxFaults >= 2 THEN {<<p[1], p[2]>> : p \in {q \in F1 \X F1 : q[1][1] < q[2][1]}} ELSE {})

VARIABLE scn
Init == \E n \in 1..MaxWriters, cuts \in SUBSET (1..(MaxWriters - 1)), c \in Caps, b \in Batches, fs \in FaultSeqs :
          /\ cuts \subseteq 1..(n - 1)
          /\ scn = [cap |-> c, batch |-> b, bursts |-> Bursts(n, cuts),
                    faults |-> fs]
Next == UNCHANGED scn
Spec == Init /\ [][Next]_scn
Export == PrintT(<<"SCN", ToJson(scn)>>)
=============================================================================
