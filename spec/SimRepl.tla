------------------------------- MODULE SimRepl -------------------------------
(* Scenario export for Replication: one witness step sequence per distinct     *)
(* quiescent configuration (hist hidden by VIEW).                              *)
EXTENDS Replication, Json
VARIABLE hist
H(ev) == hist' = Append(hist, ev)
HInit == Init /\ hist = <<>>
HNext ==
  \/ \E n \in Node, c \in Cmds : Client(n, c) /\ H([a |-> "client", n |-> n, op |-> c.op, v |-> c.v, f |-> c.f, e |-> c.e])
  \/ \E m \in net : Deliver(m) /\ H([a |-> "deliver", seq |-> m.seq, to |-> m.to])
  \/ \E m \in net : Dup(m) /\ H([a |-> "dup", seq |-> m.seq, to |-> m.to])
  \/ \E x, y \in Node : AntiEntropy(x, y) /\ H([a |-> "ae", from |-> x, to |-> y])
HSpec == HInit /\ [][HNext]_<<vars, hist>>
View == vars
Export == (ncmds = MaxCmds) => PrintT(<<"SCN", ToJson([n |-> Cardinality(Node), steps |-> hist])>>)
=============================================================================
