\* Counter and set kinds
SPECIFICATION Spec
CONSTANTS
  Replica = {1, 2, 3}
  Val = {"a"}
  Field = {"f"}
  Elem = {"e", "d"}
  AsBuilt = {}
  Kinds = {"gcounter", "pncounter", "gset", "orset"}
  CausalModes = {FALSE}
  MaxSteps = 4
CONSTRAINT StepBound
INVARIANTS Commutative Idempotent AssociativeSameKind StampIsJoin ClockDominates
CHECK_DEADLOCK FALSE
