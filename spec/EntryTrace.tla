----------------------------- MODULE EntryTrace -----------------------------
(* Case validation for C16: every recorded frame (five entry paths) and every   *)
(* recorded script (direct / redis.call / redis.pcall twins) is judged with      *)
(* EntryPaths.tla.  One verdict line per failing case.                          *)
EXTENDS EntryPaths, Json, IOUtils
Rec == ndJsonDeserialize(IOEnv.TRACE)
VARIABLES l
Verdict(ev, what) == PrintT(<<"VERDICT", ToJson([run |-> ev.run, l |-> l, v |-> "bad", what |-> what])>>)

Paths == {"a", "b", "pa", "pb", "u"}
JudgeParse(ev) ==
  LET o == [p \in Paths |-> ev[p]] IN
  IF \E p \in Paths : o[p].panic THEN Verdict(ev, "a command parser panicked on a frame")
  ELSE IF o["a"] # o["b"] THEN Verdict(ev, "the two command parsers disagree on a frame")
  ELSE IF o["pa"] # o["a"] \/ o["pb"] # o["b"] THEN Verdict(ev, "decoder + parser on the wire image disagrees with the parser on the decoded value")
  ELSE IF o["u"] # o["a"] THEN Verdict(ev, "the letter case of the command name changes the outcome")
  ELSE IF ev.allbulk /\ o["a"].ok /\ MustReject(ev.name, ev.nargs) THEN Verdict(ev, "a frame with an impossible arity was accepted")
  ELSE TRUE

JudgeLua(ev) ==
  LET rs == ev.direct.rs
      e == FirstErr(rs) IN
  IF ev.call.r.t = "panic" \/ ev.pcall.r.t = "panic" THEN Verdict(ev, "panic while running a script")
  ELSE IF ev.pcall.sh # ev.direct.sh THEN Verdict(ev, "keyspace after redis.pcall differs from the keyspace after the direct commands")
  ELSE IF ~(PcallReplyOk(rs, ev.pcall.r) \/ (ev.unordered /\ SameBag(Conv(rs[Len(rs)]), ev.pcall.r))) THEN Verdict(ev, "redis.pcall result differs from the converted direct reply")
  ELSE IF e = 0 /\ ev.call.sh # ev.direct.sh THEN Verdict(ev, "keyspace after redis.call differs from the keyspace after the direct commands")
  ELSE IF e # 0 /\ ev.call.sh # ev.direct.sh_first_err THEN Verdict(ev, "keyspace after a script stopped by an error differs from the direct commands up to that error")
  ELSE IF ~(CallReplyOk(rs, ev.call.r) \/ (e = 0 /\ ev.unordered /\ SameBag(Conv(rs[Len(rs)]), ev.call.r))) THEN Verdict(ev, "redis.call result differs from the converted direct reply")
  ELSE TRUE

TraceInit == l = 1
TraceNext ==
  \/ /\ l <= Len(Rec)
     /\ LET ev == Rec[l] IN IF ev.t = "parse" THEN JudgeParse(ev) ELSE IF ev.t = "lua" THEN JudgeLua(ev) ELSE TRUE
     /\ l' = l + 1
  \/ l = Len(Rec) + 1 /\ PrintT(<<"VALIDATED", Len(Rec)>>) /\ l' = l + 1
TraceSpec == TraceInit /\ [][TraceNext]_l
=============================================================================
