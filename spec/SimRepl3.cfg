SPECIFICATION HSpec
CONSTANTS
  Node = {1, 2, 3}
  Val = {"1", "x"}
  Field = {"f", "g"}
  MaxCmds = 2
  MaxDup = 0
  MaxAE = 0
  CmdKinds = {"set", "setnx", "del", "hset", "hdel"}
  AsBuilt = {}
VIEW View
INVARIANT Export
CHECK_DEADLOCK FALSE
