\* Causal consistency level (register writes carry vector clocks). Ideal merge (stamp = max pair); register + hash kinds; laws incl. associativity on same-kind configurations
SPECIFICATION Spec
CONSTANTS
  Replica = {1, 2, 3}
  Val = {"a", "b"}
  Field = {"f", "g"}
  Elem = {"e"}
  AsBuilt = {}
  Kinds = {"lww", "hash"}
  CausalModes = {TRUE}
  MaxSteps = 4
CONSTRAINT StepBound
INVARIANTS Commutative Idempotent AssociativeSameKind StampIsJoin ClockDominates
CHECK_DEADLOCK FALSE
