-------------------------------- MODULE Acl --------------------------------
(***************************************************************************)
(* Access control lists (src/security/acl): an extension of the             *)
(* specification beyond the twenty listed properties.                       *)
(*                                                                         *)
(* A user is [on, nopass, pws, allowed, allkeys, pats]:                    *)
(*   allowed  the set of commands the user may run (over the finite         *)
(*            universe Cmd; categories are sets of commands, CatOf)         *)
(*   pats     key patterns (a key is permitted when allkeys or some         *)
(*            pattern matches; patterns are prefixes "p*" or exact names)   *)
(* ACL SETUSER applies its rules LEFT TO RIGHT, each rule overriding what   *)
(* earlier rules said about the same commands (Redis: "rules are            *)
(* processed from left to right").  Apply(u, rule) is that function;        *)
(* Auth and Check are the two decisions the server takes from a user.       *)
(*                                                                         *)
(* Properties of the design (checked by TLC over every rule sequence up to  *)
(* MaxRules over the rule universe):                                        *)
(*   LastRuleWins     after +c (or +@cat) the command is permitted, after   *)
(*                    -c (-@cat) it is not, whatever came before            *)
(*   OffNeverAuth     a user that is off never authenticates                *)
(*   PassOrNopass     nopass and a password list exclude each other         *)
(*   ResetIsFresh     reset leaves a user that can do nothing               *)
(* As-built switches (constant AsBuilt), each must violate a property:      *)
(*   "deny_sticky"    an explicit -c survives a later +@all / +@cat         *)
(*   "denycat_sticky" a -@cat survives a later +@cat                        *)
(*   "nopass_sticky"  >password leaves nopass set (any password passes)     *)
(***************************************************************************)
EXTENDS Naturals, Sequences, FiniteSets, TLC

CONSTANTS Cmd,        \* command universe
          Cats,       \* category names
          CatOf,      \* [Cats -> SUBSET Cmd]
          Pw,         \* password universe
          Pat,        \* key pattern universe
          PatMatches(_, _),   \* glob matching of a pattern against a key, given as a table over the universe (TLC strings
                              \* cannot be indexed; Redis glob matching itself is RedisKeyspace!GlobMatch's subject)
          MaxRules, AsBuilt
Dev(d) == d \in AsBuilt

(* `denied' and `deniedcats' stay empty in the design; they exist for the as-built switches: the code keeps explicit       *)
(* denials and denied categories as lists that later rules do not always clear                                            *)
Fresh == [on |-> FALSE, nopass |-> FALSE, pws |-> {}, allowed |-> {}, allkeys |-> FALSE, pats |-> {},
          denied |-> {}, deniedcats |-> {}]
Default == [Fresh EXCEPT !.on = TRUE, !.nopass = TRUE, !.allowed = Cmd, !.allkeys = TRUE]

Rules == {<<"on">>, <<"off">>, <<"nopass">>, <<"resetpass">>, <<"reset">>, <<"allcommands">>, <<"nocommands">>,
          <<"allkeys">>, <<"resetkeys">>}
         \cup {<<"addpw", p>> : p \in Pw} \cup {<<"delpw", p>> : p \in Pw}
         \cup {<<"+", c>> : c \in Cmd} \cup {<<"-", c>> : c \in Cmd}
         \cup {<<"+@", k>> : k \in Cats} \cup {<<"-@", k>> : k \in Cats}
         \cup {<<"~", p>> : p \in Pat}

Apply(u, r) ==
  CASE r[1] = "on"          -> [u EXCEPT !.on = TRUE]
    [] r[1] = "off"         -> [u EXCEPT !.on = FALSE]
    [] r[1] = "nopass"      -> [u EXCEPT !.nopass = TRUE, !.pws = IF Dev("nopass_sticky") THEN @ ELSE {}]
    [] r[1] = "resetpass"   -> [u EXCEPT !.nopass = FALSE, !.pws = {}]
    [] r[1] = "addpw"       -> [u EXCEPT !.pws = @ \cup {r[2]}, !.nopass = IF Dev("nopass_sticky") THEN @ ELSE FALSE]
    [] r[1] = "delpw"       -> [u EXCEPT !.pws = @ \ {r[2]}]
    [] r[1] = "reset"       -> Fresh
    [] r[1] = "allcommands" -> [u EXCEPT !.allowed = Cmd, !.denied = IF Dev("deny_sticky") THEN @ ELSE {},
                                         !.deniedcats = IF Dev("denycat_sticky") THEN @ ELSE {}]
    [] r[1] = "nocommands"  -> [u EXCEPT !.allowed = {}]
    [] r[1] = "+"           -> [u EXCEPT !.allowed = @ \cup {r[2]}, !.denied = @ \ {r[2]},
                                         !.deniedcats = {k \in @ : r[2] \notin CatOf[k]}]
    [] r[1] = "-"           -> [u EXCEPT !.allowed = @ \ {r[2]}, !.denied = IF Dev("deny_sticky") THEN @ \cup {r[2]} ELSE @]
    [] r[1] = "+@"          -> [u EXCEPT !.allowed = @ \cup CatOf[r[2]],
                                         !.denied = IF Dev("deny_sticky") THEN @ ELSE @ \ CatOf[r[2]],
                                         !.deniedcats = IF Dev("denycat_sticky") THEN @ ELSE @ \ {r[2]}]
    [] r[1] = "-@"          -> [u EXCEPT !.allowed = @ \ CatOf[r[2]], !.deniedcats = IF Dev("denycat_sticky") THEN @ \cup {r[2]} ELSE @]
    [] r[1] = "allkeys"     -> [u EXCEPT !.allkeys = TRUE]
    [] r[1] = "resetkeys"   -> [u EXCEPT !.allkeys = FALSE, !.pats = {}]
    [] r[1] = "~"           -> [u EXCEPT !.pats = @ \cup {r[2]}]

RECURSIVE ApplyAll(_, _)
ApplyAll(u, rs) == IF rs = <<>> THEN u ELSE ApplyAll(Apply(u, Head(rs)), Tail(rs))

(* the decisions *)
MayRun(u, c) == /\ c \in u.allowed
                /\ c \notin u.denied                                   \* (empty unless an as-built switch keeps it)
                /\ \A k \in u.deniedcats : c \notin CatOf[k]
KeyOk(u, key) == u.allkeys \/ \E p \in u.pats : PatMatches(p, key)
Auth(u, pw) == u.on /\ (u.nopass \/ pw \in u.pws)
Check(u, c, keys) == IF ~u.on THEN "disabled"
                     ELSE IF ~MayRun(u, c) THEN "nocmd"
                     ELSE IF \E i \in DOMAIN keys : ~KeyOk(u, keys[i]) THEN "nokey"
                     ELSE "ok"

VARIABLES user, last, n
vars == <<user, last, n>>
Init == user = Fresh /\ last = <<"none">> /\ n = 0
Next == n < MaxRules /\ \E r \in Rules : user' = Apply(user, r) /\ last' = r /\ n' = n + 1
Spec == Init /\ [][Next]_vars

LastRuleWins == /\ last[1] = "+"  => MayRun(user, last[2])
                /\ last[1] = "-"  => ~MayRun(user, last[2])
                /\ last[1] = "+@" => \A c \in CatOf[last[2]] : MayRun(user, c)
                /\ last[1] = "-@" => \A c \in CatOf[last[2]] : ~MayRun(user, c)
                /\ last[1] = "allcommands" => \A c \in Cmd : MayRun(user, c)
                /\ last[1] = "nocommands"  => \A c \in Cmd : ~MayRun(user, c)
OffNeverAuth == ~user.on => \A p \in Pw \cup {""} : ~Auth(user, p)
PassOrNopass == ~(user.nopass /\ user.pws # {})
WrongPassword == (user.on /\ ~user.nopass) => \A p \in (Pw \cup {""}) \ user.pws : ~Auth(user, p)
ResetIsFresh == last[1] = "reset" => (user = Fresh /\ \A c \in Cmd : Check(user, c, <<>>) # "ok")
=============================================================================
