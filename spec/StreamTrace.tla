----------------------------- MODULE StreamTrace -----------------------------
(* Trace validation for C12 / C13 (and the object-store part of C11).         *)
(* The trace is the log of every object-store call the real                   *)
(* StreamingPersistence / Compactor made on a scripted store, with push /     *)
(* flush / compaction boundaries and, after every mutating call, the result   *)
(* of the REAL RecoveryManager::recover on a copy of the store image folded   *)
(* with the real merge ("crashcheck").  The spec keeps                        *)
(*   conf[k]  merge of all deltas of k confirmed by a successful flush        *)
(*   acc[k]   merge of all deltas of k accepted by push                       *)
(*   segs, man  the abstract store image built from the call log              *)
(* and demands at every crash point                                           *)
(*   recovery succeeds, the manifest references only complete objects,        *)
(*   R[k] absorbs conf[k]  (nothing confirmed is lost or altered),            *)
(*   acc[k] absorbs R[k]   (nothing is invented),                             *)
(* a key may be missing from R only if conf[k] is a tombstone old enough for  *)
(* GC; after a failed flush the buffer still holds every unconfirmed delta.   *)
(* Mechanism-permissive: no order of calls is prescribed.                     *)
EXTENDS CrdtJson, Json, IOUtils, TLC

Rec == ndJsonDeserialize(IOEnv.TRACE)

VARIABLES l, run, conf, acc, inflight, naccepted, nconfirmed, segs, man, gcBefore, overlap, fActive, cActive, accTombs,
          segc,   \* segment id -> its content as key -> RV (merge of the segment's deltas per key), when it was logged
          cin,    \* ids of the segments the compaction in progress has read
          gcOut,  \* keys whose expired tombstone a compaction dropped while a manifest segment it did not read held the key
          ckk,    \* keys held by the checkpoint written last (a checkpoint is outside every compaction)
          rc      \* bookkeeping for the listed manifest race: [saves: manifest saves so far, loaded: actor -> saves at its last manifest
                  \* load, puts: segment id -> the actor that wrote it]; `overlap' is set only when the race really happens
tvars == <<l, run, conf, acc, inflight, naccepted, nconfirmed, segs, man, gcBefore, overlap, fActive, cActive, accTombs, segc, cin, gcOut, rc, ckk>>

Dev(d) == d \in AsBuilt
Verdict(what) == PrintT(<<"VERDICT", ToJson([run |-> run, l |-> l, v |-> "bad", what |-> what])>>)

NoFun == [k \in {} |-> 0]
Upd(f, k, v) == [j \in DOMAIN f \cup {k} |-> IF j = k THEN v ELSE f[j]]
Absorbs(a, b) == Obs(Merge(a, b)) = Obs(a)
MergeInto(f, k, rv) == Upd(f, k, IF k \in DOMAIN f THEN Merge(f[k], rv) ELSE rv)
MergeAll(f, g) == [k \in DOMAIN f \cup DOMAIN g |->
                     IF k \in DOMAIN f /\ k \in DOMAIN g THEN Merge(f[k], g[k]) ELSE IF k \in DOMAIN f THEN f[k] ELSE g[k]]

TraceInit == /\ l = 1 /\ run = 0 /\ conf = NoFun /\ acc = NoFun /\ inflight = NoFun
             /\ naccepted = 0 /\ nconfirmed = 0 /\ segs = NoFun /\ man = {} /\ gcBefore = 0
             /\ overlap = FALSE /\ fActive = FALSE /\ cActive = FALSE /\ accTombs = NoFun /\ segc = NoFun /\ cin = {} /\ gcOut = {}
             /\ rc = [saves |-> 0, loaded |-> NoFun, puts |-> NoFun, begun |-> NoFun, ended |-> NoFun, tick |-> 0] /\ ckk = {}

Keep(vs) == UNCHANGED vs

(* recovered state as a function key -> RV *)
RState(ev) == [k \in {p[1] : p \in Range(ev.state)} |-> JRv((CHOOSE p \in Range(ev.state) : p[1] = k)[2])]

(* a delete accepted by push (confirmed or not: a flush that reported failure may still have  *)
(* stored it) that is old enough for GC and not older than the confirmed state of the key   *)
GcLegal(k) == k \in DOMAIN accTombs /\ \E s \in accTombs[k] : s[1] < gcBefore /\ ~SLess(s, conf[k].ts)
CrashOk(ev) ==
  LET R == RState(ev) IN
  /\ \A k \in DOMAIN conf :
       IF k \in DOMAIN R
       THEN \/ Absorbs(R[k], conf[k])
            \* the confirmed delete was old enough to be collected, and what is left of the key is a delete too (a delete of the
            \* same key with a smaller stamp - same time, lower replica id - that arrived later): the key is gone either way
            \/ (GcLegal(k) /\ IsTomb(conf[k]) /\ IsTomb(R[k]))
            \/ (Dev("gc_ignores_outside") /\ GcLegal(k) /\ k \in gcOut)   \* an older value resurfaced after GC: only where a compaction
                                                                          \* dropped the tombstone although a segment outside it held the key
       ELSE GcLegal(k)
  /\ \A k \in DOMAIN R : k \in DOMAIN acc /\ Absorbs(acc[k], R[k])
(* content of a segment: key -> merge of its deltas for the key *)
RECURSIVE SegFold(_, _, _)
SegFold(ds, i, f) == IF i > Len(ds) THEN f ELSE SegFold(ds, i + 1, MergeInto(f, ds[i][1], JRv(ds[i][2])))
SegContent(ds) == SegFold(ds, 1, NoFun)
RECURSIVE MergeSegs(_, _)
MergeSegs(ids, f) == IF ids = {} THEN f ELSE LET i == CHOOSE x \in ids : TRUE IN MergeSegs(ids \ {i}, MergeAll(f, segc[i]))
(* C13 at the source: what a compaction writes is the per-key merge of what it read; a key may be *)
(* missing from the output only if that merge is a tombstone older than the GC horizon           *)
CompactOutputOk(out) ==
  LET In == MergeSegs(cin, NoFun) IN
  /\ DOMAIN out \subseteq DOMAIN In
  /\ \A k \in DOMAIN In : IF k \in DOMAIN out THEN Obs(out[k]) = Obs(In[k])
                           ELSE IsTomb(In[k]) /\ In[k].ts[1] < gcBefore
ManifestSound == \A i \in man : i \in DOMAIN segs /\ segs[i] = "ok"
Tolerated == Dev("flush_compaction_race") /\ overlap

Step(ev) ==
  \/ /\ ev.a = "reset"
     /\ run' = ev.run /\ conf' = NoFun /\ acc' = NoFun /\ inflight' = NoFun /\ naccepted' = 0 /\ nconfirmed' = 0
     /\ segs' = NoFun /\ man' = {} /\ gcBefore' = 0 /\ overlap' = FALSE /\ fActive' = FALSE /\ cActive' = FALSE
     /\ accTombs' = NoFun /\ segc' = NoFun /\ cin' = {} /\ gcOut' = {} /\ rc' = [saves |-> 0, loaded |-> NoFun, puts |-> NoFun, begun |-> NoFun, ended |-> NoFun, tick |-> 0] /\ ckk' = {}
  \/ /\ ev.a = "push"
     /\ IF ev.ok THEN /\ acc' = MergeInto(acc, ev.k, JRv(ev.rv))
                      /\ inflight' = MergeInto(inflight, ev.k, JRv(ev.rv))
                      /\ naccepted' = naccepted + 1
                      /\ accTombs' = IF IsTomb(JRv(ev.rv))
                                      THEN Upd(accTombs, ev.k, (IF ev.k \in DOMAIN accTombs THEN accTombs[ev.k] ELSE {}) \cup {JRv(ev.rv).ts})
                                      ELSE accTombs
        ELSE UNCHANGED <<acc, inflight, naccepted, accTombs>>
     /\ Keep(<<run, conf, nconfirmed, segs, man, gcBefore, overlap, fActive, cActive, segc, cin, gcOut, rc, ckk>>)
  \/ /\ ev.a = "flush_begin"
     /\ fActive' = TRUE /\ overlap' = overlap
     /\ rc' = [rc EXCEPT !.begun = Upd(@, "F", [saves |-> rc.saves, tick |-> rc.tick])]
     /\ Keep(<<run, conf, acc, inflight, naccepted, nconfirmed, segs, man, gcBefore, cActive, accTombs, segc, cin, gcOut, ckk>>)
  \/ /\ ev.a = "flush_end"
     /\ fActive' = FALSE
     /\ IF ev.ok THEN /\ conf' = MergeAll(conf, inflight) /\ inflight' = NoFun /\ nconfirmed' = naccepted
                      /\ (ev.pending # 0 => Verdict("flush ok but deltas still pending"))
        ELSE /\ UNCHANGED <<conf, inflight, nconfirmed>>
             /\ (ev.pending # naccepted - nconfirmed => Verdict("failed flush silently dropped accepted deltas"))
     /\ rc' = [rc EXCEPT !.ended = Upd(@, "F", rc.tick)]
     /\ Keep(<<run, acc, naccepted, segs, man, gcBefore, overlap, cActive, accTombs, segc, cin, gcOut, ckk>>)
  \/ /\ ev.a = "shutdown"     \* the pipeline (sink -> bridge -> actor) was shut down gracefully; clean: no fault was injected in the run
     /\ IF ev.clean THEN conf' = MergeAll(conf, inflight) /\ inflight' = NoFun /\ nconfirmed' = naccepted
        ELSE UNCHANGED <<conf, inflight, nconfirmed>>
     /\ Keep(<<run, acc, naccepted, segs, man, gcBefore, overlap, fActive, cActive, accTombs, segc, cin, gcOut, rc, ckk>>)
  \/ /\ ev.a = "compact_begin"
     /\ cActive' = TRUE /\ overlap' = overlap
     /\ gcBefore' = IF ev.gc_before > gcBefore THEN ev.gc_before ELSE gcBefore
     /\ rc' = [rc EXCEPT !.begun = Upd(@, "C", [saves |-> rc.saves, tick |-> rc.tick])]
     /\ cin' = {} /\ Keep(<<run, conf, acc, inflight, naccepted, nconfirmed, segs, man, fActive, accTombs, segc, gcOut, ckk>>)
  \/ /\ ev.a = "compact_end"
     /\ cActive' = FALSE
     /\ rc' = [rc EXCEPT !.ended = Upd(@, "C", rc.tick)]
     /\ Keep(<<run, conf, acc, inflight, naccepted, nconfirmed, segs, man, gcBefore, overlap, fActive, accTombs, segc, cin, gcOut, ckk>>)
  \/ /\ ev.a = "call"
     /\ segs' = IF ev.op = "put" /\ ev.kind = "seg" /\ ev.res # "fail"
                  THEN Upd(segs, ev.id, IF ev.res = "ok" THEN "ok" ELSE "partial")
                ELSE IF ev.op = "delete" /\ ev.kind = "seg" /\ ev.res = "ok"
                  THEN [j \in DOMAIN segs \ {ev.id} |-> segs[j]]
                ELSE segs
     /\ man' = IF ev.op = "rename" /\ ev.res \in {"ok", "applied"} THEN Range(ev.segs)
               ELSE IF ev.op = "put" /\ ev.kind = "man" /\ ev.res = "ok" /\ "segs" \in DOMAIN ev THEN Range(ev.segs)   \* written in place
               ELSE man
     /\ segc' = IF ev.op = "put" /\ ev.kind = "seg" /\ ev.res = "ok" /\ "deltas" \in DOMAIN ev THEN Upd(segc, ev.id, SegContent(ev.deltas)) ELSE segc
     /\ cin' = IF ev.who = "C" /\ ev.op = "get" /\ ev.kind = "seg" /\ ev.res = "ok" THEN cin \cup {ev.id} ELSE cin
     /\ (ev.who = "C" /\ ev.op = "put" /\ ev.kind = "seg" /\ ev.res = "ok" /\ "deltas" \in DOMAIN ev /\ cin \subseteq DOMAIN segc /\ ~CompactOutputOk(SegContent(ev.deltas))
           => Verdict("the segment written by a compaction is not the merge of the segments it read (beyond dropping expired tombstones)"))
     /\ gcOut' = IF ev.who = "C" /\ ev.op = "put" /\ ev.kind = "seg" /\ ev.res = "ok" /\ "deltas" \in DOMAIN ev /\ cin \subseteq DOMAIN segc
                 THEN gcOut \cup {k \in DOMAIN MergeSegs(cin, NoFun) \ DOMAIN SegContent(ev.deltas) :
                                   \/ \E i \in (man \ cin) \cap DOMAIN segc : k \in DOMAIN segc[i]
                                   \/ k \in ckk}          \* ... or the checkpoint holds the key (same root cause, same listed finding)
                 ELSE gcOut
     /\ ckk' = IF ev.op = "put" /\ ev.kind = "ckpt" /\ ev.res = "ok" /\ "ckeys" \in DOMAIN ev THEN Range(ev.ckeys) ELSE ckk
     (* the listed race (no compare-and-set on the manifest, segment ids allocated from stale copies) has happened when somebody   *)
     (* saves a manifest it loaded before a save that somebody else made WHILE its own operation was under way, or writes a segment  *)
     (* key the other one wrote during that time; overlapping alone explains nothing, and neither does a stale copy kept from an     *)
     (* earlier operation (no save fell into this one: that is not the race, whatever else it is)                                   *)
     /\ LET isSave == (ev.op = "rename" /\ ev.res \in {"ok", "applied"}) \/ (ev.op = "put" /\ ev.kind = "man" /\ ev.res = "ok" /\ "segs" \in DOMAIN ev)
            isLoad == ev.op = "get" /\ ev.kind = "man" /\ ev.res = "ok"
            isPut == ev.op = "put" /\ ev.kind = "seg" /\ ev.res # "fail"
            loadedOf == IF ev.who \in DOMAIN rc.loaded THEN rc.loaded[ev.who] ELSE 0
            (* where the actor's current operation began (flush_begin / compact_begin); an actor without such an event: its last load *)
            begunSaves == IF ev.who \in DOMAIN rc.begun THEN rc.begun[ev.who].saves ELSE loadedOf
            begunTick == IF ev.who \in DOMAIN rc.begun THEN rc.begun[ev.who].tick ELSE 0
            (* somebody else saved the manifest WHILE this operation was under way, and this actor still writes the copy it loaded before *)
            stale == isSave /\ loadedOf < rc.saves /\ begunSaves < rc.saves
            (* the other actor wrote this segment key while this operation was under way (or the other way round) *)
            dbl == isPut /\ ev.id \in DOMAIN rc.puts /\ rc.puts[ev.id].who # ev.who
                   /\ LET o == rc.puts[ev.id].who IN
                         \/ (o = "F" /\ fActive) \/ (o = "C" /\ cActive)                 \* the other one is still at it
                         \/ (o \in DOMAIN rc.ended /\ rc.ended[o] > begunTick)          \* or it ended after this operation began
        IN /\ rc' = [rc EXCEPT !.saves = @ + (IF isSave THEN 1 ELSE 0),
                                !.loaded = IF isLoad THEN Upd(@, ev.who, rc.saves) ELSE @,
                                !.puts = IF isPut THEN Upd(@, ev.id, [who |-> ev.who, tick |-> rc.tick]) ELSE @,
                                !.tick = @ + 1]
           /\ overlap' = (overlap \/ stale \/ dbl)
     /\ Keep(<<run, conf, acc, inflight, naccepted, nconfirmed, gcBefore, fActive, cActive, accTombs>>)
  \/ /\ ev.a = "crashcheck"
     /\ IF Tolerated THEN TRUE
        ELSE IF ~ev.ok THEN Verdict("recovery fails on the crash image")
        ELSE IF ~ManifestSound THEN Verdict("manifest references a missing or partial object")
        ELSE IF ~CrashOk(ev) THEN Verdict(IF "final" \in DOMAIN ev THEN "extension: after a graceful shutdown of the persistence pipeline an update that was sent is not recoverable (or data was invented)"
                                          ELSE "recovered state loses confirmed data or invents data")
        ELSE TRUE
     /\ Keep(<<run, conf, acc, inflight, naccepted, nconfirmed, segs, man, gcBefore, overlap, fActive, cActive, accTombs, segc, cin, gcOut, rc, ckk>>)
  \/ /\ ev.a = "panic"
     /\ Verdict("panic in code under test")
     /\ Keep(<<run, conf, acc, inflight, naccepted, nconfirmed, segs, man, gcBefore, overlap, fActive, cActive, accTombs, segc, cin, gcOut, rc, ckk>>)

TraceNext ==
  \/ l <= Len(Rec) /\ Step(Rec[l]) /\ l' = l + 1
  \/ l = Len(Rec) + 1 /\ PrintT(<<"VALIDATED", Len(Rec)>>) /\ l' = l + 1
     /\ Keep(<<run, conf, acc, inflight, naccepted, nconfirmed, segs, man, gcBefore, overlap, fActive, cActive, accTombs, segc, cin, gcOut, rc, ckk>>)
TraceSpec == TraceInit /\ [][TraceNext]_tvars
=============================================================================
