SPECIFICATION TraceSpec
CONSTANT AsBuilt = {"flush_compaction_race"}
CHECK_DEADLOCK FALSE
