SPECIFICATION HSpec
CONSTANTS
  Frames <- FrameSet
  MaxLen = 4
  Threshold = 3
  MinBuf = 2
  AsBuilt = {}
INVARIANT Export
CHECK_DEADLOCK FALSE
