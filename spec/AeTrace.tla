------------------------------- MODULE AeTrace -------------------------------
(* Case validation for C18.                                                    *)
(*  digest: two replica states built by the harness from update histories in   *)
(*    independent maps, with what the REAL StateDigest said.  Expected:        *)
(*    differs <=> some key differs in its observable projection or exists on   *)
(*    one side only; divergent buckets = exactly the (real) buckets of those   *)
(*    keys; a digest never differs from the digest of an equal copy.           *)
(*  sync: the states of both nodes of a real MultiNodeSimulation after each    *)
(*    run_anti_entropy_sync round under a per-round key limit.  Expected: a    *)
(*    round only ever moves a key to the merge of both sides (CrdtOps!Merge),  *)
(*    and within the logged bound of rounds both sides hold the merge of their *)
(*    initial states for every key.                                            *)
EXTENDS CrdtJson, Json, IOUtils, TLC, Sequences, FiniteSets
Rec == ndJsonDeserialize(IOEnv.TRACE)
VARIABLE l

KeysOf(s) == {e[1] : e \in Range(s)}
Ent(s, k) == CHOOSE e \in Range(s) : e[1] = k
ObsOf(s, k) == JObs(Ent(s, k)[3])
RvOf(s, k) == JRv(Ent(s, k)[3])
DiffKeys(a, b) == {k \in KeysOf(a) \cup KeysOf(b) :
                     \/ k \notin KeysOf(a) \/ k \notin KeysOf(b)
                     \/ ObsOf(a, k) # ObsOf(b, k)}
BucketsOf(a, b, ks) == {(IF k \in KeysOf(a) THEN Ent(a, k)[2] ELSE Ent(b, k)[2]) : k \in ks}

DigestVerdict(c) ==
  IF "panic" \in DOMAIN c THEN "panic"
  ELSE LET d == DiffKeys(c.a, c.b) IN
       IF c.selfdiff THEN "digest differs from the digest of an equal copy (order dependence)"
       ELSE IF c.differs # (d # {}) THEN
            (IF c.differs THEN "false divergent: equal states, different digests" ELSE "false in-sync: different states, equal digests")
       ELSE IF c.differs_rev # c.differs THEN "differs_from is not symmetric"
       ELSE IF c.differs /\ Range(c.divergent) # BucketsOf(c.a, c.b, d) THEN "divergent buckets are not the buckets of the differing keys"
       ELSE "ok"

MergedOf(a, b, k) == IF k \notin KeysOf(a) THEN RvOf(b, k) ELSE IF k \notin KeysOf(b) THEN RvOf(a, k) ELSE Merge(RvOf(a, k), RvOf(b, k))
(* one side after a round: every key is what it was, or the merge of both sides before *)
SideOk(before, other, after) ==
  /\ KeysOf(before) \subseteq KeysOf(after)
  /\ \A k \in KeysOf(after) :
        \/ (k \in KeysOf(before) /\ ObsOf(after, k) = ObsOf(before, k))
        \/ (k \in KeysOf(other) /\ ObsOf(after, k) = Obs(MergedOf(before, other, k)))
RoundOk(r0, r1) == SideOk(r0[1], r0[2], r1[1]) /\ SideOk(r0[2], r0[1], r1[2])
FinalOk(c) ==
  LET f == c.rounds[Len(c.rounds)]
      i == c.rounds[1]
  IN /\ DiffKeys(f[1], f[2]) = {}
     /\ \A k \in KeysOf(i[1]) \cup KeysOf(i[2]) : k \in KeysOf(f[1]) /\ ObsOf(f[1], k) = Obs(MergedOf(i[1], i[2], k))
(* one exchange suffices when the per-round key limit does not bind: every key of the divergent buckets is merged on both sides *)
InBuckets(s, bk) == {k \in KeysOf(s) : Ent(s, k)[2] \in bk}
OneRoundOk(c) ==
  LET r0 == c.rounds[1]
      r1 == c.rounds[2]
      bk == BucketsOf(r0[1], r0[2], DiffKeys(r0[1], r0[2]))
      ka == InBuckets(r0[1], bk)
      kb == InBuckets(r0[2], bk) IN
  (Cardinality(ka) <= c.limit /\ Cardinality(kb) <= c.limit) =>
     \A k \in ka \cup kb : /\ k \in KeysOf(r1[1]) /\ ObsOf(r1[1], k) = Obs(MergedOf(r0[1], r0[2], k))
                            /\ k \in KeysOf(r1[2]) /\ ObsOf(r1[2], k) = Obs(MergedOf(r0[1], r0[2], k))
SyncVerdict(c) ==
  IF "panic" \in DOMAIN c THEN "panic"
  ELSE IF Len(c.rounds) >= 2 /\ ~OneRoundOk(c) THEN "after one sync exchange (key limit not binding) a key of a divergent bucket is not the merge on both sides"
  ELSE IF \E j \in 1..(Len(c.rounds) - 1) : ~RoundOk(c.rounds[j], c.rounds[j + 1]) THEN "a sync round left a key that is neither unchanged nor the merge of both sides"
  ELSE IF ~FinalOk(c) THEN "not in sync (or not merged) within the bound of rounds"
  ELSE "ok"

(* the protocol objects (AntiEntropyManager): "X receives Y's digest" must report divergence exactly when the two *)
(* states differ, name the buckets of the differing keys, and the round that follows only moves keys to the merge *)
ExchOk(e) ==
  LET a == e.before[1]
      b == e.before[2]
      d == DiffKeys(a, b) IN
  IF e.insync # (d = {}) THEN (IF e.insync THEN "false in-sync: the manager reported in sync although the states differ (no sync is requested)"
                               ELSE "false divergent: the manager reported divergence between equal states")
  ELSE IF ~e.insync /\ Range(e.buckets) # BucketsOf(a, b, d) THEN "the manager's divergent buckets are not the buckets of the differing keys"
  ELSE IF ~e.insync /\ "after" \in DOMAIN e /\ ~RoundOk(e.before, e.after) THEN "a manager-level sync round left a key that is neither unchanged nor the merge of both sides"
  ELSE "ok"
MgrVerdict(c) ==
  IF "panic" \in DOMAIN c THEN "panic"
  ELSE LET bad == {i \in DOMAIN c.steps : c.steps[i].s = "exchange" /\ ExchOk(c.steps[i]) # "ok"} IN
       IF bad = {} THEN "ok" ELSE ExchOk(c.steps[CHOOSE i \in bad : \A j \in bad : i <= j])
Verdict(c) == IF c.t = "digest" THEN DigestVerdict(c) ELSE IF c.t = "mgr" THEN MgrVerdict(c) ELSE SyncVerdict(c)
TraceInit == l = 1
TraceNext ==
  \/ /\ l <= Len(Rec)
     /\ LET v == Verdict(Rec[l]) IN
          v # "ok" => PrintT(<<"VERDICT", ToJson([run |-> Rec[l].run, l |-> l, v |-> "bad", what |-> v])>>)
     /\ l' = l + 1
  \/ l = Len(Rec) + 1 /\ PrintT(<<"VALIDATED", Len(Rec)>>) /\ l' = l + 1
TraceSpec == TraceInit /\ [][TraceNext]_l
=============================================================================
