SPECIFICATION HSpec
CONSTANTS
  Key = {"a", "b"}
  MaxT = 3
  MaxWrites = 3
  MaxCrash = 2
  MaxRemote = 1
  AsBuilt = {}
VIEW View
INVARIANT Export
CHECK_DEADLOCK FALSE
