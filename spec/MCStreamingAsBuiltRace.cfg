\* sequential flush / compaction, one fault anywhere, crash anywhere (invariants in every state)
SPECIFICATION Spec
CONSTANTS
  Deltas <- DeltasA
  MaxFaults = 0
  MaxSelect = 2
  GcBefore = 0
  Concurrent = TRUE
  WithCheckpoint = FALSE
  OrderedPush = FALSE
  AsBuilt = {"no_manifest_cas"}
INVARIANTS ManifestSound RecoveryStable
CHECK_DEADLOCK FALSE
