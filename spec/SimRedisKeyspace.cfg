SPECIFICATION HSpec
CONSTANT MaxSteps = 3
VIEW View
INVARIANT Export
CHECK_DEADLOCK FALSE
