------------------------------ MODULE WalTrace ------------------------------
(* Trace validation for C09: a log of the I/O calls the real always-fsync    *)
(* WAL actor made on a scripted store, interleaved with send/ack events of   *)
(* the writers and with the result of the REAL recovery on the crash image   *)
(* taken after every call.  Mechanism-permissive: batching, rotation points  *)
(* and the order of calls are not constrained; what is checked is            *)
(*   - an ack "durable" is given only for an entry inside a synced prefix    *)
(*     (Wal!Durable, evaluated on the image the calls have built so far),    *)
(*   - every write gets at most one ack, and only after it was sent,         *)
(*   - the real recovery of every crash image equals Wal!Recover of it.      *)
EXTENDS Wal, Json, IOUtils

Rec == ndJsonDeserialize(IOEnv.TRACE)
VARIABLES l, run
tvars == <<vars, l, run>>

Verdict(ev, what) == PrintT(<<"VERDICT", ToJson([run |-> run, l |-> l, v |-> "bad", what |-> what])>>)

Ids(F) == DOMAIN F
RECURSIVE RecoverSeqFrom(_, _)
RecoverSeqFrom(F, ids) ==
  IF ids = {} THEN <<>>
  ELSE LET m == CHOOSE i \in ids : \A j \in ids : i <= j
       IN FileRecover(F[m]) \o RecoverSeqFrom(F, ids \ {m})
RecoverSeq(F) == RecoverSeqFrom(F, DOMAIN F)

Cell(ev) == IF ev.kind = "hdr" THEN (IF ev.res = "ok" THEN Hdr ELSE TornHdr)
            ELSE IF ev.kind = "ent" THEN Ent(ev.w, ev.res # "ok")
            ELSE Ent(0, ev.res # "ok")          \* bytes that are not one of the writers' entries

Keep == UNCHANGED <<queue, cur, roll, seq, pend, since, faults>>

TraceInit == Init /\ l = 1 /\ run = 0

Step(ev) ==
  \/ /\ ev.a = "reset"
     /\ files' = <<>> /\ ack' = [w \in Writers |-> "none"] /\ run' = ev.run /\ Keep
  \/ /\ ev.a = "send"
     /\ ack' = [ack EXCEPT ![ev.w] = "sent"] /\ UNCHANGED <<files, run>> /\ Keep
     /\ (ack[ev.w] # "none" => Verdict(ev, "write sent twice"))
  \/ /\ ev.a = "create"
     /\ (IF ev.ok THEN IoCreate(ev.f) ELSE UNCHANGED files) /\ UNCHANGED <<ack, run>> /\ Keep
  \/ /\ ev.a = "append"
     /\ (IF ev.res = "fail" \/ ev.f \notin DOMAIN files THEN UNCHANGED files ELSE IoAppend(ev.f, Cell(ev)))
     /\ UNCHANGED <<ack, run>> /\ Keep
  \/ /\ ev.a = "sync"
     /\ (IF ev.ok /\ ev.f \in DOMAIN files THEN IoSync(ev.f) ELSE UNCHANGED files) /\ UNCHANGED <<ack, run>> /\ Keep
  \/ /\ ev.a = "ack"
     /\ IoAck(ev.w, ev.ok) /\ UNCHANGED <<files, run>> /\ Keep
     /\ IF ack[ev.w] # "sent" THEN Verdict(ev, "ack without pending write")
        ELSE IF ev.ok /\ ~Durable(ev.w) THEN Verdict(ev, "acked durable but not in a synced prefix")
        ELSE TRUE
  \/ /\ ev.a = "crashcheck"
     /\ UNCHANGED <<files, ack, run>> /\ Keep
     /\ IF "panic" \in DOMAIN ev THEN Verdict(ev, "recovery panicked")
        ELSE IF ev.rec # RecoverSeq(CrashImage(files)) THEN Verdict(ev, "recovery of the crash image differs from Recover")
        ELSE IF \E w \in Writers : ack[w] = "ok" /\ w \notin RangeS(ev.rec) THEN Verdict(ev, "acked write missing after crash")
        ELSE TRUE
  \/ /\ ev.a = "restart"       \* node level: the server's restart sequence on the final crash image
     /\ UNCHANGED <<files, ack, run>> /\ Keep
     /\ IF \E i \in DOMAIN ev.acked : ev.acked[i] \notin RangeS(ev.visible) THEN Verdict(ev, "a write acknowledged to the client is not visible after restart")
        ELSE TRUE
  \/ /\ ev.a = "panic"
     /\ UNCHANGED <<files, ack, run>> /\ Keep /\ Verdict(ev, "actor panicked")
  \/ /\ ev.a = "delete"
     /\ files' = [j \in DOMAIN files \ {ev.f} |-> files[j]] /\ UNCHANGED <<ack, run>> /\ Keep

TraceNext ==
  \/ l <= Len(Rec) /\ Step(Rec[l]) /\ l' = l + 1
  \/ l = Len(Rec) + 1 /\ PrintT(<<"VALIDATED", Len(Rec)>>) /\ l' = l + 1 /\ UNCHANGED <<vars, run>>

TraceSpec == TraceInit /\ [][TraceNext]_tvars
=============================================================================
