---------------------------- MODULE SimPlacement ----------------------------
(* Scenario space for C19: clusters 1..n (n <= MaxN), every join order of the  *)
(* members against the canonical order, optionally with a leave + rejoin, every *)
(* replication factor and virtual-node count.                                   *)
EXTENDS Naturals, Sequences, FiniteSets, TLC, Json
CONSTANTS MaxN, Rfs, VNs
VARIABLE scn
Perms(n) == {s \in [1..n -> 1..n] : \A i, j \in 1..n : i # j => s[i] # s[j]}
Adds(s) == [i \in DOMAIN s |-> <<"add", s[i]>>]
Init == \E n \in 1..MaxN, p \in Perms(MaxN), rf \in Rfs, vn \in VNs, rejoin \in 0..MaxN :
          /\ \A i \in 1..MaxN : (i > n => p[i] = i) /\ (i <= n => p[i] <= n)
          /\ rejoin <= n
          /\ scn = [ops_a |-> Adds([i \in 1..n |-> i]),
                    ops_b |-> Adds([i \in 1..n |-> p[i]]) \o
                              (IF rejoin = 0 THEN <<>> ELSE <<<<"remove", rejoin>>, <<"add", rejoin>>>>),
                    vnodes |-> vn, rf |-> rf, nkeys |-> 12, salt |-> n * 100 + rf]
Next == UNCHANGED scn
Spec == Init /\ [][Next]_scn
Export == PrintT(<<"SCN", ToJson(scn)>>)
=============================================================================
