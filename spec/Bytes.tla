-------------------------------- MODULE Bytes --------------------------------
(***************************************************************************)
(* Byte strings (sequences of 0..255) and signed 64-bit integer arithmetic *)
(* on decimal digit sequences (TLC integers are 32 bit).                   *)
(* An integer is [neg, d] with d the decimal digits (0..9), most           *)
(* significant first, no leading zeros, zero = [FALSE, <<0>>].             *)
(***************************************************************************)
EXTENDS Naturals, Integers, Sequences

MkInt(neg, d) == [neg |-> neg, d |-> d]
Zero == MkInt(FALSE, <<0>>)
One == MkInt(FALSE, <<1>>)
IsZero(n) == n.d = <<0>>

RECURSIVE Strip(_)
Strip(d) == IF Len(d) > 1 /\ d[1] = 0 THEN Strip(Tail(d)) ELSE d
Norm(n) == LET d == Strip(n.d) IN MkInt(n.neg /\ d # <<0>>, d)

(* magnitude comparison: -1, 0, 1 *)
RECURSIVE LexCmp(_, _, _)
LexCmp(a, b, i) == IF i > Len(a) THEN 0 ELSE IF a[i] < b[i] THEN -1 ELSE IF a[i] > b[i] THEN 1 ELSE LexCmp(a, b, i + 1)
CmpMag(a, b) == IF Len(a) < Len(b) THEN -1 ELSE IF Len(a) > Len(b) THEN 1 ELSE LexCmp(a, b, 1)

DigitAt(d, i) == IF i >= 1 /\ i <= Len(d) THEN d[i] ELSE 0   \* position from the left
(* a + b on magnitudes *)
RECURSIVE AddFrom(_, _, _, _)
AddFrom(a, b, k, carry) ==   \* k = position from the right, 1-based
  LET n == IF Len(a) > Len(b) THEN Len(a) ELSE Len(b) IN
  IF k > n THEN (IF carry = 0 THEN <<>> ELSE <<carry>>)
  ELSE LET s == DigitAt(a, Len(a) - k + 1) + DigitAt(b, Len(b) - k + 1) + carry
       IN AddFrom(a, b, k + 1, s \div 10) \o <<s % 10>>
AddMag(a, b) == Strip(AddFrom(a, b, 1, 0))
(* a - b on magnitudes, a >= b *)
RECURSIVE SubFrom(_, _, _, _)
SubFrom(a, b, k, borrow) ==
  IF k > Len(a) THEN <<>>
  ELSE LET x == DigitAt(a, Len(a) - k + 1) - DigitAt(b, Len(b) - k + 1) - borrow
       IN SubFrom(a, b, k + 1, IF x < 0 THEN 1 ELSE 0) \o <<IF x < 0 THEN x + 10 ELSE x>>
SubMag(a, b) == Strip(SubFrom(a, b, 1, 0))

Neg(n) == Norm(MkInt(~n.neg, n.d))
Add(x, y) ==
  IF x.neg = y.neg THEN Norm(MkInt(x.neg, AddMag(x.d, y.d)))
  ELSE LET c == CmpMag(x.d, y.d) IN
       IF c = 0 THEN Zero
       ELSE IF c > 0 THEN Norm(MkInt(x.neg, SubMag(x.d, y.d)))
       ELSE Norm(MkInt(y.neg, SubMag(y.d, x.d)))
Sub(x, y) == Add(x, Neg(y))
Less(x, y) == IF x.neg # y.neg THEN x.neg
              ELSE IF x.neg THEN CmpMag(x.d, y.d) > 0 ELSE CmpMag(x.d, y.d) < 0
Leq(x, y) == x = y \/ Less(x, y)

I64Max == MkInt(FALSE, <<9, 2, 2, 3, 3, 7, 2, 0, 3, 6, 8, 5, 4, 7, 7, 5, 8, 0, 7>>)
I64Min == MkInt(TRUE, <<9, 2, 2, 3, 3, 7, 2, 0, 3, 6, 8, 5, 4, 7, 7, 5, 8, 0, 8>>)
FitsI64(n) == Leq(I64Min, n) /\ Leq(n, I64Max)

(* decimal rendering as bytes *)
ToBytes(n) == (IF n.neg THEN <<45>> ELSE <<>>) \o [i \in DOMAIN n.d |-> 48 + n.d[i]]

(* Redis string2ll: optional '-', then 1-9 followed by digits, or the single "0"; within i64 *)
IsDig(b) == b >= 48 /\ b <= 57
ParseStrict(b) ==
  LET neg == Len(b) >= 1 /\ b[1] = 45
      body == IF neg THEN Tail(b) ELSE b
      shape == /\ Len(body) >= 1 /\ Len(body) <= 19
               /\ \A i \in DOMAIN body : IsDig(body[i])
               /\ (body[1] # 48 \/ (Len(body) = 1 /\ ~neg))
      n == MkInt(neg, [i \in DOMAIN body |-> body[i] - 48])
  IN IF shape /\ FitsI64(n) THEN [ok |-> TRUE, n |-> n] ELSE [ok |-> FALSE, n |-> Zero]
(* lenient: what Rust's i64::from_str accepts (optional sign, leading zeros) *)
ParseLenient(b) ==
  LET signed == Len(b) >= 1 /\ b[1] \in {43, 45}
      neg == signed /\ b[1] = 45
      body == IF signed THEN Tail(b) ELSE b
      shape == Len(body) >= 1 /\ \A i \in DOMAIN body : IsDig(body[i])
      n == Norm(MkInt(neg, [i \in DOMAIN body |-> body[i] - 48]))
  IN IF shape /\ FitsI64(n) THEN [ok |-> TRUE, n |-> n] ELSE [ok |-> FALSE, n |-> Zero]

(* small integers <-> Int *)
RECURSIVE NatDigits(_)
NatDigits(k) == IF k < 10 THEN <<k>> ELSE NatDigits(k \div 10) \o <<k % 10>>
FromSmall(k) == IF k < 0 THEN MkInt(TRUE, NatDigits(-k)) ELSE MkInt(FALSE, NatDigits(k))
(* saturating conversion to a TLC integer within +-Sat *)
Sat == 1000000
RECURSIVE MagVal(_, _)
MagVal(d, i) == IF i = 0 THEN 0 ELSE MagVal(d, i - 1) * 10 + d[i]
ToSmall(n) == IF Len(n.d) > 6 THEN (IF n.neg THEN -Sat ELSE Sat)
              ELSE IF n.neg THEN -MagVal(n.d, Len(n.d)) ELSE MagVal(n.d, Len(n.d))
=============================================================================
