------------------------------ MODULE ReplTrace ------------------------------
(* Trace validation for C06: every step of a run of real ReplicatedShardActors *)
(* (the harness is the network) must be the Replication action it names, with  *)
(* equal replication state (observable projection) and equal served value on   *)
(* EVERY node; whenever no message is in flight all nodes must agree.           *)
(* Command semantics proper (integer parsing, APPEND) is C01's subject: for     *)
(* INCR / APPEND the local outcome is taken from the log, the replication       *)
(* record and all merges are computed by the specification.                     *)
EXTENDS Replication, CrdtJson, Json, IOUtils

Rec == ndJsonDeserialize(IOEnv.TRACE)
VARIABLES l, run, kinds
tvars == <<vars, l, run, kinds>>

Verdict(what) == PrintT(<<"VERDICT", ToJson([run |-> run, l |-> l, v |-> "bad", what |-> what])>>)

JServed(s) == IF s.t = "none" THEN SNone
              ELSE IF s.t = "str" THEN SStr(s.v)
              ELSE SHash([f \in {p[1] : p \in Range(s.h)} |-> (CHOOSE p \in Range(s.h) : p[1] = f)[2]])
JRsObs(o) == IF "absent" \in DOMAIN o THEN None ELSE JObs(o)

NodesOk(ev) == \A n \in Node : n <= Len(ev.nodes) =>
                 /\ ObsN(rs'[n]) = JRsObs(ev.nodes[n].rs)
                 /\ served'[n] = JServed(ev.nodes[n].served)
Agree == \A a, b \in Node : ObsN(rs'[a]) = ObsN(rs'[b]) /\ served'[a] = served'[b]
Tolerated == "type_change_order_dependent" \in AsBuilt /\ Cardinality(kinds') > 1

Judge(ev) ==
  IF ~NodesOk(ev) THEN Verdict("replication state or served value differs from the specification")
  ELSE IF net' = {} /\ ~Agree /\ ~Tolerated THEN Verdict("replicas disagree although every update was delivered")
  ELSE TRUE

Cmd(ev) == [op |-> ev.op, v |-> ev.v, f |-> ev.f, e |-> ev.e]
LoggedEx(ev) == [ok |-> ~ev.err, s |-> JServed(ev.nodes[ev.n].served)]
KindOf(op) == IF op \in {"hset", "hdel"} THEN "hash" ELSE IF op = "del" THEN "del" ELSE "reg"

TraceInit == Init /\ l = 1 /\ run = 0 /\ kinds = {}

Skip == UNCHANGED <<vars, run, kinds>>
HasMsg(ev) == \E m \in net : m.to = ev.to /\ m.seq = ev.seq
Step(ev) ==
  CASE ev.a = "reset" ->
     /\ rs' = [n \in Node |-> None] /\ served' = [n \in Node |-> SNone] /\ clk' = [n \in Node |-> 0]
     /\ net' = {} /\ ncmds' = 0 /\ ndup' = 0 /\ nsent' = 0 /\ nae' = 0 /\ run' = ev.run /\ kinds' = {}
  [] ev.a = "client" ->
     /\ ClientWith(ev.n, Cmd(ev), IF ev.op \in {"incr", "append"} THEN LoggedEx(ev) ELSE Exec(served[ev.n], Cmd(ev)))
     /\ kinds' = kinds \cup ({KindOf(ev.op)} \ {"del"})
     /\ run' = run
     /\ (IF (ev.seq # 0) # (nsent' # nsent) THEN Verdict("a delta was produced / not produced against the specification") ELSE Judge(ev))
  [] ev.a \in {"deliver", "dup"} ->
     IF "skipped" \in DOMAIN ev THEN Skip
     ELSE IF ~HasMsg(ev) THEN Skip /\ Verdict("delivered a delta the specification did not send")
     ELSE /\ LET m == CHOOSE x \in net : x.to = ev.to /\ x.seq = ev.seq IN
               IF ev.a = "deliver" THEN Deliver(m) ELSE (Apply(m.to, m.rv) /\ UNCHANGED <<net, ncmds, ndup, nsent, nae>>)
          /\ UNCHANGED <<run, kinds>> /\ Judge(ev)
  [] ev.a = "nodepair" ->      \* node level: a write accepted by A and delivered to B is served by both alike (any key name)
     /\ Skip
     /\ (IF ev.a_get # ev.b_get \/ ev.a_hget # ev.b_hget \/ ev.deltas = 0
         THEN Verdict("two nodes serve different values for a key although its update was delivered") ELSE TRUE)
  [] ev.a = "ae" ->
     IF "skipped" \in DOMAIN ev THEN Skip
     ELSE IF IsNone(rs[ev.from]) THEN Skip /\ Verdict("anti-entropy from a node the specification holds empty")
     ELSE /\ Apply(ev.to, rs[ev.from]) /\ UNCHANGED <<net, ncmds, ndup, nsent, nae>>
          /\ UNCHANGED <<run, kinds>> /\ Judge(ev)
  [] OTHER -> Skip /\ Verdict("panic in code under test")

TraceNext ==
  \/ l <= Len(Rec) /\ Step(Rec[l]) /\ l' = l + 1
  \/ l = Len(Rec) + 1 /\ PrintT(<<"VALIDATED", Len(Rec)>>) /\ l' = l + 1 /\ UNCHANGED <<vars, run, kinds>>
TraceSpec == TraceInit /\ [][TraceNext]_tvars
=============================================================================
