------------------------------ MODULE ReplTrace ------------------------------
(* Trace validation for C06: every step of a run of real ReplicatedShardActors *)
(* (the harness is the network) must be the Replication action it names, with  *)
(* equal replication state (observable projection) and equal served value on   *)
(* EVERY node; whenever no message is in flight all nodes must agree.           *)
(* Command semantics proper (integer parsing, APPEND) is C01's subject: for     *)
(* INCR / APPEND the local outcome is taken from the log, the replication       *)
(* record and all merges are computed by the specification.                     *)
EXTENDS Replication, CrdtJson, Json, IOUtils

Rec == ndJsonDeserialize(IOEnv.TRACE)
VARIABLES l, run, kinds
tvars == <<vars, l, run, kinds>>

Verdict(what) == PrintT(<<"VERDICT", ToJson([run |-> run, l |-> l, v |-> "bad", what |-> what])>>)

JServed(s) == IF s.t = "none" THEN SNone
              ELSE IF s.t = "str" THEN SStrE(s.v, s.e)
              ELSE SHash([f \in {p[1] : p \in Range(s.h)} |-> (CHOOSE p \in Range(s.h) : p[1] = f)[2]])
JRsObs(o) == IF "absent" \in DOMAIN o THEN None ELSE JObs(o)

NodesOk(ev) == \A n \in Node : n <= Len(ev.nodes) =>
                 /\ ObsN(rs'[n]) = JRsObs(ev.nodes[n].rs)
                 /\ served'[n] = JServed(ev.nodes[n].served)
Agree == \A a, b \in Node : ObsN(rs'[a]) = ObsN(rs'[b]) /\ served'[a] = served'[b]
Tolerated == "type_change_order_dependent" \in AsBuilt /\ Cardinality(kinds') > 1

Judge(ev) ==
  IF ~NodesOk(ev) THEN Verdict("replication state or served value differs from the specification")
  ELSE IF net' = {} /\ ~Agree /\ ~Tolerated THEN Verdict("replicas disagree although every update was delivered")
  ELSE TRUE

Cmd(ev) == [op |-> ev.op, v |-> ev.v, f |-> ev.f, e |-> ev.e]
LoggedEx(ev) == [ok |-> ~ev.err, s |-> JServed(ev.nodes[ev.n].served)]
KindOf(op) == IF op \in {"hset", "hdel"} THEN "hash" ELSE IF op = "del" THEN "del" ELSE "reg"

(* MSET = the SETs, DEL k1 k2 = the DELs (reply: how many existed), MGET / EXISTS / DBSIZE read what GET reads *)
NIL == "<nil>"
RECURSIVE MkFold(_, _, _, _)
MkFold(script, i, st, acc) ==       \* acc: expected replies so far
  IF i > Len(script) THEN [st |-> st, rs |-> acc]
  ELSE LET c == script[i] IN
       IF c.op = "del" THEN
            LET n == Cardinality({j \in DOMAIN c.ks : st[c.ks[j]] # NIL /\ \A j2 \in DOMAIN c.ks : (j2 < j => c.ks[j2] # c.ks[j])}) IN
            MkFold(script, i + 1, [k \in DOMAIN st |-> IF \E j \in DOMAIN c.ks : c.ks[j] = k THEN NIL ELSE st[k]], Append(acc, n))
       ELSE MkFold(script, i + 1,
                   [k \in DOMAIN st |-> LET J == {j \in DOMAIN c.ks : c.ks[j] = k} IN
                                          IF J = {} THEN st[k] ELSE c.vs[CHOOSE j \in J : \A j2 \in J : j2 <= j]],
                   Append(acc, "+OK"))
MultiKeyVerdict(ev) ==
  LET f == MkFold(ev.script, 1, [k \in 1..ev.nk |-> NIL], <<>>)
      want == [k \in 1..ev.nk |-> f.st[k]]
      cnt == Cardinality({k \in 1..ev.nk : f.st[k] # NIL}) IN
  IF ev.replies # f.rs THEN "a multi-key command was not answered like the per-key commands it stands for"
  ELSE IF \E n \in DOMAIN ev.views : ev.views[n].gets # want
       THEN (IF ev.views[1].gets # want THEN "the node that accepted a multi-key write does not serve it key by key"
             ELSE "a multi-key write accepted by one node never reached the other (replicas disagree although every update was delivered)")
  ELSE IF \E n \in DOMAIN ev.views : ev.views[n].mget # want THEN "MGET on a node differs from the GETs of its keys"
  ELSE IF \E n \in DOMAIN ev.views : ev.views[n].exists # cnt THEN "EXISTS with several keys on a node differs from the keys that exist"
  ELSE IF \E n \in DOMAIN ev.views : ev.views[n].dbsize # cnt THEN "DBSIZE on a node differs from the number of keys it serves"
  ELSE "ok"

(* the simulator's cluster (multi_node.rs) after its network healed and everything was delivered or made up for by   *)
(* anti-entropy: per key, the write with the greatest (time, replica) stamp among those the nodes recorded is held *)
(* and served by every responsible node (Converged + WinnerIsGreatestStamp); at every client step the accepting     *)
(* node serves what its replication state says (ServedIsState)                                                      *)
StampLe(u, w) == u.t < w.t \/ (u.t = w.t /\ u.r <= w.r)
SimClusterVerdict(ev) ==
  LET W(k) == {i \in DOMAIN ev.writes : ev.writes[i].k = k}
      Win(k) == ev.writes[CHOOSE i \in W(k) : \A j \in W(k) : StampLe(ev.writes[j], ev.writes[i])]
      Want(k) == IF Win(k).v = "<del>" THEN NIL ELSE Win(k).v
  IN
  IF \E i \in DOMAIN ev.steps : ev.steps[i].get # ev.steps[i].rsv
    THEN "a node of the simulated cluster serves a value that its replication state does not hold (a write was recorded although it was not applied, or applied and not recorded)"
  ELSE IF \E i, j \in DOMAIN ev.writes : i # j /\ ev.writes[i].t = ev.writes[j].t /\ ev.writes[i].r = ev.writes[j].r /\ ev.writes[i].k = ev.writes[j].k
    THEN "two writes of one key carry the same stamp"
  ELSE IF ev.queue_left # 0 THEN "the simulated network never delivers a queued message although every partition healed"
  ELSE IF \E k \in 1..ev.nk : W(k) # {} /\ \E x \in DOMAIN ev.resp[k] : LET n == ev.resp[k][x] IN
            ev.views[n].rs[k] # <<Win(k).t, Win(k).r, Win(k).v>>
    THEN "a responsible node of the simulated cluster does not hold the write with the greatest stamp although every update was delivered (gossip, routing or anti-entropy of the simulator)"
  ELSE IF \E k \in 1..ev.nk : W(k) # {} /\ \E x \in DOMAIN ev.resp[k] : ev.views[ev.resp[k][x]].gets[k] # Want(k)
    THEN "a responsible node of the simulated cluster serves something else than the write with the greatest stamp although every update was delivered"
  ELSE IF \E k \in 1..ev.nk : W(k) = {} /\ \E n \in DOMAIN ev.views : ev.views[n].gets[k] # NIL
    THEN "a node serves a key nobody wrote"
  ELSE "ok"

TraceInit == Init /\ l = 1 /\ run = 0 /\ kinds = {}

Skip == UNCHANGED <<vars, run, kinds>>
HasMsg(ev) == \E m \in net : m.to = ev.to /\ m.seq = ev.seq
Step(ev) ==
  CASE ev.a = "reset" ->
     /\ rs' = [n \in Node |-> None] /\ served' = [n \in Node |-> SNone] /\ clk' = [n \in Node |-> 0]
     /\ net' = {} /\ ncmds' = 0 /\ ndup' = 0 /\ nsent' = 0 /\ nae' = 0 /\ run' = ev.run /\ kinds' = {}
  [] ev.a = "client" ->
     /\ ClientWith(ev.n, Cmd(ev), IF ev.op \in {"incr", "append"} THEN LoggedEx(ev) ELSE Exec(served[ev.n], Cmd(ev)))
     /\ kinds' = kinds \cup ({KindOf(ev.op)} \ {"del"})
     /\ run' = run
     /\ (IF (ev.seq # 0) # (nsent' # nsent) THEN Verdict("a delta was produced / not produced against the specification") ELSE Judge(ev))
  [] ev.a \in {"deliver", "dup"} ->
     IF "skipped" \in DOMAIN ev THEN Skip
     ELSE IF ~HasMsg(ev) THEN Skip /\ Verdict("delivered a delta the specification did not send")
     ELSE /\ LET m == CHOOSE x \in net : x.to = ev.to /\ x.seq = ev.seq IN
               IF ev.a = "deliver" THEN Deliver(m) ELSE (Apply(m.to, m.rv) /\ UNCHANGED <<net, ncmds, ndup, nsent, nae>>)
          /\ UNCHANGED <<run, kinds>> /\ Judge(ev)
  [] ev.a = "nodepair" ->      \* node level: a write accepted by A and delivered to B is served by both alike (any key name)
     /\ Skip
     /\ (IF ev.a_get # ev.b_get \/ ev.a_hget # ev.b_hget \/ ev.deltas = 0
         THEN Verdict("two nodes serve different values for a key although its update was delivered") ELSE TRUE)
  [] ev.a = "multikey" ->      \* node level: commands naming several keys mean the per-key commands, on every node
     /\ Skip
     /\ LET v == MultiKeyVerdict(ev) IN IF v # "ok" THEN Verdict(v) ELSE TRUE
  [] ev.a = "cluster" ->       \* node level, updates on the real gossip queue and through JSON: Converged after full delivery
     /\ Skip
     /\ (IF \E i \in DOMAIN ev.views : ev.views[i].reads # ev.views[1].reads
         THEN Verdict("nodes of a cluster answer reads differently although every update was delivered (gossip queue, wire format or routing on receipt)")
         ELSE IF \E i \in DOMAIN ev.views : ev.views[i].rs # ev.views[1].rs
         THEN Verdict("nodes of a cluster hold different replication states although every update was delivered")
         ELSE TRUE)
  [] ev.a = "simcluster" ->
     /\ Skip
     /\ LET v == SimClusterVerdict(ev) IN IF v # "ok" THEN Verdict(v) ELSE TRUE
  [] ev.a = "ae" ->
     IF "skipped" \in DOMAIN ev THEN Skip
     ELSE IF IsNone(rs[ev.from]) THEN Skip /\ Verdict("anti-entropy from a node the specification holds empty")
     ELSE /\ Apply(ev.to, rs[ev.from]) /\ UNCHANGED <<net, ncmds, ndup, nsent, nae>>
          /\ UNCHANGED <<run, kinds>> /\ Judge(ev)
  [] OTHER -> Skip /\ Verdict("panic in code under test")

TraceNext ==
  \/ l <= Len(Rec) /\ Step(Rec[l]) /\ l' = l + 1
  \/ l = Len(Rec) + 1 /\ PrintT(<<"VALIDATED", Len(Rec)>>) /\ l' = l + 1 /\ UNCHANGED <<vars, run, kinds>>
TraceSpec == TraceInit /\ [][TraceNext]_tvars
=============================================================================
