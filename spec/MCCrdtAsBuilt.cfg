\* As built: LamportClock::merge keeps self.replica_id. Expected: Commutative violated.
SPECIFICATION Spec
CONSTANTS
  Replica = {1, 2, 3}
  Val = {"a", "b"}
  Field = {"f"}
  Elem = {"e"}
  AsBuilt = {"stamp_keeps_self_replica"}
  Kinds = {"lww", "hash"}
  CausalModes = {FALSE}
  MaxSteps = 3
CONSTRAINT StepBound
INVARIANTS Commutative
CHECK_DEADLOCK FALSE
