---------------------------- MODULE SimShardActors ----------------------------
(* Schedule export for the scripted replay of C02: random behaviours of ShardActors *)
(* (TLC simulation mode) projected to what a single-threaded driver can control:    *)
(*   inv(c, kind, k, path)  create the call's future and poll it once               *)
(*   run                    let the shard actors run (one or more ShardSteps)       *)
(*   recv(c)                poll the caller's future to completion                  *)
(*   cancel(c)              drop the caller's future                                *)
EXTENDS MCShardActors, Json
VARIABLES script, ncancel
MaxCancel == 1
HInit == Init /\ script = <<>> /\ ncancel = 0
Add(e) == script' = Append(script, e)
HNext ==
  \/ \E c \in Client, kind \in {"set", "get"}, k \in Key, p \in Paths :
        /\ Invoke(c, kind, k, CHOOSE x \in Val : TRUE, p, MCHome)
        /\ Add([a |-> "inv", c |-> c, kind |-> kind, k |-> k, path |-> p]) /\ UNCHANGED ncancel
  \/ \E s \in Shard : ShardStep(s) /\ Add([a |-> "run", c |-> 0, kind |-> "", k |-> "", path |-> ""]) /\ UNCHANGED ncancel
  \/ \E c \in Client : Receive(c) /\ Add([a |-> "recv", c |-> c, kind |-> "", k |-> "", path |-> ""]) /\ UNCHANGED ncancel
  \/ \E c \in Client : Release(c) /\ UNCHANGED <<script, ncancel>>
  \/ \E c \in Client : ncancel < MaxCancel /\ ncancel' = ncancel + 1 /\ Cancel(c) /\ Add([a |-> "cancel", c |-> c, kind |-> "", k |-> "", path |-> ""])
HSpec == HInit /\ [][HNext]_<<vars, script, ncancel>>
Terminal == /\ \A c \in Client : nops[c] = MaxOps /\ pc[c] = "idle"
            /\ \A s \in Shard : mailbox[s] = <<>>
Export == Terminal => PrintT(<<"SCN", ToJson(script)>>)
=============================================================================
