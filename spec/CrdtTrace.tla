----------------------------- MODULE CrdtTrace -----------------------------
(* Trace validation for Crdt: every recorded step of the real              *)
(* ShardReplicaState / ReplicatedValue code must be the Crdt action it      *)
(* names, with equal observable projection on every replica; at the end of  *)
(* a run the three laws are checked on the logged results of the REAL       *)
(* merge (directly, and as refinement of the spec's Merge).                 *)
(* Verdicts are printed, one JSON line per failing step.                    *)
EXTENDS Crdt, CrdtJson, Json, IOUtils

Rec == ndJsonDeserialize(IOEnv.TRACE)
VARIABLE l
tvars == <<vars, l>>

Dev(d) == d \in AsBuilt
MaskR(o) == IF Dev("stamp_keeps_self_replica") THEN [o EXCEPT !.ts = <<@[1], 0>>] ELSE o

ObsEq(sv, o) == IF IsNone(sv) THEN "absent" \in DOMAIN o
                ELSE "absent" \notin DOMAIN o /\ "panic" \notin DOMAIN o /\ Obs(sv) = JObs(o)

StepOk(ev) == "panic" \notin DOMAIN ev /\ \A r \in Replica : ObsEq(x'[r], ev.obs[r])

(* Laws on the real merge results logged at the end of a run.              *)
(* pairs: <<a, b, obs(merge(x[a], x[b]))>>; tri: <<a, b, c, obs((a.b).c), obs(a.(b.c))>> *)
PairObs(ev, a, b) == (CHOOSE p \in Range(ev.laws.pairs) : p[1] = a /\ p[2] = b)[3]
KindOf(r) == x'[r].c.k
PairsOk(ev) ==
  \A p \in Range(ev.laws.pairs) :
    /\ "panic" \notin DOMAIN p[3]
    /\ JObs(p[3]) = Obs(Merge(x'[p[1]], x'[p[2]]))                         \* refinement
    /\ MaskR(JObs(p[3])) = MaskR(JObs(PairObs(ev, p[2], p[1])))            \* commutative
    /\ (p[1] = p[2] => JObs(p[3]) = JObs(ev.obs[p[1]]))                    \* idempotent
TriOk(ev) ==
  \A t \in Range(ev.laws.tri) :
    /\ "panic" \notin DOMAIN t[4] /\ "panic" \notin DOMAIN t[5]
    /\ JObs(t[4]) = Obs(Merge(Merge(x'[t[1]], x'[t[2]]), x'[t[3]]))        \* refinement
    /\ JObs(t[5]) = Obs(Merge(x'[t[1]], Merge(x'[t[2]], x'[t[3]])))
    /\ \/ MaskR(JObs(t[4])) = MaskR(JObs(t[5]))                            \* associative
       \/ /\ Dev("mismatch_not_associative")
          /\ Cardinality({KindOf(t[1]), KindOf(t[2]), KindOf(t[3])}) > 1
LawsOk(ev) == "laws" \notin DOMAIN ev \/ (PairsOk(ev) /\ TriOk(ev))

Verdict(ev, what) == PrintT(<<"VERDICT", ToJson([run |-> ev.run, l |-> l, v |-> "bad", what |-> what])>>)

Judge(ev) ==
  /\ l' = l + 1
  /\ IF ~StepOk(ev) THEN Verdict(ev, "step")
     ELSE IF ~LawsOk(ev) THEN Verdict(ev, IF ~PairsOk(ev) THEN "pair-law" ELSE "triple-law")
     ELSE TRUE

TraceInit == Init /\ l = 1

TraceNext ==
  \/ /\ l <= Len(Rec)
     /\ LET ev == Rec[l] IN
        \/ ev.a = "reset" /\ x' = [r \in Replica |-> None] /\ clk' = [r \in Replica |-> 0]
                          /\ steps' = 0 /\ l' = l + 1
                          /\ causal' = ("causal" \in DOMAIN ev /\ ev.causal) /\ nsets' = [r \in Replica |-> 0]
        \/ ev.a = "set"   /\ DoSet(ev.r, ev.v, ev.e) /\ Judge(ev)
        \/ ev.a = "del"   /\ DoDel(ev.r) /\ Judge(ev)
        \/ ev.a = "hset"  /\ DoHSet(ev.r, ev.f, ev.v) /\ Judge(ev)
        \/ ev.a = "hdel"  /\ (DoHDel(ev.r, ev.f) \/ DoHDelAbsent(ev.r, ev.f)) /\ Judge(ev)
        \/ ev.a = "tick"  /\ Tick(ev.r) /\ Judge(ev)
        \/ ev.a = "gcinc" /\ DoGcInc(ev.r, ev.n) /\ Judge(ev)
        \/ ev.a = "pninc" /\ DoPnInc(ev.r, ev.n) /\ Judge(ev)
        \/ ev.a = "pndec" /\ DoPnDec(ev.r, ev.n) /\ Judge(ev)
        \/ ev.a = "gsadd" /\ DoGsAdd(ev.r, ev.x) /\ Judge(ev)
        \/ ev.a = "oradd" /\ DoOrAdd(ev.r, ev.x) /\ Judge(ev)
        \/ ev.a = "orrem" /\ DoOrRem(ev.r, ev.x) /\ Judge(ev)
        \/ ev.a = "merge" /\ MergeFrom(ev.r, ev.s) /\ Judge(ev)
  \/ /\ l = Len(Rec) + 1
     /\ PrintT(<<"VALIDATED", Len(Rec)>>)
     /\ l' = l + 1 /\ UNCHANGED vars

TraceSpec == TraceInit /\ [][TraceNext]_tvars

(* Every design invariant is evaluated on every state of the observed run. *)
TraceInv == ClockDominates
=============================================================================
