----------------------------- MODULE WalPolicy -----------------------------
(***************************************************************************)
(* The WAL actor beyond the always-fsync group commit of Wal.tla: the      *)
(* three fsync policies (wal_actor.rs run_always_mode / run_everysec_mode  *)
(* / run_no_mode), the periodic SyncTick, graceful Shutdown, and           *)
(* TruncateUpTo messages arriving between writes.  The image layer, the    *)
(* rotator and the fault outcomes are those of Wal.tla (EXTENDS).          *)
(*                                                                         *)
(* What is specified                                                       *)
(*   PAckedIsDurable   always: an ack "durable" still means durable, also  *)
(*                     with ticks and truncations in the mailbox, except   *)
(*                     for entries a truncation was allowed to remove      *)
(*   QuietIsDurable    everysec: whenever the actor believes nothing is    *)
(*                     unsynced (since = 0) and no fsync has failed, every *)
(*                     acknowledged write is durable (the "RPO <= 1 tick"  *)
(*                     promise: a handled tick leaves nothing behind)      *)
(*   DownIsDurable     always/everysec: after a graceful shutdown every    *)
(*                     acknowledged write is durable (no fsync failure)    *)
(*   AckedIsWritten    every policy: an acknowledged write is in the       *)
(*                     (uncrashed) file image until a truncation removes it*)
(*   TruncSafe         C10's rule through the actor: a truncation up to T  *)
(*                     never removes the active file nor an entry stamped  *)
(*                     later than every T requested so far                 *)
(* As-built switches (must violate, vacuity control):                      *)
(*   "rotate_without_sync"   (Wal.tla) - breaks QuietIsDurable             *)
(*   "trunc_by_last_entry"   compares the LAST entry's stamp with T        *)
(*   "trunc_takes_active"    does not spare the active file                *)
(*   "shutdown_skips_sync"   everysec shutdown returns without fsync       *)
(***************************************************************************)
EXTENDS Wal

CONSTANTS Policy,     \* "always" | "everysec" | "no"
          TsOf,       \* writer -> stamp (not monotone in general)
          Thresholds  \* stamps a truncation may be asked for

VARIABLES tmax,   \* greatest truncation threshold handled so far (0 = none)
          gone,   \* writers whose entry was removed by a truncation
          down,   \* graceful shutdown completed
          sfail   \* some fsync has failed

pvars == <<vars, tmax, gone, down, sfail>>
Imm == Policy # "always"
Max2(a, b) == IF a > b THEN a ELSE b

PInit == Init /\ tmax = 0 /\ gone = {} /\ down = FALSE /\ sfail = FALSE

PSend(w) == ~down /\ Send(w) /\ UNCHANGED <<tmax, gone, down, sfail>>

PHandle(r) == /\ ~down /\ HandleG(r, Imm)
              /\ sfail' = (sfail \/ r.sync # "ok")
              /\ UNCHANGED <<tmax, gone, down>>

PFlush(ok) == /\ ~down /\ Policy = "always" /\ Flush(ok)
              /\ sfail' = (sfail \/ ~ok) /\ UNCHANGED <<tmax, gone, down>>

(* SyncTick: a no-op unless everysec with something appended since the last sync *)
Tick(ok) ==
  /\ ~down /\ Policy = "everysec" /\ since > 0
  /\ (~ok => CanFault /\ cur # 0)
  /\ files' = IF cur # 0 /\ ok THEN [files EXCEPT ![cur].synced = Len(files[cur].cells)] ELSE files
  /\ since' = 0          \* as the code does, also after a failed fsync (then sfail records it)
  /\ faults' = IF ok THEN faults ELSE faults + 1
  /\ sfail' = (sfail \/ ~ok)
  /\ UNCHANGED <<ack, queue, cur, roll, seq, pend, tmax, gone, down>>

(* truncate_before(T): every non-active file none of whose recoverable entries is newer than T *)
MaxTsF(ts, ws) == IF ws = <<>> THEN 0 ELSE LET S == {ts[ws[i]] : i \in DOMAIN ws} IN CHOOSE m \in S : \A x \in S : x <= m
MaxTs(ws) == MaxTsF(TsOf, ws)
FileStamp(f) == IF Dev("trunc_by_last_entry")
                THEN (LET ws == FileRecover(f) IN IF ws = <<>> THEN 0 ELSE TsOf[ws[Len(ws)]])
                ELSE MaxTs(FileRecover(f))
Eligible(T) == {i \in DOMAIN files : (i # cur \/ Dev("trunc_takes_active")) /\ FileStamp(files[i]) <= T}

Trunc(T) ==
  /\ ~down
  /\ LET E == Eligible(T)
     IN /\ files' = [i \in DOMAIN files \ E |-> files[i]]
        /\ gone' = gone \cup UNION {RangeS(FileRecover(files[i])) : i \in E}
  /\ tmax' = Max2(tmax, T)
  /\ UNCHANGED <<ack, queue, cur, roll, seq, pend, since, faults, down, sfail>>

(* Shutdown: always = final group-commit flush; everysec = final fsync if needed; no = nothing *)
Shutdown(ok) ==
  /\ ~down /\ queue = <<>>
  /\ (~ok => CanFault /\ cur # 0 /\ since > 0 /\ Policy # "no")
  /\ LET syncs == Policy # "no" /\ since > 0 /\ cur # 0 /\ ~(Policy = "everysec" /\ Dev("shutdown_skips_sync"))
     IN /\ files' = IF syncs /\ ok THEN [files EXCEPT ![cur].synced = Len(files[cur].cells)] ELSE files
        /\ ack' = [w \in Writers |-> IF w \in pend THEN (IF ok THEN "ok" ELSE "err") ELSE ack[w]]
        /\ sfail' = (sfail \/ ~ok)
  /\ pend' = {} /\ since' = 0 /\ down' = TRUE
  /\ faults' = IF ok THEN faults ELSE faults + 1
  /\ UNCHANGED <<queue, cur, roll, seq, tmax, gone>>

PNext ==
  \/ \E w \in Writers : PSend(w)
  \/ \E s \in {"ok", "fail"}, c \in {"ok", "fail"}, h \in Outcomes, a \in Outcomes : PHandle(R(s, c, h, a))
  \/ \E ok \in BOOLEAN : PFlush(ok) \/ Tick(ok) \/ Shutdown(ok)
  \/ \E T \in Thresholds : Trunc(T)

PSpec == PInit /\ [][PNext]_pvars

---------------------------------------------------------------------------
Acked == {w \in Writers : ack[w] = "ok"} \ gone

PAckedIsDurable == Policy = "always" => \A w \in Acked : Durable(w)
QuietIsDurable  == Policy = "everysec" /\ since = 0 /\ ~sfail => \A w \in Acked : Durable(w)
DownIsDurable   == down /\ ~sfail /\ Policy # "no" => \A w \in Acked : Durable(w)
AckedIsWritten  == \A w \in Acked : w \in RecoverSet(files)
TruncSafe       == /\ \A w \in gone : TsOf[w] <= tmax
                   /\ cur # 0 => cur \in DOMAIN files
(* files the rotator has let go of hold no unsynced entry *)
OldFilesSynced  == ~sfail => \A i \in DOMAIN files : i # cur /\ ~(roll /\ i = cur) =>
                      \A w \in RangeS(FileRecover(files[i])) : w \in RangeS(FileRecover(CrashImage(files)[i]))
=============================================================================
