SPECIFICATION Spec
CONSTANTS
  Key = {"a", "b"}
  Shard = {1, 2}
  Val = {"x", "y"}
  MaxOps = 4
  AsBuilt = {}
INVARIANTS OneHome ReadsAgree Refines
CHECK_DEADLOCK FALSE
