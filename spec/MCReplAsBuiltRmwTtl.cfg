SPECIFICATION Spec
CONSTANTS
  Node = {1, 2}
  Val = {"1"}
  Field = {"f", "g"}
  MaxCmds = 2
  MaxDup = 1
  MaxAE = 1
  CmdKinds = {"set", "incr", "append"}
  AsBuilt = {"rmw_drops_ttl"}
INVARIANTS ServedIsState
CHECK_DEADLOCK FALSE
