SPECIFICATION Spec
CONSTANTS
  Node = {1, 2}
  Val = {"1", "x"}
  Field = {"f", "g"}
  MaxCmds = 2
  MaxDup = 1
  MaxAE = 1
  CmdKinds = {"set", "setnx"}
  AsBuilt = {"nx_records_unapplied"}
INVARIANTS ServedIsState
CHECK_DEADLOCK FALSE
