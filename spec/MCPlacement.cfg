SPECIFICATION Spec
CONSTANTS
  Nodes = {1, 2, 3}
  VNodes = 2
  Positions = {1, 2, 3, 4, 5, 6, 7}
  AsBuilt = {}
INVARIANTS SizeAndDistinct PrefixInRf MinimalDisruption RouterCoverage
CHECK_DEADLOCK FALSE
