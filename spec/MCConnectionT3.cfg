SPECIFICATION Spec
CONSTANTS
  Frames <- FrameSet
  MaxLen = 4
  Threshold = 3
  MinBuf = 2
  AsBuilt = {}
INVARIANTS OneReplyEachInOrder
CHECK_DEADLOCK FALSE
