SPECIFICATION Spec
CONSTANTS
  AsBuilt = {}
  WalFilter = FALSE
  NU = 3
INVARIANT Export
CHECK_DEADLOCK FALSE
