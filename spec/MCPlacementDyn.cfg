SPECIFICATION DSpec
CONSTANTS
  Nodes = {1, 2, 3}
  VNodes = 2
  Positions = {1, 2, 3, 4, 5, 6, 7}
  AsBuilt = {}
INVARIANTS RingIsMembers SizeDyn CoverageSettled NobodyElse OnlyGainOrLose
CHECK_DEADLOCK FALSE
