-------------------------------- MODULE Wal --------------------------------
(***************************************************************************)
(* Write-ahead log of nerdsane/redis-rust: file images (wal.rs), store     *)
(* I/O calls (wal_store.rs), the rotator and the group-commit actor in     *)
(* always-fsync mode (wal_actor.rs).                                       *)
(*                                                                         *)
(* Layers                                                                  *)
(*  - image layer: a file is a sequence of cells, "H" (intact header),     *)
(*    "h" (torn header), or an entry cell [w, torn]; `synced' is the       *)
(*    number of leading cells covered by a successful fsync.  Recover and  *)
(*    CrashImage are defined on images.  The primitive I/O actions         *)
(*    (IoCreate, IoAppend, IoSync, IoAck) are what a trace of the real     *)
(*    code is validated against (WalTrace.tla): they constrain only what   *)
(*    C09 talks about - an ack may say "durable" only if the entry lies in *)
(*    a synced prefix.                                                     *)
(*  - controller layer: the rotator + actor as a sequential program over   *)
(*    those calls, with every fault outcome at every call.  Two named      *)
(*    as-built deviations (constant AsBuilt):                              *)
(*      "rotate_without_sync"        rotate() drops the old writer without *)
(*                                   fsync while acks are still pending    *)
(*      "drop_writer_on_failed_append" a failed append drops the writer,   *)
(*                                   after which sync() is a no-op `Ok'    *)
(***************************************************************************)
EXTENDS Naturals, Sequences, FiniteSets, TLC

CONSTANTS Writers,     \* ids of durable writes (naturals)
          Cap,         \* entries per file before rotation
          MaxBatch,    \* group_commit_max_entries
          MaxFaults,   \* fault budget
          AsBuilt

VARIABLES files,   \* seq number -> [cells, synced]
          ack,     \* w -> "none" | "sent" | "ok" | "err"
          queue,   \* messages sent, not yet handled (FIFO)
          cur,     \* rotator.current_writer: file seq or 0
          roll,    \* rotator must rotate before the next append (ideal handling of a failed append)
          seq,     \* rotator.current_sequence
          pend,    \* actor.pending_acks
          since,   \* actor.entries_since_sync
          faults   \* faults injected so far

vars == <<files, ack, queue, cur, roll, seq, pend, since, faults>>

Dev(d) == d \in AsBuilt
Hdr == [k |-> "H", w |-> 0, torn |-> FALSE]
TornHdr == [k |-> "h", w |-> 0, torn |-> TRUE]
Ent(w, torn) == [k |-> "e", w |-> w, torn |-> torn]
IsEnt(c) == c.k = "e"

---------------------------------------------------------------------------
(* Image layer *)
NoFile == [cells |-> <<>>, synced |-> 0]
FileIds(F) == DOMAIN F
Take(s, n) == SubSeq(s, 1, IF n < Len(s) THEN n ELSE Len(s))

(* entries of one file that recovery returns: header intact, then the      *)
(* longest prefix of intact entries                                        *)
RECURSIVE GoodPrefix(_)
GoodPrefix(cs) == IF cs = <<>> \/ ~IsEnt(Head(cs)) \/ Head(cs).torn THEN <<>>
                  ELSE <<Head(cs).w>> \o GoodPrefix(Tail(cs))
FileRecover(f) == IF f.cells = <<>> \/ f.cells[1] # Hdr THEN <<>> ELSE GoodPrefix(Tail(f.cells))

RangeS(s) == {s[i] : i \in DOMAIN s}
RecoverSet(F) == UNION {RangeS(FileRecover(F[i])) : i \in DOMAIN F}

(* crash: every byte not covered by a successful fsync of its file is lost *)
CrashImage(F) == [i \in DOMAIN F |-> [cells |-> Take(F[i].cells, F[i].synced), synced |-> F[i].synced]]

Durable(w) == w \in RecoverSet(CrashImage(files))

(* C09 *)
AckedIsDurable == \A w \in Writers : ack[w] = "ok" => Durable(w)

---------------------------------------------------------------------------
(* Primitive I/O actions (image layer + acks). *)
IoCreate(i) == files' = [j \in DOMAIN files \cup {i} |-> IF j = i THEN NoFile ELSE files[j]]
IoAppend(i, cell) == files' = [files EXCEPT ![i].cells = Append(@, cell)]
IoSync(i) == files' = [files EXCEPT ![i].synced = Len(files[i].cells)]
IoAck(w, ok) == ack' = [ack EXCEPT ![w] = IF ok THEN "ok" ELSE "err"]

---------------------------------------------------------------------------
(* Controller layer *)
Init == /\ files = <<>>
        /\ ack = [w \in Writers |-> "none"]
        /\ queue = <<>> /\ cur = 0 /\ roll = FALSE /\ seq = 0 /\ pend = {} /\ since = 0 /\ faults = 0

CanFault == faults < MaxFaults

Send(w) == /\ ack[w] = "none"
           /\ ack' = [ack EXCEPT ![w] = "sent"]
           /\ queue' = Append(queue, w)
           /\ UNCHANGED <<files, cur, roll, seq, pend, since, faults>>

EntCount(i) == Len(SelectSeq(files[i].cells, IsEnt))
NeedsNew == cur = 0 \/ roll \/ EntCount(cur) >= Cap

(* The file the old writer has to be fsynced before it is dropped (ideal). *)
SyncOld(F, ok) == IF cur # 0 /\ ok THEN [F EXCEPT ![cur].synced = Len(F[cur].cells)] ELSE F

(* handle_message_always(Write) = rotator.append(entry), all outcomes.     *)
(* r.sync : outcome of the fsync of the old file on rotation (ideal only)  *)
(* r.create, r.hdr, r.app : outcomes of create / header append / entry     *)
(* append: "ok", "fail" (nothing written), "torn" (partial bytes + error)  *)
Outcomes == {"ok", "fail", "torn"}
NFaults(r) == Cardinality({k \in {"sync", "create", "hdr", "app"} : r[k] # "ok"})

(* imm = FALSE: always-fsync (the ack waits for the batch fsync);                 *)
(* imm = TRUE : EverySecond / No policies (WalPolicy.tla): ack right after append *)
HandleG(r, imm) ==
  /\ queue # <<>> /\ (imm \/ since < MaxBatch)
  /\ faults + NFaults(r) <= MaxFaults
  /\ LET w == Head(queue)
         rotate == NeedsNew
         syncs == rotate /\ cur # 0 /\ ~Dev("rotate_without_sync")
         syncOk == r.sync = "ok"
         \* ideal: a failed fsync of the old file aborts the rotation (writer kept, append fails)
         abort == syncs /\ ~syncOk
         F1 == IF syncs THEN SyncOld(files, syncOk) ELSE files
         newSeq == IF rotate /\ ~abort THEN seq + 1 ELSE seq
         createOk == r.create = "ok"
         F2 == IF rotate /\ ~abort /\ createOk
               THEN [j \in DOMAIN F1 \cup {newSeq} |-> IF j = newSeq THEN NoFile ELSE F1[j]] ELSE F1
         hdrOk == r.hdr = "ok"
         F3 == IF rotate /\ ~abort /\ createOk
               THEN [F2 EXCEPT ![newSeq].cells =
                       IF hdrOk THEN <<Hdr>> ELSE IF r.hdr = "torn" THEN <<TornHdr>> ELSE <<>>]
               ELSE F2
         fileOk == IF rotate THEN ~abort /\ createOk /\ hdrOk ELSE TRUE
         target == IF rotate THEN newSeq ELSE cur
         appOk == fileOk /\ r.app = "ok"
         F4 == IF fileOk
               THEN IF r.app = "ok" THEN [F3 EXCEPT ![target].cells = Append(@, Ent(w, FALSE))]
                    ELSE IF r.app = "torn" THEN [F3 EXCEPT ![target].cells = Append(@, Ent(w, TRUE))]
                    ELSE F3
               ELSE F3
     IN
       /\ (~syncs => r.sync = "ok") /\ (~rotate \/ abort => r.create = "ok" /\ r.hdr = "ok")
       /\ (~fileOk => r.app = "ok")                       \* no call, no fault
       /\ (r.create # "torn") /\ (r.sync # "torn")
       /\ files' = F4
       /\ seq' = newSeq
       /\ queue' = Tail(queue)
       /\ faults' = faults + NFaults(r)
       /\ IF appOk
          THEN /\ cur' = target /\ roll' = FALSE
               /\ IF imm THEN pend' = pend /\ since' = 1 /\ ack' = [ack EXCEPT ![w] = "ok"]
                         ELSE pend' = pend \cup {w} /\ since' = since + 1 /\ ack' = ack
          ELSE /\ ack' = [ack EXCEPT ![w] = "err"]
               /\ pend' = pend /\ since' = since
               /\ IF abort THEN cur' = cur /\ roll' = roll
                  ELSE IF ~fileOk THEN cur' = 0 /\ roll' = FALSE            \* rotate() left no writer
                  ELSE IF Dev("drop_writer_on_failed_append") THEN cur' = 0 /\ roll' = FALSE
                  ELSE cur' = target /\ roll' = TRUE                        \* keep it for the batch fsync

Handle(r) == HandleG(r, FALSE)

(* flush_group_commit: one fsync of the current file resolves all pending. *)
Flush(ok) ==
  /\ since > 0
  /\ (~ok => CanFault /\ cur # 0)
  /\ files' = IF cur # 0 /\ ok THEN [files EXCEPT ![cur].synced = Len(files[cur].cells)] ELSE files
  /\ ack' = [w \in Writers |-> IF w \in pend THEN (IF ok THEN "ok" ELSE "err") ELSE ack[w]]
  /\ pend' = {} /\ since' = 0
  /\ faults' = IF ok THEN faults ELSE faults + 1
  /\ UNCHANGED <<queue, cur, roll, seq>>

R(s, c, h, a) == [sync |-> s, create |-> c, hdr |-> h, app |-> a]
Next ==
  \/ \E w \in Writers : Send(w)
  \/ \E s \in {"ok", "fail"}, c \in {"ok", "fail"}, h \in Outcomes, a \in Outcomes : Handle(R(s, c, h, a))
  \/ \E ok \in BOOLEAN : Flush(ok)

Spec == Init /\ [][Next]_vars /\ WF_vars(Next)

---------------------------------------------------------------------------
TypeOK == /\ \A w \in Writers : ack[w] \in {"none", "sent", "ok", "err"}
          /\ cur \in 0..seq /\ since <= MaxBatch /\ faults <= MaxFaults
PendingAreAppended == \A w \in pend : ack[w] = "sent" /\ w \in RecoverSet(files)
(* every accepted write is eventually answered *)
Answered == \A w \in Writers : ack[w] = "sent" ~> ack[w] \in {"ok", "err"}
=============================================================================
