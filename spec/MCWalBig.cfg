\* ideal controller: 4 writers, 2 entries per file, batches <= 3, <= 2 faults anywhere
SPECIFICATION Spec
CONSTANTS
  Writers = {1, 2, 3, 4, 5}
  Cap = 2
  MaxBatch = 3
  MaxFaults = 3
  AsBuilt = {}
INVARIANTS TypeOK AckedIsDurable PendingAreAppended
CHECK_DEADLOCK FALSE
