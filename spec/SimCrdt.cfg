SPECIFICATION HSpec
CONSTANTS
  Replica = {1, 2, 3}
  Val = {"a", "b"}
  Field = {"f", "g"}
  Elem = {"e"}
  AsBuilt = {}
  Kinds = {"lww", "hash"}
  CausalModes = {FALSE}
  MaxSteps = 4
  MinSteps = 2
VIEW View
CONSTRAINT StepBound
INVARIANT Export
CHECK_DEADLOCK FALSE
