SPECIFICATION TraceSpec
CONSTANT AsBuilt = {}
CHECK_DEADLOCK FALSE
