-------------------------------- MODULE Repro --------------------------------
(***************************************************************************)
(* C20: a simulation harness is a function of (configuration, seed).       *)
(*                                                                         *)
(* A harness run is a transition system driven by a seeded stream:         *)
(*     st' = F(st, Draw(seed, k))            k = 0, 1, 2, ...              *)
(* and its trace is the sequence of states (operation log, final state,    *)
(* verdict).  Everything else a process has - the per-process hash seed,   *)
(* the wall clock, what an earlier run left in thread-local or static      *)
(* storage - is `ambient'.  The spec runs the same (configuration, seed)   *)
(* twice: two runs in one process (the second starts with the ambient      *)
(* state the first one left) and one in another process (arbitrary         *)
(* ambient).  Reproducible: the three traces are equal.                    *)
(*                                                                         *)
(* As-built switches (each reproduces a way the code can break this):      *)
(*   "ambient_read"    a step folds ambient state into the harness state   *)
(*                     (hash-map iteration order, SystemTime, thread_rng)  *)
(*   "leftover"        the report includes a counter kept outside the      *)
(*                     harness that a new run does not reset (found: the   *)
(*                     BUGGIFY statistics of DSTSimulation)                *)
(***************************************************************************)
EXTENDS Naturals, Sequences, FiniteSets, TLC
CONSTANTS Seeds, MaxSteps, Ambients, AsBuilt
Dev(d) == d \in AsBuilt
M == 4
Draw(seed, k) == (seed * 7 + k * 3 + 1) % M
F(st, d) == (st * 2 + d) % M

Runs == {"p1r1", "p1r2", "p2r1"}
VARIABLES seed, amb,      \* run -> ambient value visible to it
          st, k, trace,   \* run -> harness state / stream position / trace
          counter,        \* process -> counter kept outside the harness ("p1", "p2")
          phase           \* which run is executing: p1r1, then p1r2, then p2r1, then "done"
vars == <<seed, amb, st, k, trace, counter, phase>>
Proc(r) == IF r = "p2r1" THEN "p2" ELSE "p1"

Init == /\ seed \in Seeds
        /\ amb \in [Runs -> Ambients]
        /\ st = [r \in Runs |-> 0] /\ k = [r \in Runs |-> 0] /\ trace = [r \in Runs |-> <<>>]
        /\ counter = [p \in {"p1", "p2"} |-> 0]
        /\ phase = "p1r1"
NextPhase(r) == CASE r = "p1r1" -> "p1r2" [] r = "p1r2" -> "p2r1" [] r = "p2r1" -> "done"

Step(r) ==
  /\ phase = r /\ k[r] < MaxSteps
  /\ LET d == Draw(seed, k[r])
         s2 == IF Dev("ambient_read") THEN (F(st[r], d) + amb[r]) % M ELSE F(st[r], d)
     IN /\ st' = [st EXCEPT ![r] = s2]
        /\ trace' = [trace EXCEPT ![r] = Append(@, s2)]
  /\ k' = [k EXCEPT ![r] = @ + 1]
  /\ counter' = [counter EXCEPT ![Proc(r)] = @ + 1]
  /\ UNCHANGED <<seed, amb, phase>>
(* end of a run: the report (verdict + statistics) is appended; a new run resets what it owns *)
Finish(r) ==
  /\ phase = r /\ k[r] = MaxSteps
  /\ trace' = [trace EXCEPT ![r] = Append(@, <<"report", st[r], counter[Proc(r)]>>)]
  /\ counter' = IF Dev("leftover") THEN counter ELSE [counter EXCEPT ![Proc(r)] = 0]
  /\ phase' = NextPhase(r)
  /\ UNCHANGED <<seed, amb, st, k>>
Next == \E r \in Runs : Step(r) \/ Finish(r)
Spec == Init /\ [][Next]_vars

Reproducible == phase = "done" => /\ trace["p1r1"] = trace["p1r2"]     \* same process, twice
                                  /\ trace["p1r1"] = trace["p2r1"]     \* another process
(* while running: the traces agree on their common prefix *)
PrefixAgree == \A a, b \in Runs : \A i \in 1..Len(trace[a]) : i <= Len(trace[b]) => trace[a][i] = trace[b][i]
=============================================================================
