SPECIFICATION Spec
CONSTANTS
  NKeys = 4
  Limit = 2
  MaxWrites = 4
  AsBuilt = {}
INVARIANTS DigestIffState
PROPERTY EventuallyInSync
CHECK_DEADLOCK FALSE
