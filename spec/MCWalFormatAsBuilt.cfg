SPECIFICATION Spec
CONSTANT AsBuilt = {"stamp_not_covered"}
INVARIANTS SoundRead
CHECK_DEADLOCK FALSE
