----------------------------- MODULE WalFormat -----------------------------
(***************************************************************************)
(* WAL file images under damage (C10).                                     *)
(* A file is a 16-byte header followed by entries                          *)
(*   [ len:4 | stamp:8 | crc:4 | data:len ].                               *)
(* Damage: Cut(n) keeps the first n bytes; a changed byte range [lo, hi]   *)
(* (bit flip, burst overwrite, zero fill); Ext(k) appends k zero bytes.    *)
(*                                                                         *)
(* What C10 demands of recovery, for a set of files of which one is        *)
(* damaged:                                                                *)
(*   Sound    every returned entry is bit-identical to an appended entry,  *)
(*            entries come in append order, none twice;                    *)
(*   Complete every entry of an undamaged file is returned, and of the     *)
(*            damaged file every entry that lies wholly before the first   *)
(*            damaged byte (if magic and version are intact).              *)
(* and of truncation up to T: the active file stays, and no entry stamped  *)
(* later than T disappears.                                                *)
(*                                                                         *)
(* The module has (1) the layout arithmetic and the judge used to validate *)
(* cases recorded from the real reader (WalFormatTrace), and (2) an        *)
(* abstract region-level reader, ideal and as built, model-checked over    *)
(* every damage placement (MCWalFormat).                                   *)
(***************************************************************************)
EXTENDS Naturals, Integers, Sequences, FiniteSets, TLC

CONSTANT AsBuilt
Dev(d) == d \in AsBuilt

HeaderLen == 16
Overhead == 16

RECURSIVE SumTo(_, _)
SumTo(sizes, k) == IF k = 0 THEN 0 ELSE (Overhead + sizes[k]) + SumTo(sizes, k - 1)
(* byte offset of entry i (1-based) and one past its end *)
Off(sizes, i) == HeaderLen + SumTo(sizes, i - 1)
End(sizes, i) == HeaderLen + SumTo(sizes, i)
FileLen(sizes) == End(sizes, Len(sizes))

(* A damage descriptor: [cut |-> n or -1, lo |-> first changed byte or -1, hi |-> last changed byte] *)
NoDamage == [cut |-> -1, lo |-> -1, hi |-> -1]
FirstBad(d, flen) ==
  LET c == IF d.cut >= 0 /\ d.cut < flen THEN d.cut ELSE flen
      l == IF d.lo >= 0 THEN d.lo ELSE flen
  IN IF c < l THEN c ELSE l
Touches(d, a, b) == \* does the damage touch bytes [a, b) ?
  \/ (d.cut >= 0 /\ d.cut < b)
  \/ (d.lo >= 0 /\ d.lo < b /\ d.hi >= a)

(* entries (indices) of a file that must be returned *)
MustOf(sizes, d) ==
  IF Touches(d, 0, 5) THEN {}                      \* magic / version damaged: file may be skipped
  ELSE IF Touches(d, 5, HeaderLen) THEN {}         \* unused header bytes: either outcome is acceptable
  ELSE {i \in 1..Len(sizes) : End(sizes, i) <= FirstBad(d, FileLen(sizes))}
(* entries whose bytes are all unchanged *)
IntactOf(sizes, d) == {i \in 1..Len(sizes) : ~Touches(d, Off(sizes, i), End(sizes, i))}
(* the entry whose stamp field alone contains the whole changed range, or 0 *)
StampOnly(sizes, d) ==
  IF d.cut >= 0 \/ d.lo < 0 THEN 0
  ELSE LET S == {i \in 1..Len(sizes) : d.lo >= Off(sizes, i) + 4 /\ d.hi < Off(sizes, i) + 12}
       IN IF S = {} THEN 0 ELSE CHOOSE i \in S : TRUE

---------------------------------------------------------------------------
(* Abstract region-level reader, for model checking the design.            *)
(* Region of byte b inside entry i: "L" len, "S" stamp, "C" crc, "D" data. *)
(* Ideal: every region of an entry is covered by its checksum.  As built   *)
(* ("stamp_not_covered"): the checksum covers the data only, and len/crc   *)
(* changes are caught indirectly; a changed stamp is not caught.           *)
EntryAccepted(sizes, d, i) ==
  LET o == Off(sizes, i)
  IN /\ ~(d.cut >= 0 /\ d.cut < End(sizes, i))                 \* fully present
     /\ ~Touches([d EXCEPT !.cut = -1], o, o + 4)              \* len
     /\ ~Touches([d EXCEPT !.cut = -1], o + 12, End(sizes, i)) \* crc + data
     /\ (Dev("stamp_not_covered") \/ ~Touches([d EXCEPT !.cut = -1], o + 4, o + 12))
RECURSIVE ReadFrom(_, _, _)
ReadFrom(sizes, d, i) ==
  IF i > Len(sizes) \/ ~EntryAccepted(sizes, d, i) THEN <<>>
  ELSE <<[i |-> i, same |-> ~Touches(d, Off(sizes, i), End(sizes, i))]>> \o ReadFrom(sizes, d, i + 1)
AbstractRead(sizes, d) == IF Touches(d, 0, 5) THEN <<>> ELSE ReadFrom(sizes, d, 1)

VARIABLES sizes, dmg
Sizes == {<<1>>, <<1, 2>>, <<2, 1, 3>>}
Init == /\ sizes \in Sizes
        /\ \E n \in 0..(FileLen(sizes)), lo \in -1..(FileLen(sizes) - 1), w \in 0..2 :
             \/ dmg = [cut |-> n, lo |-> -1, hi |-> -1]
             \/ lo >= 0 /\ lo + w < FileLen(sizes) /\ dmg = [cut |-> -1, lo |-> lo, hi |-> lo + w]
Next == UNCHANGED <<sizes, dmg>>
Spec == Init /\ [][Next]_<<sizes, dmg>>

RangeS(s) == {s[k] : k \in DOMAIN s}
SoundRead == \A e \in RangeS(AbstractRead(sizes, dmg)) : e.same
CompleteRead == MustOf(sizes, dmg) \subseteq {e.i : e \in RangeS(AbstractRead(sizes, dmg))}
=============================================================================
