SPECIFICATION PSpec
CONSTANTS
  Writers = {1, 2, 3}
  Cap = 2
  MaxBatch = 2
  MaxFaults = 1
  AsBuilt = {"shutdown_skips_sync"}
  Policy = "everysec"
  TsOf <- TsDef
  Thresholds <- ThDef
INVARIANTS DownIsDurable
CHECK_DEADLOCK FALSE
