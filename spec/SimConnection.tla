---------------------------- MODULE SimConnection ----------------------------
(* Scenario export for Connection: every wire of up to MaxLen frames with every *)
(* way of delivering it in reads (n complete frames, optionally followed by a   *)
(* fragment of the next frame).                                                 *)
EXTENDS MCConnection, Json
VARIABLE hist
HInit == Init /\ hist = [frames |-> wire, reads |-> <<>>]
HNext == \E n \in 0..MaxLen, frag \in BOOLEAN :
            Read(n, frag) /\ hist' = [hist EXCEPT !.reads = Append(@, <<n, IF frag THEN 1 ELSE 0>>)]
HSpec == HInit /\ [][HNext]_<<vars, hist>>
Export == (wire = <<>>) => PrintT(<<"SCN", ToJson([frames |-> hist.frames, reads |-> hist.reads, threshold |-> Threshold, minbuf |-> MinBuf])>>)
=============================================================================
