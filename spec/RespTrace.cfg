SPECIFICATION TraceSpec
CONSTANT MaxDepth = 128
CHECK_DEADLOCK FALSE
