----------------------------- MODULE Streaming -----------------------------
(***************************************************************************)
(* Streaming persistence of nerdsane/redis-rust at object-store-call       *)
(* granularity: StreamingPersistence::push/flush (persistence.rs),         *)
(* ManifestManager::save = put(tmp); rename(tmp, manifest) (manifest.rs),  *)
(* Compactor::compact (compaction.rs), RecoveryManager::recover.           *)
(*                                                                         *)
(* The store image of a state IS the crash image of that state, so the     *)
(* crash-consistency properties C12/C13 are plain state invariants:        *)
(*   ManifestSound          the manifest references only complete objects  *)
(*   ConfirmedRecoverable   every delta of every flush that returned Ok is *)
(*                          returned by recovery (until a compaction ran)  *)
(*   NothingSilentlyDropped an accepted delta is confirmed, buffered or in *)
(*                          flight while the process lives                 *)
(*   RecoveryStable         recovery never returns less (or other) per-key *)
(*                          content than the confirmed deltas carry        *)
(*                                                                         *)
(* Deltas are abstract: [id, k, facts, t, tomb].  The content of a key is  *)
(* the union of the facts of its deltas newer than its newest tombstone    *)
(* (hash-like union merge + delete), which is enough to tell "merged" from *)
(* "latest delta wins".                                                    *)
(*                                                                         *)
(* As-built deviations (constant AsBuilt):                                 *)
(*   "flush_drops_buffer"   a failed flush discards the taken buffer       *)
(*   "no_manifest_cas"      flush and compaction overwrite the manifest    *)
(*                          blindly and allocate ids from a stale copy     *)
(*   "compact_latest_wins"  compaction keeps the latest delta per key      *)
(*   "gc_ignores_outside"   tombstone GC ignores segments not compacted    *)
(*   "compact_drops_checkpoint"  the manifest written by a compaction loses the checkpoint pointer *)
(***************************************************************************)
EXTENDS Naturals, Sequences, FiniteSets, TLC

CONSTANTS Deltas,      \* set of delta records [id, k, facts, t, tomb]
          MaxFaults,
          MaxSelect,   \* max_segments_per_compaction
          GcBefore,    \* tombstones with t < GcBefore are older than the TTL
          Concurrent,  \* TRUE: flush and compaction interleave at call granularity
          WithCheckpoint,  \* TRUE: checkpoints may be installed
          OrderedPush, \* TRUE: deltas arrive in stamp order (the TTL assumption behind tombstone GC)
          AsBuilt

Dev(d) == d \in AsBuilt

VARIABLES objs,       \* key -> object:  manifest [segs, next, ver] | segment [ds, partial]
          buffer,     \* deltas pushed, not yet taken by a flush
          accepted, confirmed,
          fpc, fl,    \* flush process: pc and locals
          cpc, cl,    \* compaction process
          lock,       \* "none" | "flush" | "compact"  (ideal mutual exclusion)
          faults

vars == <<objs, buffer, accepted, confirmed, fpc, fl, cpc, cl, lock, faults>>

EmptyMan == [segs |-> {}, next |-> 0, ver |-> 0, ck |-> {}]      \* ck: the deltas folded into the checkpoint the manifest points to
(* the store image: manifest / manifest.tmp objects (with presence flags) and segment objects by id *)
EmptyStore == [man |-> EmptyMan, hasman |-> FALSE, tmp |-> EmptyMan, hastmp |-> FALSE, segs |-> <<>>]
HasSeg(O, i) == i \in DOMAIN O.segs
PutSeg(O, i, v) == [O EXCEPT !.segs = [j \in DOMAIN O.segs \cup {i} |-> IF j = i THEN v ELSE O.segs[j]]]
DelSegs(O, S) == [O EXCEPT !.segs = [j \in DOMAIN O.segs \ S |-> O.segs[j]]]
PutTmp(O, m) == [O EXCEPT !.tmp = m, !.hastmp = TRUE]
RenameTmp(O) == [O EXCEPT !.man = O.tmp, !.hasman = TRUE, !.hastmp = FALSE]
CurMan == IF objs.hasman THEN objs.man ELSE EmptyMan

---------------------------------------------------------------------------
(* Recovery on a store image *)
RefSegs(O) == IF O.hasman THEN O.man.segs ELSE {}
ManifestSoundOn(O) == \A i \in RefSegs(O) : HasSeg(O, i) /\ ~O.segs[i].partial
RecoverOn(O) == (IF O.hasman THEN O.man.ck ELSE {}) \cup UNION {O.segs[i].ds : i \in {j \in RefSegs(O) : HasSeg(O, j)}}

Keys == {d.k : d \in Deltas}
NewestTomb(ds, k) == LET T == {d.t : d \in {e \in ds : e.k = k /\ e.tomb}} IN
                     IF T = {} THEN 0 ELSE CHOOSE t \in T : \A u \in T : u <= t
Content(ds, k) == UNION {d.facts : d \in {e \in ds : e.k = k /\ ~e.tomb /\ e.t > NewestTomb(ds, k)}}
StateOf(ds) == [k \in Keys |-> Content(ds, k)]

ManifestSound == ManifestSoundOn(objs)
(* without compaction: literally every confirmed delta is returned *)
ConfirmedRecoverable == (cpc = "idle" /\ cl.sel = {}) => confirmed \subseteq RecoverOn(objs)
RecoveryStable == StateOf(RecoverOn(objs)) = StateOf(RecoverOn(objs) \cup confirmed)   \* absorbs every confirmed delta
InFlight == (IF fpc # "idle" THEN fl.ds ELSE {})
NothingSilentlyDropped == accepted \ confirmed \subseteq buffer \cup InFlight

---------------------------------------------------------------------------
Init == /\ objs = EmptyStore /\ buffer = {} /\ accepted = {} /\ confirmed = {}
        /\ fpc = "idle" /\ fl = [ds |-> {}, man |-> EmptyMan, id |-> 0]
        /\ cpc = "idle" /\ cl = [man |-> EmptyMan, sel |-> {}, out |-> {}, id |-> 0]
        /\ lock = "none" /\ faults = 0

Fault == faults < MaxFaults /\ faults' = faults + 1
NoFault == faults' = faults

Push(d) == /\ d \notin accepted
           /\ (OrderedPush => \A e \in Deltas : e.t < d.t => e \in accepted)
           /\ accepted' = accepted \cup {d} /\ buffer' = buffer \cup {d}
           /\ UNCHANGED <<objs, confirmed, fpc, fl, cpc, cl, lock, faults>>

MayRun(p) == Concurrent \/ (IF p = "flush" THEN cpc = "idle" ELSE fpc = "idle")
Locked(p) == Dev("no_manifest_cas") \/ lock \in {"none", p}

(* ---- flush: take buffer; get manifest; put segment; put tmp; rename ---- *)
FlushFail == /\ fpc' = "idle"
             /\ buffer' = IF Dev("flush_drops_buffer") THEN buffer ELSE buffer \cup fl.ds
             /\ lock' = IF lock = "flush" THEN "none" ELSE lock

FlushStart == /\ fpc = "idle" /\ buffer # {} /\ MayRun("flush") /\ Locked("flush")
              /\ fl' = [fl EXCEPT !.ds = buffer] /\ buffer' = {}
              /\ fpc' = "get" /\ lock' = IF Dev("no_manifest_cas") THEN lock ELSE "flush"
              /\ UNCHANGED <<objs, accepted, confirmed, cpc, cl, faults>>
FlushGet(ok) == /\ fpc = "get" /\ MayRun("flush")
                /\ IF ok THEN /\ fl' = [fl EXCEPT !.man = [CurMan EXCEPT !.next = @ + 1], !.id = CurMan.next]
                              /\ fpc' = "putseg" /\ NoFault /\ UNCHANGED <<buffer, lock>>
                   ELSE Fault /\ FlushFail /\ UNCHANGED fl
                /\ UNCHANGED <<objs, accepted, confirmed, cpc, cl>>
FlushPutSeg(r) == /\ fpc = "putseg" /\ MayRun("flush")
                  /\ IF r = "ok" THEN /\ objs' = PutSeg(objs, fl.id, [ds |-> fl.ds, partial |-> FALSE])
                                      /\ fpc' = "puttmp" /\ NoFault /\ UNCHANGED <<buffer, lock>>
                     ELSE /\ Fault /\ FlushFail
                          /\ objs' = IF r = "partial" THEN PutSeg(objs, fl.id, [ds |-> {}, partial |-> TRUE]) ELSE objs
                  /\ UNCHANGED <<fl, accepted, confirmed, cpc, cl>>
FlushPutTmp(r) == /\ fpc = "puttmp" /\ MayRun("flush")
                  /\ IF r = "ok" THEN /\ objs' = PutTmp(objs, [fl.man EXCEPT !.segs = @ \cup {fl.id}, !.ver = @ + 1])
                                      /\ fpc' = "rename" /\ NoFault /\ UNCHANGED <<buffer, lock>>
                     ELSE Fault /\ FlushFail /\ UNCHANGED objs      \* a partial tmp is never renamed
                  /\ UNCHANGED <<fl, accepted, confirmed, cpc, cl>>
FlushRename(r) == /\ fpc = "rename" /\ MayRun("flush")
                  /\ IF r = "ok" THEN /\ objs' = RenameTmp(objs)
                                      /\ confirmed' = confirmed \cup fl.ds
                                      /\ fpc' = "idle" /\ NoFault /\ buffer' = buffer
                                      /\ lock' = IF lock = "flush" THEN "none" ELSE lock
                     ELSE /\ Fault /\ FlushFail /\ confirmed' = confirmed
                          /\ objs' = IF r = "applied" THEN RenameTmp(objs) ELSE objs
                  /\ UNCHANGED <<fl, accepted, cpc, cl>>

(* ---- compaction: get manifest; read segments; put merged; put tmp; rename; delete ---- *)
MergedOut(ds) ==      \* what the compacted segment contains
  IF Dev("compact_latest_wins")
  THEN {d \in ds : \A e \in ds : e.k = d.k => e.t <= d.t}
  ELSE {d \in ds : d.t >= NewestTomb(ds, d.k)}       \* everything not shadowed by a newer delete
OutsideHas(man, sel, k) == \E i \in man.segs \ sel : HasSeg(objs, i) /\ \E e \in objs.segs[i].ds : e.k = k
Gc(out, man, sel) == {d \in out : ~(d.tomb /\ d.t < GcBefore /\ (Dev("gc_ignores_outside") \/ ~OutsideHas(man, sel, d.k)))}

CompactFail == cpc' = "idle" /\ lock' = IF lock = "compact" THEN "none" ELSE lock

CompactStart(sel) ==
  /\ cpc = "idle" /\ MayRun("compact") /\ Locked("compact")
  /\ sel \subseteq CurMan.segs /\ Cardinality(sel) >= 2 /\ Cardinality(sel) <= MaxSelect
  /\ \A i \in sel : HasSeg(objs, i) /\ ~objs.segs[i].partial
  /\ LET ds == UNION {objs.segs[i].ds : i \in sel} IN
       cl' = [man |-> CurMan, sel |-> sel, out |-> Gc(MergedOut(ds), CurMan, sel), id |-> CurMan.next]
  /\ cpc' = "putseg" /\ lock' = IF Dev("no_manifest_cas") THEN lock ELSE "compact"
  /\ UNCHANGED <<objs, buffer, accepted, confirmed, fpc, fl, faults>>
CompactPutSeg(r) ==
  /\ cpc = "putseg" /\ MayRun("compact")
  /\ IF r = "ok" THEN /\ objs' = PutSeg(objs, cl.id, [ds |-> cl.out, partial |-> FALSE])
                      /\ cpc' = "puttmp" /\ NoFault /\ UNCHANGED lock
     ELSE /\ Fault /\ CompactFail
          /\ objs' = IF r = "partial" THEN PutSeg(objs, cl.id, [ds |-> {}, partial |-> TRUE]) ELSE objs
  /\ UNCHANGED <<buffer, accepted, confirmed, fpc, fl, cl>>
CompactPutTmp(r) ==
  /\ cpc = "puttmp" /\ MayRun("compact")
  /\ IF r = "ok" THEN /\ objs' = PutTmp(objs, [segs |-> (cl.man.segs \ cl.sel) \cup {cl.id}, next |-> cl.id + 1, ver |-> cl.man.ver + 1,
                                              ck |-> IF Dev("compact_drops_checkpoint") THEN {} ELSE cl.man.ck])
                      /\ cpc' = "rename" /\ NoFault /\ UNCHANGED lock
     ELSE Fault /\ CompactFail /\ UNCHANGED objs
  /\ UNCHANGED <<buffer, accepted, confirmed, fpc, fl, cl>>
CompactRename(r) ==
  /\ cpc = "rename" /\ MayRun("compact")
  /\ IF r = "ok" THEN /\ objs' = RenameTmp(objs) /\ cpc' = "delete" /\ NoFault /\ UNCHANGED lock
     ELSE /\ Fault /\ CompactFail
          /\ objs' = IF r = "applied" THEN RenameTmp(objs) ELSE objs
  /\ UNCHANGED <<buffer, accepted, confirmed, fpc, fl, cl>>
CompactDelete ==
  /\ cpc = "delete" /\ MayRun("compact")
  /\ objs' = DelSegs(objs, cl.sel)
  /\ cpc' = "idle" /\ lock' = IF lock = "compact" THEN "none" ELSE lock
  /\ UNCHANGED <<buffer, accepted, confirmed, fpc, fl, cl, faults>>

(* a checkpoint of everything recoverable is installed (nothing else running): the manifest points to it *)
(* and the segments it covers leave the manifest                                                        *)
InstallCheckpoint ==
  /\ WithCheckpoint /\ fpc = "idle" /\ cpc = "idle" /\ objs.hasman /\ objs.man.segs # {} /\ ManifestSoundOn(objs)
  /\ objs' = [objs EXCEPT !.man = [segs |-> {}, next |-> @.next, ver |-> @.ver + 1, ck |-> RecoverOn(objs)]]
  /\ UNCHANGED <<buffer, accepted, confirmed, fpc, fl, cpc, cl, lock, faults>>

Next ==
  \/ InstallCheckpoint
  \/ \E d \in Deltas : Push(d)
  \/ FlushStart \/ \E ok \in BOOLEAN : FlushGet(ok)
  \/ \E r \in {"ok", "fail", "partial"} : FlushPutSeg(r) \/ FlushPutTmp(r) \/ CompactPutSeg(r) \/ CompactPutTmp(r)
  \/ \E r \in {"ok", "fail", "applied"} : FlushRename(r) \/ CompactRename(r)
  \/ \E sel \in SUBSET (CurMan.segs) : CompactStart(sel)
  \/ CompactDelete

Spec == Init /\ [][Next]_vars
=============================================================================
