-------------------------------- MODULE Resp --------------------------------
(***************************************************************************)
(* RESP2 decoding and encoding as nerdsane/redis-rust's two decoders       *)
(* (RespCodec::parse, RespParser::parse) are required to behave (C15).     *)
(* Bytes are naturals 0..255; a stream is a sequence of bytes.             *)
(*                                                                         *)
(* Decode(s) is one of                                                     *)
(*    [k |-> "val", v |-> value, n |-> bytes consumed]                     *)
(*    [k |-> "more"]      more bytes are needed (and may complete it)      *)
(*    [k |-> "err"]       protocol error                                   *)
(* Rules: a line ends at the first CR LF; integers and lengths are         *)
(* optional sign + decimal digits within i64; -1 is the only negative      *)
(* length; a declared length is not trusted before the bytes are present   *)
(* (so it yields "more", never an allocation); array nesting is bounded.   *)
(* As in Redis itself, the two bytes after a bulk payload are skipped      *)
(* without being checked.                                                  *)
(*                                                                         *)
(* Properties (checked by TLC over every string up to a bound):            *)
(*   Stable   Decode of a prefix that already yielded a value or an error  *)
(*            does not change when more bytes arrive ("more" is the only   *)
(*            outcome that may change) - the basis of fragment independence *)
(*   RoundTrip  Decode(Encode(v)) = v with all bytes consumed              *)
(***************************************************************************)
EXTENDS Naturals, Integers, Sequences, FiniteSets, TLC

CONSTANT MaxDepth

CR == 13
LF == 10
Plus == 43
Minus == 45
Colon == 58
Dollar == 36
Star == 42
IsDigit(b) == b >= 48 /\ b <= 57

More == [k |-> "more"]
Err == [k |-> "err"]
Val(v, n) == [k |-> "val", v |-> v, n |-> n]

(* index of the CR of the first CR LF at or after position i (1-based), 0 if none *)
RECURSIVE FindCrlf(_, _)
FindCrlf(s, i) == IF i >= Len(s) THEN 0
                  ELSE IF s[i] = CR /\ s[i + 1] = LF THEN i
                  ELSE FindCrlf(s, i + 1)

(* decimal digits -> number, saturating above Big (lengths beyond anything present) *)
Big == 1000000
RECURSIVE DigitsVal(_, _, _)
DigitsVal(s, i, j) == IF i > j THEN 0
                      ELSE LET hi == DigitsVal(s, i, j - 1) IN
                           IF hi >= Big THEN Big ELSE hi * 10 + (s[j] - 48)
(* digit string comparison with i64 max 9223372036854775807 / min magnitude ...808 *)
I64MaxDigits == <<57, 50, 50, 51, 51, 55, 50, 48, 51, 54, 56, 53, 52, 55, 55, 53, 56, 48, 55>>
RECURSIVE StripZeros(_, _, _)
StripZeros(s, i, j) == IF i < j /\ s[i] = 48 THEN StripZeros(s, i + 1, j) ELSE i
RECURSIVE LexLeq(_, _, _, _)
LexLeq(s, i, t, k) ==   \* digits s[i..] <= t[k..], equal lengths
  IF k > Len(t) THEN TRUE
  ELSE IF s[i] < t[k] THEN TRUE ELSE IF s[i] > t[k] THEN FALSE ELSE LexLeq(s, i + 1, t, k + 1)
FitsI64(s, i, j, neg) ==   \* digits s[i..j] (no sign) as magnitude
  LET z == StripZeros(s, i, j)
      n == j - z + 1
  IN IF n < 19 THEN TRUE ELSE IF n > 19 THEN FALSE
     ELSE LET lim == IF neg THEN [I64MaxDigits EXCEPT ![19] = 56] ELSE I64MaxDigits
          IN LexLeq(s, z, lim, 1)

(* parse s[i..j] as Rust's i64::from_str: [ok, neg, mag (saturated), canon digits] *)
ParseInt(s, i, j) ==
  LET signed == i <= j /\ s[i] \in {Plus, Minus}
      neg == signed /\ s[i] = Minus
      d == IF signed THEN i + 1 ELSE i
  IN IF d > j \/ \E x \in d..j : ~IsDigit(s[x]) THEN [ok |-> FALSE, neg |-> FALSE, mag |-> 0, z |-> 0, j |-> 0]
     ELSE IF ~FitsI64(s, d, j, neg) THEN [ok |-> FALSE, neg |-> FALSE, mag |-> 0, z |-> 0, j |-> 0]
     ELSE [ok |-> TRUE, neg |-> neg, mag |-> DigitsVal(s, d, j), z |-> StripZeros(s, d, j), j |-> j]
Canon(s, p) == \* canonical decimal rendering: "-" unless zero, digits without leading zeros
  LET digits == SubSeq(s, p.z, p.j) IN
  IF p.neg /\ digits # <<48>> THEN <<Minus>> \o digits ELSE digits

VSimple(b) == [t |-> "simple", b |-> b, a |-> <<>>]
VError(b) == [t |-> "error", b |-> b, a |-> <<>>]
VInt(d) == [t |-> "int", b |-> d, a |-> <<>>]
VBulk(b) == [t |-> "bulk", b |-> b, a |-> <<>>]
VNullBulk == [t |-> "nullbulk", b |-> <<>>, a |-> <<>>]
VArray(a) == [t |-> "array", b |-> <<>>, a |-> a]
VNullArray == [t |-> "nullarray", b |-> <<>>, a |-> <<>>]

(* decode one frame starting at position i; result n = position after the frame *)
RECURSIVE DecodeAt(_, _, _), DecodeElems(_, _, _, _, _)
DecodeAt(s, i, depth) ==
  IF i > Len(s) THEN More
  ELSE LET c == s[i] IN
    IF c \notin {Plus, Minus, Colon, Dollar, Star} THEN Err
    ELSE IF c = Star /\ depth >= MaxDepth THEN Err
    ELSE LET e == FindCrlf(s, i) IN
      IF e = 0 THEN More
      ELSE IF c = Plus THEN Val(VSimple(SubSeq(s, i + 1, e - 1)), e + 2)
      ELSE IF c = Minus THEN Val(VError(SubSeq(s, i + 1, e - 1)), e + 2)
      ELSE LET p == ParseInt(s, i + 1, e - 1) IN
        IF ~p.ok THEN Err
        ELSE IF c = Colon THEN Val(VInt(Canon(s, p)), e + 2)
        ELSE IF p.neg /\ p.mag = 1 THEN Val(IF c = Dollar THEN VNullBulk ELSE VNullArray, e + 2)
        ELSE IF p.neg /\ p.mag # 0 THEN Err
        ELSE IF c = Dollar THEN
               (IF e + 2 + p.mag + 2 > Len(s) + 1 THEN More
                ELSE Val(VBulk(SubSeq(s, e + 2, e + 1 + p.mag)), e + 2 + p.mag + 2))
        ELSE DecodeElems(s, e + 2, p.mag, <<>>, depth)
DecodeElems(s, i, n, acc, depth) ==
  IF n = 0 THEN Val(VArray(acc), i)
  ELSE LET r == DecodeAt(s, i, depth + 1) IN
       IF r.k # "val" THEN r ELSE DecodeElems(s, r.n, n - 1, Append(acc, r.v), depth)

(* public form: consumed byte count instead of next position *)
Decode(s) == LET r == DecodeAt(s, 1, 0) IN IF r.k = "val" THEN Val(r.v, r.n - 1) ELSE r

---------------------------------------------------------------------------
(* Encoding (what all three encoders must produce) *)
RECURSIVE NatDigits(_)
NatDigits(n) == IF n < 10 THEN <<48 + n>> ELSE NatDigits(n \div 10) \o <<48 + (n % 10)>>
RECURSIVE Encode(_), EncodeAll(_)
Encode(v) ==
  CASE v.t = "simple"    -> <<Plus>> \o v.b \o <<CR, LF>>
    [] v.t = "error"     -> <<Minus>> \o v.b \o <<CR, LF>>
    [] v.t = "int"       -> <<Colon>> \o v.b \o <<CR, LF>>
    [] v.t = "bulk"      -> <<Dollar>> \o NatDigits(Len(v.b)) \o <<CR, LF>> \o v.b \o <<CR, LF>>
    [] v.t = "nullbulk"  -> <<Dollar, Minus, 49, CR, LF>>
    [] v.t = "nullarray" -> <<Star, Minus, 49, CR, LF>>
    [] v.t = "array"     -> <<Star>> \o NatDigits(Len(v.a)) \o <<CR, LF>> \o EncodeAll(v.a)
EncodeAll(a) == IF a = <<>> THEN <<>> ELSE Encode(Head(a)) \o EncodeAll(Tail(a))

(* a line value is encodable iff it contains no CR LF (encoders replace CR / LF) *)
LineSafe(b) == \A i \in DOMAIN b : b[i] \notin {CR, LF}
=============================================================================
