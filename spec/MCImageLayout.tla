--------------------------- MODULE MCImageLayout ---------------------------
EXTENDS ImageLayout
VARIABLES f, n
Init == f \in Formats /\ n \in 1..4
Next == UNCHANGED <<f, n>>
Spec == Init /\ [][Next]_<<f, n>>
Inv == UpdateBytesProtected(f, n) /\ NoCheckOnPadding(f, n) /\ VerdictTotal(f, n) /\ ValueNeverSilentlyChanged(f, n)
InvAux == EverythingReadIsProtected(f, n)
=============================================================================
