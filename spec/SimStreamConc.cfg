SPECIFICATION Spec
CONSTANTS
  NF = 4
  NC = 8
INVARIANT Export
CHECK_DEADLOCK FALSE
