SPECIFICATION Spec
CONSTANTS
  Frames <- FrameSet
  MaxLen = 4
  Threshold = 3
  MinBuf = 1
  AsBuilt = {"collector_drops_below_threshold"}
INVARIANTS OneReplyEachInOrder
CHECK_DEADLOCK FALSE
