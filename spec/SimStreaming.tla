---------------------------- MODULE SimStreaming ----------------------------
(* Scenario export for Streaming (sequential workloads with one fault       *)
(* anywhere): one witness per distinct reachable state in which both        *)
(* processes are idle, as the list of harness operations                    *)
(*   <<"push", id>>  <<"flush", fault>>  <<"compact", fault>>               *)
(* where fault names the failing store call and its outcome.                *)
EXTENDS MCStreaming, Json
VARIABLE hist
H(op) == hist' = Append(hist, op)
Idle == fpc = "idle" /\ cpc = "idle"
Oldest(S, n) == {i \in S : Cardinality({j \in S : j < i}) < n}

HInit == Init /\ hist = <<>>
HNext ==
  \/ \E d \in Deltas : Idle /\ Push(d) /\ H(<<"push", d.id>>)
  \/ InstallCheckpoint /\ H(<<"ckpt", "none">>)
  \/ FlushStart /\ UNCHANGED hist
  \/ FlushGet(TRUE) /\ UNCHANGED hist
  \/ FlushGet(FALSE) /\ H(<<"flush", "get_man:fail">>)
  \/ FlushPutSeg("ok") /\ UNCHANGED hist
  \/ \E r \in {"fail", "partial"} : FlushPutSeg(r) /\ H(<<"flush", "put_seg:" \o r>>)
  \/ FlushPutTmp("ok") /\ UNCHANGED hist
  \/ \E r \in {"fail", "partial"} : FlushPutTmp(r) /\ H(<<"flush", "put_tmp:" \o r>>)
  \/ FlushRename("ok") /\ H(<<"flush", "none">>)
  \/ \E r \in {"fail", "applied"} : FlushRename(r) /\ H(<<"flush", "rename:" \o r>>)
  \/ /\ Cardinality(CurMan.segs) >= 2
     /\ CompactStart(Oldest(CurMan.segs, MaxSelect)) /\ UNCHANGED hist
  \/ CompactPutSeg("ok") /\ UNCHANGED hist
  \/ \E r \in {"fail", "partial"} : CompactPutSeg(r) /\ H(<<"compact", "put_seg:" \o r>>)
  \/ CompactPutTmp("ok") /\ UNCHANGED hist
  \/ \E r \in {"fail", "partial"} : CompactPutTmp(r) /\ H(<<"compact", "put_tmp:" \o r>>)
  \/ CompactRename("ok") /\ UNCHANGED hist
  \/ \E r \in {"fail", "applied"} : CompactRename(r) /\ H(<<"compact", "rename:" \o r>>)
  \/ CompactDelete /\ H(<<"compact", "none">>)
HSpec == HInit /\ [][HNext]_<<vars, hist>>
View == vars
Export == (Idle /\ Len(hist) >= 2 /\ hist[Len(hist)][1] # "push") => PrintT(<<"SCN", ToJson(hist)>>)
=============================================================================
