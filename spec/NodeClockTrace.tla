--------------------------- MODULE NodeClockTrace ---------------------------
(* Trace validation for C08: a real node (ReplicatedShardedState) through     *)
(* writes, remote deltas, checkpoints, crash and recovery.  Each event must   *)
(* be the NodeClock action it names; the stamp of every delta the node issued *)
(* and the stamps it holds per key must equal the specification's, and the    *)
(* action property StampAboveSeen / NeverRepeats must hold at every write.    *)
EXTENDS NodeClock, Json, IOUtils

Rec == ndJsonDeserialize(IOEnv.TRACE)
VARIABLES l, run
tvars == <<vars, l, run>>
Verdict(what) == PrintT(<<"VERDICT", ToJson([run |-> run, l |-> l, v |-> "bad", what |-> what])>>)

MemOk(ev) == \A p \in Range(ev.mem) : p[1] \in Key => mem'[p[1]] = p[2]
(* the payload a key serves is the payload of the write whose stamp the node holds for it (stamps identify writes) *)
MemvOk(ev) == "memv" \notin DOMAIN ev \/ \A p \in Range(ev.memv) : p[1] \in Key => mem'[p[1]] = p[2]
Judge(ev) ==
  IF bad' # "no" /\ bad = "no" THEN Verdict(bad')
  ELSE IF up' /\ ~MemOk(ev) THEN Verdict("stamps held by the node differ from the specification")
  ELSE IF up' /\ ~MemvOk(ev) THEN Verdict("the value served is not the one written with the greatest stamp: a newer write lost against an older one")
  ELSE TRUE
(* NewestWins: a peer that has merged every delta this node issued or received holds, per key, the greatest stamp *)
(* of them all - and serves that write's payload                                                                 *)
PeerStamp(k) == MaxStampOf({p[2] : p \in {q \in Range(issued) \cup remote : q[1] = k}})
PeerOk(ev) == /\ \A p \in Range(ev.mem) : p[1] \in Key => p[2] = PeerStamp(p[1])
              /\ \A k \in Key : PeerStamp(k) # Zero => \E p \in Range(ev.mem) : p[1] = k
              /\ \A p \in Range(ev.memv) : p[1] \in Key => p[2] = PeerStamp(p[1])
Skip == UNCHANGED <<vars, run>>

Step(ev) ==
  CASE ev.a = "reset" ->
        /\ up' = TRUE /\ clock' = 0 /\ mem' = [k \in Key |-> Zero] /\ seen' = [k \in Key |-> Zero]
        /\ disk' = {} /\ issued' = <<>> /\ remote' = {} /\ bad' = "no" /\ ncrash' = 0 /\ run' = ev.run
    [] "skipped" \in DOMAIN ev -> Skip
    [] ev.a = "write" ->
        /\ LocalWriteWith(ev.k, ev.place, ev.st) /\ run' = run
        /\ (IF ev.st[2] # Me THEN Verdict("the write produced no delta or a delta of another replica") ELSE Judge(ev))
    [] ev.a = "remote" -> RemoteAny(ev.k, ev.t) /\ run' = run /\ Judge(ev)
    [] ev.a = "checkpoint" -> CheckpointWith("trim" \in DOMAIN ev /\ ev.trim) /\ run' = run /\ Judge(ev)
    [] ev.a = "peer" -> Skip /\ (IF ~PeerOk(ev) THEN Verdict("a peer that merged every update does not hold the newest write of a key") ELSE TRUE)
    [] ev.a = "flush" -> Skip      \* FLUSHALL / FLUSHDB: client data goes, the clock and what the node has seen stay (seen is history)
    [] ev.a = "crash" -> Crash /\ run' = run
    [] ev.a = "recover" -> Recover /\ run' = run /\ (IF "panic" \in DOMAIN ev THEN Verdict("the restart sequence failed") ELSE Judge(ev))
    [] OTHER -> Skip /\ Verdict("panic in code under test")

TraceInit == Init /\ l = 1 /\ run = 0
TraceNext ==
  \/ l <= Len(Rec) /\ Step(Rec[l]) /\ l' = l + 1
  \/ l = Len(Rec) + 1 /\ PrintT(<<"VALIDATED", Len(Rec)>>) /\ l' = l + 1 /\ UNCHANGED <<vars, run>>
TraceSpec == TraceInit /\ [][TraceNext]_tvars
=============================================================================
