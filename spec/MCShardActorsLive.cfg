SPECIFICATION FairSpec
CONSTANTS
  Client = {1, 2}
  Key = {"a", "b"}
  Shard = {1, 2}
  Val = {"x"}
  Slot = {1, 2, 3}
  PoolCap = 1
  MaxOps = 2
  Paths = {"generic", "pooled"}
  AsBuilt = {}
  CanCancel = FALSE
INVARIANTS ReplyMatchesRequest
PROPERTY Live
VIEW View
CHECK_DEADLOCK FALSE
