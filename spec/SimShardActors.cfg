SPECIFICATION HSpec
CONSTANTS
  Client = {1, 2, 3}
  Key = {"a", "b"}
  Shard = {1, 2}
  Val = {"x"}
  Slot = {1, 2, 3, 4}
  PoolCap = 1
  MaxOps = 3
  Paths = {"generic", "fast", "pooled", "batch", "script"}
  AsBuilt = {}
  CanCancel = TRUE
INVARIANT Export
CHECK_DEADLOCK FALSE
