SPECIFICATION Spec
CONSTANTS
  Node = {1, 2}
  Val = {"1"}
  Field = {"f", "g"}
  MaxCmds = 2
  MaxDup = 1
  MaxAE = 1
  CmdKinds = {"set"}
  AsBuilt = {"expiry_max"}
INVARIANTS Converged
CHECK_DEADLOCK FALSE
