\* sequential flush / compaction, one fault anywhere, crash anywhere (invariants in every state)
SPECIFICATION Spec
CONSTANTS
  Deltas <- DeltasA
  MaxFaults = 1
  MaxSelect = 2
  GcBefore = 0
  Concurrent = FALSE
  WithCheckpoint = TRUE
  OrderedPush = FALSE
  AsBuilt = {"compact_drops_checkpoint"}
INVARIANTS ManifestSound ConfirmedRecoverable RecoveryStable NothingSilentlyDropped
CHECK_DEADLOCK FALSE
