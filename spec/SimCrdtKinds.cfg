SPECIFICATION HSpec
CONSTANTS
  Replica = {1, 2, 3}
  Val = {"a"}
  Field = {"f"}
  Elem = {"e", "d"}
  AsBuilt = {}
  Kinds = {"gcounter", "pncounter", "gset", "orset"}
  CausalModes = {FALSE}
  MaxSteps = 4
  MinSteps = 2
VIEW View
CONSTRAINT StepBound
INVARIANT Export
CHECK_DEADLOCK FALSE
