----------------------------- MODULE AntiEntropy -----------------------------
(***************************************************************************)
(* Digest-driven anti-entropy between two replicas (C18).                  *)
(* A replica state maps keys to versions (merge = max, 0 = absent); keys   *)
(* fall into buckets.  The digest of a bucket is, abstractly, the SET of   *)
(* (key, version) pairs in it - an injective function of the content and   *)
(* of nothing else (not of insertion order): equal digests iff equal       *)
(* states.  A sync round exchanges digests, and each side sends at most    *)
(* Limit of its keys from the divergent buckets; the receiver merges.      *)
(*   RoundMerges   after a round every exchanged key holds the merge on    *)
(*                 the receiving side                                      *)
(*   EventuallyInSync  once writes stop, the replicas are in sync after    *)
(*                 finitely many rounds, for every Limit >= 1              *)
(* As built ("fixed_prefix"): the sender took the first Limit candidate    *)
(* keys every time, so keys beyond the prefix were never sent.             *)
(***************************************************************************)
EXTENDS Naturals, FiniteSets, Sequences, TLC

CONSTANTS NKeys, Limit, MaxWrites, AsBuilt
Key == 1..NKeys
Rep == {"A", "B"}
BucketOf(k) == IF k <= 3 THEN 1 ELSE 2           \* three keys share bucket 1
Buckets == {BucketOf(k) : k \in Key}
Dev(d) == d \in AsBuilt
MaxN(a, b) == IF a < b THEN b ELSE a

VARIABLES st,      \* replica -> key -> version
          cursor,  \* replica -> rotating start position
          writes, lastSent

vars == <<st, cursor, writes, lastSent>>

Init == /\ st = [r \in Rep |-> [k \in Key |-> 0]]
        /\ cursor = [r \in Rep |-> 0] /\ writes = 0 /\ lastSent = [r \in Rep |-> {}]

BucketDigest(r, b) == {<<k, st[r][k]>> : k \in {j \in Key : BucketOf(j) = b /\ st[r][j] # 0}}
Divergent == {b \in Buckets : BucketDigest("A", b) # BucketDigest("B", b)}
InSync == st["A"] = st["B"]
DigestsEqual == Divergent = {}

(* candidate keys of r in the divergent buckets, in key order *)
Cand(r) == {k \in Key : st[r][k] # 0 /\ BucketOf(k) \in Divergent}
Rank(S, k) == Cardinality({j \in S : j < k})
Selected(r) ==
  LET C == Cand(r)
      n == Cardinality(C)
      lim == IF Limit < n THEN Limit ELSE n
      start == IF Dev("fixed_prefix") \/ lim = n THEN 0 ELSE cursor[r] % n
  IN {k \in C : (Rank(C, k) + n - start) % n < lim}

Write(r, k) == /\ writes < MaxWrites
               /\ st' = [st EXCEPT ![r][k] = MaxN(st["A"][k], st["B"][k]) + 1]
               /\ writes' = writes + 1 /\ UNCHANGED <<cursor, lastSent>>

Other(r) == IF r = "A" THEN "B" ELSE "A"
SyncRound ==
  /\ ~DigestsEqual
  /\ LET sa == Selected("A")
         sb == Selected("B")
     IN /\ st' = [r \in Rep |-> [k \in Key |->
                    IF k \in (IF r = "A" THEN sb ELSE sa) THEN MaxN(st[r][k], st[Other(r)][k]) ELSE st[r][k]]]
        /\ cursor' = IF Dev("fixed_prefix") THEN cursor
                     ELSE [r \in Rep |-> (cursor[r] + Cardinality(IF r = "A" THEN sa ELSE sb)) % NKeys]
        /\ lastSent' = [r \in Rep |-> IF r = "A" THEN sa ELSE sb]
  /\ UNCHANGED writes

Next == (\E r \in Rep, k \in Key : Write(r, k)) \/ SyncRound
Spec == Init /\ [][Next]_vars /\ WF_vars(SyncRound)

DigestIffState == DigestsEqual <=> InSync
RoundMerges == \A k \in lastSent["A"] : st["B"][k] >= st["A"][k]
EventuallyInSync == <>[]InSync
=============================================================================
