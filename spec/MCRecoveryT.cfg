SPECIFICATION Spec
CONSTANTS
  AsBuilt = {}
  WalFilter = FALSE
  NU = 5
INVARIANTS RecoveryIsMerge RecoveryIdempotent
CHECK_DEADLOCK FALSE
