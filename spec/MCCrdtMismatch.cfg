\* Type mismatch resolved by stamp: Expected: Associative violated (design-level finding).
SPECIFICATION Spec
CONSTANTS
  Replica = {1, 2, 3}
  Val = {"a"}
  Field = {"f", "g"}
  Elem = {"e"}
  AsBuilt = {}
  Kinds = {"lww", "hash"}
  CausalModes = {FALSE}
  MaxSteps = 5
CONSTRAINT StepBound
INVARIANTS Associative
CHECK_DEADLOCK FALSE
