SPECIFICATION TraceSpec
CONSTANT AsBuilt = {"watch_sees_strings_only"}
CHECK_DEADLOCK FALSE
