----------------------------- MODULE ReproTrace -----------------------------
(* Trace comparison for C20.  A record pairs two recorded runs of the same        *)
(* (harness, preset, seed): digests of every step record, of the final state dump *)
(* and the verdict.  rel = "same_process" (second run after the first in one      *)
(* process) or "other_process".  Reproducible (Repro.tla) demands equal traces.   *)
EXTENDS Naturals, Sequences, FiniteSets, TLC, Json, IOUtils
Rec == ndJsonDeserialize(IOEnv.TRACE)
VARIABLES l
Verdict(ev, what, at) == PrintT(<<"VERDICT", ToJson([run |-> ev.run, l |-> l, v |-> "bad", what |-> what, at |-> at])>>)
Judge(ev) ==
  LET n == IF Len(ev.da) < Len(ev.db) THEN Len(ev.da) ELSE Len(ev.db)
      D == {i \in 1..n : ev.da[i] # ev.db[i]} IN
  IF D # {} THEN Verdict(ev, "two runs of the same seed diverge (" \o ev.rel \o ")", CHOOSE i \in D : \A j \in D : i <= j)
  ELSE IF Len(ev.da) # Len(ev.db) THEN Verdict(ev, "two runs of the same seed have traces of different length (" \o ev.rel \o ")", n + 1)
  ELSE IF ev.va # ev.vb THEN Verdict(ev, "two runs of the same seed end with different verdicts (" \o ev.rel \o ")", n)
  ELSE IF Len(ev.da) = 0 THEN Verdict(ev, "a harness produced no trace", 0)
  ELSE TRUE
TraceInit == l = 1
TraceNext ==
  \/ l <= Len(Rec) /\ Judge(Rec[l]) /\ l' = l + 1
  \/ l = Len(Rec) + 1 /\ PrintT(<<"VALIDATED", Len(Rec)>>) /\ l' = l + 1
TraceSpec == TraceInit /\ [][TraceNext]_l
=============================================================================
