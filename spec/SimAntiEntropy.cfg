SPECIFICATION WSpec
CONSTANTS
  NKeys = 4
  Limit = 1
  MaxWrites = 3
  AsBuilt = {}
VIEW View
INVARIANT Export
CHECK_DEADLOCK FALSE
