SPECIFICATION Spec
CONSTANTS
  Node = {1, 2}
  Val = {"1"}
  Field = {"f", "g"}
  MaxCmds = 3
  MaxDup = 1
  MaxAE = 1
  CmdKinds = {"set", "setxx", "del", "append", "getset", "hset", "hdel"}
  AsBuilt = {}
INVARIANTS ServedIsState Converged
CHECK_DEADLOCK FALSE
