------------------------------ MODULE ConnTrace ------------------------------
(* Case validation for C04 (pipelining) and C05 (transactions) on the REAL       *)
(* OptimizedConnectionHandler.                                                    *)
(*  pipe: a byte stream of commands cut into arbitrary read segments under some    *)
(*        batching configuration; the decoded bytes the handler wrote must be      *)
(*        exactly one reply per command, in order, each equal to running the       *)
(*        commands one after the other on the RedisKeyspace model; a malformed     *)
(*        frame must be answered by an error without touching earlier replies;     *)
(*        the keyspace afterwards must be the model's.                             *)
(*  txn : see the transaction section below.                                       *)
EXTENDS RedisKeyspace, Json, IOUtils
CONSTANT AsBuilt
Rec == ndJsonDeserialize(IOEnv.TRACE)
VARIABLE l
RangeQ(q) == {q[i] : i \in DOMAIN q}
Dev(d) == d \in AsBuilt

JVal(t, v) == CASE t = "string" -> v
                [] t = "list" -> v
                [] t = "set" -> RangeQ(v)
                [] t = "hash" -> [f \in {p[1] : p \in RangeQ(v)} |-> (CHOOSE p \in RangeQ(v) : p[1] = f)[2]]
                [] t = "zset" -> [m \in {p[1] : p \in RangeQ(v)} |-> (CHOOSE p \in RangeQ(v) : p[1] = m)[2]]
                [] OTHER -> v
JState(s) == [k \in {e[1] : e \in RangeQ(s)} |->
                LET e == CHOOSE x \in RangeQ(s) : x[1] = k IN Entry(e[2], JVal(e[2], e[3]), e[4])]
ErrClass(b) == LET sp == {i \in DOMAIN b : b[i] = 32} IN
               IF sp = {} THEN b ELSE SubSeq(b, 1, (CHOOSE i \in sp : \A j \in sp : i <= j) - 1)
CountEq(q, x) == Cardinality({i \in DOMAIN q : q[i] = x})
RECURSIVE ReplyOk(_, _)
ReplyOk(exp, got) ==
  CASE exp.t = "error" -> got.t = "error" /\ ErrClass(got.b) = exp.b
    [] exp.t = "unordered" -> got.t = "array" /\ Len(got.a) = Cardinality(exp.a) /\ RangeQ(got.a) = exp.a
    [] exp.t = "pairs" -> /\ got.t = "array" /\ Len(got.a) = 2 * Cardinality(exp.a)
                          /\ {<<got.a[2 * i - 1].b, got.a[2 * i].b>> : i \in 1..(Len(got.a) \div 2)} = exp.a
    [] exp.t = "bag" -> /\ got.t = "array" /\ Len(got.a) = Cardinality(exp.a)
                        /\ \A i \in DOMAIN got.a : CountEq([j \in DOMAIN got.a |-> got.a[j].b], got.a[i].b) = Cardinality({p \in exp.a : p[2] = got.a[i].b})
    [] exp.t = "array" -> got.t = "array" /\ Len(got.a) = Len(exp.a) /\ \A i \in DOMAIN exp.a : ReplyOk(exp.a[i], got.a[i])
    [] OTHER -> got = exp

Empty == [k \in {} |-> 0]
(* run commands i..Len one after the other: [rs |-> replies, s |-> final state] *)
(* where RedisKeyspace allows several outcomes (DoAlts: the loose rules of C01), the one the observed reply *)
(* matches is followed; got = <<>> means no observation is available for the position                  *)
DoSeen(c, st, got, i) ==
  IF i > Len(got) THEN Do(c, st, 0)
  ELSE LET M == {a \in DoAlts(c, st, 0) : ReplyOk(a.r, got[i])} IN IF M = {} THEN Do(c, st, 0) ELSE CHOOSE a \in M : TRUE
RECURSIVE RunSeen(_, _, _, _)
RunSeen(cmds, i, st, got) == IF i > Len(cmds) THEN [rs |-> <<>>, s |-> st]
                    ELSE LET r == DoSeen(cmds[i], st, got, i)
                             rest == RunSeen(cmds, i + 1, r.s, got)
                         IN [rs |-> <<r.r>> \o rest.rs, s |-> rest.s]
RECURSIVE RunSeq(_, _, _)
RunSeq(cmds, i, st) == IF i > Len(cmds) THEN [rs |-> <<>>, s |-> st]
                    ELSE LET r == IF cmds[i].op = "UNWATCH" THEN [r |-> OK, s |-> st]     \* queued like any command; EXEC has checked the watches before
                                  ELSE Do(cmds[i], st, 0)
                             rest == RunSeq(cmds, i + 1, r.s)
                         IN [rs |-> <<r.r>> \o rest.rs, s |-> rest.s]

(* a frame the driver damaged on purpose: the RESP specification decides whether it is malformed  *)
(* (error), merely incomplete (the handler rightly waits) or still a frame (no demand)            *)
R == INSTANCE Resp WITH MaxDepth <- 128
(* listed finding fast_path_stray_byte: the GET / SET recognisers of the batching path take the header for 14 *)
(* bytes (it has 13), so exactly the frames "<GET or SET header> <one stray byte> $..." are taken as commands  *)
GetHdr == <<42, 50, 13, 10, 36, 51, 13, 10, 71, 69, 84, 13, 10>>
GetHdrLc == <<42, 50, 13, 10, 36, 51, 13, 10, 103, 101, 116, 13, 10>>
SetHdr == <<42, 51, 13, 10, 36, 51, 13, 10, 83, 69, 84, 13, 10>>
SetHdrLc == <<42, 51, 13, 10, 36, 51, 13, 10, 115, 101, 116, 13, 10>>
StrayByteShape(j) == Len(j) >= 15 /\ SubSeq(j, 1, 13) \in {GetHdr, GetHdrLc, SetHdr, SetHdrLc} /\ j[14] # 36 /\ j[15] = 36
JunkIsMalformed(c) == "junk" \in DOMAIN c /\ Len(c.junk) > 0 /\ R!Decode(c.junk).k = "err"
PipeVerdict(c) ==
  IF "panic" \in DOMAIN c THEN "connection handler panicked"
  ELSE IF "junk" \in DOMAIN c /\ Len(c.junk) > 0 THEN
       LET exp == RunSeen(c.cmds, 1, Empty, c.replies)
           n == Len(c.cmds)
       IN IF Len(c.replies) < n THEN "fewer replies than commands (a command was swallowed or the handler hung)"
          ELSE IF \E i \in 1..n : ~ReplyOk(exp.rs[i], c.replies[i]) THEN "a damaged frame altered the reply to an earlier command"
          ELSE IF JunkIsMalformed(c) /\ (Len(c.replies) < n + 1 \/ c.replies[n + 1].t # "error") THEN
               (IF StrayByteShape(c.junk) THEN "finding:fast_path_stray_byte"
                ELSE "a malformed frame was not answered by an error reply (silence or a hang)")
          ELSE "ok"
  ELSE LET exp == RunSeen(c.cmds, 1, Empty, c.replies)
           n == Len(c.cmds)
       IN IF Len(c.replies) < n THEN "fewer replies than commands (a command was swallowed or the handler hung)"
          ELSE IF \E i \in 1..n : ~ReplyOk(exp.rs[i], c.replies[i]) THEN "a reply differs from the reply of the command sent alone after its predecessors"
          ELSE IF ~c.malformed /\ Len(c.replies) # n THEN "more replies than commands"
          ELSE IF c.malformed /\ (Len(c.replies) < n + 1 \/ c.replies[n + 1].t # "error") THEN "a malformed frame was not answered by an error reply"
          ELSE IF c.undecoded # 0 THEN "the handler wrote bytes that are not a complete reply"
          ELSE IF ~c.malformed /\ ~("nostate" \in DOMAIN c /\ c.nostate) /\ ~StateEq(exp.s, JState(c.s)) THEN "keyspace after the pipeline differs from the sequential run"
          ELSE "ok"


(* After a protocol error: a malformed frame (c.junk, or its twin of the same shape when the frame is large), cut into *)
(* several reads, then well-formed commands in later reads.  Replies owed: the prefix's, then one or more error       *)
(* replies for the frame, then - unless the handler closed the connection (segments left unread) - one per later      *)
(* command.  Silence towards a client whose connection is still open is a hang.                                        *)
RecoverVerdict(c) ==
  IF "panic" \in DOMAIN c THEN "connection handler panicked"
  ELSE LET n == Len(c.cmds)
           pre == c.npre
           exp == RunSeq(c.cmds, 1, Empty)
           R0 == c.replies
           nr == Len(R0)
           Ks == {k \in 1..(nr - pre) : \A i \in 1..k : R0[pre + i].t = "error"}
       IN IF nr < pre THEN "fewer replies than commands (a command was swallowed or the handler hung)"
          ELSE IF \E i \in 1..pre : ~ReplyOk(exp.rs[i], R0[i]) THEN "a damaged frame altered the reply to an earlier command"
          ELSE IF R!Decode(c.junk).k # "err" THEN "ok"
          ELSE IF Ks = {} THEN "a malformed frame was not answered by an error reply (silence or a hang)"
          ELSE IF c.unread > 0 THEN "ok"
          ELSE IF \E k \in Ks : nr = pre + k + (n - pre) /\ \A i \in 1..(n - pre) : ReplyOk(exp.rs[pre + i], R0[pre + k + i]) THEN "ok"
          ELSE IF nr < n + 1 THEN "after a protocol error the connection stayed open but later commands were not answered (silence)"
          ELSE "after a protocol error the replies to later commands differ from the sequential run"

---------------------------------------------------------------------------
(* Transactions (C05).  A case is a script of steps by client A (the transaction *)
(* client) and client B (writes between A's commands), each with the reply the   *)
(* real handler gave, and the keyspace at the end.  The model keeps A's           *)
(* connection state: inTx, queue, dirty, watched (key -> entry at WATCH time).    *)
NoEntry == [t |-> "none", v |-> <<>>, exp |-> -1]
Snap(st, k) == IF k \in DOMAIN st THEN st[k] ELSE NoEntry
SameEntry(a, b) == a.t = b.t /\ (a.t = "none" \/ a.v = b.v)
QUEUED == RSimple(<<81, 85, 69, 85, 69, 68>>)
EXECABORT == RErr(<<69, 88, 69, 67, 65, 66, 79, 82, 84>>)

(* one step of the model: [st, cx (A's connection state), r (expected reply), alt (acceptable as-built reply or "none")] *)
(* w[k]: the snapshots taken by the WATCH commands that named k (one per WATCH: a later WATCH of the same key adds an obligation, it *)
(* does not replace the earlier one - "differs from its value when WATCH was issued" holds for every WATCH that was issued)         *)
Cx0 == [inTx |-> FALSE, q |-> <<>>, dirty |-> FALSE, w |-> [k \in {} |-> {}]]
WatchChanged(st, cx) == \E k \in DOMAIN cx.w : \E e \in cx.w[k] : ~SameEntry(e, Snap(st, k))
(* as built the snapshot is the reply of GET: keys that are not strings look alike before and after *)
GetView(e) == IF e.t = "string" THEN e ELSE IF e.t = "none" THEN e ELSE [t |-> "wrongtype", v |-> <<>>, exp |-> -1]
WatchChangedAsBuilt(st, cx) == \E k \in DOMAIN cx.w : \E e \in cx.w[k] : ~SameEntry(GetView(e), GetView(Snap(st, k)))

StepA(st, cx, c) ==
  IF c.op = "MULTI" THEN
       (IF cx.inTx THEN [st |-> st, cx |-> cx, r |-> ERR] ELSE [st |-> st, cx |-> [cx EXCEPT !.inTx = TRUE, !.q = <<>>, !.dirty = FALSE], r |-> OK])
  ELSE IF c.op = "DISCARD" THEN
       (IF cx.inTx THEN [st |-> st, cx |-> Cx0, r |-> OK] ELSE [st |-> st, cx |-> cx, r |-> ERR])
  ELSE IF c.op = "WATCH" THEN
       (IF cx.inTx THEN [st |-> st, cx |-> cx, r |-> ERR]
        ELSE [st |-> st, cx |-> [cx EXCEPT !.w = [k \in DOMAIN cx.w \cup RangeQ(c.ks) |->
                                                     (IF k \in DOMAIN cx.w THEN cx.w[k] ELSE {}) \cup (IF k \in RangeQ(c.ks) THEN {Snap(st, k)} ELSE {})]], r |-> OK])
  ELSE IF c.op = "UNWATCH" /\ ~cx.inTx THEN [st |-> st, cx |-> [cx EXCEPT !.w = [k \in {} |-> {}]], r |-> OK]
       \* (between MULTI and EXEC UNWATCH is queued like any other command: no result, no effect until EXEC)
  ELSE IF c.op = "EXEC" THEN
       (IF ~cx.inTx THEN [st |-> st, cx |-> cx, r |-> ERR]
        ELSE IF cx.dirty THEN [st |-> st, cx |-> Cx0, r |-> EXECABORT]
        ELSE IF (IF Dev("watch_sees_strings_only") THEN WatchChangedAsBuilt(st, cx) ELSE WatchChanged(st, cx))
             THEN [st |-> st, cx |-> Cx0, r |-> RNilArr]
        ELSE LET res == RunSeq(cx.q, 1, st) IN [st |-> res.s, cx |-> Cx0, r |-> RArr(res.rs)])
  ELSE IF c.op = "BAD" THEN      \* unknown command or wrong arity: error reply; inside MULTI it poisons the transaction
       [st |-> st, cx |-> [cx EXCEPT !.dirty = cx.dirty \/ cx.inTx], r |-> ERR]
  ELSE IF cx.inTx THEN [st |-> st, cx |-> [cx EXCEPT !.q = Append(cx.q, c)], r |-> QUEUED]
  ELSE LET r == Do(c, st, 0) IN [st |-> r.s, cx |-> cx, r |-> r.r]

(* the executor's own EXEC (simulator path, no wire) answers a failed WATCH with a nil bulk where the *)
(* connection writes a nil array: both are "nil" - accepted for executor-level cases only              *)
Lvl(c) == IF "level" \in DOMAIN c THEN c.level ELSE "connection"
ReplyOkL(lvl, exp, got) == ReplyOk(exp, got) \/ (lvl = "executor" /\ exp.t = "nullarray" /\ got.t = "nullbulk")
RECURSIVE TxnFoldL(_, _, _, _, _)
TxnFoldL(lvl, steps, i, st, cx) ==
  IF i > Len(steps) THEN [ok |-> "", s |-> st]
  ELSE LET s == steps[i] IN
       IF s.who = "B" THEN
            LET r == Do(s.c, st, 0) IN
            IF ~ReplyOk(r.r, s.r) THEN [ok |-> "client B: reply differs from the model", s |-> st]
            ELSE TxnFoldL(lvl, steps, i + 1, r.s, cx)
       ELSE LET x == StepA(st, cx, s.c) IN
            IF ~ReplyOkL(lvl, x.r, s.r) THEN
                 [ok |-> (IF s.c.op = "EXEC" THEN "EXEC result differs from running the queued commands in order (or from the abort rule)"
                          ELSE "transaction client: reply differs from the model"), s |-> st]
            ELSE TxnFoldL(lvl, steps, i + 1, x.st, x.cx)
RECURSIVE TxnFold(_, _, _, _)
TxnFold(steps, i, st, cx) ==   \* "" when every step matches, else a message
  IF i > Len(steps) THEN [ok |-> "", s |-> st]
  ELSE LET s == steps[i] IN
       IF s.who = "B" THEN
            LET r == Do(s.c, st, 0) IN
            IF ~ReplyOk(r.r, s.r) THEN [ok |-> "client B: reply differs from the model", s |-> st]
            ELSE TxnFold(steps, i + 1, r.s, cx)
       ELSE LET x == StepA(st, cx, s.c) IN
            IF ~ReplyOk(x.r, s.r) THEN
                 [ok |-> (IF s.c.op = "EXEC" THEN "EXEC result differs from running the queued commands in order (or from the abort rule)"
                          ELSE "transaction client: reply differs from the model"), s |-> st]
            ELSE TxnFold(steps, i + 1, x.st, x.cx)
TxnVerdict(c) ==
  IF "panic" \in DOMAIN c THEN "connection handler panicked"
  ELSE LET f == TxnFoldL(Lvl(c), c.steps, 1, Empty, Cx0) IN
       IF f.ok # "" THEN f.ok
       ELSE IF ~StateEq(f.s, JState(c.s)) THEN "keyspace after the script differs from the model (an aborted or discarded transaction left effects, or EXEC did not apply everything)"
       ELSE "ok"

(* WATCH at its edges (Connection.tla's value-based rule, instantiated): the watched key's visible value at  *)
(* EXEC differs from the one at WATCH - because somebody wrote it, or because its deadline passed in between  *)
(* - exactly when c.changed; then EXEC answers nil and applies nothing, otherwise it applies the whole body.  *)
(* The watched value may be too large to travel in the trace; only what the rule needs is recorded.           *)
WatchCaseVerdict(c) ==
  IF "panic" \in DOMAIN c THEN "connection handler panicked"
  ELSE LET nil == c.exec.t \in {"nullarray", "nullbulk"} IN
       IF c.changed /\ ~nil THEN "EXEC ran although the watched key's visible value had changed (it was written, or it expired) since WATCH"
       ELSE IF c.changed /\ c.applied THEN "an aborted EXEC left effects"
       ELSE IF ~c.changed /\ nil THEN "EXEC aborted although the watched key was unchanged since WATCH"
       ELSE IF ~c.changed /\ (c.exec.t # "array" \/ ~c.applied) THEN "EXEC of an unchanged watch did not apply its body"
       ELSE "ok"

Verdict(c) == IF c.t = "pipe" THEN PipeVerdict(c) ELSE IF c.t = "recover" THEN RecoverVerdict(c) ELSE IF c.t = "wcase" THEN WatchCaseVerdict(c) ELSE TxnVerdict(c)
TraceInit == l = 1
TraceNext ==
  \/ /\ l <= Len(Rec)
     /\ LET v == Verdict(Rec[l]) IN
          v # "ok" => PrintT(<<"VERDICT", ToJson([run |-> Rec[l].run, l |-> l,
                                               v |-> IF v = "finding:fast_path_stray_byte" THEN "fast_path_stray_byte" ELSE "bad", what |-> v])>>)
     /\ l' = l + 1
  \/ l = Len(Rec) + 1 /\ PrintT(<<"VALIDATED", Len(Rec)>>) /\ l' = l + 1
TraceSpec == TraceInit /\ [][TraceNext]_l
=============================================================================
