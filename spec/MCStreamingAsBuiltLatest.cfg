\* sequential flush / compaction, one fault anywhere, crash anywhere (invariants in every state)
SPECIFICATION Spec
CONSTANTS
  Deltas <- DeltasA
  MaxFaults = 0
  MaxSelect = 2
  GcBefore = 0
  Concurrent = FALSE
  WithCheckpoint = FALSE
  OrderedPush = FALSE
  AsBuilt = {"compact_latest_wins"}
INVARIANTS RecoveryStable
CHECK_DEADLOCK FALSE
