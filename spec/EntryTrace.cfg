SPECIFICATION TraceSpec
CONSTANT Leaves = {}
CHECK_DEADLOCK FALSE
