SPECIFICATION TraceSpec
CONSTANT ModelChecks = FALSE
CHECK_DEADLOCK FALSE
