SPECIFICATION TraceSpec
CONSTANTS
  ModelChecks = FALSE
  TolerateOps = {}
CHECK_DEADLOCK FALSE
