SPECIFICATION PSpec
CONSTANTS
  Writers = {1, 2, 3}
  Cap = 1
  MaxBatch = 2
  MaxFaults = 1
  AsBuilt = {"rotate_without_sync"}
  Policy = "everysec"
  TsOf <- TsDef
  Thresholds <- ThDef
INVARIANTS QuietIsDurable
CHECK_DEADLOCK FALSE
