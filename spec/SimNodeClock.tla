---------------------------- MODULE SimNodeClock ----------------------------
(* Scenario export for NodeClock: one witness step sequence per distinct state *)
(* in which the node is up and has written after its last recovery.            *)
EXTENDS NodeClock, Json
VARIABLE hist
H(ev) == hist' = Append(hist, ev)
HInit == Init /\ hist = <<>>
HNext ==
  \/ \E k \in Key, p \in {"seg", "wal"} : LocalWrite(k, p) /\ H([a |-> "write", k |-> k, place |-> p])
  \/ \E k \in Key, t \in 1..MaxT : Remote(k, t) /\ H([a |-> "remote", k |-> k, t |-> t])
  \/ Checkpoint /\ H([a |-> "checkpoint"])
  \/ Crash /\ H([a |-> "crash"])
  \/ Recover /\ H([a |-> "recover"])
HSpec == HInit /\ [][HNext]_<<vars, hist>>
View == vars
Export == (up /\ Len(hist) >= 3 /\ hist[Len(hist)].a = "write" /\ ncrash >= 1) => PrintT(<<"SCN", ToJson(hist)>>)
=============================================================================
