SPECIFICATION Spec
CONSTANTS
  MaxN = 4
  Rfs = {1, 2, 3, 4}
  VNs = {1, 2, 150}
INVARIANT Export
CHECK_DEADLOCK FALSE
