------------------------------ MODULE MCCrdt ------------------------------
(* Exhaustive model-checking instance of Crdt: laws over every reachable   *)
(* configuration of 3 replicas of one key within MaxSteps operations.      *)
EXTENDS Crdt
CONSTANT MaxSteps
Bound == steps <= MaxSteps
StepBound == steps < MaxSteps
=============================================================================
