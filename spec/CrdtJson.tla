------------------------------ MODULE CrdtJson ------------------------------
(* JSON projections written by the harness (crdt::obs) <-> CrdtOps values.  *)
EXTENDS CrdtOps

Range(s) == {s[i] : i \in DOMAIN s}

(* JSON observation -> the shape of Obs(). *)
JCrdt(c) ==
  CASE c.k = "lww"       -> [k |-> "lww", l |-> c.l]
    [] c.k = "hash"      -> [k |-> "hash", h |-> Range(c.h)]
    [] c.k = "gcounter"  -> [k |-> "gcounter", c |-> Range(c.c)]
    [] c.k = "pncounter" -> [k |-> "pncounter", p |-> Range(c.p), n |-> Range(c.n)]
    [] c.k = "gset"      -> [k |-> "gset", s |-> Range(c.s)]
    [] c.k = "orset"     -> [k |-> "orset", e |-> {<<p[1], Range(p[2])>> : p \in Range(c.e)}]
JObs(o) == [c |-> JCrdt(o.c), vc |-> Range(o.vc), hasvc |-> o.hasvc,
            exp |-> o.exp, ts |-> o.ts, rf |-> o.rf]

(* JSON observation -> a replicated value with that observation (registers and hashes). *)
JLww(l) == [v |-> l[1], has |-> l[2], tomb |-> l[3], ts |-> l[4]]
PairsToFun(ps) == [k \in {p[1] : p \in Range(ps)} |-> (CHOOSE p \in Range(ps) : p[1] = k)[2]]
JRv(o) ==
  RV(IF o.c.k = "lww" THEN CLww(JLww(o.c.l))
     ELSE CHash([f \in {p[1] : p \in Range(o.c.h)} |-> JLww((CHOOSE p \in Range(o.c.h) : p[1] = f)[2])]),
     PairsToFun(o.vc), o.hasvc, o.exp, o.ts, o.rf)
IsTomb(rv) == rv.c.k = "lww" /\ rv.c.l.tomb
=============================================================================
