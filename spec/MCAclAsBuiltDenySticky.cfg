SPECIFICATION Spec
CONSTANTS
  Cmd = {"GET", "SET", "SADD", "FLUSHALL"}
  Cats = {"read", "write", "set", "dangerous"}
  Pw = {"p1", "p2"}
  Pat = {"user:*", "k"}
  MaxRules = 4
  AsBuilt = {"deny_sticky"}
  CatOf <- MCCatOf
  PatMatches <- MCMatches
INVARIANTS LastRuleWins OffNeverAuth PassOrNopass WrongPassword ResetIsFresh
CHECK_DEADLOCK FALSE
