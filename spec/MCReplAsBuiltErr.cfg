SPECIFICATION Spec
CONSTANTS
  Node = {1, 2}
  Val = {"1"}
  Field = {"f", "g"}
  MaxCmds = 2
  MaxDup = 1
  MaxAE = 1
  CmdKinds = {"set", "hset"}
  AsBuilt = {"error_recorded"}
INVARIANTS ServedIsState
CHECK_DEADLOCK FALSE
