SPECIFICATION WSpec
CONSTANTS
  NKeys = 4
  Limit = 2
  MaxWrites = 4
  AsBuilt = {}
VIEW View
INVARIANT Export
CHECK_DEADLOCK FALSE
