SPECIFICATION Spec
CONSTANTS
  Frames <- FrameSet
  MaxLen = 4
  Threshold = 2
  MinBuf = 1
  AsBuilt = {}
INVARIANTS OneReplyEachInOrder
CHECK_DEADLOCK FALSE
