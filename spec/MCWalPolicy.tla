---------------------------- MODULE MCWalPolicy ----------------------------
EXTENDS WalPolicy
TsDef == (1 :> 2) @@ (2 :> 1) @@ (3 :> 3)      \* not monotone: the newest stamp of a file need not be its last entry
ThDef == {1, 2}
=============================================================================
