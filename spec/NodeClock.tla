----------------------------- MODULE NodeClock -----------------------------
(***************************************************************************)
(* One node's Lamport clock across local writes, remote deltas, crash and  *)
(* recovery (C08).  The node (replica id Me) holds per key the stamp of    *)
(* its current value; `disk' is what was persisted: every acknowledged     *)
(* local write as a delta in a segment or the WAL, and checkpoints of the  *)
(* whole state (which also capture values received from peers).  A crash   *)
(* wipes memory and the clock; recovery re-applies checkpoint values       *)
(* (ApplyRecoveredState) and deltas (apply_remote_delta).                  *)
(*                                                                         *)
(*   StampAboveSeen   every stamp issued for key k is greater than every   *)
(*                    stamp the running node has observed for k (written,  *)
(*                    received, or recovered)                              *)
(*   NeverRepeats     no stamp is issued twice, also across restarts       *)
(*   NewestWins       a peer that merges everything holds, for each key,   *)
(*                    the value of the last acknowledged write unless a    *)
(*                    remote write with a greater stamp exists             *)
(* As built ("recovered_state_no_clock"): checkpoint values did not move   *)
(* the clock.                                                              *)
(***************************************************************************)
EXTENDS Naturals, Sequences, FiniteSets, TLC

CONSTANTS Key, MaxT, MaxWrites, MaxCrash, MaxRemote, AsBuilt
Me == 1
Peer == 2
Dev(d) == d \in AsBuilt

SLess(a, b) == a[1] < b[1] \/ (a[1] = b[1] /\ a[2] < b[2])
SMax(a, b) == IF SLess(a, b) THEN b ELSE a
MaxN(a, b) == IF a < b THEN b ELSE a
Zero == <<0, 0>>

VARIABLES up, clock,
          mem,      \* key -> stamp of the value held (Zero = none)
          seen,     \* key -> greatest stamp observed by the running incarnation
          disk,     \* set of [k, st, place]  place in {"ckpt", "seg", "wal"}
          issued,   \* sequence of <<k, stamp>> issued by this node, in order (history)
          remote,   \* set of <<k, stamp>> written by the peer (history)
          bad,      \* a violated action property (history)
          ncrash

vars == <<up, clock, mem, seen, disk, issued, remote, bad, ncrash>>

Init == /\ up = TRUE /\ clock = 0
        /\ mem = [k \in Key |-> Zero] /\ seen = [k \in Key |-> Zero]
        /\ disk = {} /\ issued = <<>> /\ remote = {} /\ bad = "no" /\ ncrash = 0

Range(q) == {q[i] : i \in DOMAIN q}

(* (the code keeps one clock per shard; the model is one shard.  A trace names the stamp *)
(*  that was issued, the model derives it from the clock)                               *)
LocalWriteWith(k, place, st) ==
  /\ up /\ Len(issued) < MaxWrites
  /\ LET dummy == 0 IN
       /\ clock' = st[1]
       /\ mem' = [mem EXCEPT ![k] = st]                 \* record_write replaces the value
       /\ seen' = [seen EXCEPT ![k] = SMax(@, st)]
       /\ issued' = Append(issued, <<k, st>>)
       /\ disk' = disk \cup {[k |-> k, st |-> st, place |-> place]}
       /\ bad' = IF bad # "no" THEN bad
                 ELSE IF ~SLess(seen[k], st) THEN "stamp not above a value the node has seen"
                 ELSE IF <<k, st>> \in Range(issued) THEN "stamp issued twice for the key"
                 ELSE "no"
  /\ UNCHANGED <<up, remote, ncrash>>

LocalWrite(k, place) == LocalWriteWith(k, place, <<clock + 1, Me>>)

RemoteAny(k, t) ==
  /\ up
  /\ LET st == <<t, Peer>> IN
       /\ clock' = MaxN(clock, t) + 1
       /\ mem' = [mem EXCEPT ![k] = SMax(@, st)]
       /\ seen' = [seen EXCEPT ![k] = SMax(@, st)]
       /\ remote' = remote \cup {<<k, st>>}
  /\ UNCHANGED <<up, disk, issued, bad, ncrash>>

Remote(k, t) == <<k, <<t, Peer>>>> \notin remote /\ Cardinality(remote) < MaxRemote /\ RemoteAny(k, t)

(* a checkpoint of the whole state; with trim the deltas it covers are dropped (segments and WAL files *)
(* older than a checkpoint are garbage), so that the checkpoint alone carries those stamps             *)
CheckpointWith(trim) ==
  /\ up
  /\ disk' = (IF trim THEN {} ELSE {d \in disk : d.place # "ckpt"})
             \cup {[k |-> k, st |-> mem[k], place |-> "ckpt"] : k \in {j \in Key : mem[j] # Zero}}
  /\ UNCHANGED <<up, clock, mem, seen, issued, remote, bad, ncrash>>
Checkpoint == \E trim \in BOOLEAN : CheckpointWith(trim)

Crash == /\ up /\ ncrash < MaxCrash /\ ncrash' = ncrash + 1 /\ up' = FALSE /\ clock' = 0
         /\ mem' = [k \in Key |-> Zero] /\ seen' = [k \in Key |-> Zero]
         /\ UNCHANGED <<disk, issued, remote, bad>>

MaxStampOf(S) == IF S = {} THEN Zero ELSE CHOOSE s \in S : \A u \in S : ~SLess(s, u)
Recover ==
  /\ ~up /\ up' = TRUE
  /\ LET got(k) == {d.st : d \in {e \in disk : e.k = k}}
         moves == {d.st[1] : d \in {e \in disk : e.place # "ckpt" \/ ~Dev("recovered_state_no_clock")}}
         top == IF moves = {} THEN 0 ELSE CHOOSE t \in moves : \A u \in moves : u <= t
     IN /\ mem' = [k \in Key |-> MaxStampOf(got(k))]
        /\ seen' = [k \in Key |-> MaxStampOf(got(k))]
        /\ clock' = IF moves = {} THEN 0 ELSE top + 1
  /\ UNCHANGED <<disk, issued, remote, bad, ncrash>>

Next ==
  \/ \E k \in Key, p \in {"seg", "wal"} : LocalWrite(k, p)
  \/ \E k \in Key, t \in 1..MaxT : Remote(k, t)
  \/ Checkpoint \/ Crash \/ Recover
Spec == Init /\ [][Next]_vars

---------------------------------------------------------------------------
StampAboveSeen == bad = "no"
NeverRepeats == \A i, j \in DOMAIN issued : (i < j /\ issued[i][1] = issued[j][1]) => SLess(issued[i][2], issued[j][2])
(* the peer merges every delta ever issued and its own writes: per key the greatest stamp wins *)
LastLocal(k) == LET I == {i \in DOMAIN issued : issued[i][1] = k} IN
                IF I = {} THEN Zero ELSE issued[CHOOSE i \in I : \A j \in I : j <= i][2]
PeerWinner(k) == MaxStampOf({issued[i][2] : i \in {j \in DOMAIN issued : issued[j][1] = k}}
                            \cup {r[2] : r \in {x \in remote : x[1] = k}} \cup {Zero})
NewestWins == \A k \in Key : LastLocal(k) # Zero =>
                \/ PeerWinner(k) = LastLocal(k)
                \/ PeerWinner(k)[2] = Peer      \* a remote write with a greater stamp
ClockDominates == up => \A k \in Key : mem[k][1] <= clock
=============================================================================
