------------------------------ MODULE LinTrace ------------------------------
(***************************************************************************)
(* History validation for C02.  A record is one concurrent history cut per *)
(* key (linearizability is compositional per object): the operations on    *)
(* that key with invocation / response tickets from one total order, the   *)
(* argument and the reply.  The sequential specification is the string /   *)
(* counter fragment of RedisKeyspace:                                      *)
(*    set v -> OK          get -> value | nil        del -> 0 | 1          *)
(*    getset v -> old | nil        incr d -> new number                    *)
(* The judge searches a total order of the operations that respects real   *)
(* time (an operation that returned before another was invoked comes       *)
(* first) and in which every reply is the one the sequential specification *)
(* gives - the silent step Lin(op) of ShardActors placed between inv and   *)
(* ret.  An abandoned call (opt) may take effect at any time after its     *)
(* invocation, or never.                                                   *)
(***************************************************************************)
EXTENDS Naturals, Integers, Sequences, FiniteSets, TLC, Json, IOUtils
Rec == ndJsonDeserialize(IOEnv.TRACE)
VARIABLES l

NilSt == [nil |-> TRUE, s |-> "", isnum |-> FALSE, n |-> 0]
SetSt(op) == [nil |-> FALSE, s |-> op.arg, isnum |-> op.num, n |-> op.argn]
ShowSt(st) == IF st.nil THEN "nil" ELSE st.s

(* state after op, and whether op's reply is the specified one in state st *)
After(op, st) ==
  CASE op.kind = "set" -> SetSt(op)
    [] op.kind = "getset" -> SetSt(op)
    [] op.kind = "del" -> NilSt
    [] op.kind = "incr" -> IF st.nil \/ st.isnum
                           THEN LET m == (IF st.nil THEN 0 ELSE st.n) + op.argn IN [nil |-> FALSE, s |-> ToString(m), isnum |-> TRUE, n |-> m]
                           ELSE st
    [] OTHER -> st
ReplyOk(op, st) ==
  op.opt \/
  CASE op.kind = "set" -> op.res = "OK"
    [] op.kind = "get" -> op.res = ShowSt(st)
    [] op.kind = "getset" -> op.res = ShowSt(st)
    [] op.kind = "del" -> op.res = "int" /\ op.resn = (IF st.nil THEN 0 ELSE 1)
    [] op.kind = "incr" -> IF st.nil \/ st.isnum THEN op.res = "int" /\ op.resn = (IF st.nil THEN 0 ELSE st.n) + op.argn
                           ELSE op.err
    [] OTHER -> FALSE

RECURSIVE Search(_, _, _)
Search(ops, done, st) ==
  LET rem == DOMAIN ops \ done IN
  IF \A i \in rem : ops[i].opt THEN TRUE
  ELSE \E i \in rem :
         /\ \A j \in rem : j # i => ~(ops[j].ret < ops[i].inv)      \* everything that returned before i was invoked is placed
         /\ ReplyOk(ops[i], st)
         /\ Search(ops, done \cup {i}, After(ops[i], st))
Linearizable(ops) == Search(ops, {}, NilSt)

Verdict(ev, k, what) == PrintT(<<"VERDICT", ToJson([run |-> ev.run, l |-> l, v |-> "bad", what |-> what, key |-> k])>>)
Judge(ev) ==
  LET bad == {i \in DOMAIN ev.keys : ~Linearizable(ev.keys[i].ops)} IN
  IF bad = {} THEN TRUE
  ELSE LET i == CHOOSE j \in bad : TRUE IN Verdict(ev, ev.keys[i].key, "the history of a key has no linearization (" \o ev.mode \o " schedule)")

TraceInit == l = 1
TraceNext ==
  \/ l <= Len(Rec) /\ Judge(Rec[l]) /\ l' = l + 1
  \/ l = Len(Rec) + 1 /\ PrintT(<<"VALIDATED", Len(Rec)>>) /\ l' = l + 1
TraceSpec == TraceInit /\ [][TraceNext]_l
=============================================================================
