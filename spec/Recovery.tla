------------------------------ MODULE Recovery ------------------------------
(***************************************************************************)
(* Recovery = merge of everything persisted (C11).                         *)
(* A layout places every update of a set U into a non-empty set of places: *)
(* the checkpoint (as merged state), segment 1, segment 2, the WAL.        *)
(* Recover(layout) follows RecoveryManager::recover_with_wal: checkpoint   *)
(* state, then the segments (ordered by their minimum stamp), then the WAL *)
(* entries; as built ("wal_highwater_filter") only WAL entries stamped at  *)
(* or above the greatest segment stamp were replayed.                      *)
(* Property: for every key the result equals the merge of all placed       *)
(* updates, whatever the layout, the order and the duplication; applying   *)
(* the recovery twice gives the same state.                                *)
(***************************************************************************)
EXTENDS CrdtOps, Naturals, Sequences, FiniteSets, TLC

CONSTANTS WalFilter,     \* TRUE = as built before the fix
          NU             \* number of updates used (<= 5)
Places == {"ckpt", "seg1", "seg2", "wal"}

HField(f, v, t, r) == RV(CHash([g \in {f} |-> LwwSet(v, Stamp(t, r))]), Empty, FALSE, -1, Stamp(t, r), 0)
Reg(v, t, r) == RV(CLww(LwwSet(v, Stamp(t, r))), Empty, FALSE, -1, Stamp(t, r), 0)
Tomb(t, r) == RV(CLww(LwwDel(Stamp(t, r))), Empty, FALSE, -1, Stamp(t, r), 0)

(* interleaved shard clocks, one remote stamp far ahead, a tie on time from two replicas *)
UAll == { [id |-> 1, k |-> "h", rv |-> HField("f1", "a", 1, 1)],
       [id |-> 2, k |-> "h", rv |-> HField("f2", "b", 1000, 2)],
       [id |-> 3, k |-> "s", rv |-> Reg("x", 5, 1)],
       [id |-> 4, k |-> "s", rv |-> Tomb(5, 3)],
       [id |-> 5, k |-> "h", rv |-> HField("f1", "c", 2, 3)] }
U == {u \in UAll : u.id <= NU}
Ids == {u.id : u \in U}
Upd(i) == CHOOSE u \in U : u.id = i
Keys == {u.k : u \in U}

VARIABLE place       \* id -> non-empty subset of Places
Init == place \in [Ids -> (SUBSET Places) \ {{}}]
Next == UNCHANGED place
Spec == Init /\ [][Next]_place

At(p) == {i \in Ids : p \in place[i]}
RECURSIVE FoldKey(_, _, _)
FoldKey(k, ids, acc) ==
  IF ids = {} THEN acc
  ELSE LET i == CHOOSE j \in ids : TRUE
           u == Upd(i)
       IN FoldKey(k, ids \ {i}, IF u.k # k THEN acc ELSE IF IsNone(acc) THEN u.rv ELSE Merge(acc, u.rv))
MaxT(ids) == IF ids = {} THEN 0 ELSE CHOOSE t \in {Upd(i).rv.ts[1] : i \in ids} : \A j \in ids : Upd(j).rv.ts[1] <= t
HighWater == IF WalFilter THEN MaxT(At("seg1") \cup At("seg2")) ELSE 0
WalReplayed == {i \in At("wal") : Upd(i).rv.ts[1] >= HighWater}

Recovered(k) == FoldKey(k, WalReplayed, FoldKey(k, At("seg2"), FoldKey(k, At("seg1"), FoldKey(k, At("ckpt"), None))))
(* a second recovery on top of the first *)
RecoveredTwice(k) == FoldKey(k, WalReplayed, FoldKey(k, At("seg1") \cup At("seg2"), Recovered(k)))
Expected(k) == FoldKey(k, Ids, None)

ObsN(v) == IF IsNone(v) THEN None ELSE Obs(v)
RecoveryIsMerge == \A k \in Keys : ObsN(Recovered(k)) = ObsN(Expected(k))
RecoveryIdempotent == \A k \in Keys : ObsN(RecoveredTwice(k)) = ObsN(Recovered(k))
=============================================================================
