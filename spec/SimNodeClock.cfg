SPECIFICATION HSpec
CONSTANTS
  Key = {"a", "b"}
  MaxT = 3
  MaxWrites = 2
  MaxCrash = 1
  MaxRemote = 1
  AsBuilt = {}
VIEW View
INVARIANT Export
CHECK_DEADLOCK FALSE
